package main

import (
	"math/big"
	"os"
)

// Unsigned interval analysis over terms. rng(t) = [lo, hi] is a sound
// over-approximation of the unsigned value of t under every assignment; it is
// used only to fold comparisons that hold for all values and to replace signed
// division of provably non-negative operands by the unsigned one. Nothing is
// ever concluded from it except term identities.

type ivl struct{ lo, hi *big.Int }

var noRange = os.Getenv("VERIF_NORANGE") != ""
var big0 = big.NewInt(0)
var big1 = big.NewInt(1)

func (ts *TermStore) full(w int) ivl { return ivl{big0, ts.mask(w)} }

func (ts *TermStore) rng(t *Term) ivl {
	if t.W == 0 {
		return ivl{big0, big1}
	}
	if noRange {
		return ts.full(t.W)
	}
	if ts.rngMemo == nil {
		ts.rngMemo = map[int]ivl{}
	}
	if r, ok := ts.rngMemo[t.id]; ok {
		return r
	}
	r := ts.rng1(t)
	ts.rngMemo[t.id] = r
	return r
}

func minB(a, b *big.Int) *big.Int {
	if a.Cmp(b) <= 0 {
		return a
	}
	return b
}
func maxB(a, b *big.Int) *big.Int {
	if a.Cmp(b) >= 0 {
		return a
	}
	return b
}

func (ts *TermStore) rng1(t *Term) ivl {
	m := ts.mask(t.W)
	switch t.op {
	case OpConst:
		return ivl{t.c, t.c}
	case OpZExt:
		return ts.rng(t.args[0])
	case OpIte:
		a, b := ts.rng(t.args[1]), ts.rng(t.args[2])
		return ivl{minB(a.lo, b.lo), maxB(a.hi, b.hi)}
	case OpAdd:
		a, b := ts.rng(t.args[0]), ts.rng(t.args[1])
		hi := new(big.Int).Add(a.hi, b.hi)
		if hi.Cmp(m) <= 0 {
			return ivl{new(big.Int).Add(a.lo, b.lo), hi}
		}
	case OpSub:
		a, b := ts.rng(t.args[0]), ts.rng(t.args[1])
		if a.lo.Cmp(b.hi) >= 0 {
			return ivl{new(big.Int).Sub(a.lo, b.hi), new(big.Int).Sub(a.hi, b.lo)}
		}
	case OpMul:
		a, b := ts.rng(t.args[0]), ts.rng(t.args[1])
		hi := new(big.Int).Mul(a.hi, b.hi)
		if hi.Cmp(m) <= 0 {
			return ivl{new(big.Int).Mul(a.lo, b.lo), hi}
		}
	case OpUDiv:
		a, b := ts.rng(t.args[0]), ts.rng(t.args[1])
		if b.lo.Sign() > 0 {
			return ivl{new(big.Int).Div(a.lo, b.hi), new(big.Int).Div(a.hi, b.lo)}
		}
	case OpURem:
		a, b := ts.rng(t.args[0]), ts.rng(t.args[1])
		if b.lo.Sign() > 0 {
			return ivl{big0, minB(a.hi, new(big.Int).Sub(b.hi, big1))}
		}
		return ivl{big0, a.hi}
	case OpSDiv, OpSRem:
		a, b := ts.rng(t.args[0]), ts.rng(t.args[1])
		if a.hi.BitLen() < t.W && b.hi.BitLen() < t.W && b.lo.Sign() > 0 {
			if t.op == OpSDiv {
				return ivl{new(big.Int).Div(a.lo, b.hi), new(big.Int).Div(a.hi, b.lo)}
			}
			return ivl{big0, minB(a.hi, new(big.Int).Sub(b.hi, big1))}
		}
	case OpLShr:
		if t.args[1].IsConst() && t.args[1].c.BitLen() <= 16 {
			a := ts.rng(t.args[0])
			k := uint(t.args[1].c.Uint64())
			return ivl{new(big.Int).Rsh(a.lo, k), new(big.Int).Rsh(a.hi, k)}
		}
		return ivl{big0, ts.rng(t.args[0]).hi}
	case OpShl:
		if t.args[1].IsConst() && t.args[1].c.BitLen() <= 16 {
			a := ts.rng(t.args[0])
			k := uint(t.args[1].c.Uint64())
			hi := new(big.Int).Lsh(a.hi, k)
			if hi.Cmp(m) <= 0 {
				return ivl{new(big.Int).Lsh(a.lo, k), hi}
			}
		}
	case OpBvAnd:
		a, b := ts.rng(t.args[0]), ts.rng(t.args[1])
		return ivl{big0, minB(a.hi, b.hi)}
	case OpBvOr, OpBvXor:
		a, b := ts.rng(t.args[0]), ts.rng(t.args[1])
		n := uint(maxB(a.hi, b.hi).BitLen())
		hi := new(big.Int).Sub(new(big.Int).Lsh(big1, n), big1)
		lo := big0
		if t.op == OpBvOr {
			lo = maxB(a.lo, b.lo)
		}
		return ivl{lo, hi}
	case OpExtract:
		a := ts.rng(t.args[0])
		if a.hi.BitLen() <= t.hi+1 {
			return ivl{new(big.Int).Rsh(a.lo, uint(t.lo)), new(big.Int).Rsh(a.hi, uint(t.lo))}
		}
		return ivl{big0, ts.mask(t.hi - t.lo + 1)}
	case OpConcat:
		a, b := ts.rng(t.args[0]), ts.rng(t.args[1])
		bw := uint(t.args[1].W)
		return ivl{new(big.Int).Add(new(big.Int).Lsh(a.lo, bw), b.lo), new(big.Int).Add(new(big.Int).Lsh(a.hi, bw), b.hi)}
	}
	return ts.full(t.W)
}

// nonNeg: the signed reading of t is provably >= 0
func (ts *TermStore) nonNeg(t *Term) bool { return ts.rng(t).hi.BitLen() < t.W }

// negative: the signed reading of t is provably < 0
func (ts *TermStore) negative(t *Term) bool { return ts.rng(t).lo.BitLen() >= t.W }

// cmpByRange returns 1 (true), 0 (false) or -1 (undecided) for an unsigned comparison
func (ts *TermStore) cmpByRange(op Op, a, b *Term) int {
	ra, rb := ts.rng(a), ts.rng(b)
	switch op {
	case OpULt:
		if ra.hi.Cmp(rb.lo) < 0 {
			return 1
		}
		if ra.lo.Cmp(rb.hi) >= 0 {
			return 0
		}
	case OpULe:
		if ra.hi.Cmp(rb.lo) <= 0 {
			return 1
		}
		if ra.lo.Cmp(rb.hi) > 0 {
			return 0
		}
	}
	return -1
}

func isPow2(c *big.Int) (int, bool) {
	if c.Sign() <= 0 {
		return 0, false
	}
	n := c.BitLen() - 1
	if new(big.Int).Lsh(big1, uint(n)).Cmp(c) == 0 {
		return n, true
	}
	return 0, false
}
