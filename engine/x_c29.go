package main

// If-conversion of side-effect-free triangles and diamonds (DESIGN.md B: needed
// by C29, where bech32Polymod conditionally xors five generator constants per
// input symbol: forking would give 2^5 paths per symbol).
//
//	if c { x = f(x) }            b -> T -> J, b -> J
//	if c { x = f() } else {...}  b -> T -> J, b -> E -> J
//
// When c is symbolic and T (and E) consist only of pure register computations
// ending in a jump to the common successor J, the blocks are executed
// speculatively and J's phis become ite(c, vT, vE).  Anything that would fork,
// panic or touch memory aborts the attempt and the ordinary branch is taken.
// Enabled only inside the functions listed in ifConvFns.

import (
	"go/token"
	"math"
	"strings"

	"golang.org/x/tools/go/ssa"
)

type specAbort struct{}

var ifConvFns = map[string]bool{
	"github.com/bytom/bytom/common/bech32.bech32Polymod": true,
}

func pureBlock(b *ssa.BasicBlock, from *ssa.BasicBlock) *ssa.BasicBlock {
	if len(b.Preds) != 1 || b.Preds[0] != from || len(b.Succs) != 1 {
		return nil
	}
	for i, instr := range b.Instrs {
		switch x := instr.(type) {
		case *ssa.BinOp:
			if x.Op == token.QUO || x.Op == token.REM {
				return nil
			}
		case *ssa.UnOp:
			if x.Op == token.ARROW {
				return nil
			}
		case *ssa.Convert, *ssa.ChangeType, *ssa.IndexAddr, *ssa.Index, *ssa.Field, *ssa.FieldAddr, *ssa.DebugRef:
		case *ssa.Jump:
			if i != len(b.Instrs)-1 {
				return nil
			}
		default:
			return nil
		}
	}
	return b.Succs[0]
}

func (in *Interp) speculate(fr *Frame, b *ssa.BasicBlock) (ok bool) {
	in.spec = true
	defer func() {
		in.spec = false
		if r := recover(); r != nil {
			ok = false
		}
	}()
	for _, instr := range b.Instrs {
		if _, j := instr.(*ssa.Jump); j {
			break
		}
		in.exec(fr, instr)
	}
	return true
}

// tryIfConvert returns the join block when the If ending b was merged.
func (in *Interp) tryIfConvert(fr *Frame, b *ssa.BasicBlock, c *Term) *ssa.BasicBlock {
	if in.spec || in.concrete != nil || !ifConvFns[fr.fn.String()] {
		return nil
	}
	t, e := b.Succs[0], b.Succs[1]
	var join, predT, predE *ssa.BasicBlock
	jt, je := pureBlock(t, b), pureBlock(e, b)
	switch {
	case jt != nil && jt == e: // triangle, then-side
		join, predT, predE = e, t, b
	case je != nil && je == t: // triangle, else-side
		join, predT, predE = t, b, e
	case jt != nil && jt == je: // diamond
		join, predT, predE = jt, t, e
	default:
		return nil
	}
	if predT != b && !in.speculate(fr, predT) {
		return nil
	}
	if predE != b && !in.speculate(fr, predE) {
		return nil
	}
	it, ie := -1, -1
	for i, p := range join.Preds {
		if p == predT {
			it = i
		}
		if p == predE {
			ie = i
		}
	}
	if it < 0 || ie < 0 {
		return nil
	}
	var merged []Value
	for _, instr := range join.Instrs {
		phi, ok := instr.(*ssa.Phi)
		if !ok {
			break
		}
		vt, ve := in.get(fr, phi.Edges[it]), in.get(fr, phi.Edges[ie])
		tt, ok1 := vt.(*Term)
		te, ok2 := ve.(*Term)
		if !ok1 || !ok2 || tt.W != te.W {
			return nil
		}
		merged = append(merged, in.ts.Ite(c, tt, te))
	}
	if merged == nil {
		merged = []Value{}
	}
	fr.merged = merged
	return join
}

// ---------------------------------------------------------------------------
// string helpers of the standard library (environment of C29, not code under test)

func init() {
	intrinsics["(*strings.Builder).String"] = func(in *Interp, fn *ssa.Function, a []Value) Value {
		b := in.load(a[0].(*PtrV)).(*StructV)
		return &StrV{b: in.bytesOf(b.f[1].(*SliceV), "strings.Builder length")}
	}
	intrinsics["strings.ToLower"] = func(in *Interp, fn *ssa.Function, a []Value) Value { return asciiCase(in, a[0], 'A', 'Z', 32, "ToLower") }
	intrinsics["strings.ToUpper"] = func(in *Interp, fn *ssa.Function, a []Value) Value { return asciiCase(in, a[0], 'a', 'z', -32, "ToUpper") }
	intrinsics["strings.LastIndexByte"] = func(in *Interp, fn *ssa.Function, a []Value) Value {
		ts := in.ts
		x := in.byteSeq(a[0], "LastIndexByte")
		c := a[1].(*Term)
		r := ts.ConstI(64, -1)
		for i := 0; i < len(x); i++ {
			r = ts.Ite(ts.Eq(x[i], c), ts.ConstU(64, uint64(i)), r)
		}
		return r
	}
}

// asciiCase maps bytes in [lo,hi] by delta and keeps the others: exactly what
// strings.ToLower/ToUpper do on a string of ASCII bytes.  A string that may hold
// a byte >= 0x80 takes the unicode path of the real function, which is not modelled.
func asciiCase(in *Interp, v Value, lo, hi byte, delta int64, what string) Value {
	ts := in.ts
	s := v.(*StrV)
	if s.opaque {
		return &StrV{opaque: true, tag: what}
	}
	allConst := true
	raw := make([]byte, len(s.b))
	for i, c := range s.b {
		if !c.IsConst() {
			allConst = false
			break
		}
		raw[i] = byte(c.Uint64())
	}
	if allConst {
		if delta > 0 {
			return in.mkStr(strings.ToLower(string(raw)))
		}
		return in.mkStr(strings.ToUpper(string(raw)))
	}
	ascii := ts.True
	for _, c := range s.b {
		ascii = ts.And(ascii, ts.ULt(c, ts.ConstU(8, 0x80)))
	}
	if !in.branch(ascii) {
		panic(in.unsupported("strings." + what + " of a string with a possibly non-ASCII byte"))
	}
	out := make([]*Term, len(s.b))
	for i, c := range s.b {
		isC := ts.And(ts.ULe(ts.ConstU(8, uint64(lo)), c), ts.ULe(c, ts.ConstU(8, uint64(hi))))
		out[i] = ts.Ite(isC, ts.Add(c, ts.ConstI(8, delta)), c)
	}
	return &StrV{b: out}
}

// ---------------------------------------------------------------------------
// C35: floats are concrete in this engine; math.Exp (assembly / bit tricks) runs natively.

func init() {
	intrinsics["math.Exp"] = func(in *Interp, fn *ssa.Function, a []Value) Value {
		return in.fl(math.Exp(a[0].(FloatV).f), 64)
	}
}
