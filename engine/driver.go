package main

import (
	"fmt"
	"go/ast"
	"go/parser"
	"go/token"
	"math/big"
	"os"
	"path/filepath"
	"runtime"
	"sort"
	"strconv"
	"strings"
	"sync"
	"time"

	"golang.org/x/tools/go/packages"
	"golang.org/x/tools/go/ssa"
	"golang.org/x/tools/go/ssa/ssautil"
)

// VERIF_ROOT / VERIF_REPO let development copies (scratch worktrees) run the same
// engine; the registered checks always use /verif and /repo.
var repoRoot = envDef("VERIF_REPO", "/repo")
var verifRoot = envDef("VERIF_ROOT", "/verif")

type HarnessFile struct {
	Path     string // /verif/harness/<rel>
	Rel      string // <dir>/zz_verif_X.go relative to repo
	Dir      string // package dir relative to repo
	PkgName  string
	Src      []byte
	Funcs    map[string]int // harness function name -> number of int params
	Property []string
}

type Obligation struct {
	Property string
	Name     string // harness function
	Dir      string
	Args     []int64
	Mode     SMTMode
	Tier     string // "quick" (also run in thorough) or "thorough"
	File     *HarnessFile

	MaxLoops      int
	MaxSteps      int
	MaxSplit      int
	MaxAllocElems int
	MaxPaths      int
	MaxSeconds    int
	TimeoutMs     int
	PermuteMaps   bool
	Validate      int
	NoPanicCheck  bool // escaping panics are expected outcomes, not violations
	Solver        string
	PoolReuse     bool // pool=reuse: sync.Pool.Get returns the object Put last
	NoOverride    map[string]bool // override targets disabled for this obligation
	LazyMaps      bool // maps=lazy: map inserts with symbolic keys do not fork on key equality (x_c03.go)
	IdxIte        bool // read buffers at symbolic indices through ite chains instead of case-splitting the index
	Fn            *ssa.Function
}

func (o *Obligation) ID() string {
	s := o.Name
	for _, a := range o.Args {
		s += fmt.Sprintf("_%d", a)
	}
	return s
}

type Sample struct {
	Obligation string `json:"obligation"`
	Label      string `json:"assert"`
	Verdict    string `json:"verdict"`
	Solver     string `json:"solver"`
	Mode       string `json:"mode"`
	Ms         int64  `json:"ms"`
	Note       string `json:"note,omitempty"`
}

type ObResult struct {
	Ob            *Obligation
	Paths         int
	PathsDone     int
	Steps         int
	Asserts       int // assertion instances checked
	Discharged    int
	Trivial       int
	Inconclusive  []string
	UnwindHits    []string
	Unsupported   []string
	Violations    []*Violation
	KnownHits     map[string]*Violation
	Reached       map[string]bool
	FeasQueries   int
	CacheHits     int
	CrossDone     int
	hangTried     bool
	Cross         []Sample
	Disagree      []string
	BranchUnknown int
	Stats         SolverStats
	Wall          time.Duration
	Samples       []Sample
	PanicPaths    int
	PathModels    []map[string]*big.Int
	VarW          map[string]int
	Exhausted     bool // path/time budget hit
	Functions     map[string]bool
}

type World struct {
	prog      *ssa.Program
	pkgs      []*packages.Package
	files     []*HarnessFile
	overrides map[string]*ssa.Function
	ovByDir   map[string]map[string]*ssa.Function // overrides declared by the harness files of one directory
	icache    sync.Map
	ssaPkgs   map[string]*ssa.Package // by dir
	known     *KnownFindings
	loadTime  time.Duration
	varMu     sync.Mutex
	varWidths map[string]map[string]int
	funcIDs   map[*ssa.Function]int
}

type Session struct {
	w         *World
	ts        *TermStore
	byteConst [256]*Term
	strCache  map[string]*StrV
	overrides map[string]*ssa.Function

	// package initialisation is concrete, so its result is computed once per
	// session and shared by all paths (see value.go touchObj)
	assertMemo  map[[2]uint64]bool // (path-condition hash, assertion term) -> proved implied
	initCache   map[*ssa.Package][]globalBinding
	initDepth   int
	touched     map[*Object]bool
	touchedMaps map[*MapObj]bool
	undo        []func()
	modelPool   []*cachedModel
}

type globalBinding struct {
	g *ssa.Global
	o *Object
}

func (s *Session) intrinsic(fn *ssa.Function) intrinsicFn { return s.w.intrinsicFor(fn) }
func (s *Session) skipInit(p *ssa.Package) bool {
	path := p.Pkg.Path()
	return isNopPkg(path) || skipInitPkgs[path]
}

// isNopPkg: packages whose functions are replaced by "return zero values"
// (logging, protobuf registration/reflection: never the subject of a property)
func isNopPkg(path string) bool {
	if nopPackages[path] {
		return true
	}
	return strings.HasPrefix(path, "google.golang.org/protobuf") || strings.HasPrefix(path, "github.com/golang/protobuf")
}
func (s *Session) constStr(v string) *StrV {
	if x, ok := s.strCache[v]; ok {
		return x
	}
	b := make([]*Term, len(v))
	for i := 0; i < len(v); i++ {
		b[i] = s.byteConst[v[i]]
	}
	x := &StrV{b: b}
	s.strCache[v] = x
	return x
}

// packages whose init is not run (their globals stay zero; reading one that
// matters shows up as a translator-validation mismatch)
var skipInitPkgs = map[string]bool{
	"runtime": true, "os": true, "syscall": true, "reflect": true, "internal/reflectlite": true,
	"time": true, "unicode": true, "sync": true, "internal/poll": true, "fmt": true,
	"testing": true, "net": true, "crypto/rand": true, "math/rand": true, "internal/godebug": true,
	"internal/cpu": true, "golang.org/x/sys/cpu": true,
}

func (s *Session) applyNoOverride(ob *Obligation) {
	base := s.w.overrides
	if len(s.w.ovByDir) > 1 {
		base = s.w.ovByDir[ob.Dir]
		s.overrides = base
	}
	if len(ob.NoOverride) > 0 {
		s.overrides = map[string]*ssa.Function{}
		for t, f := range base {
			if !ob.NoOverride[f.Name()] {
				s.overrides[t] = f
			}
		}
	}
}

func NewSession(w *World) *Session {
	s := &Session{w: w, ts: NewTermStore(), strCache: map[string]*StrV{}, overrides: w.overrides,
		assertMemo: map[[2]uint64]bool{},
		initCache:  map[*ssa.Package][]globalBinding{}, touched: map[*Object]bool{}, touchedMaps: map[*MapObj]bool{}}
	for i := 0; i < 256; i++ {
		s.byteConst[i] = s.ts.ConstU(8, uint64(i))
	}
	return s
}

// ---------------------------------------------------------------------------
// harness discovery

func findHarnesses(property string) ([]*HarnessFile, error) {
	var out []*HarnessFile
	root := filepath.Join(verifRoot, "harness")
	err := filepath.Walk(root, func(p string, info os.FileInfo, err error) error {
		if err != nil || info.IsDir() || !strings.HasSuffix(p, ".go") {
			return err
		}
		src, err := os.ReadFile(p)
		if err != nil {
			return err
		}
		var props []string
		for _, l := range strings.Split(string(src), "\n") {
			if strings.HasPrefix(l, "//verif:property ") {
				props = append(props, strings.Fields(l)[1:]...)
			}
		}
		match := false
		for _, x := range props {
			if x == property {
				match = true
			}
		}
		if !match {
			return nil
		}
		rel, _ := filepath.Rel(root, p)
		hf := &HarnessFile{Path: p, Rel: rel, Dir: filepath.Dir(rel), Src: src, Funcs: map[string]int{}, Property: props}
		fset := token.NewFileSet()
		f, err := parser.ParseFile(fset, p, src, parser.ParseComments)
		if err != nil {
			return fmt.Errorf("parse %s: %v", p, err)
		}
		hf.PkgName = f.Name.Name
		for _, d := range f.Decls {
			if fd, ok := d.(*ast.FuncDecl); ok && fd.Recv == nil && strings.HasPrefix(fd.Name.Name, "Verif") {
				n := 0
				for _, fl := range fd.Type.Params.List {
					k := len(fl.Names)
					if k == 0 {
						k = 1
					}
					n += k
				}
				hf.Funcs[fd.Name.Name] = n
			}
		}
		out = append(out, hf)
		return nil
	})
	return out, err
}

func parseKV(fields []string) map[string]string {
	m := map[string]string{}
	for _, f := range fields {
		if i := strings.Index(f, "="); i > 0 {
			m[f[:i]] = f[i+1:]
		} else {
			m[f] = "true"
		}
	}
	return m
}

func atoiDef(s string, d int) int {
	if s == "" {
		return d
	}
	n, err := strconv.Atoi(s)
	if err != nil {
		return d
	}
	return n
}

// obligations are declared in harness files:
//verif:obligation fn=VerifX mode=bv|int tier=quick|thorough args=1,2;3,4 loops=N steps=N split=N paths=N secs=N permute validate=N
func obligationsOf(hf *HarnessFile, property string) []*Obligation {
	var out []*Obligation
	cur := ""
	for _, l := range strings.Split(string(hf.Src), "\n") {
		if strings.HasPrefix(l, "//verif:property ") {
			cur = strings.Fields(l)[1]
			continue
		}
		if !strings.HasPrefix(l, "//verif:obligation ") {
			continue
		}
		kv := parseKV(strings.Fields(l)[1:])
		prop := cur
		if p, ok := kv["property"]; ok {
			prop = p
		}
		if prop != property {
			continue
		}
		base := Obligation{
			Property: prop, Name: kv["fn"], Dir: hf.Dir, File: hf,
			Tier:          kv["tier"],
			MaxLoops:      atoiDef(kv["loops"], 4096),
			MaxSteps:      atoiDef(kv["steps"], 20000000),
			MaxSplit:      atoiDef(kv["split"], 80),
			MaxAllocElems: atoiDef(kv["maxalloc"], 1<<16),
			MaxPaths:      atoiDef(kv["paths"], 200000),
			MaxSeconds:    atoiDef(kv["secs"], 600),
			TimeoutMs:     atoiDef(kv["timeout"], 20000),
			Validate:      atoiDef(kv["validate"], 0),
			PermuteMaps:   kv["permute"] == "true",
			NoPanicCheck:  kv["nopanic"] == "off",
			IdxIte:        kv["idx"] == "ite",
			LazyMaps:      kv["maps"] == "lazy",
			Solver:        kv["solver"],
			PoolReuse:     kv["pool"] == "reuse",
		}
		if v := kv["nooverride"]; v != "" {
			base.NoOverride = map[string]bool{}
			for _, x := range strings.Split(v, ",") {
				base.NoOverride[x] = true
			}
		}
		if base.Solver == "" {
			base.Solver = "z3-new"
		}
		if base.Tier == "" {
			base.Tier = "quick"
		}
		if kv["mode"] == "int" {
			base.Mode = ModeInt
		}
		argSets := []string{""}
		if a, ok := kv["args"]; ok {
			argSets = strings.Split(a, ";")
		}
		for _, as := range argSets {
			o := base
			if as != "" {
				for _, x := range strings.Split(as, ",") {
					n, _ := strconv.ParseInt(x, 10, 64)
					o.Args = append(o.Args, n)
				}
			}
			oc := o
			out = append(out, &oc)
		}
	}
	return out
}

const declTemplate = `package %s

func verifU8(name string) uint8
func verifU16(name string) uint16
func verifU32(name string) uint32
func verifU64(name string) uint64
func verifI8(name string) int8
func verifI32(name string) int32
func verifI64(name string) int64
func verifInt(name string) int
func verifBool(name string) bool
func verifBytes(name string, max int) []byte
func verifBytesN(name string, n int) []byte
func verifChoice(name string, n int) int
func verifAssume(c bool)
func verifAssert(c bool, label string)
func verifReach(label string)
func verifKnown(id string, c bool)
func verifAllocBytes() uint64
func verifObserveU64(name string, v uint64)
func verifObserveI64(name string, v int64)
func verifObserveBool(name string, v bool)
func verifObserveBytes(name string, v []byte)
func verifHash(kind string, data []byte, n int) []byte
`

func loadWorld(files []*HarnessFile) (*World, error) {
	t0 := time.Now()
	overlay := map[string][]byte{}
	dirs := map[string]string{}
	for _, hf := range files {
		overlay[filepath.Join(repoRoot, hf.Rel)] = hf.Src
		dirs[hf.Dir] = hf.PkgName
	}
	var patterns []string
	for d, pn := range dirs {
		overlay[filepath.Join(repoRoot, d, "zz_verif_decl.go")] = []byte(fmt.Sprintf(declTemplate, pn))
		patterns = append(patterns, "./"+d)
	}
	sort.Strings(patterns)
	cfg := &packages.Config{
		Mode:    packages.LoadAllSyntax,
		Dir:     repoRoot,
		Overlay: overlay,
		Env:     append(os.Environ(), "GOFLAGS=-mod=mod", "GOPROXY=off", "GOSUMDB=off", "GOTOOLCHAIN=local"),
	}
	pkgs, err := packages.Load(cfg, patterns...)
	if err != nil {
		return nil, err
	}
	var errs []string
	packages.Visit(pkgs, nil, func(p *packages.Package) {
		for _, e := range p.Errors {
			// body-less declarations are expected
			if strings.Contains(e.Msg, "missing function body") {
				continue
			}
			errs = append(errs, e.Error())
		}
	})
	if len(errs) > 0 {
		if len(errs) > 10 {
			errs = errs[:10]
		}
		return nil, fmt.Errorf("load errors:\n%s", strings.Join(errs, "\n"))
	}
	prog, _ := ssautil.AllPackages(pkgs, ssa.InstantiateGenerics)
	prog.Build()
	w := &World{prog: prog, pkgs: pkgs, files: files, overrides: map[string]*ssa.Function{}, ssaPkgs: map[string]*ssa.Package{}}
	for _, p := range pkgs {
		sp := prog.Package(p.Types)
		for d := range dirs {
			if strings.HasSuffix(p.PkgPath, "/"+d) || p.PkgPath == d {
				w.ssaPkgs[d] = sp
			}
		}
	}
	// overrides
	for _, hf := range files {
		sp := w.ssaPkgs[hf.Dir]
		for _, l := range strings.Split(string(hf.Src), "\n") {
			if !strings.HasPrefix(l, "//verif:override ") {
				continue
			}
			parts := strings.Split(strings.TrimPrefix(l, "//verif:override "), "->")
			if len(parts) != 2 {
				return nil, fmt.Errorf("bad override line %q", l)
			}
			target := strings.TrimSpace(parts[0])
			stub := strings.TrimSpace(parts[1])
			f := sp.Func(stub)
			if f == nil {
				return nil, fmt.Errorf("override stub %s not found in %s", stub, hf.Dir)
			}
			w.overrides[target] = f
			// the same target may be overridden by the harness files of several
			// packages (each with its own stub and its own state): an obligation
			// uses the overrides declared in its own directory
			if w.ovByDir == nil {
				w.ovByDir = map[string]map[string]*ssa.Function{}
			}
			if w.ovByDir[hf.Dir] == nil {
				w.ovByDir[hf.Dir] = map[string]*ssa.Function{}
			}
			w.ovByDir[hf.Dir][target] = f
		}
	}
	w.loadTime = time.Since(t0)
	return w, nil
}

// ---------------------------------------------------------------------------
// running one obligation

func (s *Session) newInterp(ob *Obligation, r *ObResult, sol *Solver, decisions []decision) *Interp {
	in := &Interp{
		sess: s, prog: s.w.prog, ts: s.ts, sol: sol,
		decisions: decisions,
		globals:   map[*ssa.Global]*Object{},
		initDone:  map[*ssa.Package]bool{},
		nondetN:   map[string]int{},
		varSeen:   map[string]bool{},
		reached:   map[string]bool{},
		hashApps:  map[string][]*hashApp{},
		fixed:     map[int]*Term{},
		pcSet:     map[int]bool{},
		ob:        ob, r: r,
	}
	in.allocated = s.ts.ConstU(64, 0)
	in.seedInitHashApps() // x_c03.go
	if os.Getenv("VERIF_NOMODELCACHE") == "" {
		in.models = append(in.models, s.modelPool...)
	}
	return in
}

type engineCrash struct{ msg string }

// runPath executes the harness once along the current decision prefix.
func (in *Interp) runPath() (end pathEnd, gp *goPanic) {
	defer func() {
		if r := recover(); r != nil {
			switch x := r.(type) {
			case pathEnd:
				end = x
			case *goPanic:
				gp = x
				end = pathEnd{"panic", x.msg}
			default:
				if _, ok := r.(engineCrash); ok {
					panic(r)
				}
				buf := make([]byte, 6000)
				n := runtime.Stack(buf, false)
				panic(engineCrash{fmt.Sprintf("%v\ninterpreted stack:%s\nhost stack:\n%s", r, in.unsupported("").msg, buf[:n])})
			}
		}
	}()
	args := make([]Value, len(in.ob.Args))
	for i, a := range in.ob.Args {
		args[i] = in.ts.ConstI(64, a)
	}
	in.callFn(in.ob.Fn, args, nil)
	return pathEnd{"done", ""}, nil
}

func (w *World) runObligation(ob *Obligation, debug bool) *ObResult {
	r := &ObResult{Ob: ob, KnownHits: map[string]*Violation{}, Reached: map[string]bool{}, Functions: map[string]bool{}, VarW: map[string]int{}}
	t0 := time.Now()
	defer func() {
		w.varMu.Lock()
		if w.varWidths == nil {
			w.varWidths = map[string]map[string]int{}
		}
		w.varWidths[ob.ID()] = r.VarW
		w.varMu.Unlock()
	}()
	sp := w.ssaPkgs[ob.Dir]
	if sp == nil {
		r.Unsupported = append(r.Unsupported, "package not loaded: "+ob.Dir)
		return r
	}
	ob.Fn = sp.Func(ob.Name)
	if ob.Fn == nil {
		r.Unsupported = append(r.Unsupported, "harness function not found: "+ob.Name)
		return r
	}
	s := NewSession(w)
	s.applyNoOverride(ob)
	sol, err := NewSolver(s.ts, envDef("VERIF_SOLVER", ob.Solver), ob.Mode, ob.TimeoutMs)
	if err != nil {
		r.Unsupported = append(r.Unsupported, "solver: "+err.Error())
		return r
	}
	defer sol.Close()
	if debug {
		lf, _ := os.Create(fmt.Sprintf("/tmp/gosmt_%s.smt2", ob.ID()))
		sol.log = lf
		defer lf.Close()
	}
	var decisions []decision
	if v := os.Getenv("VERIF_SECS"); v != "" {
		ob.MaxSeconds = atoiDef(v, ob.MaxSeconds)
	}
	deadline := t0.Add(time.Duration(ob.MaxSeconds) * time.Second)
	for {
		in := s.newInterp(ob, r, sol, decisions)
		end, gp := in.runPath()
		s.endPath()
		r.Paths++
		r.Steps += in.steps
		for k := range in.reached {
			if !strings.HasPrefix(k, "once:") {
				r.Reached[k] = true
			}
		}
		if debug {
			fmt.Fprintf(os.Stderr, "[%s] path %d: %s %s (steps %d, decisions %d, queries %d, models %d)\n", ob.ID(), r.Paths, end.kind, end.msg, in.steps, len(in.decisions), sol.Stats.Queries, len(in.models))
		}
		switch end.kind {
		case "done":
			r.PathsDone++
			// keep solver models of completed paths as validation vectors
			if ob.Validate > 0 && len(r.PathModels) < 4*ob.Validate && len(in.vars) > 0 {
				if sol.Check(in.pc, nil) == Sat {
					r.PathModels = append(r.PathModels, sol.Model(in.vars))
				}
			}
		case "panic":
			r.PanicPaths++
			if !ob.NoPanicCheck {
				in.reportPanic(gp)
			} else {
				r.PathsDone++
			}
		case "infeasible", "assume":
			r.PathsDone++
		case "unwind":
			r.UnwindHits = appendCapped(r.UnwindHits, end.msg)
			// termination is part of several properties: the first loop-budget hit of an
			// obligation is handed to the native replay under a wall-clock limit; only a
			// native hang is ever reported
			if strings.HasPrefix(end.msg, "loop budget") && !r.hangTried && in.concrete == nil {
				r.hangTried = true
				if sol.Check(in.pc, nil) == Sat {
					in.addViolation(&Violation{Label: "terminates", Kind: "hang", Site: in.site(), Msg: end.msg, Model: in.model(), Path: r.Paths})
				}
			}
		case "unsupported":
			r.Unsupported = appendCapped(r.Unsupported, end.msg)
		default: // budget, unknown
			r.Inconclusive = appendCapped(r.Inconclusive, end.kind+": "+end.msg)
		}
		decisions = in.decisions
		for len(decisions) > 0 {
			d := &decisions[len(decisions)-1]
			if d.cur+1 < len(d.alts) {
				d.cur++
				break
			}
			decisions = decisions[:len(decisions)-1]
		}
		if len(decisions) == 0 {
			break
		}
		if r.Paths >= ob.MaxPaths || time.Now().After(deadline) {
			r.Exhausted = true
			r.Inconclusive = appendCapped(r.Inconclusive, fmt.Sprintf("exploration budget hit after %d paths", r.Paths))
			break
		}
	}
	r.Stats = sol.Stats
	r.Wall = time.Since(t0)
	return r
}

func appendCapped(l []string, s string) []string {
	for _, x := range l {
		if x == s {
			return l
		}
	}
	if len(l) < 20 {
		l = append(l, s)
	}
	return l
}

// ---------------------------------------------------------------------------
// assertions, panics, known findings

func (in *Interp) activeRegions(label string) (*Term, []knownRegion) {
	any := in.ts.False
	var act []knownRegion
	for _, k := range in.known {
		if in.sess.w.known.active(k.id, in.ob.Property, label) {
			act = append(act, k)
			any = in.ts.Or(any, k.cond)
		}
	}
	return any, act
}

func (in *Interp) model() map[string]*big.Int {
	return in.sol.Model(in.vars)
}

func (in *Interp) addViolation(v *Violation) {
	n := 0
	for _, x := range in.r.Violations {
		if x.Label == v.Label {
			n++
		}
	}
	if n < 3 {
		in.r.Violations = append(in.r.Violations, v)
	}
}

func (in *Interp) checkAssert(c *Term, label string) {
	r := in.r
	if in.dpos < len(in.decisions) && in.concrete == nil {
		// replayed prefix: this assertion instance was decided, under the identical path
		// condition, by the path that first went through here
		if c.IsFalse() {
			panic(pathEnd{"done", "assertion cannot hold on this path"})
		}
		if in.sess.assertMemo[[2]uint64{in.pcHash, uint64(c.id)}] {
			in.note(c) // was proved implied by the path condition
		} else {
			in.assume(c)
		}
		return
	}
	r.Asserts++
	if c.IsTrue() {
		r.Discharged++
		r.Trivial++
		return
	}
	if in.concrete != nil {
		if c.IsFalse() {
			in.observe("assert-failed", label)
			panic(pathEnd{"done", "assert failed (concrete)"})
		}
		panic(pathEnd{"unsupported", "symbolic assert in concrete mode"})
	}
	neg := in.ts.Not(c)
	anyKnown, regions := in.activeRegions(label)
	t0 := time.Now()
	res := in.sol.Check(in.pc, in.ts.And(neg, in.ts.Not(anyKnown)))
	ms := time.Since(t0).Milliseconds()
	verdict := res.String()
	switch res {
	case Unsat:
		r.Discharged++
		in.crossCheck(neg, anyKnown, label)
	case Sat:
		m := in.model()
		in.addViolation(&Violation{Label: label, Kind: "assert", Site: in.site(), Model: m, Path: r.Paths})
	default:
		r.Inconclusive = appendCapped(r.Inconclusive, "solver unknown on assert "+label)
		if d := os.Getenv("VERIF_DUMP"); d != "" {
			all := append(append([]*Term{}, in.pc...), in.ts.And(neg, in.ts.Not(anyKnown)))
			if txt, err := Standalone(in.ts, in.ob.Mode, all); err == nil {
				os.WriteFile(fmt.Sprintf("%s/unknown_%s_%s_%d.smt2", d, in.ob.ID(), sanitize(label), r.Asserts), []byte(txt), 0644)
			}
		}
	}
	if len(r.Samples) < 12 || (res != Unsat && len(r.Samples) < 24) {
		r.Samples = append(r.Samples, Sample{Obligation: in.ob.ID(), Label: label, Verdict: verdict, Solver: in.sol.name, Mode: in.ob.Mode.String(), Ms: ms})
	}
	for _, k := range regions {
		if _, seen := r.KnownHits[k.id]; seen {
			continue
		}
		if in.sol.Check(in.pc, in.ts.And(neg, k.cond)) == Sat {
			r.KnownHits[k.id] = &Violation{Label: label, Kind: "assert", Site: in.site(), Model: in.model(), KnownID: k.id}
		}
	}
	// continue under the assertion
	if res == Unsat && anyKnown.IsFalse() {
		in.sess.assertMemo[[2]uint64{in.pcHash, uint64(c.id)}] = true
		in.note(c)
		return
	}
	if c.IsFalse() || in.feasible(c) == Unsat {
		panic(pathEnd{"done", "assertion cannot hold on this path"})
	}
	in.assume(c)
}

// crossCheck re-decides a sample of discharged obligations with the other
// installed solvers (one-shot, self-contained script). A solver that answers
// sat where the primary said unsat is an engine/solver disagreement: the check
// reports ENGINE-ERROR instead of a verdict.
var crossSolvers = func() []string {
	v := os.Getenv("VERIF_CROSS")
	if v == "" || v == "0" {
		return nil
	}
	if v == "1" {
		return []string{"z3", "cvc5"}
	}
	return strings.Split(v, ",")
}()

func (in *Interp) crossCheck(neg, anyKnown *Term, label string) {
	r := in.r
	if len(crossSolvers) == 0 || r.CrossDone >= 12 {
		return
	}
	// the first few and then every 40th discharged obligation
	if r.Discharged > 4 && r.Discharged%40 != 0 {
		return
	}
	all := append(append([]*Term{}, in.pc...), in.ts.And(neg, in.ts.Not(anyKnown)))
	txt, err := Standalone(in.ts, in.ob.Mode, all)
	if err != nil {
		return
	}
	r.CrossDone++
	for _, sv := range crossSolvers {
		if sv == in.sol.name {
			continue
		}
		res, d := RunStandalone(sv, txt, 20000)
		r.Cross = append(r.Cross, Sample{Obligation: in.ob.ID(), Label: label, Verdict: res.String(), Solver: sv, Mode: in.ob.Mode.String(), Ms: d.Milliseconds(), Note: "cross-check of an obligation " + in.sol.name + " discharged"})
		if res == Sat {
			r.Disagree = append(r.Disagree, fmt.Sprintf("%s: %s says sat where %s said unsat (assert %s)", in.ob.ID(), sv, in.sol.name, label))
		}
	}
}

func (in *Interp) reportPanic(gp *goPanic) {
	r := in.r
	label := "panic"
	r.Asserts++
	if in.concrete != nil {
		in.observe("panic", gp.class)
		return
	}
	anyKnown, regions := in.activeRegions(label)
	res := in.sol.Check(in.pc, in.ts.Not(anyKnown))
	switch res {
	case Sat:
		in.addViolation(&Violation{Label: label, Kind: "panic", Site: gp.site, Msg: gp.msg, Model: in.model(), Path: r.Paths})
	case Unknown:
		r.Inconclusive = appendCapped(r.Inconclusive, "solver unknown on panic path "+gp.site)
	case Unsat:
		r.Discharged++
	}
	for _, k := range regions {
		if _, seen := r.KnownHits[k.id]; seen {
			continue
		}
		if in.sol.Check(in.pc, k.cond) == Sat {
			r.KnownHits[k.id] = &Violation{Label: label, Kind: "panic", Site: gp.site, Msg: gp.msg, Model: in.model(), KnownID: k.id}
		}
	}
}

func (in *Interp) reportAlloc(msg string) {
	r := in.r
	label := "alloc-bound"
	r.Asserts++
	if in.concrete != nil {
		in.observe("huge-alloc", msg)
		return
	}
	anyKnown, regions := in.activeRegions(label)
	res := in.sol.Check(in.pc, in.ts.Not(anyKnown))
	switch res {
	case Sat:
		in.addViolation(&Violation{Label: label, Kind: "alloc", Site: in.site(), Msg: msg, Model: in.model(), Path: r.Paths})
	case Unknown:
		r.Inconclusive = appendCapped(r.Inconclusive, "solver unknown on alloc path")
	case Unsat:
		r.Discharged++
	}
	for _, k := range regions {
		if _, seen := r.KnownHits[k.id]; seen {
			continue
		}
		if in.sol.Check(in.pc, k.cond) == Sat {
			r.KnownHits[k.id] = &Violation{Label: label, Kind: "alloc", Site: in.site(), Msg: msg, Model: in.model(), KnownID: k.id}
		}
	}
}
