package main

// Intrinsics added for the C02 harnesses (standard programs need a matching
// witness):
//
//   * crypto/ed25519.NewKeyFromSeed / Sign: uninterpreted functions
//     pub(seed) and sig(priv,msg), tied to the uninterpreted predicate
//     ed25519.Verify by the one axiom a signature scheme guarantees:
//         priv[32:] == pub(priv[:32])  =>  Verify(pub, msg, Sign(priv,msg))
//     In concrete mode (translator validation) the real functions run, as
//     they do in the native replay.
//   * crypto/ed25519.Verify in concrete mode: the real function (symbolic
//     mode keeps the uninterpreted predicate of crypto.go).
//   * verifC02And / verifC02Or: the harness' own `a && b` / `a || b` helpers
//     evaluated as one term instead of a fork (same value as their Go body).

import (
	"crypto/ed25519"

	"golang.org/x/tools/go/ssa"
)

func c02ConstBytes(in *Interp, v Value, what string) ([]byte, bool) {
	var ts []*Term
	switch x := v.(type) {
	case *SliceV:
		ts = in.bytesOf(x, what)
	case *StrV:
		ts = x.b
	default:
		return nil, false
	}
	out := make([]byte, len(ts))
	for i, t := range ts {
		if !t.IsConst() {
			return nil, false
		}
		out[i] = byte(t.Uint64())
	}
	return out, true
}

func c02ConstSlice(in *Interp, b []byte, label string) *SliceV {
	ts := make([]*Term, len(b))
	for i, x := range b {
		ts[i] = in.ts.ConstU(8, uint64(x))
	}
	return in.newByteSlice(ts, label)
}

func init() {
	symVerify := cryptoIntrinsics["crypto/ed25519.Verify"]
	verify := func(in *Interp, fn *ssa.Function, a []Value) Value {
		if in.concrete != nil {
			pk, ok1 := c02ConstBytes(in, a[0], "ed25519 key")
			msg, ok2 := c02ConstBytes(in, a[1], "ed25519 message")
			sig, ok3 := c02ConstBytes(in, a[2], "ed25519 signature")
			if !ok1 || !ok2 || !ok3 || len(pk) != ed25519.PublicKeySize {
				panic(in.unsupported("ed25519.Verify in concrete mode: symbolic argument or bad key length"))
			}
			return in.ts.Bool(ed25519.Verify(ed25519.PublicKey(pk), msg, sig))
		}
		return symVerify(in, fn, a)
	}
	intrinsics["crypto/ed25519.Verify"] = verify
	intrinsics["github.com/bytom/bytom/crypto/ed25519.Verify"] = verify

	intrinsics["crypto/ed25519.NewKeyFromSeed"] = func(in *Interp, fn *ssa.Function, a []Value) Value {
		if in.concrete != nil {
			seed, ok := c02ConstBytes(in, a[0], "ed25519 seed")
			if !ok || len(seed) != ed25519.SeedSize {
				panic(in.unsupported("ed25519.NewKeyFromSeed in concrete mode: symbolic seed or bad length"))
			}
			return c02ConstSlice(in, ed25519.NewKeyFromSeed(seed), "ed25519 private key")
		}
		seed := in.bytesOf(a[0].(*SliceV), "ed25519 seed length")
		if len(seed) != ed25519.SeedSize {
			panic(in.unsupported("ed25519.NewKeyFromSeed: seed length is not 32"))
		}
		pub := in.hashUF("ed25519.pub", seed, 32)
		return in.newByteSlice(append(append([]*Term{}, seed...), pub...), "ed25519 private key")
	}

	intrinsics["crypto/ed25519.Sign"] = func(in *Interp, fn *ssa.Function, a []Value) Value {
		if in.concrete != nil {
			priv, ok1 := c02ConstBytes(in, a[0], "ed25519 private key")
			msg, ok2 := c02ConstBytes(in, a[1], "ed25519 message")
			if !ok1 || !ok2 || len(priv) != ed25519.PrivateKeySize {
				panic(in.unsupported("ed25519.Sign in concrete mode: symbolic argument or bad key length"))
			}
			return c02ConstSlice(in, ed25519.Sign(ed25519.PrivateKey(priv), msg), "ed25519 signature")
		}
		ts := in.ts
		priv := in.bytesOf(a[0].(*SliceV), "ed25519 private key length")
		if len(priv) != ed25519.PrivateKeySize {
			panic(in.unsupported("ed25519.Sign: private key length is not 64"))
		}
		msg := in.bytesOf(a[1].(*SliceV), "ed25519 message length")
		input := append(append([]*Term{}, priv...), msg...)
		sig := in.newByteSlice(in.hashUF("ed25519.sig", input, 64), "ed25519 signature")
		pub := in.hashUF("ed25519.pub", priv[:32], 32)
		wellFormed := ts.True
		for i := 0; i < 32; i++ {
			wellFormed = ts.And(wellFormed, ts.Eq(priv[32+i], pub[i]))
		}
		pubS := in.newByteSlice(pub, "ed25519 public key")
		msgS := in.newByteSlice(msg, "ed25519 message")
		ok := symVerify(in, fn, []Value{pubS, msgS, sig}).(*Term)
		in.assume(ts.Implies(wellFormed, ok))
		return sig
	}

	and := func(in *Interp, fn *ssa.Function, a []Value) Value {
		return in.ts.And(a[0].(*Term), a[1].(*Term))
	}
	or := func(in *Interp, fn *ssa.Function, a []Value) Value {
		return in.ts.Or(a[0].(*Term), a[1].(*Term))
	}
	for _, pkg := range []string{
		"github.com/bytom/bytom/protocol/vm",
		"github.com/bytom/bytom/consensus/segwit",
		"github.com/bytom/bytom/protocol/validation",
	} {
		intrinsics[pkg+".verifC02And"] = and
		intrinsics[pkg+".verifC02Or"] = or
	}
}
