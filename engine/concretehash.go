package main

// Concrete mode (translator validation): hashes are computed for real, so the
// engine's outputs can be compared with native execution bit for bit.

import (
	"crypto/sha256"
	"crypto/sha512"
	"strings"

	"verif/engine/xcrypto/ripemd160"
	"verif/engine/xcrypto/sha3"
)

func concreteDigest(kind string, data []byte, outLen int) ([]byte, bool) {
	base := kind
	block := 0
	if i := strings.Index(kind, "#"); i >= 0 {
		base = kind[:i]
		block = int(kind[i+1]-'0') - 1
	}
	switch base {
	case "sha3-256":
		// the sponge's output stream: block k of 32 bytes
		h := sha3.New256().(sha3.ShakeHash)
		h.Write(data)
		buf := make([]byte, 32*(block+1))
		h.Read(buf)
		return buf[32*block:], true
	case "sha256":
		d := sha256.Sum256(data)
		return d[:], block == 0
	case "sha512":
		d := sha512.Sum512(data)
		return d[:], block == 0
	case "ripemd160":
		h := ripemd160.New()
		h.Write(data)
		return h.Sum(nil), block == 0
	}
	return nil, false
}
