package main

// Intrinsics added for the casper harnesses (C16, C17, C18).
//
// Signature verification stays an uninterpreted predicate for the solver (see
// crypto.go); in concrete mode (translator validation) the real ed25519
// verification is computed so that validation vectors reaching a signature
// check are compared with the native run instead of being skipped.

import (
	"crypto/ed25519"

	"golang.org/x/tools/go/ssa"
)

func init() {
	concreteBytes := func(in *Interp, x Value) ([]byte, bool) {
		var ts []*Term
		switch v := x.(type) {
		case *SliceV:
			ts = in.bytesOf(v, "signature argument length")
		case *ArrayV:
			for _, e := range v.e {
				ts = append(ts, e.(*Term))
			}
		case *PtrV:
			for _, e := range in.load(v).(*ArrayV).e {
				ts = append(ts, e.(*Term))
			}
		default:
			return nil, false
		}
		out := make([]byte, len(ts))
		for i, t := range ts {
			if !t.IsConst() {
				return nil, false
			}
			out[i] = byte(t.Uint64())
		}
		return out, true
	}
	wrap := func(name string, keyLen int) {
		uf := cryptoIntrinsics[name]
		intrinsics[name] = func(in *Interp, fn *ssa.Function, a []Value) Value {
			if in.concrete == nil {
				return uf(in, fn, a)
			}
			key, ok1 := concreteBytes(in, a[0])
			msg, ok2 := concreteBytes(in, a[1])
			sig, ok3 := concreteBytes(in, a[2])
			if !ok1 || !ok2 || !ok3 || len(key) < keyLen {
				panic(in.unsupported("signature verification on non-concrete data in concrete mode"))
			}
			if ed25519.Verify(ed25519.PublicKey(key[:keyLen]), msg, sig) {
				return in.ts.True
			}
			return in.ts.False
		}
	}
	// XPub.Verify(msg, sig) = ed25519.Verify(xpub[:32], msg, sig)
	wrap("(github.com/bytom/bytom/crypto/ed25519/chainkd.XPub).Verify", 32)
	wrap("crypto/ed25519.Verify", 32)
}

// (sort.Slice: see x_c26.go)

// (*bc.Hash).String is proto.CompactTextString(h), which for a type with a
// MarshalText method prints that text: the 64 lower-case hex digits of
// V0..V3 (big endian). The protobuf packages are nop packages for the engine
// (String would return ""), which silently changed the casper fork-choice
// tie-break on Hash.String(); modelled exactly here, also for symbolic words.
func init() {
	intrinsics["(*github.com/bytom/bytom/protocol/bc.Hash).String"] = func(in *Interp, fn *ssa.Function, a []Value) Value {
		p, ok := a[0].(*PtrV)
		if !ok || p.obj == nil {
			panic(in.unsupported("Hash.String on a nil hash"))
		}
		sv, ok := in.load(p).(*StructV)
		if !ok || len(sv.f) < 4 {
			panic(in.unsupported("Hash.String: unexpected representation"))
		}
		ts := in.ts
		var out []*Term
		for w := 0; w < 4; w++ {
			word := sv.f[w].(*Term)
			for nib := 15; nib >= 0; nib-- {
				n := ts.ZExt(ts.Extract(word, nib*4+3, nib*4), 8)
				digit := ts.Add(n, ts.ConstU(8, '0'))
				letter := ts.Add(n, ts.ConstU(8, 'a'-10))
				out = append(out, ts.Ite(ts.ULt(n, ts.ConstU(8, 10)), digit, letter))
			}
		}
		return &StrV{b: out}
	}
}
