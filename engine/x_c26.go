package main

// Intrinsics added for C26 (account/utxo_keeper.go).

import (
	"golang.org/x/tools/go/ssa"
)

func init() {
	intrinsics["sort.Slice"] = sortSliceIntrinsic
}

// sort.Slice for slices of at most 12 elements: Go's pdqsort_func runs
// insertionSortLessFunc for such lengths, which is reproduced here
// comparison by comparison (same calls of less, same swaps), so the result
// equals the native one also for keys that compare equal.
func sortSliceIntrinsic(in *Interp, fn *ssa.Function, a []Value) Value {
	iv, ok := a[0].(*IfaceV)
	if !ok || iv.typ == nil {
		in.rtPanic("explicit", "sort.Slice of nil interface")
	}
	sl, ok := iv.v.(*SliceV)
	if !ok {
		panic(in.unsupported("sort.Slice on a non-slice value"))
	}
	if sl.obj == nil {
		return nil
	}
	n64 := in.concretize(sl.len, in.maxLen(sl)+1, "sort.Slice length")
	n := int(n64)
	if n > 12 {
		panic(in.unsupported("sort.Slice of more than 12 elements"))
	}
	ts := in.ts
	for i := 1; i < n; i++ {
		for j := i; j > 0; j-- {
			r, ok := in.callValue(a[1], []Value{ts.ConstI(64, int64(j)), ts.ConstI(64, int64(j-1))}).(*Term)
			if !ok {
				panic(in.unsupported("sort.Slice: less did not return a bool"))
			}
			if !in.branch(r) {
				break
			}
			x := in.sliceElem(sl, ts.ConstU(64, uint64(j)))
			y := in.sliceElem(sl, ts.ConstU(64, uint64(j-1)))
			in.setSliceElem(sl, ts.ConstU(64, uint64(j)), y)
			in.setSliceElem(sl, ts.ConstU(64, uint64(j-1)), x)
		}
	}
	return nil
}
