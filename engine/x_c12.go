package main

// Native counterpart of an override of a *project* function (a declared cut).
//
//	//verif:override (*pkg.T).f -> verifStub          (solver + concrete validation)
//	//verif:nativecut file.go f -> verifStub          (native replay / native validation)
//
// The second line makes the natively compiled harness use the same stub: the
// package file is overlaid by a copy in which the function f is renamed to
// fVerifReal and a forwarder with the original signature calls the stub
// (receiver first). /repo itself is not touched. Without the second line the
// native run calls the real function (the default for environment stubs).
// file.go is relative to the harness's package directory; if it belongs to
// another package (e.g. casper/casper.go) the forwarder calls an exported
// hook variable VerifHook<F> added to that file, and a generated test file of
// the harness package sets the hook to the stub in an init().

import (
	"fmt"
	"go/ast"
	"go/parser"
	"go/token"
	"os"
	"path/filepath"
	"strings"
)

// nativeCuts returns overlay entries (repo path -> rewritten copy) for the
// harness files of dir. The keys are ordinary (non-test) package files.
func nativeCuts(files []*HarnessFile, dir string, tmp string) (map[string]string, error) {
	out := map[string]string{}
	srcs := map[string][]byte{} // repo file -> current (possibly already rewritten) text
	var hooks [][3]string       // import path, hook variable, stub
	hookPkg := ""
	for _, hf := range files {
		if hf.Dir != dir {
			continue
		}
		for _, l := range strings.Split(string(hf.Src), "\n") {
			if !strings.HasPrefix(l, "//verif:nativecut ") {
				continue
			}
			parts := strings.Split(strings.TrimPrefix(l, "//verif:nativecut "), "->")
			if len(parts) != 2 {
				return nil, fmt.Errorf("bad nativecut line %q", l)
			}
			lhs := strings.Fields(parts[0])
			stub := strings.TrimSpace(parts[1])
			if len(lhs) != 2 || stub == "" {
				return nil, fmt.Errorf("bad nativecut line %q", l)
			}
			path := filepath.Join(repoRoot, dir, lhs[0])
			src, ok := srcs[path]
			if !ok {
				b, err := os.ReadFile(path)
				if err != nil {
					return nil, err
				}
				src = b
			}
			// a function of ANOTHER package (path leaves the package dir) cannot call the
			// harness stub directly: it forwards to an exported hook variable which a
			// generated init() of the harness package sets to the stub
			otherDir := filepath.Dir(filepath.Clean(filepath.Join(dir, lhs[0])))
			hook := ""
			if otherDir != filepath.Clean(dir) {
				hook = "VerifHook" + strings.ToUpper(lhs[1][:1]) + lhs[1][1:]
				imp, err := importPathOf(otherDir)
				if err != nil {
					return nil, err
				}
				hooks = append(hooks, [3]string{imp, hook, stub})
				hookPkg = hf.PkgName
			}
			nsrc, err := cutFunction(path, src, lhs[1], stub, hook)
			if err != nil {
				return nil, err
			}
			srcs[path] = nsrc
		}
	}
	if len(hooks) > 0 {
		var sb strings.Builder
		fmt.Fprintf(&sb, "package %s\n\nimport (\n", hookPkg)
		for k, h := range hooks {
			fmt.Fprintf(&sb, "\tverifcut%d %q\n", k, h[0])
		}
		sb.WriteString(")\n\nfunc init() {\n")
		for k, h := range hooks {
			fmt.Fprintf(&sb, "\tverifcut%d.%s = %s\n", k, h[1], h[2])
		}
		sb.WriteString("}\n")
		f := filepath.Join(tmp, "zz_verif_cuthooks_test.go")
		if err := os.WriteFile(f, []byte(sb.String()), 0644); err != nil {
			return nil, err
		}
		out[filepath.Join(repoRoot, dir, "zz_verif_cuthooks_test.go")] = f
	}
	i := 0
	for path, src := range srcs {
		f := filepath.Join(tmp, fmt.Sprintf("cut%d_%s", i, filepath.Base(path)))
		i++
		if err := os.WriteFile(f, src, 0644); err != nil {
			return nil, err
		}
		out[path] = f
	}
	return out, nil
}

func cutFunction(path string, src []byte, name, stub, hook string) ([]byte, error) {
	fset := token.NewFileSet()
	f, err := parser.ParseFile(fset, path, src, 0)
	if err != nil {
		return nil, err
	}
	for _, d := range f.Decls {
		fd, ok := d.(*ast.FuncDecl)
		if !ok || fd.Name.Name != name || fd.Body == nil {
			continue
		}
		off := func(p token.Pos) int { return fset.Position(p).Offset }
		var args []string
		if fd.Recv != nil {
			if len(fd.Recv.List) != 1 || len(fd.Recv.List[0].Names) != 1 || fd.Recv.List[0].Names[0].Name == "_" {
				return nil, fmt.Errorf("nativecut %s: receiver must be named", name)
			}
			args = append(args, fd.Recv.List[0].Names[0].Name)
		}
		for _, p := range fd.Type.Params.List {
			if len(p.Names) == 0 {
				return nil, fmt.Errorf("nativecut %s: parameters must be named", name)
			}
			for _, n := range p.Names {
				if n.Name == "_" {
					return nil, fmt.Errorf("nativecut %s: parameters must be named", name)
				}
				a := n.Name
				if _, variadic := p.Type.(*ast.Ellipsis); variadic {
					a += "..."
				}
				args = append(args, a)
			}
		}
		sig := string(src[off(fd.Pos()):off(fd.Body.Lbrace)])
		ret := ""
		if fd.Type.Results != nil && len(fd.Type.Results.List) > 0 {
			ret = "return "
		}
		var sb strings.Builder
		sb.Write(src[:off(fd.Name.Pos())])
		sb.WriteString(name + "VerifReal")
		sb.Write(src[off(fd.Name.End()):])
		if hook != "" {
			// var VerifHookF func(recv T, params...) results
			ftype := "func("
			if fd.Recv != nil {
				ftype += string(src[off(fd.Recv.List[0].Pos()):off(fd.Recv.List[0].End())])
				if len(fd.Type.Params.List) > 0 {
					ftype += ", "
				}
			}
			ftype += string(src[off(fd.Type.Params.Opening)+1:off(fd.Type.Params.Closing)]) + ")"
			if fd.Type.Results != nil && len(fd.Type.Results.List) > 0 {
				ftype += " " + string(src[off(fd.Type.Results.Pos()):off(fd.Type.Results.End())])
			}
			fmt.Fprintf(&sb, "\n// verif: hook set by the harness package (native counterpart of a declared cut)\nvar %s %s\n", hook, ftype)
			stub = hook
		}
		fmt.Fprintf(&sb, "\n// verif: native counterpart of the declared cut of %s\n%s{ %s%s(%s) }\n", name, sig, ret, stub, strings.Join(args, ", "))
		return []byte(sb.String()), nil
	}
	return nil, fmt.Errorf("nativecut: function %s not found in %s", name, path)
}

// constHashOut: a hash application whose input bytes are all constants is
// evaluated with the real function (the uninterpreted symbol stands for that
// function, so this is an instance of it); collision-freedom against the
// symbolic applications of the path is still asserted by the caller. Keeps
// identifiers of concretely built transactions/blocks concrete, so that maps
// keyed by them do not fork. VERIF_NOCONSTHASH=1 disables it.
func constHashOut(in *Interp, kind string, input []*Term, outBytes int) []*Term {
	if noConstHash {
		return nil
	}
	data := make([]byte, len(input))
	for i, t := range input {
		if !t.IsConst() {
			return nil
		}
		data[i] = byte(t.Uint64())
	}
	d, ok := concreteDigest(kind, data, outBytes)
	if !ok || len(d) < outBytes {
		return nil
	}
	out := make([]*Term, outBytes)
	for i := range out {
		out[i] = in.ts.ConstU(8, uint64(d[i]))
	}
	return out
}

var noConstHash = os.Getenv("VERIF_NOCONSTHASH") != ""

// importPathOf: import path of the package in dir (relative to the repo root)
func importPathOf(dir string) (string, error) {
	b, err := os.ReadFile(filepath.Join(repoRoot, "go.mod"))
	if err != nil {
		return "", err
	}
	for _, l := range strings.Split(string(b), "\n") {
		f := strings.Fields(l)
		if len(f) == 2 && f[0] == "module" {
			return f[1] + "/" + filepath.ToSlash(dir), nil
		}
	}
	return "", fmt.Errorf("module path not found in go.mod")
}
