package main

// Native counterpart of an override of a *project* function (a declared cut).
//
//	//verif:override (*pkg.T).f -> verifStub          (solver + concrete validation)
//	//verif:nativecut file.go f -> verifStub          (native replay / native validation)
//
// The second line makes the natively compiled harness use the same stub: the
// package file is overlaid by a copy in which the function f is renamed to
// fVerifReal and a forwarder with the original signature calls the stub
// (receiver first). /repo itself is not touched. Without the second line the
// native run calls the real function (the default for environment stubs).

import (
	"fmt"
	"go/ast"
	"go/parser"
	"go/token"
	"os"
	"path/filepath"
	"strings"
)

// nativeCuts returns overlay entries (repo path -> rewritten copy) for the
// harness files of dir. The keys are ordinary (non-test) package files.
func nativeCuts(files []*HarnessFile, dir string, tmp string) (map[string]string, error) {
	out := map[string]string{}
	srcs := map[string][]byte{} // repo file -> current (possibly already rewritten) text
	for _, hf := range files {
		if hf.Dir != dir {
			continue
		}
		for _, l := range strings.Split(string(hf.Src), "\n") {
			if !strings.HasPrefix(l, "//verif:nativecut ") {
				continue
			}
			parts := strings.Split(strings.TrimPrefix(l, "//verif:nativecut "), "->")
			if len(parts) != 2 {
				return nil, fmt.Errorf("bad nativecut line %q", l)
			}
			lhs := strings.Fields(parts[0])
			stub := strings.TrimSpace(parts[1])
			if len(lhs) != 2 || stub == "" {
				return nil, fmt.Errorf("bad nativecut line %q", l)
			}
			path := filepath.Join(repoRoot, dir, lhs[0])
			src, ok := srcs[path]
			if !ok {
				b, err := os.ReadFile(path)
				if err != nil {
					return nil, err
				}
				src = b
			}
			nsrc, err := cutFunction(path, src, lhs[1], stub)
			if err != nil {
				return nil, err
			}
			srcs[path] = nsrc
		}
	}
	i := 0
	for path, src := range srcs {
		f := filepath.Join(tmp, fmt.Sprintf("cut%d_%s", i, filepath.Base(path)))
		i++
		if err := os.WriteFile(f, src, 0644); err != nil {
			return nil, err
		}
		out[path] = f
	}
	return out, nil
}

func cutFunction(path string, src []byte, name, stub string) ([]byte, error) {
	fset := token.NewFileSet()
	f, err := parser.ParseFile(fset, path, src, 0)
	if err != nil {
		return nil, err
	}
	for _, d := range f.Decls {
		fd, ok := d.(*ast.FuncDecl)
		if !ok || fd.Name.Name != name || fd.Body == nil {
			continue
		}
		off := func(p token.Pos) int { return fset.Position(p).Offset }
		var args []string
		if fd.Recv != nil {
			if len(fd.Recv.List) != 1 || len(fd.Recv.List[0].Names) != 1 || fd.Recv.List[0].Names[0].Name == "_" {
				return nil, fmt.Errorf("nativecut %s: receiver must be named", name)
			}
			args = append(args, fd.Recv.List[0].Names[0].Name)
		}
		for _, p := range fd.Type.Params.List {
			if len(p.Names) == 0 {
				return nil, fmt.Errorf("nativecut %s: parameters must be named", name)
			}
			for _, n := range p.Names {
				if n.Name == "_" {
					return nil, fmt.Errorf("nativecut %s: parameters must be named", name)
				}
				a := n.Name
				if _, variadic := p.Type.(*ast.Ellipsis); variadic {
					a += "..."
				}
				args = append(args, a)
			}
		}
		sig := string(src[off(fd.Pos()):off(fd.Body.Lbrace)])
		ret := ""
		if fd.Type.Results != nil && len(fd.Type.Results.List) > 0 {
			ret = "return "
		}
		var sb strings.Builder
		sb.Write(src[:off(fd.Name.Pos())])
		sb.WriteString(name + "VerifReal")
		sb.Write(src[off(fd.Name.End()):])
		fmt.Fprintf(&sb, "\n// verif: native counterpart of the declared cut of %s\n%s{ %s%s(%s) }\n", name, sig, ret, stub, strings.Join(args, ", "))
		return []byte(sb.String()), nil
	}
	return nil, fmt.Errorf("nativecut: function %s not found in %s", name, path)
}

// constHashOut: a hash application whose input bytes are all constants is
// evaluated with the real function (the uninterpreted symbol stands for that
// function, so this is an instance of it); collision-freedom against the
// symbolic applications of the path is still asserted by the caller. Keeps
// identifiers of concretely built transactions/blocks concrete, so that maps
// keyed by them do not fork. VERIF_NOCONSTHASH=1 disables it.
func constHashOut(in *Interp, kind string, input []*Term, outBytes int) []*Term {
	if noConstHash {
		return nil
	}
	data := make([]byte, len(input))
	for i, t := range input {
		if !t.IsConst() {
			return nil
		}
		data[i] = byte(t.Uint64())
	}
	d, ok := concreteDigest(kind, data, outBytes)
	if !ok || len(d) < outBytes {
		return nil
	}
	out := make([]*Term, outBytes)
	for i := range out {
		out[i] = in.ts.ConstU(8, uint64(d[i]))
	}
	return out
}

var noConstHash = os.Getenv("VERIF_NOCONSTHASH") != ""
