package main

// Intrinsics added for C11 / C15 / C14:
//   - the three reflectlite entry points sort.Slice uses (the sort itself,
//     pdqsort / insertion sort, runs from its own SSA)
//   - proto.CompactTextString on a message that implements
//     encoding.TextMarshaler (golang/protobuf 1.4 returns MarshalText's bytes;
//     bc.Hash.String is that call) -- the real MarshalText runs from SSA
//   - sync.Cond notification (single-threaded execution: no waiters)

import (
	"go/types"

	"golang.org/x/tools/go/ssa"
)

func init() {
	intrinsics["internal/reflectlite.ValueOf"] = func(in *Interp, fn *ssa.Function, a []Value) Value {
		iv := a[0].(*IfaceV)
		if iv.typ == nil {
			return mkRV(&rval{})
		}
		return mkRV(&rval{typ: iv.typ, v: iv.v, exported: true, valid: true})
	}
	intrinsics["(internal/reflectlite.Value).Len"] = func(in *Interp, fn *ssa.Function, a []Value) Value {
		r := rvOf(in, a[0])
		switch x := r.v.(type) {
		case *SliceV:
			return x.len
		case *StrV:
			return in.ts.ConstU(64, uint64(len(x.b)))
		case *ArrayV:
			return in.ts.ConstU(64, uint64(len(x.e)))
		}
		panic(in.unsupported("reflectlite.Value.Len on " + r.typ.String()))
	}
	swapper := func(in *Interp, fn *ssa.Function, a []Value) Value {
		iv := a[0].(*IfaceV)
		if iv.typ == nil {
			panic(in.unsupported("Swapper of nil interface"))
		}
		s, ok := iv.v.(*SliceV)
		if !ok {
			panic(in.unsupported("Swapper of non-slice " + iv.typ.String()))
		}
		return &FuncV{name: "swapper", native: func(in *Interp, args []Value) Value {
			i, j := args[0].(*Term), args[1].(*Term)
			ts := in.ts
			in.boundsPanic(ts.And(ts.ULt(i, s.len), ts.ULt(j, s.len)), "reflect: slice index out of range")
			vi, vj := in.sliceElem(s, i), in.sliceElem(s, j)
			in.setSliceElem(s, i, vj)
			in.setSliceElem(s, j, vi)
			return nil
		}}
	}
	intrinsics["internal/reflectlite.Swapper"] = swapper
	intrinsics["reflect.Swapper"] = swapper

	intrinsics["github.com/golang/protobuf/proto.CompactTextString"] = func(in *Interp, fn *ssa.Function, a []Value) Value {
		iv := a[0].(*IfaceV)
		if iv.typ == nil {
			return in.mkStr("<nil>")
		}
		if p, ok := iv.v.(*PtrV); ok && p.isNil() {
			return in.mkStr("<nil>")
		}
		ms := in.prog.MethodSets.MethodSet(iv.typ)
		sel := ms.Lookup(nil, "MarshalText")
		if sel == nil {
			return &StrV{opaque: true, tag: "CompactTextString"}
		}
		sig, ok := sel.Type().(*types.Signature)
		if !ok || sig.Params().Len() != 0 || sig.Results().Len() != 2 {
			return &StrV{opaque: true, tag: "CompactTextString"}
		}
		m := in.prog.MethodValue(sel)
		if m == nil {
			return &StrV{opaque: true, tag: "CompactTextString"}
		}
		res := in.callFn(m, []Value{iv.v}, nil).(TupleV)
		if e, ok := res[1].(*IfaceV); ok && e.typ != nil {
			return &StrV{opaque: true, tag: "CompactTextString"}
		}
		return in.sliceToStr(res[0].(*SliceV))
	}

	intrinsics["(*sync.Cond).Broadcast"] = nop
	intrinsics["(*sync.Cond).Signal"] = nop
}
