package main

import (
	"fmt"
	"go/types"

	"golang.org/x/tools/go/ssa"
)

var sizeClasses = []int{0, 8, 16, 24, 32, 48, 64, 80, 96, 112, 128, 144, 160, 176, 192, 208, 224, 240, 256, 288, 320, 352, 384, 416, 448, 480, 512, 576, 640, 704, 768, 896, 1024, 1152, 1280, 1408, 1536, 1792, 2048, 2304, 2688, 3072, 3200, 3456, 4096, 4864, 5376, 6144, 6528, 6784, 6912, 8192, 9472, 9728, 10240, 10880, 12288, 13568, 14336, 16384, 18432, 19072, 20480, 21760, 24576, 27264, 28672, 32768}

func roundupsize(n int) int {
	if n <= 32768 {
		for _, c := range sizeClasses {
			if c >= n {
				return c
			}
		}
	}
	return (n + 8191) / 8192 * 8192
}

// growCap mirrors runtime.growslice's capacity computation (go1.20+).
func growCap(oldCap, newLen int, elemSize int) int {
	newcap := oldCap
	doublecap := newcap + newcap
	if newLen > doublecap {
		newcap = newLen
	} else if oldCap < 256 {
		newcap = doublecap
	} else {
		for {
			newcap += (newcap + 3*256) >> 2
			if newcap >= newLen {
				break
			}
		}
	}
	if elemSize == 0 {
		return newcap
	}
	return roundupsize(newcap*elemSize) / elemSize
}

func (in *Interp) builtin(fr *Frame, name string, c *ssa.CallCommon, args []Value) Value {
	ts := in.ts
	switch name {
	case "len":
		switch a := args[0].(type) {
		case *SliceV:
			return a.len
		case *StrV:
			if a.opaque {
				panic(in.unsupported("len of opaque string " + a.tag))
			}
			return ts.ConstU(64, uint64(len(a.b)))
		case *MapV:
			if a.m == nil {
				return ts.ConstU(64, 0)
			}
			in.resolveLazyMap(a.m) // x_c03.go
			return ts.ConstU(64, uint64(len(a.m.entries)))
		case *ArrayV:
			return ts.ConstU(64, uint64(len(a.e)))
		case *PtrV:
			return ts.ConstU(64, uint64(len(a.obj.array(a.path).e)))
		case *NativeV:
			panic(in.unsupported("len of channel"))
		}
	case "cap":
		switch a := args[0].(type) {
		case *SliceV:
			return a.cap
		case *ArrayV:
			return ts.ConstU(64, uint64(len(a.e)))
		}
	case "append":
		return in.appendBuiltin(args[0].(*SliceV), args[1], c.Args[0].Type().Underlying().(*types.Slice).Elem())
	case "copy":
		return in.copyBuiltin(args[0].(*SliceV), args[1])
	case "delete":
		in.mapDelete(args[0], args[1])
		return nil
	case "print", "println":
		return nil
	case "recover":
		// honoured only while a frame up the stack is running deferred calls because of a panic
		for f := fr.caller; f != nil; f = f.caller {
			if f.panicking != nil && f.inDefers {
				gp := f.panicking
				f.panicking = nil
				if iv, ok := gp.val.(*IfaceV); ok {
					return iv
				}
				return &IfaceV{typ: types.Typ[types.String], v: gp.val}
			}
			break
		}
		return &IfaceV{}
	case "panic":
		panic(&goPanic{val: args[0], site: in.site(), msg: in.describe(args[0]), class: "explicit"})
	case "ssa:wrapnilchk":
		if p, ok := args[0].(*PtrV); ok && p.isNil() {
			in.rtPanic("nil-deref", "value method called using nil pointer")
		}
		return args[0]
	case "min", "max":
		r := args[0]
		signed := isSigned(c.Args[0].Type())
		for _, a := range args[1:] {
			x, y := r.(*Term), a.(*Term)
			var lt *Term
			if signed {
				lt = ts.SLt(y, x)
			} else {
				lt = ts.ULt(y, x)
			}
			if name == "max" {
				lt = ts.Not(ts.Or(lt, ts.Eq(x, y)))
			}
			r = ts.Ite(lt, y, x)
		}
		return r
	case "clear":
		switch a := args[0].(type) {
		case *MapV:
			if a.m != nil {
				if a.m.sess != nil {
					a.m.sess.touchMap(a.m)
				}
				a.m.entries = nil
			}
			return nil
		}
	case "close":
		panic(in.unsupported("close of channel"))
	}
	panic(in.unsupported(fmt.Sprintf("builtin %s(%T)", name, args[0])))
}

// elemsOf returns the length term and an accessor for the source of append/copy.
func (in *Interp) srcAccessor(src Value) (*Term, func(i *Term) Value) {
	switch s := src.(type) {
	case *SliceV:
		return s.len, func(i *Term) Value { return in.sliceElem(s, i) }
	case *StrV:
		if s.opaque {
			panic(in.unsupported("append/copy from opaque string " + s.tag))
		}
		return in.ts.ConstU(64, uint64(len(s.b))), func(i *Term) Value {
			k, _ := constInt(i)
			return s.b[k]
		}
	}
	panic(in.unsupported(fmt.Sprintf("append/copy source %T", src)))
}

func (in *Interp) appendBuiltin(dst *SliceV, src Value, et types.Type) Value {
	ts := in.ts
	if s, ok := src.(*SliceV); ok && s.obj == nil {
		return dst
	}
	srcLen, at := in.srcAccessor(src)
	if srcLen.IsConst() && srcLen.Uint64() == 0 {
		return dst
	}
	newLen := ts.Add(dst.len, srcLen)
	fits := ts.ULe(newLen, dst.cap)
	n := int(in.concretize(srcLen, in.ob.MaxSplit, "append source length"))
	if n == 0 {
		return dst
	}
	// read source first (may alias destination)
	vals := make([]Value, n)
	for i := 0; i < n; i++ {
		vals[i] = at(ts.ConstU(64, uint64(i)))
	}
	if dst.obj != nil && in.branch(fits) {
		for i := 0; i < n; i++ {
			in.setSliceElem(dst, ts.Add(dst.len, ts.ConstU(64, uint64(i))), vals[i])
		}
		return &SliceV{obj: dst.obj, path: dst.path, off: dst.off, len: newLen, cap: dst.cap}
	}
	// grow: needs concrete old length and capacity
	oldLen := int(in.concretize(dst.len, in.ob.MaxSplit, "append destination length"))
	oldCap := int(in.concretize(dst.cap, in.ob.MaxSplit, "append destination capacity"))
	es := int(stdSizes.Sizeof(et))
	nc := growCap(oldCap, oldLen+n, es)
	if nc > in.ob.MaxAllocElems {
		in.hugeAlloc(et, ts.ConstU(64, uint64(nc)))
	}
	in.chargeAlloc(et, ts.ConstU(64, uint64(nc)))
	arr := &ArrayV{e: make([]Value, nc)}
	z := in.zero(et)
	for i := 0; i < nc; i++ {
		switch {
		case i < oldLen:
			arr.e[i] = in.sliceElem(dst, ts.ConstU(64, uint64(i)))
		case i < oldLen+n:
			arr.e[i] = vals[i-oldLen]
		default:
			arr.e[i] = z
		}
	}
	o := in.newObject(arr, types.NewArray(et, int64(nc)), "append")
	return &SliceV{obj: o, off: ts.ConstU(64, 0), len: ts.ConstU(64, uint64(oldLen+n)), cap: ts.ConstU(64, uint64(nc))}
}

func (in *Interp) copyBuiltin(dst *SliceV, src Value) Value {
	ts := in.ts
	srcLen, at := in.srcAccessor(src)
	n := ts.Ite(ts.ULt(dst.len, srcLen), dst.len, srcLen)
	if n.IsConst() && n.Uint64() == 0 {
		return n
	}
	cn := int(in.concretize(n, in.ob.MaxSplit, "copy length"))
	vals := make([]Value, cn)
	for i := 0; i < cn; i++ {
		vals[i] = at(ts.ConstU(64, uint64(i)))
	}
	for i := 0; i < cn; i++ {
		in.setSliceElem(dst, ts.ConstU(64, uint64(i)), vals[i])
	}
	return ts.ConstU(64, uint64(cn))
}

// bytesOf returns the byte terms of a slice with a concretised length.
func (in *Interp) bytesOf(s *SliceV, what string) []*Term {
	if s.obj == nil {
		return nil
	}
	n := int(in.concretize(s.len, in.ob.MaxSplit, what))
	out := make([]*Term, n)
	for i := range out {
		out[i] = in.sliceElem(s, in.ts.ConstU(64, uint64(i))).(*Term)
	}
	return out
}

// newByteSlice allocates a fresh byte slice holding the given terms.
func (in *Interp) newByteSlice(b []*Term, label string) *SliceV {
	arr := &ArrayV{e: make([]Value, len(b))}
	for i, x := range b {
		arr.e[i] = x
	}
	n := in.ts.ConstU(64, uint64(len(b)))
	o := in.newObject(arr, types.NewArray(types.Typ[types.Uint8], int64(len(b))), label)
	in.chargeAlloc(types.Typ[types.Uint8], n)
	return &SliceV{obj: o, off: in.ts.ConstU(64, 0), len: n, cap: n}
}

// bytesEq builds the term "slices a and b hold equal bytes" without forking.
func (in *Interp) bytesEq(a, b *SliceV) *Term {
	ts := in.ts
	lenEq := ts.Eq(a.len, b.len)
	if lenEq.IsFalse() {
		return lenEq
	}
	if a.obj == nil || b.obj == nil {
		return lenEq
	}
	// bound on the common length
	max := in.maxLen(a)
	if m := in.maxLen(b); m < max {
		max = m
	}
	r := lenEq
	for i := 0; i < max; i++ {
		it := ts.ConstU(64, uint64(i))
		inRange := ts.ULt(it, a.len)
		if inRange.IsFalse() {
			break
		}
		ea := in.sliceElem(a, it).(*Term)
		eb := in.sliceElem(b, it).(*Term)
		r = ts.And(r, ts.Implies(inRange, ts.Eq(ea, eb)))
		if r.IsFalse() {
			break
		}
	}
	return r
}

// maxLen is a concrete upper bound of the slice's length.
func (in *Interp) maxLen(s *SliceV) int {
	if s.obj == nil {
		return 0
	}
	if n, ok := constInt(s.len); ok {
		return n
	}
	n := len(s.obj.array(s.path).e)
	if o, ok := constInt(s.off); ok {
		n -= o
	}
	return n
}
