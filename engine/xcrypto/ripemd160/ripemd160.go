// Copyright 2010 The Go Authors. All rights reserved.
// Use of this source code is governed by a BSD-style
// license that can be found in the LICENSE file.

// Package ripemd160 implements the RIPEMD-160 hash algorithm.
package ripemd160

// RIPEMD-160 is designed by by Hans Dobbertin, Antoon Bosselaers, and Bart
// Preneel with specifications available at:
// http://homes.esat.kuleuven.be/~cosicart/pdf/AB-9601/AB-9601.pdf.

import (
	"crypto"
	"hash"
)

func init() {
	crypto.RegisterHash(crypto.RIPEMD160, New)
}

// The size of the checksum in bytes.
const Size = 20

// The block size of the hash algorithm in bytes.
const BlockSize = 64

const (
	_s0 = 0x67452301
	_s1 = 0xefcdab89
	_s2 = 0x98badcfe
	_s3 = 0x10325476
	_s4 = 0xc3d2e1f0
)

// digest represents the partial evaluation of a checksum.
type digest struct {
	s  [5]uint32       // running context
	x  [BlockSize]byte // temporary buffer
	nx int             // index into x
	tc uint64          // total count of bytes processed
}

func (d *digest) Reset() {
	d.s[0], d.s[1], d.s[2], d.s[3], d.s[4] = _s0, _s1, _s2, _s3, _s4
	d.nx = 0
	d.tc = 0
}

// New returns a new hash.Hash computing the checksum.
func New() hash.Hash {
	result := new(digest)
	result.Reset()
	return result
}

func (d *digest) Size() int { return Size }

func (d *digest) BlockSize() int { return BlockSize }

func (d *digest) Write(p []byte) (nn int, err error) {
	nn = len(p)
	d.tc += uint64(nn)
	if d.nx > 0 {
		n := len(p)
		if n > BlockSize-d.nx {
			n = BlockSize - d.nx
		}
		for i := 0; i < n; i++ {
			d.x[d.nx+i] = p[i]
		}
		d.nx += n
		if d.nx == BlockSize {
			_Block(d, d.x[0:])
			d.nx = 0
		}
		p = p[n:]
	}
	n := _Block(d, p)
	p = p[n:]
	if len(p) > 0 {
		d.nx = copy(d.x[:], p)
	}
	return
}

func (d0 *digest) Sum(in []byte) []byte {
	// Make a copy of d0 so that caller can keep writing and summing.
	d := *d0

	// Padding.  Add a 1 bit and 0 bits until 56 bytes mod 64.
	tc := d.tc
	var tmp [64]byte
	tmp[0] = 0x80
	if tc%64 < 56 {
		d.Write(tmp[0 : 56-tc%64])
	} else {
		d.Write(tmp[0 : 64+56-tc%64])
	}

	// Length in bits.
	tc <<= 3
	for i := uint(0); i < 8; i++ {
		tmp[i] = byte(tc >> (8 * i))
	}
	d.Write(tmp[0:8])

	if d.nx != 0 {
		panic("d.nx != 0")
	}

	var digest [Size]byte
	for i, s := range d.s {
		digest[i*4] = byte(s)
		digest[i*4+1] = byte(s >> 8)
		digest[i*4+2] = byte(s >> 16)
		digest[i*4+3] = byte(s >> 24)
	}

	return append(in, digest[:]...)
}
