// Copyright 2010 The Go Authors. All rights reserved.
// Use of this source code is governed by a BSD-style
// license that can be found in the LICENSE file.

// RIPEMD-160 block step.
// In its own file so that a faster assembly or C version
// can be substituted easily.

package ripemd160

// work buffer indices and roll amounts for one line
var _n = [80]uint{
	0, 1, 2, 3, 4, 5, 6, 7, 8, 9, 10, 11, 12, 13, 14, 15,
	7, 4, 13, 1, 10, 6, 15, 3, 12, 0, 9, 5, 2, 14, 11, 8,
	3, 10, 14, 4, 9, 15, 8, 1, 2, 7, 0, 6, 13, 11, 5, 12,
	1, 9, 11, 10, 0, 8, 12, 4, 13, 3, 7, 15, 14, 5, 6, 2,
	4, 0, 5, 9, 7, 12, 2, 10, 14, 1, 3, 8, 11, 6, 15, 13,
}

var _r = [80]uint{
	11, 14, 15, 12, 5, 8, 7, 9, 11, 13, 14, 15, 6, 7, 9, 8,
	7, 6, 8, 13, 11, 9, 7, 15, 7, 12, 15, 9, 11, 7, 13, 12,
	11, 13, 6, 7, 14, 9, 13, 15, 14, 8, 13, 6, 5, 12, 7, 5,
	11, 12, 14, 15, 14, 15, 9, 8, 9, 14, 5, 6, 8, 6, 5, 12,
	9, 15, 5, 11, 6, 8, 13, 12, 5, 12, 13, 14, 11, 8, 5, 6,
}

// same for the other parallel one
var n_ = [80]uint{
	5, 14, 7, 0, 9, 2, 11, 4, 13, 6, 15, 8, 1, 10, 3, 12,
	6, 11, 3, 7, 0, 13, 5, 10, 14, 15, 8, 12, 4, 9, 1, 2,
	15, 5, 1, 3, 7, 14, 6, 9, 11, 8, 12, 2, 10, 0, 4, 13,
	8, 6, 4, 1, 3, 11, 15, 0, 5, 12, 2, 13, 9, 7, 10, 14,
	12, 15, 10, 4, 1, 5, 8, 7, 6, 2, 13, 14, 0, 3, 9, 11,
}

var r_ = [80]uint{
	8, 9, 9, 11, 13, 15, 15, 5, 7, 7, 8, 11, 14, 14, 12, 6,
	9, 13, 15, 7, 12, 8, 9, 11, 7, 7, 12, 7, 6, 15, 13, 11,
	9, 7, 15, 11, 8, 6, 6, 14, 12, 13, 5, 14, 13, 13, 7, 5,
	15, 5, 8, 11, 14, 14, 6, 14, 6, 9, 12, 9, 12, 5, 15, 8,
	8, 5, 12, 9, 12, 5, 14, 6, 8, 13, 6, 5, 15, 13, 11, 11,
}

func _Block(md *digest, p []byte) int {
	n := 0
	var x [16]uint32
	var alpha, beta uint32
	for len(p) >= BlockSize {
		a, b, c, d, e := md.s[0], md.s[1], md.s[2], md.s[3], md.s[4]
		aa, bb, cc, dd, ee := a, b, c, d, e
		j := 0
		for i := 0; i < 16; i++ {
			x[i] = uint32(p[j]) | uint32(p[j+1])<<8 | uint32(p[j+2])<<16 | uint32(p[j+3])<<24
			j += 4
		}

		// round 1
		i := 0
		for i < 16 {
			alpha = a + (b ^ c ^ d) + x[_n[i]]
			s := _r[i]
			alpha = (alpha<<s | alpha>>(32-s)) + e
			beta = c<<10 | c>>22
			a, b, c, d, e = e, alpha, b, beta, d

			// parallel line
			alpha = aa + (bb ^ (cc | ^dd)) + x[n_[i]] + 0x50a28be6
			s = r_[i]
			alpha = (alpha<<s | alpha>>(32-s)) + ee
			beta = cc<<10 | cc>>22
			aa, bb, cc, dd, ee = ee, alpha, bb, beta, dd

			i++
		}

		// round 2
		for i < 32 {
			alpha = a + (b&c | ^b&d) + x[_n[i]] + 0x5a827999
			s := _r[i]
			alpha = (alpha<<s | alpha>>(32-s)) + e
			beta = c<<10 | c>>22
			a, b, c, d, e = e, alpha, b, beta, d

			// parallel line
			alpha = aa + (bb&dd | cc&^dd) + x[n_[i]] + 0x5c4dd124
			s = r_[i]
			alpha = (alpha<<s | alpha>>(32-s)) + ee
			beta = cc<<10 | cc>>22
			aa, bb, cc, dd, ee = ee, alpha, bb, beta, dd

			i++
		}

		// round 3
		for i < 48 {
			alpha = a + (b | ^c ^ d) + x[_n[i]] + 0x6ed9eba1
			s := _r[i]
			alpha = (alpha<<s | alpha>>(32-s)) + e
			beta = c<<10 | c>>22
			a, b, c, d, e = e, alpha, b, beta, d

			// parallel line
			alpha = aa + (bb | ^cc ^ dd) + x[n_[i]] + 0x6d703ef3
			s = r_[i]
			alpha = (alpha<<s | alpha>>(32-s)) + ee
			beta = cc<<10 | cc>>22
			aa, bb, cc, dd, ee = ee, alpha, bb, beta, dd

			i++
		}

		// round 4
		for i < 64 {
			alpha = a + (b&d | c&^d) + x[_n[i]] + 0x8f1bbcdc
			s := _r[i]
			alpha = (alpha<<s | alpha>>(32-s)) + e
			beta = c<<10 | c>>22
			a, b, c, d, e = e, alpha, b, beta, d

			// parallel line
			alpha = aa + (bb&cc | ^bb&dd) + x[n_[i]] + 0x7a6d76e9
			s = r_[i]
			alpha = (alpha<<s | alpha>>(32-s)) + ee
			beta = cc<<10 | cc>>22
			aa, bb, cc, dd, ee = ee, alpha, bb, beta, dd

			i++
		}

		// round 5
		for i < 80 {
			alpha = a + (b ^ (c | ^d)) + x[_n[i]] + 0xa953fd4e
			s := _r[i]
			alpha = (alpha<<s | alpha>>(32-s)) + e
			beta = c<<10 | c>>22
			a, b, c, d, e = e, alpha, b, beta, d

			// parallel line
			alpha = aa + (bb ^ cc ^ dd) + x[n_[i]]
			s = r_[i]
			alpha = (alpha<<s | alpha>>(32-s)) + ee
			beta = cc<<10 | cc>>22
			aa, bb, cc, dd, ee = ee, alpha, bb, beta, dd

			i++
		}

		// combine results
		dd += c + md.s[1]
		md.s[1] = md.s[2] + d + ee
		md.s[2] = md.s[3] + e + aa
		md.s[3] = md.s[4] + a + bb
		md.s[4] = md.s[0] + b + cc
		md.s[0] = dd

		p = p[BlockSize:]
		n += BlockSize
	}
	return n
}
