// Copyright 2014 The Go Authors. All rights reserved.
// Use of this source code is governed by a BSD-style
// license that can be found in the LICENSE file.

package sha3

// spongeDirection indicates the direction bytes are flowing through the sponge.
type spongeDirection int

const (
	// spongeAbsorbing indicates that the sponge is absorbing input.
	spongeAbsorbing spongeDirection = iota
	// spongeSqueezing indicates that the sponge is being squeezed.
	spongeSqueezing
)

const (
	// maxRate is the maximum size of the internal buffer. SHAKE-256
	// currently needs the largest buffer.
	maxRate = 168
)

type state struct {
	// Generic sponge components.
	a    [25]uint64 // main state of the hash
	buf  []byte     // points into storage
	rate int        // the number of bytes of state to use

	// dsbyte contains the "domain separation" bits and the first bit of
	// the padding. Sections 6.1 and 6.2 of [1] separate the outputs of the
	// SHA-3 and SHAKE functions by appending bitstrings to the message.
	// Using a little-endian bit-ordering convention, these are "01" for SHA-3
	// and "1111" for SHAKE, or 00000010b and 00001111b, respectively. Then the
	// padding rule from section 5.1 is applied to pad the message to a multiple
	// of the rate, which involves adding a "1" bit, zero or more "0" bits, and
	// a final "1" bit. We merge the first "1" bit from the padding into dsbyte,
	// giving 00000110b (0x06) and 00011111b (0x1f).
	// [1] http://csrc.nist.gov/publications/drafts/fips-202/fips_202_draft.pdf
	//     "Draft FIPS 202: SHA-3 Standard: Permutation-Based Hash and
	//      Extendable-Output Functions (May 2014)"
	dsbyte  byte
	storage [maxRate]byte

	// Specific to SHA-3 and SHAKE.
	fixedOutput bool            // whether this is a fixed-output-length instance
	outputLen   int             // the default output size in bytes
	state       spongeDirection // whether the sponge is absorbing or squeezing
}

// BlockSize returns the rate of sponge underlying this hash function.
func (d *state) BlockSize() int { return d.rate }

// Size returns the output size of the hash function in bytes.
func (d *state) Size() int { return d.outputLen }

// Reset clears the internal state by zeroing the sponge state and
// the byte buffer, and setting Sponge.state to absorbing.
func (d *state) Reset() {
	// Zero the permutation's state.
	for i := range d.a {
		d.a[i] = 0
	}
	d.state = spongeAbsorbing
	d.buf = d.storage[:0]
}

func (d *state) clone() *state {
	ret := *d
	if ret.state == spongeAbsorbing {
		ret.buf = ret.storage[:len(ret.buf)]
	} else {
		ret.buf = ret.storage[d.rate-cap(d.buf) : d.rate]
	}

	return &ret
}

// permute applies the KeccakF-1600 permutation. It handles
// any input-output buffering.
func (d *state) permute() {
	switch d.state {
	case spongeAbsorbing:
		// If we're absorbing, we need to xor the input into the state
		// before applying the permutation.
		xorIn(d, d.buf)
		d.buf = d.storage[:0]
		keccakF1600(&d.a)
	case spongeSqueezing:
		// If we're squeezing, we need to apply the permutatin before
		// copying more output.
		keccakF1600(&d.a)
		d.buf = d.storage[:d.rate]
		copyOut(d, d.buf)
	}
}

// pads appends the domain separation bits in dsbyte, applies
// the multi-bitrate 10..1 padding rule, and permutes the state.
func (d *state) padAndPermute(dsbyte byte) {
	if d.buf == nil {
		d.buf = d.storage[:0]
	}
	// Pad with this instance's domain-separator bits. We know that there's
	// at least one byte of space in d.buf because, if it were full,
	// permute would have been called to empty it. dsbyte also contains the
	// first one bit for the padding. See the comment in the state struct.
	d.buf = append(d.buf, dsbyte)
	zerosStart := len(d.buf)
	d.buf = d.storage[:d.rate]
	for i := zerosStart; i < d.rate; i++ {
		d.buf[i] = 0
	}
	// This adds the final one bit for the padding. Because of the way that
	// bits are numbered from the LSB upwards, the final bit is the MSB of
	// the last byte.
	d.buf[d.rate-1] ^= 0x80
	// Apply the permutation
	d.permute()
	d.state = spongeSqueezing
	d.buf = d.storage[:d.rate]
	copyOut(d, d.buf)
}

// Write absorbs more data into the hash's state. It produces an error
// if more data is written to the ShakeHash after writing
func (d *state) Write(p []byte) (written int, err error) {
	if d.state != spongeAbsorbing {
		panic("sha3: write to sponge after read")
	}
	if d.buf == nil {
		d.buf = d.storage[:0]
	}
	written = len(p)

	for len(p) > 0 {
		if len(d.buf) == 0 && len(p) >= d.rate {
			// The fast path; absorb a full "rate" bytes of input and apply the permutation.
			xorIn(d, p[:d.rate])
			p = p[d.rate:]
			keccakF1600(&d.a)
		} else {
			// The slow path; buffer the input until we can fill the sponge, and then xor it in.
			todo := d.rate - len(d.buf)
			if todo > len(p) {
				todo = len(p)
			}
			d.buf = append(d.buf, p[:todo]...)
			p = p[todo:]

			// If the sponge is full, apply the permutation.
			if len(d.buf) == d.rate {
				d.permute()
			}
		}
	}

	return
}

// Read squeezes an arbitrary number of bytes from the sponge.
func (d *state) Read(out []byte) (n int, err error) {
	// If we're still absorbing, pad and apply the permutation.
	if d.state == spongeAbsorbing {
		d.padAndPermute(d.dsbyte)
	}

	n = len(out)

	// Now, do the squeezing.
	for len(out) > 0 {
		n := copy(out, d.buf)
		d.buf = d.buf[n:]
		out = out[n:]

		// Apply the permutation if we've squeezed the sponge dry.
		if len(d.buf) == 0 {
			d.permute()
		}
	}

	return
}

// Sum applies padding to the hash state and then squeezes out the desired
// number of output bytes.
func (d *state) Sum(in []byte) []byte {
	// Make a copy of the original hash so that caller can keep writing
	// and summing.
	dup := d.clone()
	hash := make([]byte, dup.outputLen)
	dup.Read(hash)
	return append(in, hash...)
}
