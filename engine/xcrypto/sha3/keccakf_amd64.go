// Copyright 2015 The Go Authors. All rights reserved.
// Use of this source code is governed by a BSD-style
// license that can be found in the LICENSE file.

// +build amd64,!appengine,!gccgo

package sha3

// This function is implemented in keccakf_amd64.s.

//go:noescape

func keccakF1600(a *[25]uint64)
