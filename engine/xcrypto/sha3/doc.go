// Copyright 2014 The Go Authors. All rights reserved.
// Use of this source code is governed by a BSD-style
// license that can be found in the LICENSE file.

// Package sha3 implements the SHA-3 fixed-output-length hash functions and
// the SHAKE variable-output-length hash functions defined by FIPS-202.
//
// Both types of hash function use the "sponge" construction and the Keccak
// permutation. For a detailed specification see http://keccak.noekeon.org/
//
//
// Guidance
//
// If you aren't sure what function you need, use SHAKE256 with at least 64
// bytes of output. The SHAKE instances are faster than the SHA3 instances;
// the latter have to allocate memory to conform to the hash.Hash interface.
//
// If you need a secret-key MAC (message authentication code), prepend the
// secret key to the input, hash with SHAKE256 and read at least 32 bytes of
// output.
//
//
// Security strengths
//
// The SHA3-x (x equals 224, 256, 384, or 512) functions have a security
// strength against preimage attacks of x bits. Since they only produce "x"
// bits of output, their collision-resistance is only "x/2" bits.
//
// The SHAKE-256 and -128 functions have a generic security strength of 256 and
// 128 bits against all attacks, provided that at least 2x bits of their output
// is used.  Requesting more than 64 or 32 bytes of output, respectively, does
// not increase the collision-resistance of the SHAKE functions.
//
//
// The sponge construction
//
// A sponge builds a pseudo-random function from a public pseudo-random
// permutation, by applying the permutation to a state of "rate + capacity"
// bytes, but hiding "capacity" of the bytes.
//
// A sponge starts out with a zero state. To hash an input using a sponge, up
// to "rate" bytes of the input are XORed into the sponge's state. The sponge
// is then "full" and the permutation is applied to "empty" it. This process is
// repeated until all the input has been "absorbed". The input is then padded.
// The digest is "squeezed" from the sponge in the same way, except that output
// output is copied out instead of input being XORed in.
//
// A sponge is parameterized by its generic security strength, which is equal
// to half its capacity; capacity + rate is equal to the permutation's width.
// Since the KeccakF-1600 permutation is 1600 bits (200 bytes) wide, this means
// that the security strength of a sponge instance is equal to (1600 - bitrate) / 2.
//
//
// Recommendations
//
// The SHAKE functions are recommended for most new uses. They can produce
// output of arbitrary length. SHAKE256, with an output length of at least
// 64 bytes, provides 256-bit security against all attacks.  The Keccak team
// recommends it for most applications upgrading from SHA2-512. (NIST chose a
// much stronger, but much slower, sponge instance for SHA3-512.)
//
// The SHA-3 functions are "drop-in" replacements for the SHA-2 functions.
// They produce output of the same length, with the same security strengths
// against all attacks. This means, in particular, that SHA3-256 only has
// 128-bit collision resistance, because its output length is 32 bytes.
package sha3
