// Copyright 2015 The Go Authors. All rights reserved.
// Use of this source code is governed by a BSD-style
// license that can be found in the LICENSE file.

package sha3

import "encoding/binary"

// xorInGeneric xors the bytes in buf into the state; it
// makes no non-portable assumptions about memory layout
// or alignment.
func xorInGeneric(d *state, buf []byte) {
	n := len(buf) / 8

	for i := 0; i < n; i++ {
		a := binary.LittleEndian.Uint64(buf)
		d.a[i] ^= a
		buf = buf[8:]
	}
}

// copyOutGeneric copies ulint64s to a byte buffer.
func copyOutGeneric(d *state, b []byte) {
	for i := 0; len(b) >= 8; i++ {
		binary.LittleEndian.PutUint64(b, d.a[i])
		b = b[8:]
	}
}
