// Copyright 2015 The Go Authors. All rights reserved.
// Use of this source code is governed by a BSD-style
// license that can be found in the LICENSE file.

// +build amd64,!appengine,!gccgo

// This code was translated into a form compatible with 6a from the public
// domain sources at https://github.com/gvanas/KeccakCodePackage

// Offsets in state
#define _ba  (0*8)
#define _be  (1*8)
#define _bi  (2*8)
#define _bo  (3*8)
#define _bu  (4*8)
#define _ga  (5*8)
#define _ge  (6*8)
#define _gi  (7*8)
#define _go  (8*8)
#define _gu  (9*8)
#define _ka (10*8)
#define _ke (11*8)
#define _ki (12*8)
#define _ko (13*8)
#define _ku (14*8)
#define _ma (15*8)
#define _me (16*8)
#define _mi (17*8)
#define _mo (18*8)
#define _mu (19*8)
#define _sa (20*8)
#define _se (21*8)
#define _si (22*8)
#define _so (23*8)
#define _su (24*8)

// Temporary registers
#define rT1  AX

// Round vars
#define rpState DI
#define rpStack SP

#define rDa BX
#define rDe CX
#define rDi DX
#define rDo R8
#define rDu R9

#define rBa R10
#define rBe R11
#define rBi R12
#define rBo R13
#define rBu R14

#define rCa SI
#define rCe BP
#define rCi rBi
#define rCo rBo
#define rCu R15

#define MOVQ_RBI_RCE MOVQ rBi, rCe
#define XORQ_RT1_RCA XORQ rT1, rCa
#define XORQ_RT1_RCE XORQ rT1, rCe
#define XORQ_RBA_RCU XORQ rBa, rCu
#define XORQ_RBE_RCU XORQ rBe, rCu
#define XORQ_RDU_RCU XORQ rDu, rCu
#define XORQ_RDA_RCA XORQ rDa, rCa
#define XORQ_RDE_RCE XORQ rDe, rCe

#define mKeccakRound(iState, oState, rc, B_RBI_RCE, G_RT1_RCA, G_RT1_RCE, G_RBA_RCU, K_RT1_RCA, K_RT1_RCE, K_RBA_RCU, M_RT1_RCA, M_RT1_RCE, M_RBE_RCU, S_RDU_RCU, S_RDA_RCA, S_RDE_RCE) \
	/* Prepare round */    \
	MOVQ rCe, rDa;         \
	ROLQ $1, rDa;          \
	                       \
	MOVQ _bi(iState), rCi; \
	XORQ _gi(iState), rDi; \
	XORQ rCu, rDa;         \
	XORQ _ki(iState), rCi; \
	XORQ _mi(iState), rDi; \
	XORQ rDi, rCi;         \
	                       \
	MOVQ rCi, rDe;         \
	ROLQ $1, rDe;          \
	                       \
	MOVQ _bo(iState), rCo; \
	XORQ _go(iState), rDo; \
	XORQ rCa, rDe;         \
	XORQ _ko(iState), rCo; \
	XORQ _mo(iState), rDo; \
	XORQ rDo, rCo;         \
	                       \
	MOVQ rCo, rDi;         \
	ROLQ $1, rDi;          \
	                       \
	MOVQ rCu, rDo;         \
	XORQ rCe, rDi;         \
	ROLQ $1, rDo;          \
	                       \
	MOVQ rCa, rDu;         \
	XORQ rCi, rDo;         \
	ROLQ $1, rDu;          \
	                       \
	/* Result b */         \
	MOVQ _ba(iState), rBa; \
	MOVQ _ge(iState), rBe; \
	XORQ rCo, rDu;         \
	MOVQ _ki(iState), rBi; \
	MOVQ _mo(iState), rBo; \
	MOVQ _su(iState), rBu; \
	XORQ rDe, rBe;         \
	ROLQ $44, rBe;         \
	XORQ rDi, rBi;         \
	XORQ rDa, rBa;         \
	ROLQ $43, rBi;         \
	                       \
	MOVQ rBe, rCa;         \
	MOVQ rc, rT1;          \
	ORQ  rBi, rCa;         \
	XORQ rBa, rT1;         \
	XORQ rT1, rCa;         \
	MOVQ rCa, _ba(oState); \
	                       \
	XORQ rDu, rBu;         \
	ROLQ $14, rBu;         \
	MOVQ rBa, rCu;         \
	ANDQ rBe, rCu;         \
	XORQ rBu, rCu;         \
	MOVQ rCu, _bu(oState); \
	                       \
	XORQ rDo, rBo;         \
	ROLQ $21, rBo;         \
	MOVQ rBo, rT1;         \
	ANDQ rBu, rT1;         \
	XORQ rBi, rT1;         \
	MOVQ rT1, _bi(oState); \
	                       \
	NOTQ rBi;              \
	ORQ  rBa, rBu;         \
	ORQ  rBo, rBi;         \
	XORQ rBo, rBu;         \
	XORQ rBe, rBi;         \
	MOVQ rBu, _bo(oState); \
	MOVQ rBi, _be(oState); \
	B_RBI_RCE;             \
	                       \
	/* Result g */         \
	MOVQ _gu(iState), rBe; \
	XORQ rDu, rBe;         \
	MOVQ _ka(iState), rBi; \
	ROLQ $20, rBe;         \
	XORQ rDa, rBi;         \
	ROLQ $3, rBi;          \
	MOVQ _bo(iState), rBa; \
	MOVQ rBe, rT1;         \
	ORQ  rBi, rT1;         \
	XORQ rDo, rBa;         \
	MOVQ _me(iState), rBo; \
	MOVQ _si(iState), rBu; \
	ROLQ $28, rBa;         \
	XORQ rBa, rT1;         \
	MOVQ rT1, _ga(oState); \
	G_RT1_RCA;             \
	                       \
	XORQ rDe, rBo;         \
	ROLQ $45, rBo;         \
	MOVQ rBi, rT1;         \
	ANDQ rBo, rT1;         \
	XORQ rBe, rT1;         \
	MOVQ rT1, _ge(oState); \
	G_RT1_RCE;             \
	                       \
	XORQ rDi, rBu;         \
	ROLQ $61, rBu;         \
	MOVQ rBu, rT1;         \
	ORQ  rBa, rT1;         \
	XORQ rBo, rT1;         \
	MOVQ rT1, _go(oState); \
	                       \
	ANDQ rBe, rBa;         \
	XORQ rBu, rBa;         \
	MOVQ rBa, _gu(oState); \
	NOTQ rBu;              \
	G_RBA_RCU;             \
	                       \
	ORQ  rBu, rBo;         \
	XORQ rBi, rBo;         \
	MOVQ rBo, _gi(oState); \
	                       \
	/* Result k */         \
	MOVQ _be(iState), rBa; \
	MOVQ _gi(iState), rBe; \
	MOVQ _ko(iState), rBi; \
	MOVQ _mu(iState), rBo; \
	MOVQ _sa(iState), rBu; \
	XORQ rDi, rBe;         \
	ROLQ $6, rBe;          \
	XORQ rDo, rBi;         \
	ROLQ $25, rBi;         \
	MOVQ rBe, rT1;         \
	ORQ  rBi, rT1;         \
	XORQ rDe, rBa;         \
	ROLQ $1, rBa;          \
	XORQ rBa, rT1;         \
	MOVQ rT1, _ka(oState); \
	K_RT1_RCA;             \
	                       \
	XORQ rDu, rBo;         \
	ROLQ $8, rBo;          \
	MOVQ rBi, rT1;         \
	ANDQ rBo, rT1;         \
	XORQ rBe, rT1;         \
	MOVQ rT1, _ke(oState); \
	K_RT1_RCE;             \
	                       \
	XORQ rDa, rBu;         \
	ROLQ $18, rBu;         \
	NOTQ rBo;              \
	MOVQ rBo, rT1;         \
	ANDQ rBu, rT1;         \
	XORQ rBi, rT1;         \
	MOVQ rT1, _ki(oState); \
	                       \
	MOVQ rBu, rT1;         \
	ORQ  rBa, rT1;         \
	XORQ rBo, rT1;         \
	MOVQ rT1, _ko(oState); \
	                       \
	ANDQ rBe, rBa;         \
	XORQ rBu, rBa;         \
	MOVQ rBa, _ku(oState); \
	K_RBA_RCU;             \
	                       \
	/* Result m */         \
	MOVQ _ga(iState), rBe; \
	XORQ rDa, rBe;         \
	MOVQ _ke(iState), rBi; \
	ROLQ $36, rBe;         \
	XORQ rDe, rBi;         \
	MOVQ _bu(iState), rBa; \
	ROLQ $10, rBi;         \
	MOVQ rBe, rT1;         \
	MOVQ _mi(iState), rBo; \
	ANDQ rBi, rT1;         \
	XORQ rDu, rBa;         \
	MOVQ _so(iState), rBu; \
	ROLQ $27, rBa;         \
	XORQ rBa, rT1;         \
	MOVQ rT1, _ma(oState); \
	M_RT1_RCA;             \
	                       \
	XORQ rDi, rBo;         \
	ROLQ $15, rBo;         \
	MOVQ rBi, rT1;         \
	ORQ  rBo, rT1;         \
	XORQ rBe, rT1;         \
	MOVQ rT1, _me(oState); \
	M_RT1_RCE;             \
	                       \
	XORQ rDo, rBu;         \
	ROLQ $56, rBu;         \
	NOTQ rBo;              \
	MOVQ rBo, rT1;         \
	ORQ  rBu, rT1;         \
	XORQ rBi, rT1;         \
	MOVQ rT1, _mi(oState); \
	                       \
	ORQ  rBa, rBe;         \
	XORQ rBu, rBe;         \
	MOVQ rBe, _mu(oState); \
	                       \
	ANDQ rBa, rBu;         \
	XORQ rBo, rBu;         \
	MOVQ rBu, _mo(oState); \
	M_RBE_RCU;             \
	                       \
	/* Result s */         \
	MOVQ _bi(iState), rBa; \
	MOVQ _go(iState), rBe; \
	MOVQ _ku(iState), rBi; \
	XORQ rDi, rBa;         \
	MOVQ _ma(iState), rBo; \
	ROLQ $62, rBa;         \
	XORQ rDo, rBe;         \
	MOVQ _se(iState), rBu; \
	ROLQ $55, rBe;         \
	                       \
	XORQ rDu, rBi;         \
	MOVQ rBa, rDu;         \
	XORQ rDe, rBu;         \
	ROLQ $2, rBu;          \
	ANDQ rBe, rDu;         \
	XORQ rBu, rDu;         \
	MOVQ rDu, _su(oState); \
	                       \
	ROLQ $39, rBi;         \
	S_RDU_RCU;             \
	NOTQ rBe;              \
	XORQ rDa, rBo;         \
	MOVQ rBe, rDa;         \
	ANDQ rBi, rDa;         \
	XORQ rBa, rDa;         \
	MOVQ rDa, _sa(oState); \
	S_RDA_RCA;             \
	                       \
	ROLQ $41, rBo;         \
	MOVQ rBi, rDe;         \
	ORQ  rBo, rDe;         \
	XORQ rBe, rDe;         \
	MOVQ rDe, _se(oState); \
	S_RDE_RCE;             \
	                       \
	MOVQ rBo, rDi;         \
	MOVQ rBu, rDo;         \
	ANDQ rBu, rDi;         \
	ORQ  rBa, rDo;         \
	XORQ rBi, rDi;         \
	XORQ rBo, rDo;         \
	MOVQ rDi, _si(oState); \
	MOVQ rDo, _so(oState)  \

// func keccakF1600(state *[25]uint64)
TEXT ·keccakF1600(SB), 0, $200-8
	MOVQ state+0(FP), rpState

	// Convert the user state into an internal state
	NOTQ _be(rpState)
	NOTQ _bi(rpState)
	NOTQ _go(rpState)
	NOTQ _ki(rpState)
	NOTQ _mi(rpState)
	NOTQ _sa(rpState)

	// Execute the KeccakF permutation
	MOVQ _ba(rpState), rCa
	MOVQ _be(rpState), rCe
	MOVQ _bu(rpState), rCu

	XORQ _ga(rpState), rCa
	XORQ _ge(rpState), rCe
	XORQ _gu(rpState), rCu

	XORQ _ka(rpState), rCa
	XORQ _ke(rpState), rCe
	XORQ _ku(rpState), rCu

	XORQ _ma(rpState), rCa
	XORQ _me(rpState), rCe
	XORQ _mu(rpState), rCu

	XORQ _sa(rpState), rCa
	XORQ _se(rpState), rCe
	MOVQ _si(rpState), rDi
	MOVQ _so(rpState), rDo
	XORQ _su(rpState), rCu

	mKeccakRound(rpState, rpStack, $0x0000000000000001, MOVQ_RBI_RCE, XORQ_RT1_RCA, XORQ_RT1_RCE, XORQ_RBA_RCU, XORQ_RT1_RCA, XORQ_RT1_RCE, XORQ_RBA_RCU, XORQ_RT1_RCA, XORQ_RT1_RCE, XORQ_RBE_RCU, XORQ_RDU_RCU, XORQ_RDA_RCA, XORQ_RDE_RCE)
	mKeccakRound(rpStack, rpState, $0x0000000000008082, MOVQ_RBI_RCE, XORQ_RT1_RCA, XORQ_RT1_RCE, XORQ_RBA_RCU, XORQ_RT1_RCA, XORQ_RT1_RCE, XORQ_RBA_RCU, XORQ_RT1_RCA, XORQ_RT1_RCE, XORQ_RBE_RCU, XORQ_RDU_RCU, XORQ_RDA_RCA, XORQ_RDE_RCE)
	mKeccakRound(rpState, rpStack, $0x800000000000808a, MOVQ_RBI_RCE, XORQ_RT1_RCA, XORQ_RT1_RCE, XORQ_RBA_RCU, XORQ_RT1_RCA, XORQ_RT1_RCE, XORQ_RBA_RCU, XORQ_RT1_RCA, XORQ_RT1_RCE, XORQ_RBE_RCU, XORQ_RDU_RCU, XORQ_RDA_RCA, XORQ_RDE_RCE)
	mKeccakRound(rpStack, rpState, $0x8000000080008000, MOVQ_RBI_RCE, XORQ_RT1_RCA, XORQ_RT1_RCE, XORQ_RBA_RCU, XORQ_RT1_RCA, XORQ_RT1_RCE, XORQ_RBA_RCU, XORQ_RT1_RCA, XORQ_RT1_RCE, XORQ_RBE_RCU, XORQ_RDU_RCU, XORQ_RDA_RCA, XORQ_RDE_RCE)
	mKeccakRound(rpState, rpStack, $0x000000000000808b, MOVQ_RBI_RCE, XORQ_RT1_RCA, XORQ_RT1_RCE, XORQ_RBA_RCU, XORQ_RT1_RCA, XORQ_RT1_RCE, XORQ_RBA_RCU, XORQ_RT1_RCA, XORQ_RT1_RCE, XORQ_RBE_RCU, XORQ_RDU_RCU, XORQ_RDA_RCA, XORQ_RDE_RCE)
	mKeccakRound(rpStack, rpState, $0x0000000080000001, MOVQ_RBI_RCE, XORQ_RT1_RCA, XORQ_RT1_RCE, XORQ_RBA_RCU, XORQ_RT1_RCA, XORQ_RT1_RCE, XORQ_RBA_RCU, XORQ_RT1_RCA, XORQ_RT1_RCE, XORQ_RBE_RCU, XORQ_RDU_RCU, XORQ_RDA_RCA, XORQ_RDE_RCE)
	mKeccakRound(rpState, rpStack, $0x8000000080008081, MOVQ_RBI_RCE, XORQ_RT1_RCA, XORQ_RT1_RCE, XORQ_RBA_RCU, XORQ_RT1_RCA, XORQ_RT1_RCE, XORQ_RBA_RCU, XORQ_RT1_RCA, XORQ_RT1_RCE, XORQ_RBE_RCU, XORQ_RDU_RCU, XORQ_RDA_RCA, XORQ_RDE_RCE)
	mKeccakRound(rpStack, rpState, $0x8000000000008009, MOVQ_RBI_RCE, XORQ_RT1_RCA, XORQ_RT1_RCE, XORQ_RBA_RCU, XORQ_RT1_RCA, XORQ_RT1_RCE, XORQ_RBA_RCU, XORQ_RT1_RCA, XORQ_RT1_RCE, XORQ_RBE_RCU, XORQ_RDU_RCU, XORQ_RDA_RCA, XORQ_RDE_RCE)
	mKeccakRound(rpState, rpStack, $0x000000000000008a, MOVQ_RBI_RCE, XORQ_RT1_RCA, XORQ_RT1_RCE, XORQ_RBA_RCU, XORQ_RT1_RCA, XORQ_RT1_RCE, XORQ_RBA_RCU, XORQ_RT1_RCA, XORQ_RT1_RCE, XORQ_RBE_RCU, XORQ_RDU_RCU, XORQ_RDA_RCA, XORQ_RDE_RCE)
	mKeccakRound(rpStack, rpState, $0x0000000000000088, MOVQ_RBI_RCE, XORQ_RT1_RCA, XORQ_RT1_RCE, XORQ_RBA_RCU, XORQ_RT1_RCA, XORQ_RT1_RCE, XORQ_RBA_RCU, XORQ_RT1_RCA, XORQ_RT1_RCE, XORQ_RBE_RCU, XORQ_RDU_RCU, XORQ_RDA_RCA, XORQ_RDE_RCE)
	mKeccakRound(rpState, rpStack, $0x0000000080008009, MOVQ_RBI_RCE, XORQ_RT1_RCA, XORQ_RT1_RCE, XORQ_RBA_RCU, XORQ_RT1_RCA, XORQ_RT1_RCE, XORQ_RBA_RCU, XORQ_RT1_RCA, XORQ_RT1_RCE, XORQ_RBE_RCU, XORQ_RDU_RCU, XORQ_RDA_RCA, XORQ_RDE_RCE)
	mKeccakRound(rpStack, rpState, $0x000000008000000a, MOVQ_RBI_RCE, XORQ_RT1_RCA, XORQ_RT1_RCE, XORQ_RBA_RCU, XORQ_RT1_RCA, XORQ_RT1_RCE, XORQ_RBA_RCU, XORQ_RT1_RCA, XORQ_RT1_RCE, XORQ_RBE_RCU, XORQ_RDU_RCU, XORQ_RDA_RCA, XORQ_RDE_RCE)
	mKeccakRound(rpState, rpStack, $0x000000008000808b, MOVQ_RBI_RCE, XORQ_RT1_RCA, XORQ_RT1_RCE, XORQ_RBA_RCU, XORQ_RT1_RCA, XORQ_RT1_RCE, XORQ_RBA_RCU, XORQ_RT1_RCA, XORQ_RT1_RCE, XORQ_RBE_RCU, XORQ_RDU_RCU, XORQ_RDA_RCA, XORQ_RDE_RCE)
	mKeccakRound(rpStack, rpState, $0x800000000000008b, MOVQ_RBI_RCE, XORQ_RT1_RCA, XORQ_RT1_RCE, XORQ_RBA_RCU, XORQ_RT1_RCA, XORQ_RT1_RCE, XORQ_RBA_RCU, XORQ_RT1_RCA, XORQ_RT1_RCE, XORQ_RBE_RCU, XORQ_RDU_RCU, XORQ_RDA_RCA, XORQ_RDE_RCE)
	mKeccakRound(rpState, rpStack, $0x8000000000008089, MOVQ_RBI_RCE, XORQ_RT1_RCA, XORQ_RT1_RCE, XORQ_RBA_RCU, XORQ_RT1_RCA, XORQ_RT1_RCE, XORQ_RBA_RCU, XORQ_RT1_RCA, XORQ_RT1_RCE, XORQ_RBE_RCU, XORQ_RDU_RCU, XORQ_RDA_RCA, XORQ_RDE_RCE)
	mKeccakRound(rpStack, rpState, $0x8000000000008003, MOVQ_RBI_RCE, XORQ_RT1_RCA, XORQ_RT1_RCE, XORQ_RBA_RCU, XORQ_RT1_RCA, XORQ_RT1_RCE, XORQ_RBA_RCU, XORQ_RT1_RCA, XORQ_RT1_RCE, XORQ_RBE_RCU, XORQ_RDU_RCU, XORQ_RDA_RCA, XORQ_RDE_RCE)
	mKeccakRound(rpState, rpStack, $0x8000000000008002, MOVQ_RBI_RCE, XORQ_RT1_RCA, XORQ_RT1_RCE, XORQ_RBA_RCU, XORQ_RT1_RCA, XORQ_RT1_RCE, XORQ_RBA_RCU, XORQ_RT1_RCA, XORQ_RT1_RCE, XORQ_RBE_RCU, XORQ_RDU_RCU, XORQ_RDA_RCA, XORQ_RDE_RCE)
	mKeccakRound(rpStack, rpState, $0x8000000000000080, MOVQ_RBI_RCE, XORQ_RT1_RCA, XORQ_RT1_RCE, XORQ_RBA_RCU, XORQ_RT1_RCA, XORQ_RT1_RCE, XORQ_RBA_RCU, XORQ_RT1_RCA, XORQ_RT1_RCE, XORQ_RBE_RCU, XORQ_RDU_RCU, XORQ_RDA_RCA, XORQ_RDE_RCE)
	mKeccakRound(rpState, rpStack, $0x000000000000800a, MOVQ_RBI_RCE, XORQ_RT1_RCA, XORQ_RT1_RCE, XORQ_RBA_RCU, XORQ_RT1_RCA, XORQ_RT1_RCE, XORQ_RBA_RCU, XORQ_RT1_RCA, XORQ_RT1_RCE, XORQ_RBE_RCU, XORQ_RDU_RCU, XORQ_RDA_RCA, XORQ_RDE_RCE)
	mKeccakRound(rpStack, rpState, $0x800000008000000a, MOVQ_RBI_RCE, XORQ_RT1_RCA, XORQ_RT1_RCE, XORQ_RBA_RCU, XORQ_RT1_RCA, XORQ_RT1_RCE, XORQ_RBA_RCU, XORQ_RT1_RCA, XORQ_RT1_RCE, XORQ_RBE_RCU, XORQ_RDU_RCU, XORQ_RDA_RCA, XORQ_RDE_RCE)
	mKeccakRound(rpState, rpStack, $0x8000000080008081, MOVQ_RBI_RCE, XORQ_RT1_RCA, XORQ_RT1_RCE, XORQ_RBA_RCU, XORQ_RT1_RCA, XORQ_RT1_RCE, XORQ_RBA_RCU, XORQ_RT1_RCA, XORQ_RT1_RCE, XORQ_RBE_RCU, XORQ_RDU_RCU, XORQ_RDA_RCA, XORQ_RDE_RCE)
	mKeccakRound(rpStack, rpState, $0x8000000000008080, MOVQ_RBI_RCE, XORQ_RT1_RCA, XORQ_RT1_RCE, XORQ_RBA_RCU, XORQ_RT1_RCA, XORQ_RT1_RCE, XORQ_RBA_RCU, XORQ_RT1_RCA, XORQ_RT1_RCE, XORQ_RBE_RCU, XORQ_RDU_RCU, XORQ_RDA_RCA, XORQ_RDE_RCE)
	mKeccakRound(rpState, rpStack, $0x0000000080000001, MOVQ_RBI_RCE, XORQ_RT1_RCA, XORQ_RT1_RCE, XORQ_RBA_RCU, XORQ_RT1_RCA, XORQ_RT1_RCE, XORQ_RBA_RCU, XORQ_RT1_RCA, XORQ_RT1_RCE, XORQ_RBE_RCU, XORQ_RDU_RCU, XORQ_RDA_RCA, XORQ_RDE_RCE)
	mKeccakRound(rpStack, rpState, $0x8000000080008008, NOP, NOP, NOP, NOP, NOP, NOP, NOP, NOP, NOP, NOP, NOP, NOP, NOP)

	// Revert the internal state to the user state
	NOTQ _be(rpState)
	NOTQ _bi(rpState)
	NOTQ _go(rpState)
	NOTQ _ki(rpState)
	NOTQ _mi(rpState)
	NOTQ _sa(rpState)

	RET
