// Copyright 2015 The Go Authors. All rights reserved.
// Use of this source code is governed by a BSD-style
// license that can be found in the LICENSE file.

// +build !amd64,!386,!ppc64le appengine

package sha3

var (
	xorIn            = xorInGeneric
	copyOut          = copyOutGeneric
	xorInUnaligned   = xorInGeneric
	copyOutUnaligned = copyOutGeneric
)

const xorImplementationUnaligned = "generic"
