// Copyright 2014 The Go Authors. All rights reserved.
// Use of this source code is governed by a BSD-style
// license that can be found in the LICENSE file.

package sha3

// This file provides functions for creating instances of the SHA-3
// and SHAKE hash functions, as well as utility functions for hashing
// bytes.

import (
	"hash"
)

// New224 creates a new SHA3-224 hash.
// Its generic security strength is 224 bits against preimage attacks,
// and 112 bits against collision attacks.
func New224() hash.Hash { return &state{rate: 144, outputLen: 28, dsbyte: 0x06} }

// New256 creates a new SHA3-256 hash.
// Its generic security strength is 256 bits against preimage attacks,
// and 128 bits against collision attacks.
func New256() hash.Hash { return &state{rate: 136, outputLen: 32, dsbyte: 0x06} }

// New384 creates a new SHA3-384 hash.
// Its generic security strength is 384 bits against preimage attacks,
// and 192 bits against collision attacks.
func New384() hash.Hash { return &state{rate: 104, outputLen: 48, dsbyte: 0x06} }

// New512 creates a new SHA3-512 hash.
// Its generic security strength is 512 bits against preimage attacks,
// and 256 bits against collision attacks.
func New512() hash.Hash { return &state{rate: 72, outputLen: 64, dsbyte: 0x06} }

// Sum224 returns the SHA3-224 digest of the data.
func Sum224(data []byte) (digest [28]byte) {
	h := New224()
	h.Write(data)
	h.Sum(digest[:0])
	return
}

// Sum256 returns the SHA3-256 digest of the data.
func Sum256(data []byte) (digest [32]byte) {
	h := New256()
	h.Write(data)
	h.Sum(digest[:0])
	return
}

// Sum384 returns the SHA3-384 digest of the data.
func Sum384(data []byte) (digest [48]byte) {
	h := New384()
	h.Write(data)
	h.Sum(digest[:0])
	return
}

// Sum512 returns the SHA3-512 digest of the data.
func Sum512(data []byte) (digest [64]byte) {
	h := New512()
	h.Write(data)
	h.Sum(digest[:0])
	return
}
