// Copyright 2015 The Go Authors. All rights reserved.
// Use of this source code is governed by a BSD-style
// license that can be found in the LICENSE file.

// +build amd64 386 ppc64le
// +build !appengine

package sha3

import "unsafe"

func xorInUnaligned(d *state, buf []byte) {
	bw := (*[maxRate / 8]uint64)(unsafe.Pointer(&buf[0]))
	n := len(buf)
	if n >= 72 {
		d.a[0] ^= bw[0]
		d.a[1] ^= bw[1]
		d.a[2] ^= bw[2]
		d.a[3] ^= bw[3]
		d.a[4] ^= bw[4]
		d.a[5] ^= bw[5]
		d.a[6] ^= bw[6]
		d.a[7] ^= bw[7]
		d.a[8] ^= bw[8]
	}
	if n >= 104 {
		d.a[9] ^= bw[9]
		d.a[10] ^= bw[10]
		d.a[11] ^= bw[11]
		d.a[12] ^= bw[12]
	}
	if n >= 136 {
		d.a[13] ^= bw[13]
		d.a[14] ^= bw[14]
		d.a[15] ^= bw[15]
		d.a[16] ^= bw[16]
	}
	if n >= 144 {
		d.a[17] ^= bw[17]
	}
	if n >= 168 {
		d.a[18] ^= bw[18]
		d.a[19] ^= bw[19]
		d.a[20] ^= bw[20]
	}
}

func copyOutUnaligned(d *state, buf []byte) {
	ab := (*[maxRate]uint8)(unsafe.Pointer(&d.a[0]))
	copy(buf, ab[:])
}

var (
	xorIn   = xorInUnaligned
	copyOut = copyOutUnaligned
)

const xorImplementationUnaligned = "unaligned"
