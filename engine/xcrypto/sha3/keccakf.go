// Copyright 2014 The Go Authors. All rights reserved.
// Use of this source code is governed by a BSD-style
// license that can be found in the LICENSE file.

//  +build !amd64 appengine gccgo

package sha3

// rc stores the round constants for use in the ι step.
var rc = [24]uint64{
	0x0000000000000001,
	0x0000000000008082,
	0x800000000000808A,
	0x8000000080008000,
	0x000000000000808B,
	0x0000000080000001,
	0x8000000080008081,
	0x8000000000008009,
	0x000000000000008A,
	0x0000000000000088,
	0x0000000080008009,
	0x000000008000000A,
	0x000000008000808B,
	0x800000000000008B,
	0x8000000000008089,
	0x8000000000008003,
	0x8000000000008002,
	0x8000000000000080,
	0x000000000000800A,
	0x800000008000000A,
	0x8000000080008081,
	0x8000000000008080,
	0x0000000080000001,
	0x8000000080008008,
}

// keccakF1600 applies the Keccak permutation to a 1600b-wide
// state represented as a slice of 25 uint64s.
func keccakF1600(a *[25]uint64) {
	// Implementation translated from Keccak-inplace.c
	// in the keccak reference code.
	var t, bc0, bc1, bc2, bc3, bc4, d0, d1, d2, d3, d4 uint64

	for i := 0; i < 24; i += 4 {
		// Combines the 5 steps in each round into 2 steps.
		// Unrolls 4 rounds per loop and spreads some steps across rounds.

		// Round 1
		bc0 = a[0] ^ a[5] ^ a[10] ^ a[15] ^ a[20]
		bc1 = a[1] ^ a[6] ^ a[11] ^ a[16] ^ a[21]
		bc2 = a[2] ^ a[7] ^ a[12] ^ a[17] ^ a[22]
		bc3 = a[3] ^ a[8] ^ a[13] ^ a[18] ^ a[23]
		bc4 = a[4] ^ a[9] ^ a[14] ^ a[19] ^ a[24]
		d0 = bc4 ^ (bc1<<1 | bc1>>63)
		d1 = bc0 ^ (bc2<<1 | bc2>>63)
		d2 = bc1 ^ (bc3<<1 | bc3>>63)
		d3 = bc2 ^ (bc4<<1 | bc4>>63)
		d4 = bc3 ^ (bc0<<1 | bc0>>63)

		bc0 = a[0] ^ d0
		t = a[6] ^ d1
		bc1 = t<<44 | t>>(64-44)
		t = a[12] ^ d2
		bc2 = t<<43 | t>>(64-43)
		t = a[18] ^ d3
		bc3 = t<<21 | t>>(64-21)
		t = a[24] ^ d4
		bc4 = t<<14 | t>>(64-14)
		a[0] = bc0 ^ (bc2 &^ bc1) ^ rc[i]
		a[6] = bc1 ^ (bc3 &^ bc2)
		a[12] = bc2 ^ (bc4 &^ bc3)
		a[18] = bc3 ^ (bc0 &^ bc4)
		a[24] = bc4 ^ (bc1 &^ bc0)

		t = a[10] ^ d0
		bc2 = t<<3 | t>>(64-3)
		t = a[16] ^ d1
		bc3 = t<<45 | t>>(64-45)
		t = a[22] ^ d2
		bc4 = t<<61 | t>>(64-61)
		t = a[3] ^ d3
		bc0 = t<<28 | t>>(64-28)
		t = a[9] ^ d4
		bc1 = t<<20 | t>>(64-20)
		a[10] = bc0 ^ (bc2 &^ bc1)
		a[16] = bc1 ^ (bc3 &^ bc2)
		a[22] = bc2 ^ (bc4 &^ bc3)
		a[3] = bc3 ^ (bc0 &^ bc4)
		a[9] = bc4 ^ (bc1 &^ bc0)

		t = a[20] ^ d0
		bc4 = t<<18 | t>>(64-18)
		t = a[1] ^ d1
		bc0 = t<<1 | t>>(64-1)
		t = a[7] ^ d2
		bc1 = t<<6 | t>>(64-6)
		t = a[13] ^ d3
		bc2 = t<<25 | t>>(64-25)
		t = a[19] ^ d4
		bc3 = t<<8 | t>>(64-8)
		a[20] = bc0 ^ (bc2 &^ bc1)
		a[1] = bc1 ^ (bc3 &^ bc2)
		a[7] = bc2 ^ (bc4 &^ bc3)
		a[13] = bc3 ^ (bc0 &^ bc4)
		a[19] = bc4 ^ (bc1 &^ bc0)

		t = a[5] ^ d0
		bc1 = t<<36 | t>>(64-36)
		t = a[11] ^ d1
		bc2 = t<<10 | t>>(64-10)
		t = a[17] ^ d2
		bc3 = t<<15 | t>>(64-15)
		t = a[23] ^ d3
		bc4 = t<<56 | t>>(64-56)
		t = a[4] ^ d4
		bc0 = t<<27 | t>>(64-27)
		a[5] = bc0 ^ (bc2 &^ bc1)
		a[11] = bc1 ^ (bc3 &^ bc2)
		a[17] = bc2 ^ (bc4 &^ bc3)
		a[23] = bc3 ^ (bc0 &^ bc4)
		a[4] = bc4 ^ (bc1 &^ bc0)

		t = a[15] ^ d0
		bc3 = t<<41 | t>>(64-41)
		t = a[21] ^ d1
		bc4 = t<<2 | t>>(64-2)
		t = a[2] ^ d2
		bc0 = t<<62 | t>>(64-62)
		t = a[8] ^ d3
		bc1 = t<<55 | t>>(64-55)
		t = a[14] ^ d4
		bc2 = t<<39 | t>>(64-39)
		a[15] = bc0 ^ (bc2 &^ bc1)
		a[21] = bc1 ^ (bc3 &^ bc2)
		a[2] = bc2 ^ (bc4 &^ bc3)
		a[8] = bc3 ^ (bc0 &^ bc4)
		a[14] = bc4 ^ (bc1 &^ bc0)

		// Round 2
		bc0 = a[0] ^ a[5] ^ a[10] ^ a[15] ^ a[20]
		bc1 = a[1] ^ a[6] ^ a[11] ^ a[16] ^ a[21]
		bc2 = a[2] ^ a[7] ^ a[12] ^ a[17] ^ a[22]
		bc3 = a[3] ^ a[8] ^ a[13] ^ a[18] ^ a[23]
		bc4 = a[4] ^ a[9] ^ a[14] ^ a[19] ^ a[24]
		d0 = bc4 ^ (bc1<<1 | bc1>>63)
		d1 = bc0 ^ (bc2<<1 | bc2>>63)
		d2 = bc1 ^ (bc3<<1 | bc3>>63)
		d3 = bc2 ^ (bc4<<1 | bc4>>63)
		d4 = bc3 ^ (bc0<<1 | bc0>>63)

		bc0 = a[0] ^ d0
		t = a[16] ^ d1
		bc1 = t<<44 | t>>(64-44)
		t = a[7] ^ d2
		bc2 = t<<43 | t>>(64-43)
		t = a[23] ^ d3
		bc3 = t<<21 | t>>(64-21)
		t = a[14] ^ d4
		bc4 = t<<14 | t>>(64-14)
		a[0] = bc0 ^ (bc2 &^ bc1) ^ rc[i+1]
		a[16] = bc1 ^ (bc3 &^ bc2)
		a[7] = bc2 ^ (bc4 &^ bc3)
		a[23] = bc3 ^ (bc0 &^ bc4)
		a[14] = bc4 ^ (bc1 &^ bc0)

		t = a[20] ^ d0
		bc2 = t<<3 | t>>(64-3)
		t = a[11] ^ d1
		bc3 = t<<45 | t>>(64-45)
		t = a[2] ^ d2
		bc4 = t<<61 | t>>(64-61)
		t = a[18] ^ d3
		bc0 = t<<28 | t>>(64-28)
		t = a[9] ^ d4
		bc1 = t<<20 | t>>(64-20)
		a[20] = bc0 ^ (bc2 &^ bc1)
		a[11] = bc1 ^ (bc3 &^ bc2)
		a[2] = bc2 ^ (bc4 &^ bc3)
		a[18] = bc3 ^ (bc0 &^ bc4)
		a[9] = bc4 ^ (bc1 &^ bc0)

		t = a[15] ^ d0
		bc4 = t<<18 | t>>(64-18)
		t = a[6] ^ d1
		bc0 = t<<1 | t>>(64-1)
		t = a[22] ^ d2
		bc1 = t<<6 | t>>(64-6)
		t = a[13] ^ d3
		bc2 = t<<25 | t>>(64-25)
		t = a[4] ^ d4
		bc3 = t<<8 | t>>(64-8)
		a[15] = bc0 ^ (bc2 &^ bc1)
		a[6] = bc1 ^ (bc3 &^ bc2)
		a[22] = bc2 ^ (bc4 &^ bc3)
		a[13] = bc3 ^ (bc0 &^ bc4)
		a[4] = bc4 ^ (bc1 &^ bc0)

		t = a[10] ^ d0
		bc1 = t<<36 | t>>(64-36)
		t = a[1] ^ d1
		bc2 = t<<10 | t>>(64-10)
		t = a[17] ^ d2
		bc3 = t<<15 | t>>(64-15)
		t = a[8] ^ d3
		bc4 = t<<56 | t>>(64-56)
		t = a[24] ^ d4
		bc0 = t<<27 | t>>(64-27)
		a[10] = bc0 ^ (bc2 &^ bc1)
		a[1] = bc1 ^ (bc3 &^ bc2)
		a[17] = bc2 ^ (bc4 &^ bc3)
		a[8] = bc3 ^ (bc0 &^ bc4)
		a[24] = bc4 ^ (bc1 &^ bc0)

		t = a[5] ^ d0
		bc3 = t<<41 | t>>(64-41)
		t = a[21] ^ d1
		bc4 = t<<2 | t>>(64-2)
		t = a[12] ^ d2
		bc0 = t<<62 | t>>(64-62)
		t = a[3] ^ d3
		bc1 = t<<55 | t>>(64-55)
		t = a[19] ^ d4
		bc2 = t<<39 | t>>(64-39)
		a[5] = bc0 ^ (bc2 &^ bc1)
		a[21] = bc1 ^ (bc3 &^ bc2)
		a[12] = bc2 ^ (bc4 &^ bc3)
		a[3] = bc3 ^ (bc0 &^ bc4)
		a[19] = bc4 ^ (bc1 &^ bc0)

		// Round 3
		bc0 = a[0] ^ a[5] ^ a[10] ^ a[15] ^ a[20]
		bc1 = a[1] ^ a[6] ^ a[11] ^ a[16] ^ a[21]
		bc2 = a[2] ^ a[7] ^ a[12] ^ a[17] ^ a[22]
		bc3 = a[3] ^ a[8] ^ a[13] ^ a[18] ^ a[23]
		bc4 = a[4] ^ a[9] ^ a[14] ^ a[19] ^ a[24]
		d0 = bc4 ^ (bc1<<1 | bc1>>63)
		d1 = bc0 ^ (bc2<<1 | bc2>>63)
		d2 = bc1 ^ (bc3<<1 | bc3>>63)
		d3 = bc2 ^ (bc4<<1 | bc4>>63)
		d4 = bc3 ^ (bc0<<1 | bc0>>63)

		bc0 = a[0] ^ d0
		t = a[11] ^ d1
		bc1 = t<<44 | t>>(64-44)
		t = a[22] ^ d2
		bc2 = t<<43 | t>>(64-43)
		t = a[8] ^ d3
		bc3 = t<<21 | t>>(64-21)
		t = a[19] ^ d4
		bc4 = t<<14 | t>>(64-14)
		a[0] = bc0 ^ (bc2 &^ bc1) ^ rc[i+2]
		a[11] = bc1 ^ (bc3 &^ bc2)
		a[22] = bc2 ^ (bc4 &^ bc3)
		a[8] = bc3 ^ (bc0 &^ bc4)
		a[19] = bc4 ^ (bc1 &^ bc0)

		t = a[15] ^ d0
		bc2 = t<<3 | t>>(64-3)
		t = a[1] ^ d1
		bc3 = t<<45 | t>>(64-45)
		t = a[12] ^ d2
		bc4 = t<<61 | t>>(64-61)
		t = a[23] ^ d3
		bc0 = t<<28 | t>>(64-28)
		t = a[9] ^ d4
		bc1 = t<<20 | t>>(64-20)
		a[15] = bc0 ^ (bc2 &^ bc1)
		a[1] = bc1 ^ (bc3 &^ bc2)
		a[12] = bc2 ^ (bc4 &^ bc3)
		a[23] = bc3 ^ (bc0 &^ bc4)
		a[9] = bc4 ^ (bc1 &^ bc0)

		t = a[5] ^ d0
		bc4 = t<<18 | t>>(64-18)
		t = a[16] ^ d1
		bc0 = t<<1 | t>>(64-1)
		t = a[2] ^ d2
		bc1 = t<<6 | t>>(64-6)
		t = a[13] ^ d3
		bc2 = t<<25 | t>>(64-25)
		t = a[24] ^ d4
		bc3 = t<<8 | t>>(64-8)
		a[5] = bc0 ^ (bc2 &^ bc1)
		a[16] = bc1 ^ (bc3 &^ bc2)
		a[2] = bc2 ^ (bc4 &^ bc3)
		a[13] = bc3 ^ (bc0 &^ bc4)
		a[24] = bc4 ^ (bc1 &^ bc0)

		t = a[20] ^ d0
		bc1 = t<<36 | t>>(64-36)
		t = a[6] ^ d1
		bc2 = t<<10 | t>>(64-10)
		t = a[17] ^ d2
		bc3 = t<<15 | t>>(64-15)
		t = a[3] ^ d3
		bc4 = t<<56 | t>>(64-56)
		t = a[14] ^ d4
		bc0 = t<<27 | t>>(64-27)
		a[20] = bc0 ^ (bc2 &^ bc1)
		a[6] = bc1 ^ (bc3 &^ bc2)
		a[17] = bc2 ^ (bc4 &^ bc3)
		a[3] = bc3 ^ (bc0 &^ bc4)
		a[14] = bc4 ^ (bc1 &^ bc0)

		t = a[10] ^ d0
		bc3 = t<<41 | t>>(64-41)
		t = a[21] ^ d1
		bc4 = t<<2 | t>>(64-2)
		t = a[7] ^ d2
		bc0 = t<<62 | t>>(64-62)
		t = a[18] ^ d3
		bc1 = t<<55 | t>>(64-55)
		t = a[4] ^ d4
		bc2 = t<<39 | t>>(64-39)
		a[10] = bc0 ^ (bc2 &^ bc1)
		a[21] = bc1 ^ (bc3 &^ bc2)
		a[7] = bc2 ^ (bc4 &^ bc3)
		a[18] = bc3 ^ (bc0 &^ bc4)
		a[4] = bc4 ^ (bc1 &^ bc0)

		// Round 4
		bc0 = a[0] ^ a[5] ^ a[10] ^ a[15] ^ a[20]
		bc1 = a[1] ^ a[6] ^ a[11] ^ a[16] ^ a[21]
		bc2 = a[2] ^ a[7] ^ a[12] ^ a[17] ^ a[22]
		bc3 = a[3] ^ a[8] ^ a[13] ^ a[18] ^ a[23]
		bc4 = a[4] ^ a[9] ^ a[14] ^ a[19] ^ a[24]
		d0 = bc4 ^ (bc1<<1 | bc1>>63)
		d1 = bc0 ^ (bc2<<1 | bc2>>63)
		d2 = bc1 ^ (bc3<<1 | bc3>>63)
		d3 = bc2 ^ (bc4<<1 | bc4>>63)
		d4 = bc3 ^ (bc0<<1 | bc0>>63)

		bc0 = a[0] ^ d0
		t = a[1] ^ d1
		bc1 = t<<44 | t>>(64-44)
		t = a[2] ^ d2
		bc2 = t<<43 | t>>(64-43)
		t = a[3] ^ d3
		bc3 = t<<21 | t>>(64-21)
		t = a[4] ^ d4
		bc4 = t<<14 | t>>(64-14)
		a[0] = bc0 ^ (bc2 &^ bc1) ^ rc[i+3]
		a[1] = bc1 ^ (bc3 &^ bc2)
		a[2] = bc2 ^ (bc4 &^ bc3)
		a[3] = bc3 ^ (bc0 &^ bc4)
		a[4] = bc4 ^ (bc1 &^ bc0)

		t = a[5] ^ d0
		bc2 = t<<3 | t>>(64-3)
		t = a[6] ^ d1
		bc3 = t<<45 | t>>(64-45)
		t = a[7] ^ d2
		bc4 = t<<61 | t>>(64-61)
		t = a[8] ^ d3
		bc0 = t<<28 | t>>(64-28)
		t = a[9] ^ d4
		bc1 = t<<20 | t>>(64-20)
		a[5] = bc0 ^ (bc2 &^ bc1)
		a[6] = bc1 ^ (bc3 &^ bc2)
		a[7] = bc2 ^ (bc4 &^ bc3)
		a[8] = bc3 ^ (bc0 &^ bc4)
		a[9] = bc4 ^ (bc1 &^ bc0)

		t = a[10] ^ d0
		bc4 = t<<18 | t>>(64-18)
		t = a[11] ^ d1
		bc0 = t<<1 | t>>(64-1)
		t = a[12] ^ d2
		bc1 = t<<6 | t>>(64-6)
		t = a[13] ^ d3
		bc2 = t<<25 | t>>(64-25)
		t = a[14] ^ d4
		bc3 = t<<8 | t>>(64-8)
		a[10] = bc0 ^ (bc2 &^ bc1)
		a[11] = bc1 ^ (bc3 &^ bc2)
		a[12] = bc2 ^ (bc4 &^ bc3)
		a[13] = bc3 ^ (bc0 &^ bc4)
		a[14] = bc4 ^ (bc1 &^ bc0)

		t = a[15] ^ d0
		bc1 = t<<36 | t>>(64-36)
		t = a[16] ^ d1
		bc2 = t<<10 | t>>(64-10)
		t = a[17] ^ d2
		bc3 = t<<15 | t>>(64-15)
		t = a[18] ^ d3
		bc4 = t<<56 | t>>(64-56)
		t = a[19] ^ d4
		bc0 = t<<27 | t>>(64-27)
		a[15] = bc0 ^ (bc2 &^ bc1)
		a[16] = bc1 ^ (bc3 &^ bc2)
		a[17] = bc2 ^ (bc4 &^ bc3)
		a[18] = bc3 ^ (bc0 &^ bc4)
		a[19] = bc4 ^ (bc1 &^ bc0)

		t = a[20] ^ d0
		bc3 = t<<41 | t>>(64-41)
		t = a[21] ^ d1
		bc4 = t<<2 | t>>(64-2)
		t = a[22] ^ d2
		bc0 = t<<62 | t>>(64-62)
		t = a[23] ^ d3
		bc1 = t<<55 | t>>(64-55)
		t = a[24] ^ d4
		bc2 = t<<39 | t>>(64-39)
		a[20] = bc0 ^ (bc2 &^ bc1)
		a[21] = bc1 ^ (bc3 &^ bc2)
		a[22] = bc2 ^ (bc4 &^ bc3)
		a[23] = bc3 ^ (bc0 &^ bc4)
		a[24] = bc4 ^ (bc1 &^ bc0)
	}
}
