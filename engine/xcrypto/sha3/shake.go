// Copyright 2014 The Go Authors. All rights reserved.
// Use of this source code is governed by a BSD-style
// license that can be found in the LICENSE file.

package sha3

// This file defines the ShakeHash interface, and provides
// functions for creating SHAKE instances, as well as utility
// functions for hashing bytes to arbitrary-length output.

import (
	"io"
)

// ShakeHash defines the interface to hash functions that
// support arbitrary-length output.
type ShakeHash interface {
	// Write absorbs more data into the hash's state. It panics if input is
	// written to it after output has been read from it.
	io.Writer

	// Read reads more output from the hash; reading affects the hash's
	// state. (ShakeHash.Read is thus very different from Hash.Sum)
	// It never returns an error.
	io.Reader

	// Clone returns a copy of the ShakeHash in its current state.
	Clone() ShakeHash

	// Reset resets the ShakeHash to its initial state.
	Reset()
}

func (d *state) Clone() ShakeHash {
	return d.clone()
}

// NewShake128 creates a new SHAKE128 variable-output-length ShakeHash.
// Its generic security strength is 128 bits against all attacks if at
// least 32 bytes of its output are used.
func NewShake128() ShakeHash { return &state{rate: 168, dsbyte: 0x1f} }

// NewShake256 creates a new SHAKE128 variable-output-length ShakeHash.
// Its generic security strength is 256 bits against all attacks if
// at least 64 bytes of its output are used.
func NewShake256() ShakeHash { return &state{rate: 136, dsbyte: 0x1f} }

// ShakeSum128 writes an arbitrary-length digest of data into hash.
func ShakeSum128(hash, data []byte) {
	h := NewShake128()
	h.Write(data)
	h.Read(hash)
}

// ShakeSum256 writes an arbitrary-length digest of data into hash.
func ShakeSum256(hash, data []byte) {
	h := NewShake256()
	h.Write(data)
	h.Read(hash)
}
