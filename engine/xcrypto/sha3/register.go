// Copyright 2014 The Go Authors. All rights reserved.
// Use of this source code is governed by a BSD-style
// license that can be found in the LICENSE file.

// +build go1.4

package sha3

import (
	"crypto"
)

func init() {
	crypto.RegisterHash(crypto.SHA3_224, New224)
	crypto.RegisterHash(crypto.SHA3_256, New256)
	crypto.RegisterHash(crypto.SHA3_384, New384)
	crypto.RegisterHash(crypto.SHA3_512, New512)
}
