package main

// Hash-consed term DAG: fixed-width bit-vectors and booleans, with constant
// folding on every constructor.  Signedness lives in the operators.

import (
	"fmt"
	"math/big"
	"strings"
)

type Op uint8

const (
	OpConst Op = iota
	OpVar
	OpNot
	OpAnd
	OpOr
	OpIte
	OpEq
	OpAdd
	OpSub
	OpMul
	OpUDiv
	OpURem
	OpSDiv
	OpSRem
	OpNeg
	OpBvAnd
	OpBvOr
	OpBvXor
	OpBvNot
	OpShl
	OpLShr
	OpAShr
	OpULt
	OpULe
	OpSLt
	OpSLe
	OpConcat
	OpExtract
	OpZExt
	OpSExt
)

var opNames = [...]string{"const", "var", "not", "and", "or", "ite", "=", "bvadd", "bvsub", "bvmul", "bvudiv", "bvurem", "bvsdiv", "bvsrem", "bvneg", "bvand", "bvor", "bvxor", "bvnot", "bvshl", "bvlshr", "bvashr", "bvult", "bvule", "bvslt", "bvsle", "concat", "extract", "zero_extend", "sign_extend"}

// Term: W==0 means Bool, otherwise a bit-vector of width W.
type Term struct {
	id   int
	op   Op
	W    int
	args []*Term
	c    *big.Int // OpConst (for Bool: 0/1)
	name string   // OpVar
	hi   int      // OpExtract hi / ext amount
	lo   int      // OpExtract lo
	vmask uint64  // bloom set of the variables occurring in the term
}

type TermStore struct {
	tab   map[string]*Term
	terms []*Term
	masks map[int]*big.Int
	signedVar map[string]bool // hint for the Int-mode printer
	rngMemo map[int]ivl
	True  *Term
	False *Term
}

func NewTermStore() *TermStore {
	ts := &TermStore{tab: map[string]*Term{}, masks: map[int]*big.Int{}, signedVar: map[string]bool{}}
	ts.True = ts.mk(&Term{op: OpConst, W: 0, c: big.NewInt(1)})
	ts.False = ts.mk(&Term{op: OpConst, W: 0, c: big.NewInt(0)})
	return ts
}

func (ts *TermStore) mask(w int) *big.Int {
	if m, ok := ts.masks[w]; ok {
		return m
	}
	m := new(big.Int).Lsh(big.NewInt(1), uint(w))
	m.Sub(m, big.NewInt(1))
	ts.masks[w] = m
	return m
}

func (ts *TermStore) mk(t *Term) *Term {
	var sb strings.Builder
	sb.WriteByte(byte(t.op) + 'A')
	fmt.Fprintf(&sb, "%d", t.W)
	switch t.op {
	case OpConst:
		sb.WriteByte('#')
		sb.WriteString(t.c.Text(16))
	case OpVar:
		sb.WriteByte('$')
		sb.WriteString(t.name)
	case OpExtract:
		fmt.Fprintf(&sb, "[%d:%d]", t.hi, t.lo)
	}
	for _, a := range t.args {
		fmt.Fprintf(&sb, ",%d", a.id)
	}
	k := sb.String()
	if o, ok := ts.tab[k]; ok {
		return o
	}
	t.id = len(ts.terms)
	if t.op == OpVar {
		t.vmask = 1 << (uint(t.id) % 64)
	}
	for _, a := range t.args {
		t.vmask |= a.vmask
	}
	ts.terms = append(ts.terms, t)
	ts.tab[k] = t
	return t
}

func (t *Term) IsConst() bool { return t.op == OpConst }
func (t *Term) IsBool() bool  { return t.W == 0 }
func (t *Term) IsTrue() bool  { return t.op == OpConst && t.W == 0 && t.c.Sign() != 0 }
func (t *Term) IsFalse() bool { return t.op == OpConst && t.W == 0 && t.c.Sign() == 0 }

// Uint64 returns the constant as unsigned (only for constants).
func (t *Term) Uint64() uint64 { return t.c.Uint64() }

// Int64 returns the constant interpreted as signed of its width.
func (t *Term) Int64() int64 { return signedOf(t.c, t.W).Int64() }

func signedOf(c *big.Int, w int) *big.Int {
	if w > 0 && c.Bit(w-1) == 1 {
		r := new(big.Int).Lsh(big.NewInt(1), uint(w))
		return r.Sub(c, r)
	}
	return new(big.Int).Set(c)
}

func (ts *TermStore) Const(w int, v *big.Int) *Term {
	c := new(big.Int).And(v, ts.mask(w))
	if v.Sign() < 0 {
		c = new(big.Int).Mod(v, new(big.Int).Lsh(big.NewInt(1), uint(w)))
	}
	return ts.mk(&Term{op: OpConst, W: w, c: c})
}
func (ts *TermStore) ConstU(w int, v uint64) *Term {
	return ts.Const(w, new(big.Int).SetUint64(v))
}
func (ts *TermStore) ConstI(w int, v int64) *Term { return ts.Const(w, big.NewInt(v)) }
func (ts *TermStore) Bool(b bool) *Term {
	if b {
		return ts.True
	}
	return ts.False
}
func (ts *TermStore) Var(name string, w int) *Term {
	return ts.mk(&Term{op: OpVar, W: w, name: name})
}

func (ts *TermStore) Not(a *Term) *Term {
	if a.W != 0 {
		panic("Not on non-bool")
	}
	if a.IsConst() {
		return ts.Bool(a.IsFalse())
	}
	if a.op == OpNot {
		return a.args[0]
	}
	return ts.mk(&Term{op: OpNot, args: []*Term{a}})
}

func (ts *TermStore) And(a, b *Term) *Term {
	if a.IsFalse() || b.IsFalse() {
		return ts.False
	}
	if a.IsTrue() {
		return b
	}
	if b.IsTrue() {
		return a
	}
	if a == b {
		return a
	}
	if (a.op == OpNot && a.args[0] == b) || (b.op == OpNot && b.args[0] == a) {
		return ts.False
	}
	// equalities of adjacent slices of the same two words (a 32-byte hash compared as
	// four uint64 fields) fuse into one equality over the joined slice
	if r := ts.fuseSliceEq(a, b); r != nil {
		return r
	}
	if a.op == OpAnd {
		if r := ts.fuseSliceEq(a.args[1], b); r != nil {
			return ts.And(a.args[0], r)
		}
	}
	return ts.mk(&Term{op: OpAnd, args: []*Term{a, b}})
}

// sliceEq decomposes x[hi:lo] == y[hi:lo] (either operand may also be a whole variable)
func sliceEq(t *Term) (x, y *Term, hi, lo int, ok bool) {
	if t.op != OpEq || t.args[0].W == 0 {
		return
	}
	part := func(e *Term) (*Term, int, int) {
		if e.op == OpExtract {
			return e.args[0], e.hi, e.lo
		}
		return e, e.W - 1, 0
	}
	x, hi, lo = part(t.args[0])
	y2, hi2, lo2 := part(t.args[1])
	if hi != hi2 || lo != lo2 || x.W != y2.W || x == y2 {
		return
	}
	return x, y2, hi, lo, true
}

func (ts *TermStore) fuseSliceEq(a, b *Term) *Term {
	x1, y1, h1, l1, ok1 := sliceEq(a)
	if !ok1 {
		return nil
	}
	x2, y2, h2, l2, ok2 := sliceEq(b)
	if !ok2 {
		return nil
	}
	if x1 == y2 && y1 == x2 {
		x2, y2 = y2, x2
	}
	if x1 != x2 || y1 != y2 {
		return nil
	}
	switch {
	case l1 == h2+1:
		return ts.Eq(ts.Extract(x1, h1, l2), ts.Extract(y1, h1, l2))
	case l2 == h1+1:
		return ts.Eq(ts.Extract(x1, h2, l1), ts.Extract(y1, h2, l1))
	}
	return nil
}
func (ts *TermStore) Or(a, b *Term) *Term {
	if a.IsTrue() || b.IsTrue() {
		return ts.True
	}
	if a.IsFalse() {
		return b
	}
	if b.IsFalse() {
		return a
	}
	if a == b {
		return a
	}
	if (a.op == OpNot && a.args[0] == b) || (b.op == OpNot && b.args[0] == a) {
		return ts.True
	}
	return ts.mk(&Term{op: OpOr, args: []*Term{a, b}})
}
func (ts *TermStore) Implies(a, b *Term) *Term { return ts.Or(ts.Not(a), b) }
func (ts *TermStore) AndN(xs ...*Term) *Term {
	r := ts.True
	for _, x := range xs {
		r = ts.And(r, x)
	}
	return r
}

func (ts *TermStore) Ite(c, a, b *Term) *Term {
	if a.W != b.W {
		panic(fmt.Sprintf("Ite width mismatch %d %d", a.W, b.W))
	}
	if c.IsTrue() {
		return a
	}
	if c.IsFalse() {
		return b
	}
	if a == b {
		return a
	}
	if a.W == 0 {
		if a.IsTrue() && b.IsFalse() {
			return c
		}
		if a.IsFalse() && b.IsTrue() {
			return ts.Not(c)
		}
		if a.IsTrue() {
			return ts.Or(c, b)
		}
		if a.IsFalse() {
			return ts.And(ts.Not(c), b)
		}
		if b.IsTrue() {
			return ts.Or(ts.Not(c), a)
		}
		if b.IsFalse() {
			return ts.And(c, a)
		}
	}
	if c.op == OpNot {
		return ts.Ite(c.args[0], b, a)
	}
	return ts.mk(&Term{op: OpIte, W: a.W, args: []*Term{c, a, b}})
}

func (ts *TermStore) Eq(a, b *Term) *Term {
	if a.W != b.W {
		panic(fmt.Sprintf("Eq width mismatch %d %d", a.W, b.W))
	}
	if a == b {
		return ts.True
	}
	if a.IsConst() && b.IsConst() {
		return ts.Bool(a.c.Cmp(b.c) == 0)
	}
	if a.W == 0 {
		if a.IsConst() {
			a, b = b, a
		}
		if b.IsTrue() {
			return a
		}
		if b.IsFalse() {
			return ts.Not(a)
		}
	}
	// eq over ite with constant leaves: push inside when one side constant
	if b.IsConst() && a.op == OpIte && (a.args[1].IsConst() || a.args[2].IsConst()) {
		return ts.Ite(a.args[0], ts.Eq(a.args[1], b), ts.Eq(a.args[2], b))
	}
	if a.IsConst() && b.op == OpIte && (b.args[1].IsConst() || b.args[2].IsConst()) {
		return ts.Ite(b.args[0], ts.Eq(b.args[1], a), ts.Eq(b.args[2], a))
	}
	// x + c1 = c2, c1 - x = c2 (modular arithmetic)
	if b.IsConst() && a.op == OpAdd && a.args[1].IsConst() {
		return ts.Eq(a.args[0], ts.Const(a.W, new(big.Int).Sub(b.c, a.args[1].c)))
	}
	if b.IsConst() && a.op == OpSub && a.args[0].IsConst() {
		return ts.Eq(a.args[1], ts.Const(a.W, new(big.Int).Sub(a.args[0].c, b.c)))
	}
	if a.IsConst() && (b.op == OpAdd || b.op == OpSub) {
		if (b.op == OpAdd && b.args[1].IsConst()) || (b.op == OpSub && b.args[0].IsConst()) {
			return ts.Eq(b, a)
		}
	}
	if b.IsConst() && ts.rng(a).hi.Cmp(b.c) < 0 {
		return ts.False
	}
	if b.IsConst() && ts.rng(a).lo.Cmp(b.c) > 0 {
		return ts.False
	}
	// zero-extended vs constant
	if b.IsConst() && a.op == OpZExt {
		inner := a.args[0]
		if b.c.BitLen() > inner.W {
			return ts.False
		}
		return ts.Eq(inner, ts.Const(inner.W, b.c))
	}
	if a.IsConst() && b.op == OpZExt {
		return ts.Eq(b, a)
	}
	// concat vs concat/const of same split: component-wise
	if a.op == OpConcat && b.op == OpConcat && a.args[0].W == b.args[0].W {
		return ts.And(ts.Eq(a.args[0], b.args[0]), ts.Eq(a.args[1], b.args[1]))
	}
	if a.op == OpConcat && b.IsConst() {
		lw := a.args[1].W
		hiC := ts.Const(a.args[0].W, new(big.Int).Rsh(b.c, uint(lw)))
		loC := ts.Const(lw, b.c)
		return ts.And(ts.Eq(a.args[0], hiC), ts.Eq(a.args[1], loC))
	}
	if b.op == OpConcat && a.IsConst() {
		return ts.Eq(b, a)
	}
	if a.id > b.id {
		a, b = b, a
	}
	return ts.mk(&Term{op: OpEq, args: []*Term{a, b}})
}
func (ts *TermStore) Ne(a, b *Term) *Term { return ts.Not(ts.Eq(a, b)) }

func (ts *TermStore) binCheck(a, b *Term, what string) {
	if a.W != b.W || a.W == 0 {
		panic(fmt.Sprintf("%s width mismatch %d %d", what, a.W, b.W))
	}
}

func (ts *TermStore) Add(a, b *Term) *Term {
	ts.binCheck(a, b, "Add")
	if a.IsConst() && b.IsConst() {
		return ts.Const(a.W, new(big.Int).Add(a.c, b.c))
	}
	if a.IsConst() {
		a, b = b, a
	}
	if b.IsConst() && b.c.Sign() == 0 {
		return a
	}
	// (x + c1) + c2
	if b.IsConst() && a.op == OpAdd && a.args[1].IsConst() {
		return ts.Add(a.args[0], ts.Const(a.W, new(big.Int).Add(a.args[1].c, b.c)))
	}
	// (c1 - x) + c2 = (c1+c2) - x
	if b.IsConst() && a.op == OpSub && a.args[0].IsConst() {
		return ts.Sub(ts.Const(a.W, new(big.Int).Add(a.args[0].c, b.c)), a.args[1])
	}
	return ts.mk(&Term{op: OpAdd, W: a.W, args: []*Term{a, b}})
}
func (ts *TermStore) Sub(a, b *Term) *Term {
	ts.binCheck(a, b, "Sub")
	if a.IsConst() && b.IsConst() {
		return ts.Const(a.W, new(big.Int).Sub(a.c, b.c))
	}
	if b.IsConst() {
		return ts.Add(a, ts.Const(a.W, new(big.Int).Neg(b.c)))
	}
	if a == b {
		return ts.ConstU(a.W, 0)
	}
	// (x + c) - x
	if a.op == OpAdd && a.args[0] == b {
		return a.args[1]
	}
	if a.IsConst() {
		// c1 - (c2 - x) = x + (c1-c2)
		if b.op == OpSub && b.args[0].IsConst() {
			return ts.Add(b.args[1], ts.Const(a.W, new(big.Int).Sub(a.c, b.args[0].c)))
		}
		// c1 - (x + c2) = (c1-c2) - x
		if b.op == OpAdd && b.args[1].IsConst() {
			return ts.Sub(ts.Const(a.W, new(big.Int).Sub(a.c, b.args[1].c)), b.args[0])
		}
	}
	return ts.mk(&Term{op: OpSub, W: a.W, args: []*Term{a, b}})
}
func (ts *TermStore) Mul(a, b *Term) *Term {
	ts.binCheck(a, b, "Mul")
	if a.IsConst() && b.IsConst() {
		return ts.Const(a.W, new(big.Int).Mul(a.c, b.c))
	}
	if a.IsConst() {
		a, b = b, a
	}
	if b.IsConst() {
		if b.c.Sign() == 0 {
			return b
		}
		if b.c.Cmp(big.NewInt(1)) == 0 {
			return a
		}
	}
	return ts.mk(&Term{op: OpMul, W: a.W, args: []*Term{a, b}})
}
func (ts *TermStore) Neg(a *Term) *Term {
	if a.IsConst() {
		return ts.Const(a.W, new(big.Int).Neg(a.c))
	}
	return ts.mk(&Term{op: OpNeg, W: a.W, args: []*Term{a}})
}

// Division ops: SMT-LIB total semantics (callers guard zero divisors).
func (ts *TermStore) UDiv(a, b *Term) *Term {
	ts.binCheck(a, b, "UDiv")
	if a.IsConst() && b.IsConst() {
		if b.c.Sign() == 0 {
			return ts.Const(a.W, ts.mask(a.W))
		}
		return ts.Const(a.W, new(big.Int).Div(a.c, b.c))
	}
	if b.IsConst() && b.c.Cmp(big.NewInt(1)) == 0 {
		return a
	}
	if b.IsConst() {
		if k, ok := isPow2(b.c); ok {
			return ts.rawShift(OpLShr, a, ts.ConstU(a.W, uint64(k)))
		}
	}
	return ts.mk(&Term{op: OpUDiv, W: a.W, args: []*Term{a, b}})
}
func (ts *TermStore) URem(a, b *Term) *Term {
	ts.binCheck(a, b, "URem")
	if a.IsConst() && b.IsConst() {
		if b.c.Sign() == 0 {
			return a
		}
		return ts.Const(a.W, new(big.Int).Mod(a.c, b.c))
	}
	if b.IsConst() {
		if _, ok := isPow2(b.c); ok {
			return ts.BvAnd(a, ts.Const(a.W, new(big.Int).Sub(b.c, big.NewInt(1))))
		}
	}
	return ts.mk(&Term{op: OpURem, W: a.W, args: []*Term{a, b}})
}
func (ts *TermStore) SDiv(a, b *Term) *Term {
	ts.binCheck(a, b, "SDiv")
	if a.IsConst() && b.IsConst() && b.c.Sign() != 0 {
		return ts.Const(a.W, new(big.Int).Quo(signedOf(a.c, a.W), signedOf(b.c, b.W)))
	}
	if ts.nonNeg(a) && ts.nonNeg(b) && ts.rng(b).lo.Sign() > 0 {
		return ts.UDiv(a, b)
	}
	return ts.mk(&Term{op: OpSDiv, W: a.W, args: []*Term{a, b}})
}
func (ts *TermStore) SRem(a, b *Term) *Term {
	ts.binCheck(a, b, "SRem")
	if a.IsConst() && b.IsConst() && b.c.Sign() != 0 {
		return ts.Const(a.W, new(big.Int).Rem(signedOf(a.c, a.W), signedOf(b.c, b.W)))
	}
	if ts.nonNeg(a) && ts.nonNeg(b) && ts.rng(b).lo.Sign() > 0 {
		return ts.URem(a, b)
	}
	return ts.mk(&Term{op: OpSRem, W: a.W, args: []*Term{a, b}})
}

func (ts *TermStore) BvAnd(a, b *Term) *Term {
	ts.binCheck(a, b, "BvAnd")
	if a.IsConst() && b.IsConst() {
		return ts.Const(a.W, new(big.Int).And(a.c, b.c))
	}
	if a.IsConst() {
		a, b = b, a
	}
	if b.IsConst() {
		if b.c.Sign() == 0 {
			return b
		}
		if b.c.Cmp(ts.mask(a.W)) == 0 {
			return a
		}
		// mask of low k bits on a zero-extended narrower value
		if a.op == OpZExt && b.c.Cmp(ts.mask(a.args[0].W)) >= 0 && isLowMask(b.c) {
			return a
		}
	}
	if a == b {
		return a
	}
	return ts.mk(&Term{op: OpBvAnd, W: a.W, args: []*Term{a, b}})
}
func isLowMask(c *big.Int) bool {
	t := new(big.Int).Add(c, big.NewInt(1))
	return t.BitLen() > 0 && new(big.Int).And(t, c).Sign() == 0
}
func (ts *TermStore) BvOr(a, b *Term) *Term {
	ts.binCheck(a, b, "BvOr")
	if a.IsConst() && b.IsConst() {
		return ts.Const(a.W, new(big.Int).Or(a.c, b.c))
	}
	if a.IsConst() {
		a, b = b, a
	}
	if b.IsConst() && b.c.Sign() == 0 {
		return a
	}
	if a == b {
		return a
	}
	// (x << n) | zext(y) with y no wider than n bits is a concatenation (byte
	// recombination as in binary.BigEndian.Uint64): keeps digests as extracts
	// of one wide variable instead of or-trees over single bytes
	if r := ts.orAsConcat(a, b); r != nil {
		return r
	}
	if r := ts.orAsConcat(b, a); r != nil {
		return r
	}
	return ts.mk(&Term{op: OpBvOr, W: a.W, args: []*Term{a, b}})
}
// orAsConcat: hi = [zext] concat(X, 0_n), lo = zext(Y) with Y.W <= n  ==>  [zext] concat(X, zext(Y, n))
func (ts *TermStore) orAsConcat(hi, lo *Term) *Term {
	w := hi.W
	if hi.op == OpZExt {
		hi = hi.args[0]
	}
	if hi.op != OpConcat || !hi.args[1].IsConst() || hi.args[1].c.Sign() != 0 {
		return nil
	}
	n := hi.args[1].W
	if lo.op != OpZExt || lo.args[0].W > n || lo.W != w {
		return nil
	}
	return ts.ZExt(ts.Concat(hi.args[0], ts.ZExt(lo.args[0], n)), w)
}

func (ts *TermStore) BvXor(a, b *Term) *Term {
	ts.binCheck(a, b, "BvXor")
	if a.IsConst() && b.IsConst() {
		return ts.Const(a.W, new(big.Int).Xor(a.c, b.c))
	}
	if a.IsConst() {
		a, b = b, a
	}
	if b.IsConst() && b.c.Sign() == 0 {
		return a
	}
	if a == b {
		return ts.ConstU(a.W, 0)
	}
	return ts.mk(&Term{op: OpBvXor, W: a.W, args: []*Term{a, b}})
}
func (ts *TermStore) BvNot(a *Term) *Term {
	if a.IsConst() {
		return ts.Const(a.W, new(big.Int).Xor(a.c, ts.mask(a.W)))
	}
	return ts.mk(&Term{op: OpBvNot, W: a.W, args: []*Term{a}})
}

// Raw shifts: shift amount has the same width as a, SMT semantics (>=W gives 0 / sign).
func (ts *TermStore) rawShift(op Op, a, b *Term) *Term {
	ts.binCheck(a, b, "shift")
	if b.IsConst() {
		if b.c.Sign() == 0 {
			return a
		}
		big := b.c.Cmp(new(bigInt).SetInt64(int64(a.W))) >= 0
		if a.IsConst() {
			n := uint(0)
			if !big {
				n = uint(b.c.Uint64())
			}
			switch op {
			case OpShl:
				if big {
					return ts.ConstU(a.W, 0)
				}
				return ts.Const(a.W, new(bigInt).Lsh(a.c, n))
			case OpLShr:
				if big {
					return ts.ConstU(a.W, 0)
				}
				return ts.Const(a.W, new(bigInt).Rsh(a.c, n))
			case OpAShr:
				s := signedOf(a.c, a.W)
				if big {
					n = uint(a.W)
				}
				return ts.Const(a.W, s.Rsh(s, n))
			}
		}
		if big && op != OpAShr {
			return ts.ConstU(a.W, 0)
		}
		if !big && op == OpLShr {
			n := int(b.c.Uint64())
			return ts.ZExt(ts.Extract(a, a.W-1, n), a.W)
		}
		if !big && op == OpShl {
			n := int(b.c.Uint64())
			return ts.Concat(ts.Extract(a, a.W-1-n, 0), ts.ConstU(n, 0))
		}
	}
	return ts.mk(&Term{op: op, W: a.W, args: []*Term{a, b}})
}

type bigInt = big.Int

// GoShift implements Go semantics: b is an unsigned amount of any width.
func (ts *TermStore) GoShift(op Op, a, b *Term) *Term {
	w := a.W
	var amt *Term
	var over *Term
	if b.W == w {
		amt = b
		over = ts.ULe(ts.ConstU(w, uint64(w)), b)
	} else if b.W < w {
		amt = ts.ZExt(b, w)
		over = ts.ULe(ts.ConstU(w, uint64(w)), amt)
	} else {
		over = ts.ULe(ts.ConstU(b.W, uint64(w)), b)
		amt = ts.Extract(b, w-1, 0)
	}
	r := ts.rawShift(op, a, amt)
	if over.IsFalse() {
		return r
	}
	var sat *Term
	if op == OpAShr {
		sat = ts.rawShift(OpAShr, a, ts.ConstU(w, uint64(w-1)))
	} else {
		sat = ts.ConstU(w, 0)
	}
	return ts.Ite(over, sat, r)
}

func (ts *TermStore) cmp(op Op, a, b *Term) *Term {
	ts.binCheck(a, b, "cmp")
	if a.IsConst() && b.IsConst() {
		var r int
		if op == OpULt || op == OpULe {
			r = a.c.Cmp(b.c)
		} else {
			r = signedOf(a.c, a.W).Cmp(signedOf(b.c, b.W))
		}
		if op == OpULt || op == OpSLt {
			return ts.Bool(r < 0)
		}
		return ts.Bool(r <= 0)
	}
	if a == b {
		return ts.Bool(op == OpULe || op == OpSLe)
	}
	// comparison of a constant with an ite that has a constant leaf: push inside
	// (table lookups at symbolic indices are ite chains over constants)
	if b.IsConst() && a.op == OpIte && (a.args[1].IsConst() || a.args[2].IsConst()) {
		return ts.Ite(a.args[0], ts.cmp(op, a.args[1], b), ts.cmp(op, a.args[2], b))
	}
	if a.IsConst() && b.op == OpIte && (b.args[1].IsConst() || b.args[2].IsConst()) {
		return ts.Ite(b.args[0], ts.cmp(op, a, b.args[1]), ts.cmp(op, a, b.args[2]))
	}
	if op == OpSLt || op == OpSLe {
		// signed comparison of operands whose sign is known is an unsigned one (or decided)
		na, nb := ts.nonNeg(a), ts.nonNeg(b)
		ga, gb := ts.negative(a), ts.negative(b)
		switch {
		case (na && nb) || (ga && gb):
			uop := OpULt
			if op == OpSLe {
				uop = OpULe
			}
			return ts.cmp(uop, a, b)
		case ga && nb:
			return ts.True
		case na && gb:
			return ts.False
		}
	} else {
		switch ts.cmpByRange(op, a, b) {
		case 1:
			return ts.True
		case 0:
			return ts.False
		}
	}
	if op == OpULt && b.IsConst() && b.c.Sign() == 0 {
		return ts.False
	}
	if op == OpULe && a.IsConst() && a.c.Sign() == 0 {
		return ts.True
	}
	if op == OpULe && b.IsConst() && b.c.Cmp(ts.mask(a.W)) == 0 {
		return ts.True
	}
	// zero-extended narrow value compared against a big constant
	if (op == OpULt || op == OpULe) && a.op == OpZExt && b.IsConst() && b.c.BitLen() > a.args[0].W {
		return ts.True
	}
	if (op == OpSLt || op == OpSLe) && a.op == OpZExt && b.IsConst() && a.args[0].W < a.W {
		sb := signedOf(b.c, b.W)
		if sb.Sign() < 0 {
			return ts.False
		}
		if sb.BitLen() > a.args[0].W {
			return ts.True
		}
	}
	if (op == OpSLt || op == OpSLe) && b.op == OpZExt && a.IsConst() && b.args[0].W < b.W {
		sa := signedOf(a.c, a.W)
		if sa.Sign() < 0 || (sa.Sign() == 0 && op == OpSLe) {
			return ts.True
		}
	}
	return ts.mk(&Term{op: op, args: []*Term{a, b}})
}
func (ts *TermStore) ULt(a, b *Term) *Term { return ts.cmp(OpULt, a, b) }
func (ts *TermStore) ULe(a, b *Term) *Term { return ts.cmp(OpULe, a, b) }
func (ts *TermStore) SLt(a, b *Term) *Term { return ts.cmp(OpSLt, a, b) }
func (ts *TermStore) SLe(a, b *Term) *Term { return ts.cmp(OpSLe, a, b) }

func (ts *TermStore) Concat(a, b *Term) *Term {
	if a.IsConst() && b.IsConst() {
		v := new(big.Int).Lsh(a.c, uint(b.W))
		v.Or(v, b.c)
		return ts.Const(a.W+b.W, v)
	}
	// re-fuse adjacent extracts of the same term
	if a.op == OpExtract && b.op == OpExtract && a.args[0] == b.args[0] && a.lo == b.hi+1 {
		return ts.Extract(a.args[0], a.hi, b.lo)
	}
	if a.IsConst() && a.c.Sign() == 0 {
		return ts.ZExt(b, a.W+b.W)
	}
	if a.op == OpZExt {
		return ts.ZExt(ts.Concat(a.args[0], b), a.W+b.W)
	}
	return ts.mk(&Term{op: OpConcat, W: a.W + b.W, args: []*Term{a, b}})
}

func (ts *TermStore) Extract(a *Term, hi, lo int) *Term {
	if hi < lo || hi >= a.W || lo < 0 {
		panic(fmt.Sprintf("bad extract [%d:%d] of width %d", hi, lo, a.W))
	}
	if lo == 0 && hi == a.W-1 {
		return a
	}
	if a.IsConst() {
		return ts.Const(hi-lo+1, new(big.Int).Rsh(a.c, uint(lo)))
	}
	switch a.op {
	case OpExtract:
		return ts.Extract(a.args[0], a.lo+hi, a.lo+lo)
	case OpConcat:
		lw := a.args[1].W
		if hi < lw {
			return ts.Extract(a.args[1], hi, lo)
		}
		if lo >= lw {
			return ts.Extract(a.args[0], hi-lw, lo-lw)
		}
		return ts.Concat(ts.Extract(a.args[0], hi-lw, 0), ts.Extract(a.args[1], lw-1, lo))
	case OpZExt:
		iw := a.args[0].W
		if hi < iw {
			return ts.Extract(a.args[0], hi, lo)
		}
		if lo >= iw {
			return ts.ConstU(hi-lo+1, 0)
		}
		return ts.ZExt(ts.Extract(a.args[0], iw-1, lo), hi-lo+1)
	case OpSExt:
		iw := a.args[0].W
		if hi < iw {
			return ts.Extract(a.args[0], hi, lo)
		}
	case OpIte:
		if a.args[1].IsConst() || a.args[2].IsConst() {
			return ts.Ite(a.args[0], ts.Extract(a.args[1], hi, lo), ts.Extract(a.args[2], hi, lo))
		}
	case OpBvAnd, OpBvOr, OpBvXor:
		if lo == 0 || a.args[1].IsConst() {
			x, y := ts.Extract(a.args[0], hi, lo), ts.Extract(a.args[1], hi, lo)
			switch a.op {
			case OpBvAnd:
				return ts.BvAnd(x, y)
			case OpBvOr:
				return ts.BvOr(x, y)
			default:
				return ts.BvXor(x, y)
			}
		}
	case OpAdd, OpSub, OpMul:
		if lo == 0 && (a.args[0].op == OpZExt || a.args[1].op == OpZExt || a.args[0].op == OpSExt || a.args[1].op == OpSExt) {
			x, y := ts.Extract(a.args[0], hi, 0), ts.Extract(a.args[1], hi, 0)
			switch a.op {
			case OpAdd:
				return ts.Add(x, y)
			case OpSub:
				return ts.Sub(x, y)
			default:
				return ts.Mul(x, y)
			}
		}
	}
	return ts.mk(&Term{op: OpExtract, W: hi - lo + 1, args: []*Term{a}, hi: hi, lo: lo})
}

func (ts *TermStore) ZExt(a *Term, w int) *Term {
	if w == a.W {
		return a
	}
	if w < a.W {
		return ts.Extract(a, w-1, 0)
	}
	if a.IsConst() {
		return ts.Const(w, a.c)
	}
	if a.op == OpZExt {
		return ts.ZExt(a.args[0], w)
	}
	if a.op == OpIte && (a.args[1].IsConst() || a.args[2].IsConst()) {
		return ts.Ite(a.args[0], ts.ZExt(a.args[1], w), ts.ZExt(a.args[2], w))
	}
	return ts.mk(&Term{op: OpZExt, W: w, args: []*Term{a}, hi: w - a.W})
}
func (ts *TermStore) SExt(a *Term, w int) *Term {
	if w == a.W {
		return a
	}
	if w < a.W {
		return ts.Extract(a, w-1, 0)
	}
	if a.IsConst() {
		return ts.Const(w, signedOf(a.c, a.W))
	}
	if a.op == OpZExt {
		return ts.ZExt(a.args[0], w)
	}
	if a.op == OpIte && (a.args[1].IsConst() || a.args[2].IsConst()) {
		return ts.Ite(a.args[0], ts.SExt(a.args[1], w), ts.SExt(a.args[2], w))
	}
	return ts.mk(&Term{op: OpSExt, W: w, args: []*Term{a}, hi: w - a.W})
}

// BoolToBV converts a Bool to a 1/0 bit-vector of width w.
func (ts *TermStore) BoolToBV(b *Term, w int) *Term {
	return ts.Ite(b, ts.ConstU(w, 1), ts.ConstU(w, 0))
}

func (t *Term) String() string {
	switch t.op {
	case OpConst:
		if t.W == 0 {
			if t.c.Sign() != 0 {
				return "true"
			}
			return "false"
		}
		return fmt.Sprintf("%s:%d", t.c.String(), t.W)
	case OpVar:
		return t.name
	}
	var sb strings.Builder
	sb.WriteString("(")
	sb.WriteString(opNames[t.op])
	if t.op == OpExtract {
		fmt.Fprintf(&sb, "[%d:%d]", t.hi, t.lo)
	}
	for _, a := range t.args {
		sb.WriteString(" ")
		if a.size(40) > 40 {
			fmt.Fprintf(&sb, "t%d", a.id)
		} else {
			sb.WriteString(a.String())
		}
	}
	sb.WriteString(")")
	return sb.String()
}

func (t *Term) size(limit int) int {
	n := 1
	for _, a := range t.args {
		n += a.size(limit - n)
		if n > limit {
			return n
		}
	}
	return n
}

// evalTerm evaluates a term under a model (variable name -> value). Missing
// variables evaluate to 0.
func (ts *TermStore) Eval(t *Term, model map[string]*big.Int, memo map[int]*big.Int) *big.Int {
	if v, ok := memo[t.id]; ok {
		return v
	}
	var r *big.Int
	switch t.op {
	case OpConst:
		r = t.c
	case OpVar:
		if v, ok := model[t.name]; ok {
			r = v
		} else {
			r = big.NewInt(0)
		}
	default:
		args := make([]*Term, len(t.args))
		for i, a := range t.args {
			v := ts.Eval(a, model, memo)
			if a.W == 0 {
				args[i] = ts.Bool(v.Sign() != 0)
			} else {
				args[i] = ts.Const(a.W, v)
			}
		}
		res := ts.rebuild(t, args)
		if !res.IsConst() {
			panic("Eval: non-constant result for " + t.String())
		}
		r = res.c
	}
	memo[t.id] = r
	return r
}

func (ts *TermStore) rebuild(t *Term, a []*Term) *Term {
	switch t.op {
	case OpNot:
		return ts.Not(a[0])
	case OpAnd:
		return ts.And(a[0], a[1])
	case OpOr:
		return ts.Or(a[0], a[1])
	case OpIte:
		return ts.Ite(a[0], a[1], a[2])
	case OpEq:
		return ts.Eq(a[0], a[1])
	case OpAdd:
		return ts.Add(a[0], a[1])
	case OpSub:
		return ts.Sub(a[0], a[1])
	case OpMul:
		return ts.Mul(a[0], a[1])
	case OpUDiv:
		return ts.UDiv(a[0], a[1])
	case OpURem:
		return ts.URem(a[0], a[1])
	case OpSDiv:
		if a[1].c.Sign() == 0 {
			// SMT-LIB: bvsdiv by zero; never needed under guards
			if signedOf(a[0].c, a[0].W).Sign() < 0 {
				return ts.ConstU(t.W, 1)
			}
			return ts.Const(t.W, ts.mask(t.W))
		}
		return ts.SDiv(a[0], a[1])
	case OpSRem:
		if a[1].c.Sign() == 0 {
			return a[0]
		}
		return ts.SRem(a[0], a[1])
	case OpNeg:
		return ts.Neg(a[0])
	case OpBvAnd:
		return ts.BvAnd(a[0], a[1])
	case OpBvOr:
		return ts.BvOr(a[0], a[1])
	case OpBvXor:
		return ts.BvXor(a[0], a[1])
	case OpBvNot:
		return ts.BvNot(a[0])
	case OpShl, OpLShr, OpAShr:
		return ts.rawShift(t.op, a[0], a[1])
	case OpULt, OpULe, OpSLt, OpSLe:
		return ts.cmp(t.op, a[0], a[1])
	case OpConcat:
		return ts.Concat(a[0], a[1])
	case OpExtract:
		return ts.Extract(a[0], t.hi, t.lo)
	case OpZExt:
		return ts.ZExt(a[0], t.W)
	case OpSExt:
		return ts.SExt(a[0], t.W)
	}
	panic("rebuild: bad op")
}
