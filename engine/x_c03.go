package main

// Hashes evaluated by package initialisers (e.g. bc.EmptyStringHash =
// sha3.Sum256(nil)). Package initialisation is concrete and its result is
// cached per session and shared by all paths, so a digest computed there must
// not be a per-path uninterpreted symbol (the symbol's name would be reused by
// an unrelated application on a later path, and nothing would relate it to the
// digests of that path). Such applications are evaluated with the real hash
// function and remembered per session; every path starts with them registered,
// so collision-freedom is asserted between them and every symbolic application.

import (
	"math"
	"sync"

	"golang.org/x/tools/go/ssa"
)

var initHashApps sync.Map // *Session -> map[string][]*hashApp

func (s *Session) initApps() map[string][]*hashApp {
	if m, ok := initHashApps.Load(s); ok {
		return m.(map[string][]*hashApp)
	}
	m := map[string][]*hashApp{}
	initHashApps.Store(s, m)
	return m
}

// seedInitHashApps registers the session's init-time hash applications on a new path.
func (in *Interp) seedInitHashApps() {
	for kind, apps := range in.sess.initApps() {
		in.hashApps[kind] = append(in.hashApps[kind], apps...)
	}
}

// initTimeDigest: real digest of a constant input hashed during package initialisation.
func (in *Interp) initTimeDigest(kind string, input []*Term, outBytes int) ([]*Term, bool) {
	if in.initing == nil || in.concrete != nil {
		return nil, false
	}
	data := make([]byte, len(input))
	for i, t := range input {
		if !t.IsConst() {
			return nil, false
		}
		data[i] = byte(t.Uint64())
	}
	d, ok := concreteDigest(kind, data, outBytes)
	if !ok || len(d) < outBytes {
		return nil, false
	}
	ts := in.ts
	out := make([]*Term, outBytes)
	for i := range out {
		out[i] = ts.ConstU(8, uint64(d[i]))
	}
	app := &hashApp{input: input, out: out}
	// relate it to the applications already made on this path
	for _, o := range in.hashApps[kind] {
		outEq := ts.True
		for i := range out {
			outEq = ts.And(outEq, ts.Eq(out[i], o.out[i]))
		}
		if len(o.input) != len(input) {
			in.assume(ts.Not(outEq))
			continue
		}
		inEq := ts.True
		for i := range input {
			inEq = ts.And(inEq, ts.Eq(input[i], o.input[i]))
		}
		in.assume(ts.Eq(inEq, outEq))
	}
	in.hashApps[kind] = append(in.hashApps[kind], app)
	m := in.sess.initApps()
	m[kind] = append(m[kind], app)
	return out, true
}

func init() {
	// math.Log2 of a concrete float (types.prevPowerOfTwo): evaluated natively
	intrinsics["math.Log2"] = func(in *Interp, fn *ssa.Function, a []Value) Value {
		f, ok := a[0].(FloatV)
		if !ok {
			panic(in.unsupported("math.Log2 of a non-concrete float"))
		}
		return FloatV{math.Log2(f.f), 64}
	}
}

// ---------------------------------------------------------------------------
// maps=lazy: `m[k] = v` with a symbolic key does not fork on "k equals an
// earlier key". The entry is appended and marked lazy; lookups scan from the
// newest entry to the oldest (the newest write to a key wins, so a possibly
// shadowed older entry is never observed), and every operation that depends
// on the number or set of distinct keys (len, range, delete) first resolves
// the lazy entries by the usual forking comparison.

func (in *Interp) lazyMapFind(m *MapObj, k Value) *MapEntry {
	for i := len(m.entries) - 1; i >= 0; i-- {
		e := m.entries[i]
		c := in.eqValue(e.k, k)
		if c.IsFalse() {
			continue
		}
		if c.IsTrue() || in.branch(c) {
			return e
		}
	}
	return nil
}

func (in *Interp) lazyMapUpdate(m *MapObj, k, v Value) {
	undecided := false
	for i := len(m.entries) - 1; i >= 0; i-- {
		e := m.entries[i]
		c := in.eqValue(e.k, k)
		if c.IsFalse() {
			continue
		}
		if c.IsTrue() {
			if !undecided {
				e.v = v
				return
			}
			break
		}
		undecided = true
	}
	m.entries = append(m.entries, &MapEntry{k: k, v: v, lazy: undecided})
}

func (in *Interp) resolveLazyMap(m *MapObj) {
	if m == nil {
		return
	}
	any := false
	for _, e := range m.entries {
		if e.lazy {
			any = true
		}
	}
	if !any {
		return
	}
	if m.sess != nil {
		m.sess.touchMap(m)
	}
	var out []*MapEntry
	for _, e := range m.entries {
		if !e.lazy {
			out = append(out, e)
			continue
		}
		dup := false
		for _, o := range out {
			c := in.eqValue(o.k, e.k)
			if c.IsFalse() {
				continue
			}
			if c.IsTrue() || in.branch(c) {
				o.v = e.v
				dup = true
				break
			}
		}
		if !dup {
			out = append(out, &MapEntry{k: e.k, v: e.v})
		}
	}
	m.entries = out
}
