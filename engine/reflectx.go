package main

// The subset of reflect used by bc.writeForHash / EntryID, computed from the
// SSA types of the values.

import (
	"go/types"

	"golang.org/x/tools/go/ssa"
)

type rval struct {
	typ      types.Type
	v        Value
	exported bool
	valid    bool
}

func reflectKind(t types.Type) uint64 {
	switch u := t.Underlying().(type) {
	case *types.Basic:
		switch u.Kind() {
		case types.Bool:
			return 1
		case types.Int:
			return 2
		case types.Int8:
			return 3
		case types.Int16:
			return 4
		case types.Int32:
			return 5
		case types.Int64:
			return 6
		case types.Uint:
			return 7
		case types.Uint8:
			return 8
		case types.Uint16:
			return 9
		case types.Uint32:
			return 10
		case types.Uint64:
			return 11
		case types.Uintptr:
			return 12
		case types.Float32:
			return 13
		case types.Float64:
			return 14
		case types.Complex64:
			return 15
		case types.Complex128:
			return 16
		case types.String:
			return 24
		case types.UnsafePointer:
			return 26
		}
	case *types.Array:
		return 17
	case *types.Chan:
		return 18
	case *types.Signature:
		return 19
	case *types.Interface:
		return 20
	case *types.Map:
		return 21
	case *types.Pointer:
		return 22
	case *types.Slice:
		return 23
	case *types.Struct:
		return 25
	}
	return 0
}

func mkRV(r *rval) Value { return &NativeV{kind: "rv", data: r} }
func rvOf(in *Interp, v Value) *rval {
	n, ok := v.(*NativeV)
	if !ok || n.kind != "rv" {
		panic(in.unsupported("reflect.Value method on a value not produced by the reflect intrinsics"))
	}
	return n.data.(*rval)
}

func init() {
	reg := func(name string, f intrinsicFn) { cryptoIntrinsics[name] = f }
	reg("reflect.ValueOf", func(in *Interp, fn *ssa.Function, a []Value) Value {
		iv := a[0].(*IfaceV)
		if iv.typ == nil {
			return mkRV(&rval{})
		}
		return mkRV(&rval{typ: iv.typ, v: iv.v, exported: true, valid: true})
	})
	reg("(reflect.Value).Kind", func(in *Interp, fn *ssa.Function, a []Value) Value {
		r := rvOf(in, a[0])
		if !r.valid {
			return in.ts.ConstU(64, 0)
		}
		return in.ts.ConstU(64, reflectKind(r.typ))
	})
	reg("(reflect.Value).IsValid", func(in *Interp, fn *ssa.Function, a []Value) Value {
		return in.ts.Bool(rvOf(in, a[0]).valid)
	})
	reg("(reflect.Value).IsNil", func(in *Interp, fn *ssa.Function, a []Value) Value {
		r := rvOf(in, a[0])
		return in.ts.Bool(isNilValue(r.v))
	})
	reg("(reflect.Value).Elem", func(in *Interp, fn *ssa.Function, a []Value) Value {
		r := rvOf(in, a[0])
		switch u := r.typ.Underlying().(type) {
		case *types.Pointer:
			p := r.v.(*PtrV)
			if p.isNil() {
				return mkRV(&rval{})
			}
			return mkRV(&rval{typ: u.Elem(), v: in.load(p), exported: r.exported, valid: true})
		case *types.Interface:
			iv := r.v.(*IfaceV)
			if iv.typ == nil {
				return mkRV(&rval{})
			}
			return mkRV(&rval{typ: iv.typ, v: iv.v, exported: r.exported, valid: true})
		}
		panic(in.unsupported("reflect.Value.Elem on " + r.typ.String()))
	})
	reg("(reflect.Value).Interface", func(in *Interp, fn *ssa.Function, a []Value) Value {
		r := rvOf(in, a[0])
		if _, ok := r.typ.Underlying().(*types.Interface); ok {
			return r.v
		}
		return &IfaceV{typ: r.typ, v: r.v}
	})
	reg("(reflect.Value).CanInterface", func(in *Interp, fn *ssa.Function, a []Value) Value {
		return in.ts.Bool(rvOf(in, a[0]).exported)
	})
	reg("(reflect.Value).Len", func(in *Interp, fn *ssa.Function, a []Value) Value {
		r := rvOf(in, a[0])
		switch x := r.v.(type) {
		case *SliceV:
			return x.len
		case *StrV:
			return in.ts.ConstU(64, uint64(len(x.b)))
		case *ArrayV:
			return in.ts.ConstU(64, uint64(len(x.e)))
		case *MapV:
			if x.m == nil {
				return in.ts.ConstU(64, 0)
			}
			in.resolveLazyMap(x.m) // x_c03.go
			return in.ts.ConstU(64, uint64(len(x.m.entries)))
		}
		panic(in.unsupported("reflect.Value.Len on " + r.typ.String()))
	})
	reg("(reflect.Value).Index", func(in *Interp, fn *ssa.Function, a []Value) Value {
		r := rvOf(in, a[0])
		i := a[1].(*Term)
		switch x := r.v.(type) {
		case *SliceV:
			in.boundsPanic(in.ts.ULt(i, x.len), "reflect: slice index out of range")
			et := r.typ.Underlying().(*types.Slice).Elem()
			return mkRV(&rval{typ: et, v: in.sliceElem(x, i), exported: r.exported, valid: true})
		case *ArrayV:
			et := r.typ.Underlying().(*types.Array).Elem()
			return mkRV(&rval{typ: et, v: in.indexValue(x, i, types.Typ[types.Int]), exported: r.exported, valid: true})
		}
		panic(in.unsupported("reflect.Value.Index on " + r.typ.String()))
	})
	reg("(reflect.Value).NumField", func(in *Interp, fn *ssa.Function, a []Value) Value {
		r := rvOf(in, a[0])
		return in.ts.ConstU(64, uint64(r.typ.Underlying().(*types.Struct).NumFields()))
	})
	reg("(reflect.Value).Field", func(in *Interp, fn *ssa.Function, a []Value) Value {
		r := rvOf(in, a[0])
		i, ok := constInt(a[1].(*Term))
		if !ok {
			panic(in.unsupported("reflect.Value.Field with symbolic index"))
		}
		st := r.typ.Underlying().(*types.Struct)
		f := st.Field(i)
		return mkRV(&rval{typ: f.Type(), v: r.v.(*StructV).f[i], exported: r.exported && f.Exported(), valid: true})
	})
	reg("(reflect.Value).Type", func(in *Interp, fn *ssa.Function, a []Value) Value {
		r := rvOf(in, a[0])
		return &IfaceV{typ: types.Typ[types.UnsafePointer], v: &NativeV{kind: "rt", data: r.typ}}
	})
	reg("(reflect.Value).Pointer", func(in *Interp, fn *ssa.Function, a []Value) Value {
		// only used to compare function values (vm.isExpansion-style code)
		r := rvOf(in, a[0])
		if f, ok := r.v.(*FuncV); ok && f.fn != nil {
			return in.ts.ConstU(64, uint64(funcID(in, f.fn)))
		}
		panic(in.unsupported("reflect.Value.Pointer on " + r.typ.String()))
	})
	reg("reflect.TypeOf", func(in *Interp, fn *ssa.Function, a []Value) Value {
		iv := a[0].(*IfaceV)
		if iv.typ == nil {
			return &IfaceV{}
		}
		return &IfaceV{typ: types.Typ[types.UnsafePointer], v: &NativeV{kind: "rt", data: iv.typ}}
	})
}

func funcID(in *Interp, f *ssa.Function) int {
	w := in.sess.w
	w.varMu.Lock()
	defer w.varMu.Unlock()
	if w.funcIDs == nil {
		w.funcIDs = map[*ssa.Function]int{}
	}
	if id, ok := w.funcIDs[f]; ok {
		return id
	}
	id := len(w.funcIDs) + 0x1000
	w.funcIDs[f] = id
	return id
}

// reflectTypeMethod implements reflect.Type methods on the native type token.
func (in *Interp) reflectTypeMethod(t types.Type, name string, args []Value) Value {
	switch name {
	case "NumField":
		return in.ts.ConstU(64, uint64(t.Underlying().(*types.Struct).NumFields()))
	case "Name":
		if n, ok := t.(*types.Named); ok {
			return in.mkStr(n.Obj().Name())
		}
		return in.mkStr("")
	case "String":
		return in.mkStr(t.String())
	case "Kind":
		return in.ts.ConstU(64, reflectKind(t))
	case "Field":
		i, _ := constInt(args[0].(*Term))
		f := t.Underlying().(*types.Struct).Field(i)
		z := in.ts.ConstU(64, 0)
		return &StructV{f: []Value{in.mkStr(f.Name()), in.mkStr(""), &IfaceV{typ: types.Typ[types.UnsafePointer], v: &NativeV{kind: "rt", data: f.Type()}}, in.mkStr(""), z, &SliceV{off: z, len: z, cap: z}, in.ts.Bool(f.Embedded())}}
	case "Elem":
		switch u := t.Underlying().(type) {
		case *types.Pointer:
			return &IfaceV{typ: types.Typ[types.UnsafePointer], v: &NativeV{kind: "rt", data: u.Elem()}}
		case *types.Slice:
			return &IfaceV{typ: types.Typ[types.UnsafePointer], v: &NativeV{kind: "rt", data: u.Elem()}}
		}
	}
	panic(in.unsupported("reflect.Type." + name))
}
