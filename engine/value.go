package main

import (
	"fmt"
	"go/types"
	"math/big"

	"golang.org/x/tools/go/ssa"
)

// Value is one of:
//   *Term                       integers, booleans
//   FloatV                      concrete float
//   *PtrV                       pointer (nil object = nil pointer)
//   *SliceV
//   *StrV
//   *StructV, *ArrayV           immutable aggregates (copy on write through the heap)
//   *IfaceV
//   *MapV
//   *FuncV
//   TupleV
//   *NativeV
type Value interface{}

type FloatV struct {
	f float64
	w int
}

type ComplexV struct{ c complex128 }

type Object struct {
	id    int
	root  Value
	typ   types.Type // type of root
	label string
	sess  *Session // non-nil: created by a package initialiser and shared between paths (writes are journaled)
}

type PtrV struct {
	obj  *Object
	path []int // field / array indices from the object root
	sym  *Term // optional symbolic final array index (64-bit)
	fn   *ssa.Function
}

func (p *PtrV) isNil() bool { return p == nil || p.obj == nil }

type SliceV struct {
	obj  *Object // nil = nil slice
	path []int   // path to the backing ArrayV inside obj
	off  *Term   // 64-bit
	len  *Term
	cap  *Term
}

type StrV struct {
	b      []*Term // 8-bit terms
	opaque bool    // result of stubbed formatting; content must not be inspected
	tag    string
}

type StructV struct{ f []Value }
type ArrayV struct {
	e   []Value
	cow bool
}

type IfaceV struct {
	typ types.Type // nil = nil interface
	v   Value
}

type MapEntry struct {
	k, v Value
	lazy bool // maps=lazy: inserted without deciding whether an earlier entry has the same key (x_c03.go)
}
type MapObj struct {
	id      int
	entries []*MapEntry
	kt, vt  types.Type
	sess    *Session // as Object.sess
}
type MapV struct{ m *MapObj }

type FuncV struct {
	fn       *ssa.Function
	bindings []Value
	native   func(in *Interp, args []Value) Value // builtin closure
	name     string
}

type TupleV []Value

type NativeV struct {
	kind string
	data interface{}
}

// deep immutable aggregates ------------------------------------------------

func (in *Interp) zero(t types.Type) Value {
	switch u := t.Underlying().(type) {
	case *types.Basic:
		switch {
		case u.Info()&types.IsBoolean != 0:
			return in.ts.False
		case u.Info()&types.IsInteger != 0:
			return in.ts.ConstU(intWidth(u), 0)
		case u.Info()&types.IsFloat != 0:
			return FloatV{0, floatWidth(u)}
		case u.Info()&types.IsComplex != 0:
			return ComplexV{}
		case u.Info()&types.IsString != 0:
			return &StrV{}
		case u.Kind() == types.UnsafePointer:
			return &PtrV{}
		case u.Kind() == types.UntypedNil:
			return nil
		}
	case *types.Pointer:
		return &PtrV{}
	case *types.Slice:
		z := in.ts.ConstU(64, 0)
		return &SliceV{off: z, len: z, cap: z}
	case *types.Struct:
		s := &StructV{f: make([]Value, u.NumFields())}
		for i := range s.f {
			s.f[i] = in.zero(u.Field(i).Type())
		}
		return s
	case *types.Array:
		n := int(u.Len())
		a := &ArrayV{e: make([]Value, n)}
		if n > 0 {
			z := in.zero(u.Elem())
			for i := range a.e {
				a.e[i] = z
			}
		}
		return a
	case *types.Interface:
		return &IfaceV{}
	case *types.Map:
		return &MapV{}
	case *types.Signature:
		return &FuncV{}
	case *types.Chan:
		return &NativeV{kind: "chan"}
	case *types.Tuple:
		tv := make(TupleV, u.Len())
		for i := range tv {
			tv[i] = in.zero(u.At(i).Type())
		}
		return tv
	}
	panic(in.unsupported(fmt.Sprintf("zero value of %s", t)))
}

func intWidth(b *types.Basic) int {
	switch b.Kind() {
	case types.Int8, types.Uint8:
		return 8
	case types.Int16, types.Uint16:
		return 16
	case types.Int32, types.Uint32:
		return 32
	case types.UntypedInt, types.UntypedRune:
		return 64
	}
	return 64
}
func floatWidth(b *types.Basic) int {
	if b.Kind() == types.Float32 {
		return 32
	}
	return 64
}
func isSigned(t types.Type) bool {
	b, ok := t.Underlying().(*types.Basic)
	return ok && b.Info()&types.IsInteger != 0 && b.Info()&types.IsUnsigned == 0
}
func isInteger(t types.Type) bool {
	b, ok := t.Underlying().(*types.Basic)
	return ok && b.Info()&types.IsInteger != 0
}
func isString(t types.Type) bool {
	b, ok := t.Underlying().(*types.Basic)
	return ok && b.Info()&types.IsString != 0
}
func isFloat(t types.Type) bool {
	b, ok := t.Underlying().(*types.Basic)
	return ok && b.Info()&types.IsFloat != 0
}
func isBool(t types.Type) bool {
	b, ok := t.Underlying().(*types.Basic)
	return ok && b.Info()&types.IsBoolean != 0
}

// heap navigation -------------------------------------------------------------

func getPath(v Value, path []int) Value {
	for _, i := range path {
		switch a := v.(type) {
		case *StructV:
			v = a.f[i]
		case *ArrayV:
			v = a.e[i]
		default:
			panic(fmt.Sprintf("getPath: cannot index %T", v))
		}
	}
	return v
}

// setPath returns a copy of v with the value at path replaced (path copying).
// Root-level arrays that are not shared are updated in place.
func setPath(v Value, path []int, nv Value, top bool) Value {
	if len(path) == 0 {
		return nv
	}
	i := path[0]
	switch a := v.(type) {
	case *StructV:
		c := &StructV{f: make([]Value, len(a.f))}
		copy(c.f, a.f)
		c.f[i] = setPath(a.f[i], path[1:], nv, false)
		return c
	case *ArrayV:
		if top && !a.cow {
			a.e[i] = setPath(a.e[i], path[1:], nv, false)
			return a
		}
		c := &ArrayV{e: make([]Value, len(a.e))}
		copy(c.e, a.e)
		c.e[i] = setPath(a.e[i], path[1:], nv, false)
		return c
	}
	panic(fmt.Sprintf("setPath: cannot index %T", v))
}

func (o *Object) load(path []int) Value {
	v := getPath(o.root, path)
	if a, ok := v.(*ArrayV); ok {
		a.cow = true
	}
	return v
}

func (o *Object) store(path []int, nv Value) {
	if o.sess != nil {
		o.sess.touchObj(o)
	}
	o.root = setPath(o.root, path, nv, true)
}

// array returns the backing array at path (not marked shared).
func (o *Object) array(path []int) *ArrayV {
	a, ok := getPath(o.root, path).(*ArrayV)
	if !ok {
		panic("object path is not an array")
	}
	return a
}

func (o *Object) setElem(path []int, i int, nv Value) {
	if o.sess != nil {
		o.sess.touchObj(o)
	}
	if len(path) == 0 {
		a := o.root.(*ArrayV)
		if a.cow {
			c := &ArrayV{e: make([]Value, len(a.e))}
			copy(c.e, a.e)
			o.root = c
			a = c
		}
		a.e[i] = nv
		return
	}
	p := make([]int, len(path)+1)
	copy(p, path)
	p[len(path)] = i
	o.store(p, nv)
}

func constInt(t *Term) (int, bool) {
	if t.IsConst() {
		if t.c.IsInt64() {
			return int(signedOf(t.c, t.W).Int64()), true
		}
		return int(t.Int64()), true
	}
	return 0, false
}

func bigU(v uint64) *big.Int { return new(big.Int).SetUint64(v) }

// ---------------------------------------------------------------------------
// objects created by package initialisers are shared between the paths of a
// session; a path's writes to them are undone when the path ends

func (s *Session) touchObj(o *Object) {
	if s.initDepth > 0 || s.touched[o] {
		return
	}
	s.touched[o] = true
	old := o.root
	if a, ok := old.(*ArrayV); ok {
		a.cow = true // the write that follows clones instead of updating in place
	}
	s.undo = append(s.undo, func() { o.root = old })
}

func (s *Session) touchMap(m *MapObj) {
	if s.initDepth > 0 || s.touchedMaps[m] {
		return
	}
	s.touchedMaps[m] = true
	old := m.entries
	cp := make([]*MapEntry, len(old))
	for i, e := range old {
		c := *e
		cp[i] = &c
	}
	m.entries = cp
	s.undo = append(s.undo, func() { m.entries = old })
}

func (s *Session) endPath() {
	for i := len(s.undo) - 1; i >= 0; i-- {
		s.undo[i]()
	}
	s.undo = s.undo[:0]
	for k := range s.touched {
		delete(s.touched, k)
	}
	for k := range s.touchedMaps {
		delete(s.touchedMaps, k)
	}
}
