package main

// Int-mode printing.  Every bit-vector term is an SMT Int in one of two
// representations: 'U' (value in [0,2^w)) or 'S' (value in [-2^(w-1),2^(w-1))).
// Signed code keeps the signed representation end to end, so sign extension is
// the identity and products of sign-extended values stay small; wrap-around
// is relational (fresh quotient variable), never `mod`.

import (
	"fmt"
	"math/big"
	"strings"
)

func (p *Printer) isS(t *Term) bool { return p.rep[t.id] == 'S' }

func constStr(c *big.Int, w int, signed bool) string {
	v := c
	if signed {
		v = signedOf(c, w)
	}
	if v.Sign() < 0 {
		return "(- " + new(big.Int).Neg(v).String() + ")"
	}
	return v.String()
}

// u / s: expression of t in the requested representation
func (p *Printer) u(t *Term) string {
	if t.IsConst() {
		return constStr(t.c, t.W, false)
	}
	e := p.defined[t.id]
	if !p.isS(t) {
		return e
	}
	if c, ok := p.conv[t.id]; ok {
		return c
	}
	n := fmt.Sprintf("t%du", t.id)
	p.out = append(p.out, fmt.Sprintf("(define-fun %s () Int (ite (< %s 0) (+ %s %s) %s))", n, e, e, pow2(t.W), e))
	p.conv[t.id] = n
	return n
}

func (p *Printer) s(t *Term) string {
	if t.IsConst() {
		return constStr(t.c, t.W, true)
	}
	e := p.defined[t.id]
	if p.isS(t) {
		return e
	}
	if c, ok := p.conv[t.id]; ok {
		return c
	}
	n := fmt.Sprintf("t%ds", t.id)
	p.out = append(p.out, fmt.Sprintf("(define-fun %s () Int (ite (>= %s %s) (- %s %s) %s))", n, e, pow2(t.W-1), e, pow2(t.W), e))
	p.conv[t.id] = n
	return n
}

func (p *Printer) anyS(ts ...*Term) bool {
	for _, t := range ts {
		if !t.IsConst() && p.isS(t) {
			return true
		}
	}
	return false
}

func wrapU(e string, w int) string {
	M := pow2(w)
	return fmt.Sprintf("(ite (< %s 0) (+ %s %s) (ite (>= %s %s) (- %s %s) %s))", e, e, M, e, M, e, M, e)
}
func wrapS(e string, w int) string {
	M, H := pow2(w), pow2(w-1)
	return fmt.Sprintf("(ite (< %s (- %s)) (+ %s %s) (ite (>= %s %s) (- %s %s) %s))", e, H, e, M, e, H, e, M, e)
}

func (p *Printer) intExpr(t *Term, sides *[]string) string {
	w := t.W
	M := pow2(w)
	a := t.args
	switch t.op {
	case OpIte:
		if p.anyS(a[1], a[2]) {
			p.rep[t.id] = 'S'
			return fmt.Sprintf("(ite %s %s %s)", p.defined[a[0].id], p.s(a[1]), p.s(a[2]))
		}
		return fmt.Sprintf("(ite %s %s %s)", p.defined[a[0].id], p.u(a[1]), p.u(a[2]))
	case OpEq:
		if p.anyS(a[0], a[1]) {
			return fmt.Sprintf("(= %s %s)", p.s(a[0]), p.s(a[1]))
		}
		return fmt.Sprintf("(= %s %s)", p.u(a[0]), p.u(a[1]))
	case OpAdd, OpSub:
		op := "+"
		if t.op == OpSub {
			op = "-"
		}
		if p.anyS(a[0], a[1]) {
			p.rep[t.id] = 'S'
			return wrapS(fmt.Sprintf("(%s %s %s)", op, p.s(a[0]), p.s(a[1])), w)
		}
		return wrapU(fmt.Sprintf("(%s %s %s)", op, p.u(a[0]), p.u(a[1])), w)
	case OpNeg:
		if p.anyS(a[0]) {
			p.rep[t.id] = 'S'
			e := p.s(a[0])
			return fmt.Sprintf("(ite (= %s (- %s)) %s (- %s))", e, pow2(w-1), e, e)
		}
		e := p.u(a[0])
		return fmt.Sprintf("(ite (= %s 0) 0 (- %s %s))", e, M, e)
	case OpMul:
		if p.anyS(a[0], a[1]) {
			p.rep[t.id] = 'S'
			H := pow2(w - 1)
			r := p.freshInt("(- "+H+")", H, sides)
			k := p.freshInt("(- "+pow2(w)+")", M, sides)
			*sides = append(*sides, fmt.Sprintf("(= (* %s %s) (+ (* %s %s) %s))", p.s(a[0]), p.s(a[1]), k, M, r))
			return r
		}
		r := p.freshInt("0", M, sides)
		k := p.freshInt("0", M, sides)
		*sides = append(*sides, fmt.Sprintf("(= (* %s %s) (+ (* %s %s) %s))", p.u(a[0]), p.u(a[1]), k, M, r))
		return r
	case OpUDiv, OpURem:
		x, y := p.u(a[0]), p.u(a[1])
		key := fmt.Sprintf("u:%d:%d", a[0].id, a[1].id)
		qr, shared := p.divCache[key]
		if !shared {
			qr = [2]string{p.freshInt("0", M, sides), p.freshInt("0", M, sides)}
			p.divCache[key] = qr
			p.divOwner[key] = t.id
		} else {
			p.sideDeps[t.id] = append(p.sideDeps[t.id], p.divOwner[key])
		}
		q, r := qr[0], qr[1]
		if !shared {
			*sides = append(*sides, fmt.Sprintf("(=> (> %s 0) (and (= %s (+ (* %s %s) %s)) (< %s %s)))", y, x, q, y, r, r, y))
			*sides = append(*sides, fmt.Sprintf("(=> (= %s 0) (and (= %s %s) (= %s %s)))", y, q, new(big.Int).Sub(new(big.Int).Lsh(big.NewInt(1), uint(w)), big.NewInt(1)).String(), r, x))
		}
		if t.op == OpUDiv {
			return q
		}
		return r
	case OpSDiv, OpSRem:
		p.rep[t.id] = 'S'
		x, y := p.s(a[0]), p.s(a[1])
		H := pow2(w - 1)
		key := fmt.Sprintf("s:%d:%d", a[0].id, a[1].id)
		qr, shared := p.divCache[key]
		if !shared {
			qr = [2]string{p.freshInt("(- "+H+")", "(+ "+H+" 1)", sides), p.freshInt("(- "+H+")", H, sides)}
			p.divCache[key] = qr
			p.divOwner[key] = t.id
		} else {
			p.sideDeps[t.id] = append(p.sideDeps[t.id], p.divOwner[key])
		}
		q, r := qr[0], qr[1]
		if !shared {
			// truncated division (Go and SMT-LIB agree for y != 0)
			*sides = append(*sides, fmt.Sprintf("(=> (not (= %s 0)) (and (= %s (+ (* %s %s) %s)) (< (abs %s) (abs %s)) (or (= %s 0) (= (< %s 0) (< %s 0)))))", y, x, q, y, r, r, y, r, r, x))
			// y == 0 (never evaluated by Go): bvsdiv -> 1 / -1, bvsrem -> x
			*sides = append(*sides, fmt.Sprintf("(=> (= %s 0) (and (= %s (ite (< %s 0) 1 (- 1))) (= %s %s)))", y, q, x, r, x))
		}
		if t.op == OpSDiv {
			return fmt.Sprintf("(ite (>= %s %s) (- %s %s) %s)", q, H, q, M, q)
		}
		return r
	case OpULt:
		return fmt.Sprintf("(< %s %s)", p.u(a[0]), p.u(a[1]))
	case OpULe:
		return fmt.Sprintf("(<= %s %s)", p.u(a[0]), p.u(a[1]))
	case OpSLt:
		return fmt.Sprintf("(< %s %s)", p.s(a[0]), p.s(a[1]))
	case OpSLe:
		return fmt.Sprintf("(<= %s %s)", p.s(a[0]), p.s(a[1]))
	case OpZExt:
		return p.u(a[0])
	case OpSExt:
		p.rep[t.id] = 'S'
		return p.s(a[0])
	case OpConcat:
		return fmt.Sprintf("(+ (* %s %s) %s)", p.u(a[0]), pow2(a[1].W), p.u(a[1]))
	case OpExtract:
		iw := a[0].W
		// truncation of a signed value to its low bits, kept signed:
		// x = k*2^n + r with r in [-2^(n-1), 2^(n-1))
		if t.lo == 0 && p.anyS(a[0]) {
			p.rep[t.id] = 'S'
			n := t.hi + 1
			H := pow2(n - 1)
			r := p.freshInt("(- "+H+")", H, sides)
			k := p.freshInt("(- "+pow2(iw-n)+")", pow2(iw-n), sides)
			*sides = append(*sides, fmt.Sprintf("(= %s (+ (* %s %s) %s))", p.s(a[0]), k, pow2(n), r))
			return r
		}
		var parts []string
		m := p.freshInt("0", pow2(t.hi-t.lo+1), sides)
		if t.hi+1 < iw {
			h := p.freshInt("0", pow2(iw-t.hi-1), sides)
			parts = append(parts, fmt.Sprintf("(* %s %s)", h, pow2(t.hi+1)))
		}
		if t.lo > 0 {
			parts = append(parts, fmt.Sprintf("(* %s %s)", m, pow2(t.lo)))
			l := p.freshInt("0", pow2(t.lo), sides)
			parts = append(parts, l)
		} else {
			parts = append(parts, m)
		}
		sum := parts[0]
		if len(parts) > 1 {
			sum = "(+ " + strings.Join(parts, " ") + ")"
		}
		*sides = append(*sides, fmt.Sprintf("(= %s %s)", p.u(a[0]), sum))
		return m
	case OpBvAnd:
		if a[1].IsConst() && isLowMask(a[1].c) {
			k := a[1].c.BitLen()
			lo := p.freshInt("0", pow2(k), sides)
			hi := p.freshInt("0", pow2(w-k), sides)
			*sides = append(*sides, fmt.Sprintf("(= %s (+ (* %s %s) %s))", p.u(a[0]), hi, pow2(k), lo))
			return lo
		}
	case OpBvNot:
		return fmt.Sprintf("(- %s %s)", new(big.Int).Sub(new(big.Int).Lsh(big.NewInt(1), uint(w)), big.NewInt(1)).String(), p.u(a[0]))
	case OpShl, OpLShr, OpAShr:
		// constant amounts were lowered to extract/concat by the term layer (except AShr)
		if a[1].IsConst() && t.op == OpAShr {
			n := int(a[1].c.Uint64())
			if n >= w {
				n = w - 1
			}
			p.rep[t.id] = 'S'
			q := p.freshInt("(- "+pow2(w-1)+")", pow2(w-1), sides)
			r := p.freshInt("0", pow2(n), sides)
			*sides = append(*sides, fmt.Sprintf("(= %s (+ (* %s %s) %s))", p.s(a[0]), q, pow2(n), r))
			return q
		}
	}
	if p.err == nil {
		p.err = fmt.Errorf("int mode cannot encode %s", opNames[t.op])
	}
	return "0"
}
