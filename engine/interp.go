package main

import (
	"os"
	"fmt"
	"go/constant"
	"go/token"
	"go/types"
	"math/big"
	"sort"
	"strings"

	"golang.org/x/tools/go/ssa"
)

// pathEnd is raised (as a host panic) to terminate the current path.
type pathEnd struct {
	kind string // "done", "infeasible", "unsupported", "unwind", "budget", "assume"
	msg  string
}

// goPanic is a Go-level panic travelling through interpreted frames.
type goPanic struct {
	val  Value
	site string
	msg  string
	// runtime panics (bounds, nil deref, div by zero) carry a class
	class string
}

type decision struct {
	alts []int64
	cur  int
}

type deferred struct {
	fn   Value
	args []Value
	call *ssa.CallCommon
}

type Frame struct {
	fn        *ssa.Function
	regs      map[ssa.Value]Value
	defers    []deferred
	prev      *ssa.BasicBlock
	panicking *goPanic
	inDefers  bool
	caller    *Frame
	results   Value
	merged    []Value // phi values of the next block, precomputed by if-conversion (x_c29.go)
}

type Violation struct {
	Label   string
	Kind    string // "assert" | "panic" | "alloc"
	Site    string
	Model   map[string]*big.Int
	Msg     string
	KnownID string
	Path    int
}

type knownRegion struct {
	id   string
	cond *Term
}

type Interp struct {
	sess *Session
	prog *ssa.Program
	ts   *TermStore
	sol  *Solver

	pc        []*Term
	decisions []decision
	dpos      int
	spec      bool // speculative execution of a pure block (if-conversion, x_c29.go)

	globals  map[*ssa.Global]*Object
	initDone map[*ssa.Package]bool
	nondetN  map[string]int
	vars     []*Term
	varSeen  map[string]bool
	objSeq   int
	mapSeq   int

	steps     int
	backedges int
	depth     int
	allocated *Term // bytes allocated on this path (64-bit)

	frame   *Frame
	initing *ssa.Package
	fixed   map[int]*Term // term id -> constant it equals under the path condition
	pcSet   map[int]bool  // ids of the conjuncts of pc
	pcHash  uint64

	known    []knownRegion
	observed []string
	reached  map[string]bool

	hashApps map[string][]*hashApp
	ufSeq    int

	concrete map[string]*big.Int // concrete mode: supplied nondet values
	models   []*cachedModel
	poolFree map[string][]Value
	fixedMask uint64
	substMemo map[int]*Term

	ob *Obligation
	r  *ObResult
}

func (in *Interp) unsupported(msg string) pathEnd {
	where := ""
	for f := in.frame; f != nil && len(where) < 300; f = f.caller {
		where += " < " + f.fn.String()
	}
	return pathEnd{"unsupported", msg + where}
}

func (in *Interp) newObject(root Value, t types.Type, label string) *Object {
	in.objSeq++
	if a, ok := root.(*ArrayV); ok && a.cow {
		c := &ArrayV{e: make([]Value, len(a.e))}
		copy(c.e, a.e)
		root = c
	}
	o := &Object{id: in.objSeq, root: root, typ: t, label: label}
	if in.initing != nil {
		o.sess = in.sess
	}
	return o
}

// ---------------------------------------------------------------------------
// path condition, decisions

func (in *Interp) assume(c *Term) {
	if c.IsTrue() {
		return
	}
	if c.IsFalse() {
		panic(pathEnd{"infeasible", "assumed false"})
	}
	in.pc = append(in.pc, c)
	in.pcHash = in.pcHash*1099511628211 + uint64(c.id) + 1
	in.pcSet[c.id] = true
	in.filterModels(c)
	// x == const on the path condition: later uses of x fold to the constant
	if c.op == OpEq && c.args[0].W > 0 {
		if c.args[1].IsConst() && !c.args[0].IsConst() {
			in.fix(c.args[0], c.args[1])
		} else if c.args[0].IsConst() && !c.args[1].IsConst() {
			in.fix(c.args[1], c.args[0])
		}
	}
}

func (in *Interp) feasible(c *Term) SatResult {
	if c.IsTrue() {
		return Sat
	}
	if c.IsFalse() {
		return Unsat
	}
	if in.concrete != nil {
		panic(pathEnd{"unsupported", "symbolic query in concrete mode: " + c.String()})
	}
	if in.modelSays(c) {
		in.r.CacheHits++
		return Sat
	}
	in.r.FeasQueries++
	res := in.sol.Check(in.pc, c)
	if res == Sat {
		in.learnModel()
	}
	return res
}

// ---------------------------------------------------------------------------
// model cache: total assignments (missing variable = 0) known, by evaluation,
// to satisfy every conjunct of the current path condition. A cached model that
// also satisfies c answers "is pc and c satisfiable" with Sat without a solver
// call; Unsat is only ever concluded by the solver.

var traceQ = os.Getenv("VERIF_TRACE") != ""

type cachedModel struct {
	m    map[string]*big.Int
	memo map[int]*big.Int
}

const modelPoolMax = 48

func (in *Interp) evalTrue(cm *cachedModel, c *Term) (ok bool) {
	defer func() {
		if r := recover(); r != nil {
			if _, isEnd := r.(pathEnd); isEnd {
				panic(r)
			}
			ok = false
		}
	}()
	return in.ts.Eval(c, cm.m, cm.memo).Sign() != 0
}

func (in *Interp) filterModels(c *Term) {
	if len(in.models) == 0 {
		return
	}
	k := 0
	for _, cm := range in.models {
		if in.evalTrue(cm, c) {
			in.models[k] = cm
			k++
		}
	}
	in.models = in.models[:k]
}

func (in *Interp) modelSays(c *Term) bool {
	for _, cm := range in.models {
		if in.evalTrue(cm, c) {
			return true
		}
	}
	return false
}

func (in *Interp) evalVal(cm *cachedModel, t *Term) (v *big.Int, ok bool) {
	defer func() {
		if r := recover(); r != nil {
			if _, isEnd := r.(pathEnd); isEnd {
				panic(r)
			}
			v, ok = nil, false
		}
	}()
	return in.ts.Eval(t, cm.m, cm.memo), true
}

// learnModelExtra is learnModel for a query that carried an extra conjunct.
func (in *Interp) learnModelExtra(extra *Term) *cachedModel {
	n := len(in.models)
	in.learnModel()
	if len(in.models) > n {
		return in.models[len(in.models)-1]
	}
	return nil
}

// learnModel stores the model of the last Sat query (which included the whole
// path condition) in the session pool and in the active set of this path.
func (in *Interp) learnModel() {
	if in.concrete != nil || len(in.vars) == 0 {
		return
	}
	m := in.sol.Model(in.vars)
	if len(m) == 0 {
		return
	}
	cm := &cachedModel{m: m, memo: map[int]*big.Int{}}
	// trust nothing: keep it only if it evaluates the path condition to true
	for _, c := range in.pc {
		if !in.evalTrue(cm, c) {
			return
		}
	}
	in.models = append(in.models, cm)
	s := in.sess
	if len(s.modelPool) >= modelPoolMax {
		copy(s.modelPool, s.modelPool[1:])
		s.modelPool = s.modelPool[:len(s.modelPool)-1]
	}
	s.modelPool = append(s.modelPool, cm)
}

// branch decides a symbolic condition for this path, recording a decision.
func (in *Interp) branch(c *Term) bool {
	if c.IsTrue() {
		return true
	}
	if c.IsFalse() {
		return false
	}
	if in.spec {
		panic(specAbort{})
	}
	// already decided on this path (the same condition is often re-evaluated,
	// e.g. when a program is parsed again): no decision, no query
	if in.pcSet[c.id] {
		return true
	}
	if in.pcSet[in.ts.Not(c).id] {
		return false
	}
	if in.dpos < len(in.decisions) {
		d := in.decisions[in.dpos]
		in.dpos++
		lit := c
		if d.alts[d.cur] != 1 {
			lit = in.ts.Not(c)
		}
		if len(d.alts) == 1 {
			in.note(lit) // implied by the path condition: not sent to the solver again
		} else {
			in.assume(lit)
		}
		return d.alts[d.cur] == 1
	}
	var alts []int64
	if traceQ {
		fmt.Fprintf(os.Stderr, "  branch %s @ %s\n", trunc(c.String(), 160), in.site())
	}
	rt := in.feasible(c)
	if rt != Unsat {
		alts = append(alts, 1)
	}
	if rt == Unsat {
		alts = append(alts, 0)
	} else {
		rf := in.feasible(in.ts.Not(c))
		if rf != Unsat {
			alts = append(alts, 0)
		}
		if rt == Unknown || rf == Unknown {
			in.r.BranchUnknown++
		}
	}
	in.decisions = append(in.decisions, decision{alts: alts})
	in.dpos++
	lit := c
	if alts[0] != 1 {
		lit = in.ts.Not(c)
	}
	if len(alts) == 1 {
		in.note(lit)
	} else {
		in.assume(lit)
	}
	return alts[0] == 1
}

// fix records that t equals the constant c under the path condition. When t
// is a variable, every later register read substitutes it (subst).
func (in *Interp) fix(t, c *Term) {
	in.fixed[t.id] = c
	if t.op == OpVar {
		in.fixedMask |= t.vmask
		in.substMemo = nil
	}
}

// subst replaces variables fixed by the path condition with their constants
// (the result is equal to t under the path condition).
func (in *Interp) subst(t *Term) *Term {
	if t.vmask&in.fixedMask == 0 || t.op == OpConst {
		return t
	}
	if t.op == OpVar {
		if c, ok := in.fixed[t.id]; ok {
			return c
		}
		return t
	}
	if r, ok := in.substMemo[t.id]; ok {
		return r
	}
	changed := false
	args := make([]*Term, len(t.args))
	for i, a := range t.args {
		args[i] = in.subst(a)
		if args[i] != a {
			changed = true
		}
	}
	r := t
	if changed {
		r = in.ts.rebuild(t, args)
	}
	if in.substMemo == nil {
		in.substMemo = map[int]*Term{}
	}
	in.substMemo[t.id] = r
	return r
}

// note records a fact implied by the path condition: it is remembered for
// syntactic reuse but not added to the solver's assertion stack.
func (in *Interp) note(c *Term) {
	if c.IsConst() {
		return
	}
	in.pcSet[c.id] = true
	if c.op == OpEq && c.args[0].W > 0 {
		if c.args[1].IsConst() && !c.args[0].IsConst() {
			in.fix(c.args[0], c.args[1])
		} else if c.args[0].IsConst() && !c.args[1].IsConst() {
			in.fix(c.args[1], c.args[0])
		}
	}
}

// choice picks one of n alternatives (all considered feasible).
func (in *Interp) choice(n int) int {
	if in.spec {
		panic(specAbort{})
	}
	if in.dpos < len(in.decisions) {
		d := in.decisions[in.dpos]
		in.dpos++
		return int(d.alts[d.cur])
	}
	alts := make([]int64, n)
	for i := range alts {
		alts[i] = int64(i)
	}
	in.decisions = append(in.decisions, decision{alts: alts})
	in.dpos++
	return 0
}

// concretize forks over the feasible values of t (at most max of them).
func (in *Interp) concretize(t *Term, max int, what string) int64 {
	if t.IsConst() {
		return t.Int64()
	}
	if in.spec {
		panic(specAbort{})
	}
	if in.dpos < len(in.decisions) {
		d := in.decisions[in.dpos]
		in.dpos++
		v := d.alts[d.cur]
		if len(d.alts) == 1 {
			in.note(in.ts.Eq(t, in.ts.ConstI(t.W, v)))
		} else {
			in.assume(in.ts.Eq(t, in.ts.ConstI(t.W, v)))
		}
		return v
	}
	var alts []int64
	block := in.ts.True
	if traceQ {
		fmt.Fprintf(os.Stderr, "  concretize %s (%s) @ %s\n", trunc(t.String(), 160), what, in.site())
	}
	if in.concrete != nil {
		panic(pathEnd{"unsupported", "symbolic value in concrete mode: " + t.String()})
	}
	// values taken by t in cached models of the path condition are feasible
	seenVal := map[string]bool{}
	for _, cm := range in.models {
		v, ok := in.evalVal(cm, t)
		if !ok || seenVal[v.String()] {
			continue
		}
		seenVal[v.String()] = true
		alts = append(alts, signedOf(v, t.W).Int64())
		if len(alts) > max {
			panic(pathEnd{"unwind", fmt.Sprintf("more than %d values for %s", max, what)})
		}
		block = in.ts.And(block, in.ts.Ne(t, in.ts.Const(t.W, v)))
	}
	for {
		var extra *Term
		if !block.IsTrue() {
			extra = block
		}
		in.r.FeasQueries++
		r := in.sol.Check(in.pc, extra) // always a real query: the model is read next
		if r == Unsat {
			break
		}
		if r == Unknown {
			panic(pathEnd{"unknown", "solver unknown while concretising " + what})
		}
		var v *big.Int
		if cm := in.learnModelExtra(block); cm != nil {
			v, _ = in.evalVal(cm, t)
		}
		if v == nil {
			m := in.sol.Model(termVars(t))
			v = in.ts.Eval(t, m, map[int]*big.Int{})
		}
		sv := signedOf(v, t.W).Int64()
		alts = append(alts, sv)
		if len(alts) > max {
			panic(pathEnd{"unwind", fmt.Sprintf("more than %d values for %s", max, what)})
		}
		block = in.ts.And(block, in.ts.Ne(t, in.ts.Const(t.W, v)))
	}
	if len(alts) == 0 {
		panic(pathEnd{"infeasible", "no value for " + what})
	}
	sort.Slice(alts, func(i, j int) bool { return alts[i] < alts[j] })
	in.decisions = append(in.decisions, decision{alts: alts})
	in.dpos++
	if len(alts) == 1 {
		in.note(in.ts.Eq(t, in.ts.ConstI(t.W, alts[0])))
	} else {
		in.assume(in.ts.Eq(t, in.ts.ConstI(t.W, alts[0])))
	}
	return alts[0]
}

func termVars(t *Term) []*Term {
	seen := map[int]bool{}
	var out []*Term
	stack := []*Term{t}
	for len(stack) > 0 {
		x := stack[len(stack)-1]
		stack = stack[:len(stack)-1]
		if seen[x.id] {
			continue
		}
		seen[x.id] = true
		if x.op == OpVar {
			out = append(out, x)
		}
		stack = append(stack, x.args...)
	}
	return out
}

// ---------------------------------------------------------------------------
// Go panics

func (in *Interp) site() string {
	if in.frame == nil {
		return "?"
	}
	f := in.frame.fn
	file := ""
	if f.Pos().IsValid() {
		file = in.prog.Fset.Position(f.Pos()).Filename
		if i := strings.LastIndex(file, "/"); i >= 0 {
			file = file[i+1:]
		}
	}
	return file + ":" + f.String()
}

func (in *Interp) rtPanic(class, msg string) {
	panic(&goPanic{val: &IfaceV{typ: types.Universe.Lookup("error").Type(), v: &StrV{tag: "runtime error: " + msg, b: in.strBytes("runtime error: " + msg)}}, site: in.site(), msg: "runtime error: " + msg, class: class})
}

func (in *Interp) strBytes(s string) []*Term {
	b := make([]*Term, len(s))
	for i := 0; i < len(s); i++ {
		b[i] = in.sess.byteConst[s[i]]
	}
	return b
}

func (in *Interp) mkStr(s string) *StrV { return &StrV{b: in.strBytes(s)} }

// ---------------------------------------------------------------------------
// calls

func (in *Interp) callValue(fv Value, args []Value) Value {
	f, ok := fv.(*FuncV)
	if !ok || (f.fn == nil && f.native == nil) {
		in.rtPanic("nil-deref", "invalid memory address or nil pointer dereference (nil func)")
	}
	if f.native != nil {
		return f.native(in, args)
	}
	if len(f.bindings) > 0 {
		return in.callFn(f.fn, args, f.bindings)
	}
	return in.callFn(f.fn, args, nil)
}

func (in *Interp) callFn(fn *ssa.Function, args []Value, bindings []Value) Value {
	if ov, ok := in.sess.overrides[fn.String()]; ok && (in.frame == nil || in.frame.fn != ov) {
		fn = ov
	}
	if h := in.sess.intrinsic(fn); h != nil {
		return h(in, fn, args)
	}
	if fn.Synthetic == "package initializer" && in.initing != fn.Pkg {
		// other packages are initialised lazily on first touch of their globals
		return nil
	}
	if fn.Blocks == nil {
		panic(in.unsupported("no body for " + fn.String()))
	}
	if in.depth > 400 {
		panic(pathEnd{"budget", "call depth exceeded in " + fn.String()})
	}
	fr := &Frame{fn: fn, regs: make(map[ssa.Value]Value, 16), caller: in.frame}
	for i, p := range fn.Params {
		fr.regs[p] = args[i]
	}
	for i, fv := range fn.FreeVars {
		fr.regs[fv] = bindings[i]
	}
	in.frame = fr
	in.depth++
	ret, gp := in.execFrom(fr, fn.Blocks[0])
	if gp != nil {
		fr.panicking = gp
		gp2 := in.runDefersCatch(fr)
		if gp2 != nil {
			in.depth--
			in.frame = fr.caller
			panic(gp2)
		}
		if fr.panicking != nil {
			in.depth--
			in.frame = fr.caller
			panic(fr.panicking)
		}
		// recovered
		if fn.Recover != nil {
			ret, gp = in.execFrom(fr, fn.Recover)
			if gp != nil {
				in.depth--
				in.frame = fr.caller
				panic(gp)
			}
		} else {
			ret = in.zeroResults(fn)
		}
	}
	in.depth--
	in.frame = fr.caller
	return ret
}

func (in *Interp) zeroResults(fn *ssa.Function) Value {
	res := fn.Signature.Results()
	switch res.Len() {
	case 0:
		return nil
	case 1:
		return in.zero(res.At(0).Type())
	}
	return in.zero(res)
}

func (in *Interp) execFrom(fr *Frame, b *ssa.BasicBlock) (ret Value, gp *goPanic) {
	defer func() {
		if r := recover(); r != nil {
			if p, ok := r.(*goPanic); ok {
				in.frame = fr
				gp = p
				return
			}
			panic(r)
		}
	}()
	ret = in.runBlocks(fr, b)
	return
}

func (in *Interp) runDefersCatch(fr *Frame) (gp *goPanic) {
	defer func() {
		if r := recover(); r != nil {
			if p, ok := r.(*goPanic); ok {
				in.frame = fr
				// a panic inside a deferred call replaces the current one; run remaining defers
				fr.panicking = p
				gp2 := in.runDefersCatch(fr)
				if gp2 != nil {
					gp = gp2
				} else if fr.panicking != nil {
					gp = fr.panicking
				}
				return
			}
			panic(r)
		}
	}()
	in.runDefers(fr)
	return nil
}

func (in *Interp) runDefers(fr *Frame) {
	for len(fr.defers) > 0 {
		d := fr.defers[len(fr.defers)-1]
		fr.defers = fr.defers[:len(fr.defers)-1]
		old := fr.inDefers
		fr.inDefers = true
		in.doCall(fr, d.call, d.fn, d.args)
		fr.inDefers = old
	}
}

func (in *Interp) get(fr *Frame, v ssa.Value) Value {
	switch x := v.(type) {
	case *ssa.Const:
		return in.constValue(x)
	case *ssa.Global:
		return &PtrV{obj: in.globalObj(x)}
	case *ssa.Function:
		return &FuncV{fn: x}
	case *ssa.Builtin:
		return &FuncV{name: x.Name()}
	}
	r, ok := fr.regs[v]
	if !ok {
		panic(fmt.Sprintf("internal: unset register %s in %s", v.Name(), fr.fn))
	}
	if len(in.fixed) > 0 {
		if t, ok := r.(*Term); ok && t.op != OpConst {
			if c, ok := in.fixed[t.id]; ok {
				return c
			}
			if t.vmask&in.fixedMask != 0 {
				return in.subst(t)
			}
		}
	}
	return r
}

func (in *Interp) constValue(c *ssa.Const) Value {
	t := c.Type()
	if c.Value == nil {
		return in.zero(t)
	}
	switch u := t.Underlying().(type) {
	case *types.Basic:
		switch {
		case u.Info()&types.IsBoolean != 0:
			return in.ts.Bool(constant.BoolVal(c.Value))
		case u.Info()&types.IsInteger != 0:
			v := constant.ToInt(c.Value)
			bi, ok := new(big.Int).SetString(v.ExactString(), 10)
			if !ok {
				panic("bad int const " + v.ExactString())
			}
			return in.ts.Const(intWidth(u), bi)
		case u.Info()&types.IsFloat != 0:
			f, _ := constant.Float64Val(constant.ToFloat(c.Value))
			return FloatV{f, floatWidth(u)}
		case u.Info()&types.IsString != 0:
			return in.sess.constStr(constant.StringVal(c.Value))
		case u.Info()&types.IsComplex != 0:
			re, _ := constant.Float64Val(constant.Real(c.Value))
			im, _ := constant.Float64Val(constant.Imag(c.Value))
			return ComplexV{complex(re, im)}
		}
	}
	panic(in.unsupported("constant of type " + t.String()))
}

func (in *Interp) globalObj(g *ssa.Global) *Object {
	if o, ok := in.globals[g]; ok {
		return o
	}
	in.ensureInit(g.Pkg)
	if o, ok := in.globals[g]; ok {
		return o
	}
	et := g.Type().(*types.Pointer).Elem()
	o := in.newObject(in.zero(et), et, "global "+g.String())
	in.globals[g] = o
	return o
}

func (in *Interp) ensureInit(p *ssa.Package) {
	if p == nil || in.initDone[p] {
		return
	}
	in.initDone[p] = true
	if cached, ok := in.sess.initCache[p]; ok {
		for _, b := range cached {
			in.globals[b.g] = b.o
		}
		return
	}
	in.sess.initDepth++
	defer func() {
		in.sess.initDepth--
		if r := recover(); r != nil {
			panic(r) // failed initialisation is not cached
		}
		var bs []globalBinding
		for _, m := range p.Members {
			if g, ok := m.(*ssa.Global); ok {
				if o, ok := in.globals[g]; ok {
					o.sess = in.sess
					bs = append(bs, globalBinding{g, o})
				}
			}
		}
		in.sess.initCache[p] = bs
	}()
	// allocate all globals first
	for _, m := range p.Members {
		if g, ok := m.(*ssa.Global); ok {
			if _, ok := in.globals[g]; !ok {
				et := g.Type().(*types.Pointer).Elem()
				in.globals[g] = in.newObject(in.zero(et), et, "global "+g.String())
			}
		}
	}
	if in.sess.skipInit(p) {
		return
	}
	initFn := p.Func("init")
	if initFn == nil || initFn.Blocks == nil {
		return
	}
	saved := in.frame
	savedDepth := in.depth
	savedInit := in.initing
	in.frame = nil
	in.initing = p
	func() {
		defer func() {
			if r := recover(); r != nil {
				if pe, ok := r.(pathEnd); ok && pe.kind == "unsupported" {
					panic(pathEnd{"unsupported", "init of " + p.Pkg.Path() + ": " + pe.msg})
				}
				if gp, ok := r.(*goPanic); ok {
					panic(pathEnd{"unsupported", "init of " + p.Pkg.Path() + " panicked: " + gp.msg})
				}
				panic(r)
			}
		}()
		in.callFn(initFn, nil, nil)
	}()
	in.frame = saved
	in.depth = savedDepth
	in.initing = savedInit
}

// ---------------------------------------------------------------------------
// the block loop

func (in *Interp) runBlocks(fr *Frame, b *ssa.BasicBlock) Value {
	for {
		nphi := 0
		var phiVals []Value
		for _, instr := range b.Instrs {
			phi, ok := instr.(*ssa.Phi)
			if !ok {
				break
			}
			if fr.merged != nil {
				phiVals = append(phiVals, fr.merged[nphi])
				nphi++
				continue
			}
			for i, p := range b.Preds {
				if p == fr.prev {
					phiVals = append(phiVals, in.get(fr, phi.Edges[i]))
					break
				}
			}
			nphi++
		}
		for i := 0; i < nphi; i++ {
			fr.regs[b.Instrs[i].(*ssa.Phi)] = phiVals[i]
		}
		fr.merged = nil
	next:
		for _, instr := range b.Instrs[nphi:] {
			in.steps++
			if in.steps > in.ob.MaxSteps {
				panic(pathEnd{"budget", "step budget exceeded"})
			}
			switch x := instr.(type) {
			case *ssa.Jump:
				fr.prev, b = b, b.Succs[0]
				if b.Index <= fr.prev.Index {
					in.backedge()
				}
				break next
			case *ssa.If:
				c := in.get(fr, x.Cond).(*Term)
				var t bool
				if c.IsConst() {
					t = c.IsTrue()
				} else if j := in.tryIfConvert(fr, b, c); j != nil {
					fr.prev, b = b, j
					if b.Index <= fr.prev.Index {
						in.backedge()
					}
					break next
				} else {
					t = in.branch(c)
				}
				fr.prev = b
				if t {
					b = b.Succs[0]
				} else {
					b = b.Succs[1]
				}
				if b.Index <= fr.prev.Index {
					in.backedge()
				}
				break next
			case *ssa.Return:
				switch len(x.Results) {
				case 0:
					return nil
				case 1:
					return in.get(fr, x.Results[0])
				}
				tv := make(TupleV, len(x.Results))
				for i, r := range x.Results {
					tv[i] = in.get(fr, r)
				}
				return tv
			case *ssa.Panic:
				v := in.get(fr, x.X)
				panic(&goPanic{val: v, site: in.site(), msg: in.describe(v), class: "explicit"})
			case *ssa.RunDefers:
				in.runDefers(fr)
			default:
				in.exec(fr, instr)
			}
		}
	}
}

func (in *Interp) backedge() {
	if in.initing != nil {
		return // package initialisers are concrete and finite
	}
	in.backedges++
	if in.backedges > in.ob.MaxLoops {
		panic(pathEnd{"unwind", fmt.Sprintf("loop budget %d exceeded in %s", in.ob.MaxLoops, in.frame.fn)})
	}
}

func (in *Interp) describe(v Value) string {
	switch x := v.(type) {
	case *IfaceV:
		if x.typ == nil {
			return "nil"
		}
		return fmt.Sprintf("%s(%s)", x.typ, in.describe(x.v))
	case *StrV:
		if x.opaque {
			return "<" + x.tag + ">"
		}
		var sb strings.Builder
		for _, b := range x.b {
			if b.IsConst() {
				sb.WriteByte(byte(b.Uint64()))
			} else {
				sb.WriteByte('?')
			}
		}
		return sb.String()
	case *Term:
		return x.String()
	case *PtrV:
		if x.isNil() {
			return "nil"
		}
		return "&" + in.describe(x.obj.load(x.path))
	case *StructV:
		var parts []string
		for _, f := range x.f {
			parts = append(parts, in.describe(f))
		}
		s := "{" + strings.Join(parts, " ") + "}"
		if len(s) > 200 {
			s = s[:200] + "..."
		}
		return s
	}
	return fmt.Sprintf("%T", v)
}

func (in *Interp) exec(fr *Frame, instr ssa.Instruction) {
	switch x := instr.(type) {
	case *ssa.Alloc:
		et := x.Type().(*types.Pointer).Elem()
		o := in.newObject(in.zero(et), et, x.Comment)
		if x.Heap {
			in.chargeAlloc(et, nil)
		}
		fr.regs[x] = &PtrV{obj: o}
	case *ssa.BinOp:
		fr.regs[x] = in.binop(x.Op, in.get(fr, x.X), in.get(fr, x.Y), x.X.Type(), x.Y.Type())
	case *ssa.UnOp:
		fr.regs[x] = in.unop(x, in.get(fr, x.X))
	case *ssa.Call:
		fr.regs[x] = in.doCallCommon(fr, &x.Call)
	case *ssa.ChangeInterface:
		fr.regs[x] = in.get(fr, x.X)
	case *ssa.ChangeType:
		fr.regs[x] = in.get(fr, x.X)
	case *ssa.Convert:
		fr.regs[x] = in.convert(in.get(fr, x.X), x.X.Type(), x.Type())
	case *ssa.MultiConvert:
		fr.regs[x] = in.convert(in.get(fr, x.X), x.X.Type(), x.Type())
	case *ssa.DebugRef:
	case *ssa.Defer:
		fv, args := in.prepareCall(fr, &x.Call)
		fr.defers = append(fr.defers, deferred{fn: fv, args: args, call: &x.Call})
	case *ssa.Extract:
		fr.regs[x] = in.get(fr, x.Tuple).(TupleV)[x.Index]
	case *ssa.Field:
		fr.regs[x] = in.get(fr, x.X).(*StructV).f[x.Field]
	case *ssa.FieldAddr:
		p := in.get(fr, x.X).(*PtrV)
		if p.isNil() {
			in.rtPanic("nil-deref", "invalid memory address or nil pointer dereference")
		}
		p = in.concretePtr(p)
		np := make([]int, len(p.path)+1)
		copy(np, p.path)
		np[len(p.path)] = x.Field
		fr.regs[x] = &PtrV{obj: p.obj, path: np}
	case *ssa.Index:
		fr.regs[x] = in.indexValue(in.get(fr, x.X), in.get(fr, x.Index).(*Term), x.Index.Type())
	case *ssa.IndexAddr:
		fr.regs[x] = in.indexAddr(in.get(fr, x.X), in.get(fr, x.Index).(*Term), x.Index.Type())
	case *ssa.Lookup:
		fr.regs[x] = in.lookup(in.get(fr, x.X), in.get(fr, x.Index), x)
	case *ssa.MakeClosure:
		b := make([]Value, len(x.Bindings))
		for i, bv := range x.Bindings {
			b[i] = in.get(fr, bv)
		}
		fr.regs[x] = &FuncV{fn: x.Fn.(*ssa.Function), bindings: b}
	case *ssa.MakeInterface:
		fr.regs[x] = &IfaceV{typ: x.X.Type(), v: in.get(fr, x.X)}
	case *ssa.MakeMap:
		mt := x.Type().Underlying().(*types.Map)
		in.mapSeq++
		mo := &MapObj{id: in.mapSeq, kt: mt.Key(), vt: mt.Elem()}
		if in.initing != nil {
			mo.sess = in.sess
		}
		fr.regs[x] = &MapV{m: mo}
	case *ssa.MakeSlice:
		fr.regs[x] = in.makeSlice(x.Type().Underlying().(*types.Slice).Elem(), in.toInt64(in.get(fr, x.Len), x.Len.Type()), in.toInt64(in.get(fr, x.Cap), x.Cap.Type()))
	case *ssa.MapUpdate:
		in.mapUpdate(in.get(fr, x.Map), in.get(fr, x.Key), in.get(fr, x.Value))
	case *ssa.Next:
		fr.regs[x] = in.next(in.get(fr, x.Iter), x)
	case *ssa.Range:
		fr.regs[x] = in.rangeIter(in.get(fr, x.X))
	case *ssa.Slice:
		fr.regs[x] = in.sliceOp(fr, x)
	case *ssa.SliceToArrayPointer:
		fr.regs[x] = in.sliceToArrayPtr(in.get(fr, x.X).(*SliceV), x.Type().(*types.Pointer).Elem().Underlying().(*types.Array).Len())
	case *ssa.Store:
		in.store(in.get(fr, x.Addr).(*PtrV), in.get(fr, x.Val))
	case *ssa.TypeAssert:
		fr.regs[x] = in.typeAssert(x, in.get(fr, x.X).(*IfaceV))
	case *ssa.Go:
		panic(in.unsupported("go statement"))
	case *ssa.Select:
		panic(in.unsupported("select"))
	case *ssa.Send:
		panic(in.unsupported("channel send"))
	case *ssa.MakeChan:
		fr.regs[x] = &NativeV{kind: "chan"}
	default:
		panic(in.unsupported(fmt.Sprintf("instruction %T", instr)))
	}
}

func (in *Interp) toInt64(v Value, t types.Type) *Term {
	x := v.(*Term)
	if x.W == 64 {
		return x
	}
	if isSigned(t) {
		return in.ts.SExt(x, 64)
	}
	return in.ts.ZExt(x, 64)
}

func (in *Interp) prepareCall(fr *Frame, c *ssa.CallCommon) (Value, []Value) {
	args := make([]Value, 0, len(c.Args)+1)
	var fv Value
	if c.IsInvoke() {
		recv := in.get(fr, c.Value).(*IfaceV)
		if recv.typ == nil {
			in.rtPanic("nil-deref", "invalid memory address or nil pointer dereference (nil interface method call "+c.Method.Name()+")")
		}
		if nv, ok := recv.v.(*NativeV); ok && nv.kind == "rt" {
			t := nv.data.(types.Type)
			name := c.Method.Name()
			fv = &FuncV{native: func(in *Interp, args []Value) Value { return in.reflectTypeMethod(t, name, args) }}
			for _, a := range c.Args {
				args = append(args, in.get(fr, a))
			}
			return fv, args
		}
		m := in.prog.LookupMethod(recv.typ, c.Method.Pkg(), c.Method.Name())
		if m == nil {
			panic(in.unsupported(fmt.Sprintf("method %s not found on %s", c.Method.Name(), recv.typ)))
		}
		fv = &FuncV{fn: m}
		args = append(args, recv.v)
	} else {
		fv = in.get(fr, c.Value)
	}
	for _, a := range c.Args {
		args = append(args, in.get(fr, a))
	}
	return fv, args
}

func (in *Interp) doCallCommon(fr *Frame, c *ssa.CallCommon) Value {
	fv, args := in.prepareCall(fr, c)
	return in.doCall(fr, c, fv, args)
}

func (in *Interp) doCall(fr *Frame, c *ssa.CallCommon, fv Value, args []Value) Value {
	f := fv.(*FuncV)
	if f.fn == nil && f.native == nil && f.name != "" {
		return in.builtin(fr, f.name, c, args)
	}
	return in.callValue(fv, args)
}

// ---------------------------------------------------------------------------
// memory

func (in *Interp) concretePtr(p *PtrV) *PtrV {
	if p.sym == nil {
		return p
	}
	arr := p.obj.array(p.path)
	i := in.concretize(p.sym, len(arr.e)+1, "pointer index")
	np := make([]int, len(p.path)+1)
	copy(np, p.path)
	np[len(p.path)] = int(i)
	return &PtrV{obj: p.obj, path: np}
}

func (in *Interp) load(p *PtrV) Value {
	if p.isNil() {
		in.rtPanic("nil-deref", "invalid memory address or nil pointer dereference")
	}
	if p.sym != nil {
		arr := p.obj.array(p.path)
		if v, ok := in.selectElems(arr.e, p.sym, 0, len(arr.e)); ok {
			return v
		}
		p = in.concretePtr(p)
	}
	return p.obj.load(p.path)
}

// selectElems builds an ite chain over e[lo:hi] selected by idx (64-bit); only
// for scalar elements.
func (in *Interp) selectElems(e []Value, idx *Term, lo, hi int) (Value, bool) {
	if hi <= lo {
		return nil, false
	}
	allConst := true
	for i := lo; i < hi; i++ {
		t, ok := e[i].(*Term)
		if !ok {
			return nil, false
		}
		if !t.IsConst() {
			allConst = false
		}
	}
	// constant tables are read through an ite chain; buffers with symbolic
	// content are case-split on the index (unless the harness asks for ite)
	if !allConst && !in.ob.IdxIte {
		return nil, false
	}
	r := e[hi-1].(*Term)
	for i := hi - 2; i >= lo; i-- {
		r = in.ts.Ite(in.ts.Eq(idx, in.ts.ConstU(idx.W, uint64(i))), e[i].(*Term), r)
	}
	return r, true
}

func (in *Interp) store(p *PtrV, v Value) {
	if p.isNil() {
		in.rtPanic("nil-deref", "invalid memory address or nil pointer dereference")
	}
	if a, ok := v.(*ArrayV); ok {
		a.cow = true
	}
	if p.sym != nil {
		arr := p.obj.array(p.path)
		if nv, ok := v.(*Term); ok {
			allTerm := true
			for _, e := range arr.e {
				if _, ok := e.(*Term); !ok {
					allTerm = false
					break
				}
			}
			if allTerm && in.ob.IdxIte {
				for i, e := range arr.e {
					c := in.ts.Eq(p.sym, in.ts.ConstU(p.sym.W, uint64(i)))
					p.obj.setElem(p.path, i, in.ts.Ite(c, nv, e.(*Term)))
				}
				return
			}
		}
		p = in.concretePtr(p)
	}
	p.obj.store(p.path, v)
}

var stdSizes = types.StdSizes{WordSize: 8, MaxAlign: 8}

func (in *Interp) chargeAlloc(et types.Type, n *Term) {
	sz := stdSizes.Sizeof(et)
	if sz == 0 {
		return
	}
	var b *Term
	if n == nil {
		b = in.ts.ConstU(64, uint64(sz))
	} else {
		b = in.ts.Mul(n, in.ts.ConstU(64, uint64(sz)))
	}
	in.allocated = in.ts.Add(in.allocated, b)
}

func (in *Interp) boundsPanic(ok *Term, msg string) {
	if !in.branch(ok) {
		in.rtPanic("bounds", msg)
	}
}

func (in *Interp) idx64(idx *Term, it types.Type) *Term {
	if idx.W == 64 {
		return idx
	}
	if isSigned(it) {
		return in.ts.SExt(idx, 64)
	}
	return in.ts.ZExt(idx, 64)
}

func (in *Interp) indexAddr(x Value, idx *Term, it types.Type) Value {
	idx = in.idx64(idx, it)
	switch a := x.(type) {
	case *PtrV: // pointer to array
		if a.isNil() {
			in.rtPanic("nil-deref", "invalid memory address or nil pointer dereference")
		}
		a = in.concretePtr(a)
		arr := a.obj.array(a.path)
		n := len(arr.e)
		in.boundsPanic(in.ts.ULt(idx, in.ts.ConstU(64, uint64(n))), "index out of range")
		if i, ok := constInt(idx); ok {
			np := make([]int, len(a.path)+1)
			copy(np, a.path)
			np[len(a.path)] = i
			return &PtrV{obj: a.obj, path: np}
		}
		return &PtrV{obj: a.obj, path: a.path, sym: idx}
	case *SliceV:
		in.boundsPanic(in.ts.ULt(idx, a.len), "index out of range")
		abs := in.ts.Add(a.off, idx)
		if i, ok := constInt(abs); ok {
			np := make([]int, len(a.path)+1)
			copy(np, a.path)
			np[len(a.path)] = i
			return &PtrV{obj: a.obj, path: np}
		}
		return &PtrV{obj: a.obj, path: a.path, sym: abs}
	}
	panic(in.unsupported(fmt.Sprintf("IndexAddr on %T", x)))
}

func (in *Interp) indexValue(x Value, idx *Term, it types.Type) Value {
	idx = in.idx64(idx, it)
	switch a := x.(type) {
	case *ArrayV:
		in.boundsPanic(in.ts.ULt(idx, in.ts.ConstU(64, uint64(len(a.e)))), "index out of range")
		if i, ok := constInt(idx); ok {
			return a.e[i]
		}
		if v, ok := in.selectElems(a.e, idx, 0, len(a.e)); ok {
			return v
		}
		i := in.concretize(idx, len(a.e)+1, "array index")
		return a.e[i]
	case *StrV:
		if a.opaque {
			panic(in.unsupported("indexing opaque string " + a.tag))
		}
		in.boundsPanic(in.ts.ULt(idx, in.ts.ConstU(64, uint64(len(a.b)))), "index out of range")
		if i, ok := constInt(idx); ok {
			return a.b[i]
		}
		r := a.b[len(a.b)-1]
		for i := len(a.b) - 2; i >= 0; i-- {
			r = in.ts.Ite(in.ts.Eq(idx, in.ts.ConstU(64, uint64(i))), a.b[i], r)
		}
		return r
	}
	panic(in.unsupported(fmt.Sprintf("Index on %T", x)))
}

// sliceElem reads element i (64-bit term, already bounds-checked) of s.
func (in *Interp) sliceElem(s *SliceV, i *Term) Value {
	abs := in.ts.Add(s.off, i)
	arr := s.obj.array(s.path)
	if k, ok := constInt(abs); ok {
		return arr.e[k]
	}
	if v, ok := in.selectElems(arr.e, abs, 0, len(arr.e)); ok {
		return v
	}
	k := in.concretize(abs, len(arr.e)+1, "slice index")
	return arr.e[k]
}

func (in *Interp) setSliceElem(s *SliceV, i *Term, v Value) {
	abs := in.ts.Add(s.off, i)
	if k, ok := constInt(abs); ok {
		s.obj.setElem(s.path, k, v)
		return
	}
	in.store(&PtrV{obj: s.obj, path: s.path, sym: abs}, v)
}

func (in *Interp) makeSlice(et types.Type, n, c *Term) Value {
	// panics: len out of range, cap out of range
	max := in.ts.ConstU(64, uint64(in.ob.MaxAllocElems))
	okLen := in.ts.And(in.ts.SLe(in.ts.ConstU(64, 0), n), in.ts.SLe(n, c))
	if !in.branch(okLen) {
		in.rtPanic("makeslice", "makeslice: len out of range")
	}
	if !c.IsConst() {
		// attacker-sized allocation?
		if !in.branch(in.ts.SLe(c, max)) {
			in.hugeAlloc(et, c)
		}
	} else if c.Int64() > int64(in.ob.MaxAllocElems) {
		in.hugeAlloc(et, c)
	}
	cn := in.concretize(c, in.ob.MaxSplit, "make cap")
	in.chargeAlloc(et, c)
	arr := &ArrayV{e: make([]Value, cn)}
	if cn > 0 {
		z := in.zero(et)
		for i := range arr.e {
			arr.e[i] = z
		}
	}
	o := in.newObject(arr, types.NewArray(et, cn), "make")
	return &SliceV{obj: o, off: in.ts.ConstU(64, 0), len: n, cap: in.ts.ConstI(64, cn)}
}

func (in *Interp) hugeAlloc(et types.Type, c *Term) {
	in.chargeAlloc(et, c)
	in.reportAlloc(fmt.Sprintf("allocation of more than %d elements of %s", in.ob.MaxAllocElems, et))
	panic(pathEnd{"done", "huge allocation"})
}

func (in *Interp) sliceOp(fr *Frame, x *ssa.Slice) Value {
	v := in.get(fr, x.X)
	var lo, hi, max *Term
	if x.Low != nil {
		lo = in.toInt64(in.get(fr, x.Low), x.Low.Type())
	}
	if x.High != nil {
		hi = in.toInt64(in.get(fr, x.High), x.High.Type())
	}
	if x.Max != nil {
		max = in.toInt64(in.get(fr, x.Max), x.Max.Type())
	}
	zero := in.ts.ConstU(64, 0)
	switch a := v.(type) {
	case *StrV:
		if a.opaque {
			panic(in.unsupported("slicing opaque string"))
		}
		n := in.ts.ConstU(64, uint64(len(a.b)))
		if lo == nil {
			lo = zero
		}
		if hi == nil {
			hi = n
		}
		in.boundsPanic(in.ts.And(in.ts.ULe(hi, n), in.ts.ULe(lo, hi)), "slice bounds out of range")
		l := in.concretize(lo, len(a.b)+1, "string slice low")
		h := in.concretize(hi, len(a.b)+1, "string slice high")
		return &StrV{b: a.b[l:h]}
	case *SliceV:
		if lo == nil {
			lo = zero
		}
		if hi == nil {
			hi = a.len
		}
		capT := a.cap
		if max != nil {
			in.boundsPanic(in.ts.ULe(max, a.cap), "slice bounds out of range [::x] with capacity")
			in.boundsPanic(in.ts.ULe(hi, max), "slice bounds out of range [:x:y]")
			capT = max
		} else {
			in.boundsPanic(in.ts.ULe(hi, a.cap), "slice bounds out of range [:x] with capacity")
		}
		in.boundsPanic(in.ts.ULe(lo, hi), "slice bounds out of range [x:y]")
		if a.obj == nil {
			return a
		}
		if !in.ob.IdxIte && !lo.IsConst() {
			lo = in.ts.ConstI(64, in.concretize(lo, in.ob.MaxSplit, "slice low bound"))
		}
		return &SliceV{obj: a.obj, path: a.path, off: in.ts.Add(a.off, lo), len: in.ts.Sub(hi, lo), cap: in.ts.Sub(capT, lo)}
	case *PtrV: // *array
		if a.isNil() {
			in.rtPanic("nil-deref", "slice of nil array pointer")
		}
		a = in.concretePtr(a)
		arr := a.obj.array(a.path)
		n := in.ts.ConstU(64, uint64(len(arr.e)))
		if lo == nil {
			lo = zero
		}
		if hi == nil {
			hi = n
		}
		capT := n
		if max != nil {
			in.boundsPanic(in.ts.ULe(max, n), "slice bounds out of range")
			capT = max
		}
		in.boundsPanic(in.ts.And(in.ts.ULe(hi, capT), in.ts.ULe(lo, hi)), "slice bounds out of range")
		return &SliceV{obj: a.obj, path: a.path, off: lo, len: in.ts.Sub(hi, lo), cap: in.ts.Sub(capT, lo)}
	}
	panic(in.unsupported(fmt.Sprintf("Slice on %T", v)))
}

func (in *Interp) sliceToArrayPtr(s *SliceV, n int64) Value {
	in.boundsPanic(in.ts.ULe(in.ts.ConstI(64, n), s.len), "cannot convert slice to array pointer: length too short")
	if s.obj == nil {
		return &PtrV{}
	}
	off := in.concretize(s.off, in.ob.MaxSplit, "slice offset")
	arr := s.obj.array(s.path)
	if off == 0 && int64(len(arr.e)) == n {
		return &PtrV{obj: s.obj, path: s.path}
	}
	panic(in.unsupported("slice to array pointer with offset or different length"))
}

func (in *Interp) typeAssert(x *ssa.TypeAssert, iv *IfaceV) Value {
	ok := false
	if iv.typ != nil {
		if it, isI := x.AssertedType.Underlying().(*types.Interface); isI {
			ok = types.Implements(iv.typ, it)
		} else {
			ok = types.Identical(iv.typ, x.AssertedType)
		}
	}
	var res Value
	if ok {
		if _, isI := x.AssertedType.Underlying().(*types.Interface); isI {
			res = iv
		} else {
			res = iv.v
		}
	} else {
		if !x.CommaOk {
			in.rtPanic("type-assert", fmt.Sprintf("interface conversion: interface is %v, not %v", iv.typ, x.AssertedType))
		}
		res = in.zero(x.AssertedType)
	}
	if x.CommaOk {
		return TupleV{res, in.ts.Bool(ok)}
	}
	return res
}

func tokIsCmp(op token.Token) bool {
	switch op {
	case token.EQL, token.NEQ, token.LSS, token.LEQ, token.GTR, token.GEQ:
		return true
	}
	return false
}
