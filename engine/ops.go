package main

import (
	"fmt"
	"go/token"
	"go/types"
	"math"
	"math/big"

	"golang.org/x/tools/go/ssa"
)

func (in *Interp) binop(op token.Token, x, y Value, xt, yt types.Type) Value {
	ts := in.ts
	switch a := x.(type) {
	case *Term:
		b, ok := y.(*Term)
		if !ok {
			break
		}
		if a.W == 0 { // bool
			switch op {
			case token.EQL:
				return ts.Eq(a, b)
			case token.NEQ:
				return ts.Ne(a, b)
			case token.AND, token.LAND:
				return ts.And(a, b)
			case token.OR, token.LOR:
				return ts.Or(a, b)
			}
			break
		}
		signed := isSigned(xt)
		switch op {
		case token.ADD:
			return ts.Add(a, b)
		case token.SUB:
			return ts.Sub(a, b)
		case token.MUL:
			return ts.Mul(a, b)
		case token.QUO, token.REM:
			if !in.branch(ts.Ne(b, ts.ConstU(b.W, 0))) {
				in.rtPanic("div-zero", "integer divide by zero")
			}
			if signed {
				if op == token.QUO {
					return ts.SDiv(a, b)
				}
				return ts.SRem(a, b)
			}
			if op == token.QUO {
				return ts.UDiv(a, b)
			}
			return ts.URem(a, b)
		case token.AND:
			return ts.BvAnd(a, b)
		case token.OR:
			return ts.BvOr(a, b)
		case token.XOR:
			return ts.BvXor(a, b)
		case token.AND_NOT:
			return ts.BvAnd(a, ts.BvNot(b))
		case token.SHL, token.SHR:
			if isSigned(yt) {
				if !in.branch(ts.SLe(ts.ConstU(b.W, 0), b)) {
					in.rtPanic("shift", "negative shift amount")
				}
			}
			if op == token.SHL {
				return ts.GoShift(OpShl, a, b)
			}
			if signed {
				return ts.GoShift(OpAShr, a, b)
			}
			return ts.GoShift(OpLShr, a, b)
		case token.EQL:
			return ts.Eq(a, b)
		case token.NEQ:
			return ts.Ne(a, b)
		case token.LSS:
			if signed {
				return ts.SLt(a, b)
			}
			return ts.ULt(a, b)
		case token.LEQ:
			if signed {
				return ts.SLe(a, b)
			}
			return ts.ULe(a, b)
		case token.GTR:
			if signed {
				return ts.SLt(b, a)
			}
			return ts.ULt(b, a)
		case token.GEQ:
			if signed {
				return ts.SLe(b, a)
			}
			return ts.ULe(b, a)
		}
	case FloatV:
		b := y.(FloatV)
		switch op {
		case token.ADD:
			return in.fl(a.f+b.f, a.w)
		case token.SUB:
			return in.fl(a.f-b.f, a.w)
		case token.MUL:
			return in.fl(a.f*b.f, a.w)
		case token.QUO:
			return in.fl(a.f/b.f, a.w)
		case token.EQL:
			return ts.Bool(a.f == b.f)
		case token.NEQ:
			return ts.Bool(a.f != b.f)
		case token.LSS:
			return ts.Bool(a.f < b.f)
		case token.LEQ:
			return ts.Bool(a.f <= b.f)
		case token.GTR:
			return ts.Bool(a.f > b.f)
		case token.GEQ:
			return ts.Bool(a.f >= b.f)
		}
	case *StrV:
		b := y.(*StrV)
		if a.opaque || b.opaque {
			// formatted text is never the subject: concatenation stays opaque, and a
			// formatted string is taken to be non-empty when compared with ""
			switch {
			case op == token.ADD:
				return &StrV{opaque: true, tag: a.tag + b.tag}
			case (op == token.EQL || op == token.NEQ) && ((a.opaque && !b.opaque && len(b.b) == 0) || (b.opaque && !a.opaque && len(a.b) == 0)):
				return ts.Bool(op == token.NEQ)
			}
			panic(in.unsupported("operation on opaque string " + a.tag + b.tag))
		}
		switch op {
		case token.ADD:
			nb := make([]*Term, 0, len(a.b)+len(b.b))
			nb = append(nb, a.b...)
			nb = append(nb, b.b...)
			return &StrV{b: nb}
		case token.EQL:
			return in.strEq(a, b)
		case token.NEQ:
			return ts.Not(in.strEq(a, b))
		case token.LSS:
			return in.strLess(a, b, false)
		case token.LEQ:
			return in.strLess(a, b, true)
		case token.GTR:
			return in.strLess(b, a, false)
		case token.GEQ:
			return in.strLess(b, a, true)
		}
	}
	switch op {
	case token.EQL:
		return in.eqValue(x, y)
	case token.NEQ:
		return ts.Not(in.eqValue(x, y))
	}
	panic(in.unsupported(fmt.Sprintf("binop %s on %T,%T", op, x, y)))
}

func (in *Interp) fl(f float64, w int) FloatV {
	if w == 32 {
		return FloatV{float64(float32(f)), 32}
	}
	return FloatV{f, 64}
}

func (in *Interp) strEq(a, b *StrV) *Term {
	if len(a.b) != len(b.b) {
		return in.ts.False
	}
	r := in.ts.True
	for i := range a.b {
		r = in.ts.And(r, in.ts.Eq(a.b[i], b.b[i]))
		if r.IsFalse() {
			return r
		}
	}
	return r
}

// strLess: lexicographic a < b (or <= when orEq).
func (in *Interp) strLess(a, b *StrV, orEq bool) *Term {
	ts := in.ts
	n := len(a.b)
	if len(b.b) < n {
		n = len(b.b)
	}
	// result when common prefix equal
	var tail *Term
	if len(a.b) < len(b.b) {
		tail = ts.True
	} else if len(a.b) == len(b.b) {
		tail = ts.Bool(orEq)
	} else {
		tail = ts.False
	}
	r := tail
	for i := n - 1; i >= 0; i-- {
		r = ts.Ite(ts.Eq(a.b[i], b.b[i]), r, ts.ULt(a.b[i], b.b[i]))
	}
	return r
}

// eqValue builds the Go == relation structurally.
func (in *Interp) eqValue(x, y Value) *Term {
	ts := in.ts
	switch a := x.(type) {
	case nil:
		return ts.Bool(isNilValue(y))
	case *Term:
		return ts.Eq(a, y.(*Term))
	case FloatV:
		return ts.Bool(a.f == y.(FloatV).f)
	case *StrV:
		b := y.(*StrV)
		if a.opaque || b.opaque {
			if a == b {
				return ts.True
			}
			panic(in.unsupported("comparison of opaque string"))
		}
		return in.strEq(a, b)
	case *PtrV:
		b, ok := y.(*PtrV)
		if !ok {
			return ts.Bool(a.isNil() && isNilValue(y))
		}
		if a.isNil() || b.isNil() {
			return ts.Bool(a.isNil() && b.isNil())
		}
		if a.obj != b.obj || len(a.path) != len(b.path) {
			return ts.False
		}
		for i := range a.path {
			if a.path[i] != b.path[i] {
				return ts.False
			}
		}
		if a.sym != nil || b.sym != nil {
			if a.sym != nil && b.sym != nil {
				return ts.Eq(a.sym, b.sym)
			}
			panic(in.unsupported("comparison of symbolic pointers"))
		}
		return ts.True
	case *StructV:
		b := y.(*StructV)
		r := ts.True
		for i := range a.f {
			r = ts.And(r, in.eqValue(a.f[i], b.f[i]))
			if r.IsFalse() {
				return r
			}
		}
		return r
	case *ArrayV:
		b := y.(*ArrayV)
		r := ts.True
		for i := range a.e {
			r = ts.And(r, in.eqValue(a.e[i], b.e[i]))
			if r.IsFalse() {
				return r
			}
		}
		return r
	case *IfaceV:
		b, ok := y.(*IfaceV)
		if !ok {
			return ts.Bool(a.typ == nil && isNilValue(y))
		}
		if a.typ == nil || b.typ == nil {
			return ts.Bool(a.typ == nil && b.typ == nil)
		}
		if !types.Identical(a.typ, b.typ) {
			return ts.False
		}
		return in.eqValue(a.v, b.v)
	case *SliceV:
		if b, ok := y.(*SliceV); ok {
			if a.obj == nil || b.obj == nil { // comparison with nil
				return ts.Bool(a.obj == nil && b.obj == nil)
			}
		}
		return ts.Bool(a.obj == nil && isNilValue(y))
	case *MapV:
		b, ok := y.(*MapV)
		if ok {
			return ts.Bool(a.m == b.m)
		}
		return ts.Bool(a.m == nil)
	case *FuncV:
		b, ok := y.(*FuncV)
		if ok {
			an := a.fn == nil && a.native == nil && a.name == ""
			bn := b.fn == nil && b.native == nil && b.name == ""
			return ts.Bool(an && bn)
		}
		return ts.Bool(a.fn == nil && a.native == nil)
	case *NativeV:
		b, ok := y.(*NativeV)
		return ts.Bool(ok && a == b)
	}
	panic(in.unsupported(fmt.Sprintf("== on %T,%T", x, y)))
}

func isNilValue(v Value) bool {
	switch a := v.(type) {
	case nil:
		return true
	case *PtrV:
		return a.isNil()
	case *SliceV:
		return a.obj == nil
	case *MapV:
		return a.m == nil
	case *IfaceV:
		return a.typ == nil
	case *FuncV:
		return a.fn == nil && a.native == nil && a.name == ""
	}
	return false
}

func (in *Interp) unop(x *ssa.UnOp, v Value) Value {
	switch x.Op {
	case token.MUL:
		return in.load(v.(*PtrV))
	case token.NOT:
		return in.ts.Not(v.(*Term))
	case token.SUB:
		switch a := v.(type) {
		case *Term:
			return in.ts.Neg(a)
		case FloatV:
			return FloatV{-a.f, a.w}
		}
	case token.XOR:
		return in.ts.BvNot(v.(*Term))
	case token.ARROW:
		panic(in.unsupported("channel receive"))
	}
	panic(in.unsupported(fmt.Sprintf("unop %s on %T", x.Op, v)))
}

func (in *Interp) convert(v Value, from, to types.Type) Value {
	ts := in.ts
	fu, tu := from.Underlying(), to.Underlying()
	if tp, ok := tu.(*types.TypeParam); ok {
		_ = tp
		panic(in.unsupported("conversion to type parameter"))
	}
	switch a := v.(type) {
	case *Term:
		if tb, ok := tu.(*types.Basic); ok {
			switch {
			case tb.Info()&types.IsInteger != 0:
				if a.W == 0 {
					break
				}
				w := intWidth(tb)
				if w <= a.W {
					return ts.Extract(a, w-1, 0)
				}
				if isSigned(from) {
					return ts.SExt(a, w)
				}
				return ts.ZExt(a, w)
			case tb.Info()&types.IsFloat != 0:
				if !a.IsConst() && a.W > 0 {
					// floats are concrete: case-split the integer (bounded by the obligation's split=N)
					a = ts.ConstI(a.W, in.concretize(a, in.ob.MaxSplit, "int to float conversion"))
				}
				if a.IsConst() {
					var f float64
					if isSigned(from) {
						f = float64(a.Int64())
					} else {
						f = float64(a.Uint64())
					}
					return in.fl(f, floatWidth(tb))
				}
				panic(in.unsupported("symbolic int to float conversion"))
			case tb.Info()&types.IsString != 0:
				// string(rune)
				if a.IsConst() {
					return in.mkStr(string(rune(a.Int64())))
				}
				panic(in.unsupported("symbolic rune to string"))
			case tb.Info()&types.IsBoolean != 0:
				return a
			case tb.Kind() == types.UnsafePointer:
				panic(in.unsupported("uintptr to unsafe.Pointer"))
			}
		}
	case FloatV:
		if tb, ok := tu.(*types.Basic); ok {
			switch {
			case tb.Info()&types.IsFloat != 0:
				return in.fl(a.f, floatWidth(tb))
			case tb.Info()&types.IsInteger != 0:
				w := intWidth(tb)
				f := math.Trunc(a.f)
				bf := new(big.Float).SetFloat64(f)
				bi, _ := bf.Int(nil)
				return ts.Const(w, bi)
			}
		}
	case *StrV:
		switch t := tu.(type) {
		case *types.Basic:
			if t.Info()&types.IsString != 0 {
				return a
			}
		case *types.Slice:
			if a.opaque {
				panic(in.unsupported("opaque string to slice: " + a.tag))
			}
			eb, _ := t.Elem().Underlying().(*types.Basic)
			if eb != nil && eb.Kind() == types.Uint8 {
				arr := &ArrayV{e: make([]Value, len(a.b))}
				for i, b := range a.b {
					arr.e[i] = b
				}
				n := ts.ConstU(64, uint64(len(a.b)))
				in.chargeAlloc(t.Elem(), n)
				if len(a.b) == 0 {
					o := in.newObject(arr, types.NewArray(t.Elem(), 0), "[]byte(string)")
					return &SliceV{obj: o, off: ts.ConstU(64, 0), len: n, cap: n}
				}
				o := in.newObject(arr, types.NewArray(t.Elem(), int64(len(a.b))), "[]byte(string)")
				return &SliceV{obj: o, off: ts.ConstU(64, 0), len: n, cap: n}
			}
			if eb != nil && eb.Kind() == types.Int32 {
				// []rune(string): concrete ASCII only
				var rs []Value
				for _, b := range a.b {
					if !b.IsConst() || b.Uint64() >= 0x80 {
						panic(in.unsupported("[]rune of symbolic / non-ascii string"))
					}
					rs = append(rs, ts.ConstU(32, b.Uint64()))
				}
				n := ts.ConstU(64, uint64(len(rs)))
				o := in.newObject(&ArrayV{e: rs}, types.NewArray(t.Elem(), int64(len(rs))), "[]rune(string)")
				return &SliceV{obj: o, off: ts.ConstU(64, 0), len: n, cap: n}
			}
		}
	case *SliceV:
		switch t := tu.(type) {
		case *types.Basic:
			if t.Info()&types.IsString != 0 {
				return in.sliceToStr(a)
			}
		case *types.Slice:
			return a
		case *types.Pointer:
			if at, ok := t.Elem().Underlying().(*types.Array); ok {
				return in.sliceToArrayPtr(a, at.Len())
			}
		case *types.Array:
			p := in.sliceToArrayPtr(a, t.Len()).(*PtrV)
			return in.load(p)
		}
	case *PtrV:
		if _, ok := tu.(*types.Pointer); ok {
			return a
		}
		if tb, ok := tu.(*types.Basic); ok && tb.Kind() == types.UnsafePointer {
			return a
		}
		if _, ok := fu.(*types.Basic); ok { // unsafe.Pointer -> *T
			return a
		}
	case *FuncV, *MapV, *IfaceV, *StructV, *ArrayV, *NativeV:
		return v
	}
	panic(in.unsupported(fmt.Sprintf("convert %s -> %s (%T)", from, to, v)))
}

// sliceToStr converts a byte slice to a string, forking on a symbolic length.
func (in *Interp) sliceToStr(s *SliceV) *StrV {
	n := in.concretize(s.len, in.ob.MaxSplit, "string(bytes) length")
	b := make([]*Term, n)
	for i := range b {
		b[i] = in.sliceElem(s, in.ts.ConstU(64, uint64(i))).(*Term)
	}
	return &StrV{b: b}
}

// ---------------------------------------------------------------------------
// maps

func (in *Interp) mapFind(m *MapObj, k Value) *MapEntry {
	if in.ob.LazyMaps {
		return in.lazyMapFind(m, k) // x_c03.go
	}
	for _, e := range m.entries {
		c := in.eqValue(e.k, k)
		if c.IsFalse() {
			continue
		}
		if c.IsTrue() || in.branch(c) {
			return e
		}
	}
	return nil
}

func (in *Interp) lookup(x Value, k Value, ins *ssa.Lookup) Value {
	switch a := x.(type) {
	case *StrV:
		return in.indexValue(a, k.(*Term), ins.Index.Type())
	case *MapV:
		vt := ins.X.Type().Underlying().(*types.Map).Elem()
		var e *MapEntry
		if a.m != nil {
			e = in.mapFind(a.m, k)
		}
		var v Value
		if e != nil {
			v = e.v
		} else {
			v = in.zero(vt)
		}
		if ins.CommaOk {
			return TupleV{v, in.ts.Bool(e != nil)}
		}
		return v
	}
	panic(in.unsupported(fmt.Sprintf("lookup on %T", x)))
}

func (in *Interp) mapUpdate(x Value, k, v Value) {
	a := x.(*MapV)
	if a.m == nil {
		in.rtPanic("nil-map", "assignment to entry in nil map")
	}
	if av, ok := v.(*ArrayV); ok {
		av.cow = true
	}
	if a.m.sess != nil {
		a.m.sess.touchMap(a.m)
	}
	if in.ob.LazyMaps {
		in.lazyMapUpdate(a.m, k, v) // x_c03.go
		return
	}
	if e := in.mapFind(a.m, k); e != nil {
		e.v = v
		return
	}
	a.m.entries = append(a.m.entries, &MapEntry{k: k, v: v})
}

func (in *Interp) mapDelete(x Value, k Value) {
	a := x.(*MapV)
	if a.m == nil {
		return
	}
	if a.m.sess != nil {
		a.m.sess.touchMap(a.m)
	}
	in.resolveLazyMap(a.m) // x_c03.go
	e := in.mapFind(a.m, k)
	if e == nil {
		return
	}
	for i, x := range a.m.entries {
		if x == e {
			a.m.entries = append(append([]*MapEntry{}, a.m.entries[:i]...), a.m.entries[i+1:]...)
			return
		}
	}
}

type mapIter struct {
	m       *MapObj
	snap    []*MapEntry
	pos     int
	str     *StrV
	permute bool
}

func (in *Interp) rangeIter(x Value) Value {
	switch a := x.(type) {
	case *MapV:
		it := &mapIter{}
		if a.m != nil {
			in.resolveLazyMap(a.m) // x_c03.go
			it.m = a.m
			it.snap = append([]*MapEntry{}, a.m.entries...)
			if in.ob.PermuteMaps && len(it.snap) > 1 {
				// arbitrary iteration order: choose a permutation by successive choices
				rest := it.snap
				var out []*MapEntry
				for len(rest) > 1 {
					i := in.choice(len(rest))
					out = append(out, rest[i])
					rest = append(append([]*MapEntry{}, rest[:i]...), rest[i+1:]...)
				}
				it.snap = append(out, rest...)
			}
		}
		return &NativeV{kind: "mapiter", data: it}
	case *StrV:
		if a.opaque {
			panic(in.unsupported("range over opaque string"))
		}
		return &NativeV{kind: "striter", data: &mapIter{str: a}}
	}
	panic(in.unsupported(fmt.Sprintf("range over %T", x)))
}

func (in *Interp) next(itv Value, ins *ssa.Next) Value {
	it := itv.(*NativeV).data.(*mapIter)
	ts := in.ts
	if ins.IsString {
		if it.pos >= len(it.str.b) {
			return TupleV{ts.False, ts.ConstU(64, 0), ts.ConstU(32, 0)}
		}
		b := it.str.b[it.pos]
		// ASCII fast path; multi-byte sequences need concrete bytes
		if b.IsConst() {
			if b.Uint64() < 0x80 {
				i := it.pos
				it.pos++
				return TupleV{ts.True, ts.ConstU(64, uint64(i)), ts.ConstU(32, b.Uint64())}
			}
			// decode concretely
			raw := make([]byte, 0, 4)
			for j := it.pos; j < len(it.str.b) && j < it.pos+4; j++ {
				if !it.str.b[j].IsConst() {
					panic(in.unsupported("range over string with symbolic multi-byte sequence"))
				}
				raw = append(raw, byte(it.str.b[j].Uint64()))
			}
			for i, r := range string(raw) {
				_ = i
				n := len(string(r))
				if r == 0xFFFD {
					n = 1
				}
				i0 := it.pos
				it.pos += n
				return TupleV{ts.True, ts.ConstU(64, uint64(i0)), ts.ConstU(32, uint64(r))}
			}
		}
		// symbolic byte: assume ASCII on one arm
		if in.branch(ts.ULt(b, ts.ConstU(8, 0x80))) {
			i := it.pos
			it.pos++
			return TupleV{ts.True, ts.ConstU(64, uint64(i)), ts.ZExt(b, 32)}
		}
		panic(in.unsupported("range over string with symbolic non-ASCII byte"))
	}
	for it.pos < len(it.snap) {
		e := it.snap[it.pos]
		it.pos++
		// skip entries deleted during iteration
		live := false
		for _, x := range it.m.entries {
			if x == e || x.k == e.k {
				live = true
				if x != e {
					e = x // entry structs are cloned when a shared map is first written on a path
				}
				break
			}
		}
		if live {
			return TupleV{ts.True, e.k, e.v}
		}
	}
	mt := ins.Iter.(*ssa.Range).X.Type().Underlying().(*types.Map)
	return TupleV{ts.False, in.zero(mt.Key()), in.zero(mt.Elem())}
}
