package main

// Crypto as uninterpreted functions (see DESIGN.md 2.4): hash objects become
// byte accumulators, digests are fresh symbols related by functionality and
// collision-freedom on the applications of one path.  Signature verification
// is an arbitrary boolean function of (key, message, signature).

import (
	"fmt"
	"go/types"

	"golang.org/x/tools/go/ssa"
)

type sponge struct {
	kind    string
	outLen  int
	written []*Term
	readPos int
}

func (in *Interp) newHashObject(kind string, outLen int, ifaceType types.Type) Value {
	o := in.newObject(&NativeV{kind: "sponge", data: &sponge{kind: kind, outLen: outLen}}, nil, "hash "+kind)
	return &PtrV{obj: o}
}

func spongeOf(in *Interp, v Value) *sponge {
	p, ok := v.(*PtrV)
	if ok && p.obj != nil {
		if n, ok := p.obj.root.(*NativeV); ok && n.kind == "sponge" {
			return n.data.(*sponge)
		}
	}
	panic(in.unsupported("hash method on a non-intercepted hash object"))
}

func (in *Interp) spongeDigest(s *sponge, block int) []*Term {
	kind := s.kind
	if block > 0 {
		kind = fmt.Sprintf("%s#%d", s.kind, block+1)
	}
	return in.hashUF(kind, s.written, s.outLen)
}

func (in *Interp) pkgType(pkg, name string) types.Type {
	p := in.prog.ImportedPackage(pkg)
	if p == nil {
		panic(in.unsupported("package not loaded: " + pkg))
	}
	t := p.Type(name)
	if t == nil {
		panic(in.unsupported("type not found: " + pkg + "." + name))
	}
	return t.Type()
}

func hashWrite(in *Interp, fn *ssa.Function, a []Value) Value {
	s := spongeOf(in, a[0])
	if s.readPos > 0 {
		panic(in.unsupported("hash Write after Read"))
	}
	var bs []*Term
	switch x := a[1].(type) {
	case *SliceV:
		bs = in.bytesOf(x, "hash input length")
	case *StrV:
		bs = x.b
	}
	s.written = append(append([]*Term{}, s.written...), bs...)
	return TupleV{in.ts.ConstU(64, uint64(len(bs))), &IfaceV{}}
}

func hashRead(in *Interp, fn *ssa.Function, a []Value) Value {
	s := spongeOf(in, a[0])
	out := a[1].(*SliceV)
	n := int(in.concretize(out.len, in.ob.MaxSplit, "hash Read length"))
	for i := 0; i < n; i++ {
		pos := s.readPos + i
		d := in.spongeDigest(s, pos/s.outLen)
		in.setSliceElem(out, in.ts.ConstU(64, uint64(i)), d[pos%s.outLen])
	}
	s.readPos += n
	return TupleV{in.ts.ConstU(64, uint64(n)), &IfaceV{}}
}

func hashReset(in *Interp, fn *ssa.Function, a []Value) Value {
	s := spongeOf(in, a[0])
	s.written = nil
	s.readPos = 0
	return nil
}

func hashSum(in *Interp, fn *ssa.Function, a []Value) Value {
	s := spongeOf(in, a[0])
	d := in.spongeDigest(s, 0)
	pre := a[1].(*SliceV)
	vals := make([]Value, len(d))
	for i, x := range d {
		vals[i] = x
	}
	arr := &ArrayV{e: vals}
	o := in.newObject(arr, types.NewArray(types.Typ[types.Uint8], int64(len(d))), "digest")
	n := in.ts.ConstU(64, uint64(len(d)))
	return in.appendBuiltin(pre, &SliceV{obj: o, off: in.ts.ConstU(64, 0), len: n, cap: n}, types.Typ[types.Uint8])
}

func (in *Interp) digestArray(kind string, data Value, n int) Value {
	var bs []*Term
	switch x := data.(type) {
	case *SliceV:
		bs = in.bytesOf(x, "hash input length")
	case *StrV:
		bs = x.b
	}
	d := in.hashUF(kind, bs, n)
	arr := &ArrayV{e: make([]Value, n)}
	for i, x := range d {
		arr.e[i] = x
	}
	return arr
}

func init() {
	reg := func(name string, f intrinsicFn) { cryptoIntrinsics[name] = f }
	sha3state := "(*golang.org/x/crypto/sha3.state)"
	reg("golang.org/x/crypto/sha3.New256", func(in *Interp, fn *ssa.Function, a []Value) Value {
		st := in.pkgType("golang.org/x/crypto/sha3", "state")
		return &IfaceV{typ: types.NewPointer(st), v: in.newHashObject("sha3-256", 32, nil)}
	})
	reg(sha3state+".Write", hashWrite)
	reg(sha3state+".Read", hashRead)
	reg(sha3state+".Reset", hashReset)
	reg(sha3state+".Sum", hashSum)
	reg(sha3state+".Size", func(in *Interp, fn *ssa.Function, a []Value) Value { return in.ts.ConstU(64, 32) })
	reg(sha3state+".BlockSize", func(in *Interp, fn *ssa.Function, a []Value) Value { return in.ts.ConstU(64, 136) })
	reg("golang.org/x/crypto/sha3.Sum256", func(in *Interp, fn *ssa.Function, a []Value) Value {
		return in.digestArray("sha3-256", a[0], 32)
	})
	reg("crypto/sha256.Sum256", func(in *Interp, fn *ssa.Function, a []Value) Value {
		return in.digestArray("sha256", a[0], 32)
	})
	reg("crypto/sha512.Sum512", func(in *Interp, fn *ssa.Function, a []Value) Value {
		return in.digestArray("sha512", a[0], 64)
	})
	rip := "(*golang.org/x/crypto/ripemd160.digest)"
	reg("golang.org/x/crypto/ripemd160.New", func(in *Interp, fn *ssa.Function, a []Value) Value {
		st := in.pkgType("golang.org/x/crypto/ripemd160", "digest")
		return &IfaceV{typ: types.NewPointer(st), v: in.newHashObject("ripemd160", 20, nil)}
	})
	s256 := "(*crypto/sha256.digest)"
	reg("crypto/sha256.New", func(in *Interp, fn *ssa.Function, a []Value) Value {
		st := in.pkgType("crypto/sha256", "digest")
		return &IfaceV{typ: types.NewPointer(st), v: in.newHashObject("sha256", 32, nil)}
	})
	reg(s256+".Write", hashWrite)
	reg(s256+".Reset", hashReset)
	reg(s256+".Sum", hashSum)
	reg(s256+".Size", func(in *Interp, fn *ssa.Function, a []Value) Value { return in.ts.ConstU(64, 32) })
	reg(rip+".Write", hashWrite)
	reg(rip+".Reset", hashReset)
	reg(rip+".Sum", hashSum)
	reg(rip+".Size", func(in *Interp, fn *ssa.Function, a []Value) Value { return in.ts.ConstU(64, 20) })

	// signature verification: arbitrary boolean function of its inputs
	verify := func(kind string) intrinsicFn {
		return func(in *Interp, fn *ssa.Function, a []Value) Value {
			var input []*Term
			for _, x := range a {
				switch v := x.(type) {
				case *SliceV:
					bs := in.bytesOf(v, kind+" argument length")
					input = append(input, in.ts.ConstU(8, uint64(len(bs))))
					input = append(input, bs...)
				case *ArrayV:
					for _, e := range v.e {
						input = append(input, e.(*Term))
					}
				case *PtrV:
					arr := in.load(v).(*ArrayV)
					for _, e := range arr.e {
						input = append(input, e.(*Term))
					}
				}
			}
			d := in.hashUFBool(kind, input)
			return d
		}
	}
	reg("github.com/bytom/bytom/crypto/ed25519.Verify", verify("ed25519.Verify"))
	reg("crypto/ed25519.Verify", verify("ed25519.Verify"))
	reg("(github.com/bytom/bytom/crypto/ed25519/chainkd.XPub).Verify", verify("XPub.Verify"))
}

var cryptoIntrinsics = map[string]intrinsicFn{}

// hashUFBool: an uninterpreted predicate (functional, nothing else).
func (in *Interp) hashUFBool(kind string, input []*Term) *Term {
	ts := in.ts
	for _, app := range in.hashApps[kind] {
		if len(app.input) == len(input) {
			same := true
			for i := range input {
				if app.input[i] != input[i] {
					same = false
					break
				}
			}
			if same {
				return ts.Ne(app.out[0], ts.ConstU(8, 0))
			}
		}
	}
	if in.concrete != nil {
		panic(in.unsupported("uninterpreted predicate in concrete mode"))
	}
	in.ufSeq++
	v := ts.Var(fmt.Sprintf("uf!%s!%d", kind, in.ufSeq), 8)
	res := ts.Ne(v, ts.ConstU(8, 0))
	for _, o := range in.hashApps[kind] {
		if len(o.input) != len(input) {
			continue
		}
		inEq := ts.True
		for i := range input {
			inEq = ts.And(inEq, ts.Eq(input[i], o.input[i]))
		}
		in.assume(ts.Implies(inEq, ts.Eq(res, ts.Ne(o.out[0], ts.ConstU(8, 0)))))
	}
	in.hashApps[kind] = append(in.hashApps[kind], &hashApp{input: input, out: []*Term{v}})
	return res
}
