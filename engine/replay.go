package main

// Native replay: counterexamples and validation vectors are executed against
// the natively compiled harness + real /repo code through `go test -overlay`.

import (
	"bytes"
	"encoding/json"
	"fmt"
	"math/big"
	"math/rand"
	"os"
	"os/exec"
	"path/filepath"
	"sort"
	"strings"
	"time"
)

type NativeCase struct {
	ID   string            `json:"id"`
	Fn   string            `json:"fn"`
	Args []int64           `json:"args"`
	Vars map[string]string `json:"vars"`
}

type StoredReplay struct {
	Property   string     `json:"property"`
	Obligation string     `json:"obligation"`
	Dir        string     `json:"dir"`
	Harness    string     `json:"harness_file"`
	Kind       string     `json:"kind"`
	Label      string     `json:"label"`
	Site       string     `json:"site"`
	Msg        string     `json:"msg"`
	Case       NativeCase `json:"case"`
	Native     string     `json:"native_outcome"`
}

type Confirmed struct {
	V      *Violation
	Ob     *Obligation
	Path   string
	Native string
}

type NativeResult struct {
	Outcome string
	Obs     []string
	Alloc   uint64
}

const nativeTemplate = `package %s

import (
	"encoding/json"
	"fmt"
	"os"
	"runtime"
	"strconv"
	"testing"
)

type verifCase struct {
	ID   string            ` + "`json:\"id\"`" + `
	Fn   string            ` + "`json:\"fn\"`" + `
	Args []int64           ` + "`json:\"args\"`" + `
	Vars map[string]string ` + "`json:\"vars\"`" + `
}

var verifCur *verifCase
var verifCount map[string]int
var verifAllocBase uint64

type verifAssumeFail struct{}
type verifAssertFail struct{ label string }

func verifName(n string) string {
	k := verifCount[n]
	verifCount[n] = k + 1
	return fmt.Sprintf("%%s#%%d", n, k)
}
func verifVal(full string) uint64 {
	s, ok := verifCur.Vars[full]
	if !ok {
		return 0
	}
	v, _ := strconv.ParseUint(s, 10, 64)
	return v
}
func verifU8(name string) uint8   { return uint8(verifVal(verifName(name))) }
func verifU16(name string) uint16 { return uint16(verifVal(verifName(name))) }
func verifU32(name string) uint32 { return uint32(verifVal(verifName(name))) }
func verifU64(name string) uint64 { return verifVal(verifName(name)) }
func verifI8(name string) int8    { return int8(verifVal(verifName(name))) }
func verifI32(name string) int32  { return int32(verifVal(verifName(name))) }
func verifI64(name string) int64  { return int64(verifVal(verifName(name))) }
func verifInt(name string) int    { return int(verifVal(verifName(name))) }
func verifBool(name string) bool  { return uint8(verifVal(verifName(name))) != 0 }
func verifBytes(name string, max int) []byte {
	full := verifName(name)
	n := int(verifVal(full + ".len"))
	if n > max || n < 0 {
		panic(verifAssumeFail{})
	}
	b := make([]byte, n)
	for i := range b {
		b[i] = byte(verifVal(fmt.Sprintf("%%s[%%d]", full, i)))
	}
	return b
}
func verifBytesN(name string, n int) []byte {
	full := verifName(name)
	b := make([]byte, n)
	for i := range b {
		b[i] = byte(verifVal(fmt.Sprintf("%%s[%%d]", full, i)))
	}
	return b
}
func verifChoice(name string, n int) int {
	v := int(verifVal(verifName(name)))
	if v < 0 || v >= n {
		panic(verifAssumeFail{})
	}
	return v
}
func verifAssume(c bool) {
	if !c {
		panic(verifAssumeFail{})
	}
}
func verifAssert(c bool, label string) {
	if !c {
		panic(verifAssertFail{label})
	}
}
func verifReach(label string)       {}
func verifKnown(id string, c bool)  {}
func verifAllocBytes() uint64 {
	var ms runtime.MemStats
	runtime.ReadMemStats(&ms)
	return ms.TotalAlloc - verifAllocBase
}
func verifObserveU64(name string, v uint64) { fmt.Printf("VERIF-OBS %%s %%s=%%d:64\n", verifCur.ID, name, v) }
func verifObserveI64(name string, v int64)  { fmt.Printf("VERIF-OBS %%s %%s=%%d\n", verifCur.ID, name, v) }
func verifObserveBool(name string, v bool)  { fmt.Printf("VERIF-OBS %%s %%s=%%v\n", verifCur.ID, name, v) }
func verifObserveBytes(name string, v []byte) {
	fmt.Printf("VERIF-OBS %%s %%s=%%x\n", verifCur.ID, name, v)
}
func verifHash(kind string, data []byte, n int) []byte { panic("verifHash is engine-only") }

func verifRunCase(c *verifCase, f func([]int64)) (outcome string) {
	verifCur = c
	verifCount = map[string]int{}
	var ms runtime.MemStats
	runtime.ReadMemStats(&ms)
	verifAllocBase = ms.TotalAlloc
	defer func() {
		if r := recover(); r != nil {
			switch x := r.(type) {
			case verifAssumeFail:
				outcome = "assume"
			case verifAssertFail:
				outcome = "assert:" + x.label
			default:
				outcome = fmt.Sprintf("panic:%%v", r)
			}
		}
	}()
	f(c.Args)
	return "ok"
}

func TestVerifReplay(t *testing.T) {
	data, err := os.ReadFile(os.Getenv("VERIF_INPUT"))
	if err != nil {
		t.Fatal(err)
	}
	var cases []*verifCase
	if err := json.Unmarshal(data, &cases); err != nil {
		t.Fatal(err)
	}
	for _, c := range cases {
		f, ok := verifHarnesses[c.Fn]
		if !ok {
			fmt.Printf("VERIF-RESULT %%s nofunc\n", c.ID)
			continue
		}
		out := verifRunCase(c, f)
		var ms runtime.MemStats
		runtime.ReadMemStats(&ms)
		fmt.Printf("VERIF-ALLOC %%s %%d\n", c.ID, ms.TotalAlloc-verifAllocBase)
		fmt.Printf("VERIF-RESULT %%s %%s\n", c.ID, out)
	}
}

var verifHarnesses = map[string]func([]int64){
%s}
`

func nativeSupport(files []*HarnessFile, dir string) string {
	var pkg string
	var sb strings.Builder
	for _, hf := range files {
		if hf.Dir != dir {
			continue
		}
		pkg = hf.PkgName
		names := make([]string, 0, len(hf.Funcs))
		for n := range hf.Funcs {
			names = append(names, n)
		}
		sort.Strings(names)
		for _, n := range names {
			k := hf.Funcs[n]
			var args []string
			for i := 0; i < k; i++ {
				args = append(args, fmt.Sprintf("int(a[%d])", i))
			}
			fmt.Fprintf(&sb, "\t%q: func(a []int64) { %s(%s) },\n", n, n, strings.Join(args, ", "))
		}
	}
	return fmt.Sprintf(nativeTemplate, pkg, sb.String())
}

type nativeBuild struct {
	tmp string
	bin string
	dir string
}

func buildNative(files []*HarnessFile, dir string) (*nativeBuild, error) {
	tmp, err := os.MkdirTemp("", "verif-replay-")
	if err != nil {
		return nil, err
	}
	ov := map[string]string{}
	for _, hf := range files {
		if hf.Dir == dir {
			ov[filepath.Join(repoRoot, hf.Rel)] = hf.Path
		}
	}
	nat := filepath.Join(tmp, "zz_verif_native_test.go")
	if err := os.WriteFile(nat, []byte(nativeSupport(files, dir)), 0644); err != nil {
		return nil, err
	}
	ov[filepath.Join(repoRoot, dir, "zz_verif_native_test.go")] = nat
	// harness files are compiled as test files too: rename target to _test.go
	// so that they may use the native helpers; the overlay maps them under a
	// _test.go name.
	ov2 := map[string]string{}
	for k, v := range ov {
		if !strings.HasSuffix(k, "_test.go") {
			k = strings.TrimSuffix(k, ".go") + "_test.go"
		}
		ov2[k] = v
	}
	cuts, err := nativeCuts(files, dir, tmp) // declared cuts of project functions (x_c12.go)
	if err != nil {
		os.RemoveAll(tmp)
		return nil, err
	}
	for k, v := range cuts {
		ov2[k] = v
	}
	ovb, _ := json.Marshal(map[string]interface{}{"Replace": ov2})
	ovPath := filepath.Join(tmp, "overlay.json")
	os.WriteFile(ovPath, ovb, 0644)
	bin := filepath.Join(tmp, "replay.test")
	cmd := exec.Command("go", "test", "-c", "-vet=off", "-overlay", ovPath, "-o", bin, "./"+dir)
	cmd.Dir = repoRoot
	cmd.Env = append(os.Environ(), "GOFLAGS=-mod=mod", "GOPROXY=off", "GOSUMDB=off", "GOTOOLCHAIN=local")
	out, err := cmd.CombinedOutput()
	if err != nil {
		os.RemoveAll(tmp)
		return nil, fmt.Errorf("native build of %s failed: %v\n%s", dir, err, trunc(string(out), 3000))
	}
	return &nativeBuild{tmp: tmp, bin: bin, dir: dir}, nil
}

func (nb *nativeBuild) Close() { os.RemoveAll(nb.tmp) }

// run executes the cases; each batch runs in its own process under an
// address-space limit so that attacker-sized allocations fail instead of
// taking the machine down.
func (nb *nativeBuild) run(cases []NativeCase, timeout time.Duration) (map[string]*NativeResult, string, error) {
	res := map[string]*NativeResult{}
	if len(cases) == 0 {
		return res, "", nil
	}
	in := filepath.Join(nb.tmp, fmt.Sprintf("cases-%d.json", time.Now().UnixNano()))
	b, _ := json.Marshal(cases)
	os.WriteFile(in, b, 0644)
	defer os.Remove(in)
	sh := fmt.Sprintf("ulimit -v 12582912; exec %s -test.run '^TestVerifReplay$' -test.timeout %ds -test.v", nb.bin, int(timeout.Seconds()))
	cmd := exec.Command("bash", "-c", sh)
	cmd.Dir = filepath.Join(repoRoot, nb.dir)
	cmd.Env = append(os.Environ(), "VERIF_INPUT="+in)
	var buf bytes.Buffer
	cmd.Stdout = &buf
	cmd.Stderr = &buf
	err := cmd.Run()
	txt := buf.String()
	for _, l := range strings.Split(txt, "\n") {
		f := strings.SplitN(l, " ", 3)
		if len(f) < 3 {
			continue
		}
		get := func(id string) *NativeResult {
			r, ok := res[id]
			if !ok {
				r = &NativeResult{}
				res[id] = r
			}
			return r
		}
		switch f[0] {
		case "VERIF-RESULT":
			get(f[1]).Outcome = f[2]
		case "VERIF-OBS":
			get(f[1]).Obs = append(get(f[1]).Obs, f[2])
		case "VERIF-ALLOC":
			fmt.Sscanf(f[2], "%d", &get(f[1]).Alloc)
		}
	}
	_ = err
	return res, txt, nil
}

func modelToVars(m map[string]*big.Int) map[string]string {
	out := map[string]string{}
	for k, v := range m {
		if strings.HasPrefix(k, "uf!") {
			continue
		}
		out[k] = new(big.Int).And(v, new(big.Int).SetUint64(^uint64(0))).String()
	}
	return out
}

func sanitize(s string) string {
	return strings.Map(func(r rune) rune {
		if (r >= 'a' && r <= 'z') || (r >= 'A' && r <= 'Z') || (r >= '0' && r <= '9') || r == '-' || r == '_' {
			return r
		}
		return '_'
	}, s)
}

// replayCandidates confirms solver counterexamples natively.
func replayCandidates(opt *Options, w *World, results []*ObResult) ([]*Confirmed, []string, error) {
	type cand struct {
		r *ObResult
		v *Violation
		c NativeCase
	}
	byDir := map[string][]cand{}
	n := 0
	for _, r := range results {
		for _, v := range r.Violations {
			n++
			c := NativeCase{ID: fmt.Sprintf("c%d", n), Fn: r.Ob.Name, Args: r.Ob.Args, Vars: modelToVars(v.Model)}
			if c.Args == nil {
				c.Args = []int64{}
			}
			byDir[r.Ob.Dir] = append(byDir[r.Ob.Dir], cand{r, v, c})
		}
	}
	var confirmed []*Confirmed
	var unconfirmed []string
	for dir, cs := range byDir {
		nb, err := buildNative(w.files, dir)
		if err != nil {
			return nil, nil, err
		}
		for _, c := range cs {
			// one process per case: a crash (OOM, fatal error) must not hide the others
			limit := 120 * time.Second
			if c.v.Kind == "hang" {
				limit = 30 * time.Second
			}
			res, txt, _ := nb.run([]NativeCase{c.c}, limit)
			nr := res[c.c.ID]
			outcome := ""
			if nr != nil {
				outcome = nr.Outcome
			}
			ok := false
			switch c.v.Kind {
			case "assert":
				ok = outcome == "assert:"+c.v.Label
			case "panic":
				ok = strings.HasPrefix(outcome, "panic:")
				if outcome == "" && (strings.Contains(txt, "fatal error:") || strings.Contains(txt, "panic:")) && !strings.Contains(txt, "out of memory") && !strings.Contains(txt, "cannot allocate") {
					ok = true
					outcome = "crash: " + firstLineWith(txt, "fatal error:", "panic:")
				}
			case "hang":
				if outcome == "" && strings.Contains(txt, "test timed out") {
					ok = true
					outcome = "hang: the natively compiled code did not return within 30 s on this input"
				} else if outcome == "" && (strings.Contains(txt, "out of memory") || strings.Contains(txt, "cannot allocate")) {
					ok = true
					outcome = "hang: unbounded loop exhausted memory natively"
				}
			case "alloc":
				if nr != nil && nr.Alloc >= 1<<20 {
					ok = true
					outcome = fmt.Sprintf("allocated %d bytes", nr.Alloc)
				}
				if strings.Contains(txt, "out of memory") || strings.Contains(txt, "cannot allocate") || strings.Contains(txt, "makeslice: len out of range") == false && outcome == "" && strings.Contains(txt, "fatal error") {
					ok = true
					outcome = "out of memory under 12 GiB address-space limit"
				}
			}
			if ok {
				dirp := filepath.Join(envDef("VERIF_REPLAY_DIR", filepath.Join(verifRoot, "replays")), opt.Property)
				os.MkdirAll(dirp, 0755)
				p := filepath.Join(dirp, sanitize(c.r.Ob.ID()+"-"+c.v.Label)+".json")
				sr := StoredReplay{Property: opt.Property, Obligation: c.r.Ob.ID(), Dir: dir, Harness: c.r.Ob.File.Rel, Kind: c.v.Kind, Label: c.v.Label, Site: c.v.Site, Msg: c.v.Msg, Case: c.c, Native: outcome}
				b, _ := json.MarshalIndent(sr, "", " ")
				os.WriteFile(p, b, 0644)
				dup := false
				for _, x := range confirmed {
					if x.Path == p {
						dup = true
					}
				}
				if !dup {
					confirmed = append(confirmed, &Confirmed{V: c.v, Ob: c.r.Ob, Path: p, Native: outcome})
				}
			} else {
				if opt.Debug {
					fmt.Fprintln(os.Stderr, trunc(txt, 4000))
				}
				if c.v.Kind == "hang" {
					continue // the loop budget was too small for this tree, not a hang: stays an unwind note
				}
				unconfirmed = append(unconfirmed, fmt.Sprintf("obligation=%s %s %s at %s: solver model did not reproduce natively (native outcome %q)", c.r.Ob.ID(), c.v.Kind, c.v.Label, c.v.Site, trunc(outcome, 200)))
			}
		}
		nb.Close()
	}
	return confirmed, unconfirmed, nil
}

func firstLineWith(txt string, subs ...string) string {
	for _, l := range strings.Split(txt, "\n") {
		for _, s := range subs {
			if strings.Contains(l, s) {
				return trunc(strings.TrimSpace(l), 200)
			}
		}
	}
	return ""
}

func replayStored(opt *Options, files []*HarnessFile) int {
	b, err := os.ReadFile(opt.Replay)
	if err != nil {
		fmt.Printf("ENGINE-ERROR cannot read %s: %v\n", opt.Replay, err)
		return 2
	}
	var sr StoredReplay
	if err := json.Unmarshal(b, &sr); err != nil {
		fmt.Printf("ENGINE-ERROR bad replay file: %v\n", err)
		return 2
	}
	nb, err := buildNative(files, sr.Dir)
	if err != nil {
		fmt.Printf("ENGINE-ERROR %v\n", err)
		return 2
	}
	defer nb.Close()
	res, txt, _ := nb.run([]NativeCase{sr.Case}, 120*time.Second)
	nr := res[sr.Case.ID]
	outcome := ""
	if nr != nil {
		outcome = nr.Outcome
	}
	fmt.Printf("native outcome: %q (stored: %q)\n", outcome, sr.Native)
	bad := false
	switch sr.Kind {
	case "assert":
		bad = outcome == "assert:"+sr.Label
	case "panic":
		bad = strings.HasPrefix(outcome, "panic:") || (outcome == "" && strings.Contains(txt, "fatal error"))
	case "alloc":
		bad = (nr != nil && nr.Alloc >= 1<<20) || strings.Contains(txt, "out of memory") || strings.Contains(txt, "cannot allocate")
	}
	if bad {
		fmt.Printf("VIOLATION property=%s replay=%s\n", sr.Property, opt.Replay)
		return 1
	}
	fmt.Println("counterexample does not reproduce on the current tree")
	return 0
}

// ---------------------------------------------------------------------------
// translator validation: engine in concrete mode vs native execution

func genVectors(r *ObResult, n int, rng *rand.Rand, varW map[string]int) []map[string]*big.Int {
	names := make([]string, 0, len(varW))
	for k := range varW {
		names = append(names, k)
	}
	sort.Strings(names)
	var out []map[string]*big.Int
	// half of the vectors are solver models of completed symbolic paths (they
	// satisfy the harness assumptions and follow distinct paths), evenly spread
	if k := len(r.PathModels); k > 0 {
		want := n / 2
		if want > k {
			want = k
		}
		for i := 0; i < want; i++ {
			m := r.PathModels[i*k/want]
			c := map[string]*big.Int{}
			for name, v := range m {
				if !strings.HasPrefix(name, "uf!") {
					c[name] = v
				}
			}
			out = append(out, c)
		}
		n -= want
	}
	for i := 0; i < n; i++ {
		m := map[string]*big.Int{}
		for _, k := range names {
			w := varW[k]
			var v *big.Int
			max := new(big.Int).Lsh(big.NewInt(1), uint(w))
			switch {
			case strings.HasSuffix(k, ".len"):
				v = big.NewInt(int64(rng.Intn(24)))
			default:
				switch rng.Intn(8) {
				case 0:
					v = big.NewInt(0)
				case 1:
					v = big.NewInt(1)
				case 2:
					v = new(big.Int).Sub(max, big.NewInt(1))
				case 3:
					v = new(big.Int).Rsh(max, 1)
				case 4:
					v = new(big.Int).Sub(new(big.Int).Rsh(max, 1), big.NewInt(1))
				case 5:
					v = big.NewInt(int64(rng.Intn(16)))
				default:
					v = new(big.Int).Rand(rng, max)
				}
			}
			m[k] = v
		}
		out = append(out, m)
	}
	return out
}

func (w *World) runConcrete(ob *Obligation, vec map[string]*big.Int) (string, []string) {
	s := NewSession(w)
	s.applyNoOverride(ob)
	r := &ObResult{Ob: ob, KnownHits: map[string]*Violation{}, Reached: map[string]bool{}}
	in := s.newInterp(ob, r, nil, nil)
	in.concrete = vec
	end, gp := in.runPath()
	outcome := "ok"
	switch end.kind {
	case "done":
		if strings.HasPrefix(end.msg, "assert failed") {
			for _, o := range in.observed {
				if strings.HasPrefix(o, "assert-failed=") {
					outcome = "assert:" + strings.TrimPrefix(o, "assert-failed=")
				}
			}
		}
		if end.msg == "huge allocation" {
			outcome = "hugealloc"
		}
	case "assume", "infeasible":
		outcome = "assume"
	case "panic":
		outcome = "panic"
		_ = gp
	default:
		outcome = "skip:" + end.kind + ":" + end.msg
	}
	var obs []string
	for _, o := range in.observed {
		if strings.HasPrefix(o, "assert-failed=") || strings.HasPrefix(o, "panic=") || strings.HasPrefix(o, "huge-alloc=") {
			continue
		}
		obs = append(obs, o)
	}
	return outcome, obs
}

func validateTranslator(opt *Options, w *World, results []*ObResult) (int, error) {
	validated := 0
	byDir := map[string][]*ObResult{}
	for _, r := range results {
		if r.Ob.Validate > 0 && len(r.Unsupported) == 0 {
			byDir[r.Ob.Dir] = append(byDir[r.Ob.Dir], r)
		}
	}
	for dir, rs := range byDir {
		nb, err := buildNative(w.files, dir)
		if err != nil {
			return validated, err
		}
		defer nb.Close()
		rng := rand.New(rand.NewSource(opt.Seed))
		type exp struct {
			ob      *Obligation
			outcome string
			obs     []string
			vec     map[string]*big.Int
		}
		expect := map[string]*exp{}
		var cases []NativeCase
		k := 0
		for _, r := range rs {
			varW := w.discoverVars(r.Ob)
			for _, vec := range genVectors(r, r.Ob.Validate, rng, varW) {
				outcome, obs := w.runConcrete(r.Ob, vec)
				if strings.HasPrefix(outcome, "skip:") || outcome == "hugealloc" {
					continue
				}
				// an assumption stated inside a solver-side stub (override) is not seen by the
				// native run, which links the real function: such vectors are outside the domain
				if outcome == "assume" && len(w.overrides) > 0 {
					continue
				}
				k++
				id := fmt.Sprintf("v%d", k)
				args := r.Ob.Args
				if args == nil {
					args = []int64{}
				}
				cases = append(cases, NativeCase{ID: id, Fn: r.Ob.Name, Args: args, Vars: modelToVars(vec)})
				expect[id] = &exp{r.Ob, outcome, obs, vec}
			}
		}
		res, txt, _ := nb.run(cases, 300*time.Second)
		for id, e := range expect {
			nr := res[id]
			if nr == nil {
				return validated, fmt.Errorf("no native result for validation vector %s of %s\n%s", id, e.ob.ID(), trunc(txt, 2000))
			}
			no := nr.Outcome
			if strings.HasPrefix(no, "panic:") {
				no = "panic"
			}
			if no != e.outcome {
				return validated, fmt.Errorf("%s: outcome mismatch engine=%q native=%q on %v", e.ob.ID(), e.outcome, nr.Outcome, modelToVars(e.vec))
			}
			if no == "ok" || true {
				if len(nr.Obs) != len(e.obs) {
					return validated, fmt.Errorf("%s: observation count mismatch engine=%v native=%v on %v", e.ob.ID(), e.obs, nr.Obs, modelToVars(e.vec))
				}
				for i := range e.obs {
					if normObs(e.obs[i]) != normObs(nr.Obs[i]) {
						return validated, fmt.Errorf("%s: observation mismatch engine=%q native=%q on %v", e.ob.ID(), e.obs[i], nr.Obs[i], modelToVars(e.vec))
					}
				}
			}
			validated++
		}
	}
	return validated, nil
}

func normObs(s string) string {
	return strings.TrimSpace(s)
}

// discoverVars runs one symbolic path without a solver budget to learn the
// nondet variable names and widths of a harness (first path only is not
// enough, so the widths recorded during exploration are used).
func (w *World) discoverVars(ob *Obligation) map[string]int {
	w.varMu.Lock()
	defer w.varMu.Unlock()
	return w.varWidths[ob.ID()]
}
