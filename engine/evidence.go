package main

import (
	"encoding/json"
	"fmt"
	"os"
	"path/filepath"
	"sort"
	"strings"
	"time"
)

func writeEvidence(opt *Options, w *World, results []*ObResult, confirmed []*Confirmed, unconfirmed []string, validated int, wall time.Duration) error {
	paths, steps, asserts, discharged, trivial := 0, 0, 0, 0, 0
	queries := 0
	crossN := 0
	var solverTime time.Duration
	var samples []interface{}
	var inconclusive, unwind, notenc []string
	funcs := map[string]bool{}
	var obSumm []map[string]interface{}
	var stubs []string
	known := []string{}
	for _, r := range results {
		paths += r.Paths
		steps += r.Steps
		asserts += r.Asserts
		discharged += r.Discharged
		trivial += r.Trivial
		queries += r.Stats.Queries
		solverTime += r.Stats.Time
		for i, s := range r.Samples {
			if i < 3 {
				samples = append(samples, s)
			}
		}
		for i, s := range r.Cross {
			if i < 2 {
				samples = append(samples, s)
			}
			crossN++
		}
		for _, x := range r.Inconclusive {
			inconclusive = append(inconclusive, r.Ob.ID()+": "+x)
		}
		for _, x := range r.UnwindHits {
			unwind = append(unwind, r.Ob.ID()+": "+x)
		}
		for _, x := range r.Unsupported {
			notenc = append(notenc, r.Ob.ID()+": "+trunc(x, 300))
		}
		for f := range r.Functions {
			funcs[f] = true
		}
		for id := range r.KnownHits {
			known = append(known, id)
		}
		obSumm = append(obSumm, map[string]interface{}{
			"obligation": r.Ob.ID(), "mode": r.Ob.Mode.String(), "paths": r.Paths, "assertion_instances": r.Asserts,
			"discharged": r.Discharged, "solver_queries": r.Stats.Queries, "solver_s": round2(r.Stats.Time.Seconds()),
			"max_query_s": round2(r.Stats.MaxQuery.Seconds()), "wall_s": round2(r.Wall.Seconds()),
			"bounds": map[string]int{"loops": r.Ob.MaxLoops, "split": r.Ob.MaxSplit, "paths": r.Ob.MaxPaths},
		})
	}
	if len(samples) > 40 {
		samples = samples[:40]
	}
	if len(samples) == 0 {
		samples = append(samples, map[string]string{"note": "no solver obligations were generated"})
	}
	var fl []string
	for f := range funcs {
		fl = append(fl, f)
	}
	sort.Strings(fl)
	sort.Strings(known)
	for t, f := range w.overrides {
		stubs = append(stubs, t+" -> "+f.Name())
	}
	sort.Strings(stubs)
	var assumptions []string
	for _, hf := range w.files {
		for _, l := range strings.Split(string(hf.Src), "\n") {
			if strings.HasPrefix(l, "//verif:assume ") {
				assumptions = append(assumptions, strings.TrimPrefix(l, "//verif:assume "))
			}
			if strings.HasPrefix(l, "//verif:bound ") {
				assumptions = append(assumptions, "bound: "+strings.TrimPrefix(l, "//verif:bound "))
			}
			if strings.HasPrefix(l, "//verif:outside ") {
				assumptions = append(assumptions, "outside the claim: "+strings.TrimPrefix(l, "//verif:outside "))
			}
		}
	}
	for _, s := range stubs {
		assumptions = append(assumptions, "stub: "+s)
	}
	assumptions = append(assumptions,
		"go/ssa (x/tools v0.29.0) faithfully represents the source; the gosmt interpreter implements SSA semantics (validated per run against native execution on traces_validated_against_impl vectors)",
		"z3 verdicts (5.1 by default, 4.8.12 / cvc5 1.0 where an obligation selects them or in the cross-check sample) are trusted; unknown/timeout/error answers are counted as inconclusive, never as discharged",
		"a VIOLATION is reported only after the solver model reproduced against the natively compiled code")
	viol := len(confirmed)
	ev := map[string]interface{}{
		"property_id": opt.Property,
		"tier":        opt.Tier,
		"seed":        opt.Seed,
		"level":       "model_checking",
		"wall_s":      round2(wall.Seconds()),
		"violations":  viol,
		"assumptions": assumptions,
		"coverage": map[string]interface{}{
			"states":                        max1(paths),
			"transitions":                   max1(steps),
			"traces_validated_against_impl": validated,
			"samples":                       samples,
			"obligations":                   asserts,
			"discharged":                    discharged,
			"discharged_by_constant_folding": trivial,
			"solver_queries":                queries,
			"cross_checked_obligations":     crossN,
			"solver_time_s":                 round2(solverTime.Seconds()),
			"functions_encoded":             fl,
			"per_obligation":                obSumm,
			"inconclusive":                  inconclusive,
			"unwind_hits":                   unwind,
			"not_encodable":                 notenc,
			"known_findings":                known,
			"unconfirmed":                   unconfirmed,
			"explanation":                   "bounded symbolic execution of the real functions from /repo's current go/ssa; states = symbolic paths completed, transitions = SSA instructions interpreted, obligations = assertion instances (incl. implicit no-panic arms) sent to the solver or folded to true",
			"exhaustive":                    len(inconclusive) == 0 && len(unwind) == 0 && len(notenc) == 0,
			"package_load_s":                round2(w.loadTime.Seconds()),
		},
	}
	os.MkdirAll(filepath.Join(verifRoot, "evidence"), 0755)
	b, err := json.MarshalIndent(ev, "", " ")
	if err != nil {
		return err
	}
	return os.WriteFile(filepath.Join(verifRoot, "evidence", opt.Property+".json"), b, 0644)
}

func round2(f float64) float64 { return float64(int(f*100+0.5)) / 100 }
func max1(n int) int {
	if n < 1 {
		return 1
	}
	return n
}

var _ = fmt.Sprintf
