package main

// SMT-LIB2 printing (BV mode and Int mode with relational wrap-around) and
// the solver pipe.

import (
	"bufio"
	"fmt"
	"io"
	"math/big"
	"os/exec"
	"strings"
	"time"
)

type SMTMode int

const (
	ModeBV SMTMode = iota
	ModeInt
)

func (m SMTMode) String() string {
	if m == ModeInt {
		return "int"
	}
	return "bv"
}

// Printer turns terms into named definitions. One printer per solver process
// (definitions are global in the solver).
type Printer struct {
	ts      *TermStore
	mode    SMTMode
	defined map[int]string   // term id -> smt expression (name or literal)
	side    map[int][]string // term id -> side constraints introduced by this node (Int mode)
	out     []string         // pending commands to send
	fresh   int
	err     error
	rep     map[int]byte   // Int mode: 'S' if the expression is the signed value, else unsigned
	conv    map[int]string // Int mode: cached conversion to the other representation
	divCache map[string][2]string // Int mode: shared (quotient, remainder) per operand pair
	divOwner map[string]int       // term id that carries the side constraints of a shared pair
	sideDeps map[int][]int        // term id -> other term ids whose side constraints it needs
}

func NewPrinter(ts *TermStore, mode SMTMode) *Printer {
	return &Printer{ts: ts, mode: mode, defined: map[int]string{}, side: map[int][]string{}, rep: map[int]byte{}, conv: map[int]string{}, divCache: map[string][2]string{}, divOwner: map[string]int{}, sideDeps: map[int][]int{}}
}

func pow2(w int) string { return new(big.Int).Lsh(big.NewInt(1), uint(w)).String() }

func (p *Printer) sortOf(t *Term) string {
	if t.W == 0 {
		return "Bool"
	}
	if p.mode == ModeInt {
		return "Int"
	}
	return fmt.Sprintf("(_ BitVec %d)", t.W)
}

func smtName(s string) string {
	return "|" + strings.NewReplacer("|", "_", "\\", "_").Replace(s) + "|"
}

func (p *Printer) freshInt(lo, hi string, sides *[]string) string {
	p.fresh++
	n := fmt.Sprintf("k!%d", p.fresh)
	p.out = append(p.out, fmt.Sprintf("(declare-const %s Int)", n))
	if lo != "" {
		*sides = append(*sides, fmt.Sprintf("(<= %s %s)", lo, n))
	}
	if hi != "" {
		*sides = append(*sides, fmt.Sprintf("(< %s %s)", n, hi))
	}
	return n
}

// Ref returns the SMT expression naming t, emitting definitions as needed.
func (p *Printer) Ref(t *Term) string {
	if s, ok := p.defined[t.id]; ok {
		return s
	}
	// iterative post-order to avoid deep recursion
	type fr struct {
		t *Term
		i int
	}
	stack := []fr{{t, 0}}
	for len(stack) > 0 {
		f := &stack[len(stack)-1]
		if _, ok := p.defined[f.t.id]; ok {
			stack = stack[:len(stack)-1]
			continue
		}
		if f.i < len(f.t.args) {
			a := f.t.args[f.i]
			f.i++
			if _, ok := p.defined[a.id]; !ok {
				stack = append(stack, fr{a, 0})
			}
			continue
		}
		p.define(f.t)
		stack = stack[:len(stack)-1]
	}
	return p.defined[t.id]
}

func (p *Printer) define(t *Term) {
	var expr string
	switch t.op {
	case OpConst:
		if t.W == 0 {
			if t.c.Sign() != 0 {
				p.defined[t.id] = "true"
			} else {
				p.defined[t.id] = "false"
			}
		} else if p.mode == ModeInt {
			p.defined[t.id] = t.c.String()
		} else {
			p.defined[t.id] = fmt.Sprintf("(_ bv%s %d)", t.c.String(), t.W)
		}
		return
	case OpVar:
		n := smtName(t.name)
		p.out = append(p.out, fmt.Sprintf("(declare-const %s %s)", n, p.sortOf(t)))
		if p.mode == ModeInt && t.W > 0 {
			if p.ts.signedVar[t.name] {
				p.rep[t.id] = 'S'
				p.side[t.id] = []string{fmt.Sprintf("(<= (- %s) %s)", pow2(t.W-1), n), fmt.Sprintf("(< %s %s)", n, pow2(t.W-1))}
			} else {
				p.side[t.id] = []string{fmt.Sprintf("(<= 0 %s)", n), fmt.Sprintf("(< %s %s)", n, pow2(t.W))}
			}
		}
		p.defined[t.id] = n
		return
	}
	a := make([]string, len(t.args))
	for i, x := range t.args {
		a[i] = p.defined[x.id]
	}
	if p.mode == ModeBV || t.isPureBool() {
		expr = p.bvExpr(t, a)
	} else {
		var sides []string
		expr = p.intExpr(t, &sides)
		if len(sides) > 0 {
			p.side[t.id] = sides
		}
	}
	n := fmt.Sprintf("t%d", t.id)
	p.out = append(p.out, fmt.Sprintf("(define-fun %s () %s %s)", n, p.sortOf(t), expr))
	p.defined[t.id] = n
}

func (t *Term) isPureBool() bool {
	switch t.op {
	case OpNot, OpAnd, OpOr:
		return true
	case OpIte:
		return t.W == 0
	case OpEq:
		return t.args[0].W == 0
	}
	return false
}

func (p *Printer) bvExpr(t *Term, a []string) string {
	switch t.op {
	case OpExtract:
		return fmt.Sprintf("((_ extract %d %d) %s)", t.hi, t.lo, a[0])
	case OpZExt:
		return fmt.Sprintf("((_ zero_extend %d) %s)", t.hi, a[0])
	case OpSExt:
		return fmt.Sprintf("((_ sign_extend %d) %s)", t.hi, a[0])
	}
	return "(" + opNames[t.op] + " " + strings.Join(a, " ") + ")"
}

// Sides collects the side constraints of every node reachable from t that is
// not yet in `have`.
func (p *Printer) Sides(t *Term, have map[int]bool, out *[]string) {
	if p.mode != ModeInt {
		return
	}
	stack := []*Term{t}
	for len(stack) > 0 {
		x := stack[len(stack)-1]
		stack = stack[:len(stack)-1]
		if have[x.id] {
			continue
		}
		have[x.id] = true
		if s, ok := p.side[x.id]; ok {
			*out = append(*out, s...)
		}
		for _, d := range p.sideDeps[x.id] {
			stack = append(stack, p.ts.terms[d])
		}
		stack = append(stack, x.args...)
	}
}

// ---------------------------------------------------------------------------

type SolverStats struct {
	Queries   int
	Sat       int
	Unsat     int
	Unknown   int
	Time      time.Duration
	MaxQuery  time.Duration
	ErrorSeen int
	ModelTime time.Duration
	Models    int
}

type Solver struct {
	name    string
	argv    []string
	cmd     *exec.Cmd
	in      io.WriteCloser
	out     *bufio.Reader
	pr      *Printer
	ts      *TermStore
	mode    SMTMode
	stack   []*Term // asserted path condition, one push level each
	sideLvl []map[int]bool
	Stats   SolverStats
	log     io.Writer
	timeout time.Duration
	dead    bool
}

func solverArgv(name string, timeoutMs int) []string {
	switch name {
	case "z3":
		return []string{"z3", "-in", fmt.Sprintf("-t:%d", timeoutMs)}
	case "z3-new":
		return []string{"z3-new", "-in", fmt.Sprintf("-t:%d", timeoutMs)}
	case "z3-bv": // z3-new with (set-logic QF_BV): incremental SAT core instead of the generic SMT core
		return []string{"z3-new", "-in", fmt.Sprintf("-t:%d", timeoutMs)}
	case "cvc5":
		return []string{"cvc5", "--incremental", "--produce-models", fmt.Sprintf("--tlimit-per=%d", timeoutMs), "--lang=smt2"}
	}
	return []string{name, "-in"}
}

func NewSolver(ts *TermStore, name string, mode SMTMode, timeoutMs int) (*Solver, error) {
	s := &Solver{name: name, ts: ts, mode: mode, argv: solverArgv(name, timeoutMs), timeout: time.Duration(timeoutMs) * time.Millisecond}
	if err := s.start(); err != nil {
		return nil, err
	}
	return s, nil
}

func (s *Solver) start() error {
	s.cmd = exec.Command(s.argv[0], s.argv[1:]...)
	in, err := s.cmd.StdinPipe()
	if err != nil {
		return err
	}
	out, err := s.cmd.StdoutPipe()
	if err != nil {
		return err
	}
	s.cmd.Stderr = nil
	if err := s.cmd.Start(); err != nil {
		return err
	}
	s.in = in
	s.out = bufio.NewReaderSize(out, 1<<16)
	s.pr = NewPrinter(s.ts, s.mode)
	s.stack = nil
	s.sideLvl = nil
	s.dead = false
	s.send("(set-option :global-declarations true)")
	s.send("(set-option :produce-models true)")
	if s.name == "cvc5" || (s.name == "z3-bv" && s.mode != ModeInt) {
		if s.mode == ModeInt {
			s.send("(set-logic QF_NIA)")
		} else {
			s.send("(set-logic QF_BV)")
		}
	}
	return nil
}

func (s *Solver) Close() {
	if s.cmd != nil && s.cmd.Process != nil {
		s.in.Close()
		s.cmd.Process.Kill()
		s.cmd.Wait()
	}
}

func (s *Solver) restart() {
	s.Close()
	s.start()
}

func (s *Solver) send(cmd string) {
	if s.log != nil {
		fmt.Fprintln(s.log, cmd)
	}
	io.WriteString(s.in, cmd)
	io.WriteString(s.in, "\n")
}

func (s *Solver) flushDefs() {
	for _, c := range s.pr.out {
		s.send(c)
	}
	s.pr.out = s.pr.out[:0]
}

func (s *Solver) readLine() (string, error) {
	type res struct {
		l   string
		err error
	}
	ch := make(chan res, 1)
	go func() {
		l, err := s.out.ReadString('\n')
		ch <- res{l, err}
	}()
	select {
	case r := <-ch:
		return strings.TrimSpace(r.l), r.err
	case <-time.After(s.timeout*2 + 20*time.Second):
		s.dead = true
		s.cmd.Process.Kill()
		return "", fmt.Errorf("solver hang")
	}
}

// sync makes the solver's assertion stack equal to pc.
func (s *Solver) sync(pc []*Term) {
	n := 0
	for n < len(pc) && n < len(s.stack) && pc[n] == s.stack[n] {
		n++
	}
	if k := len(s.stack) - n; k > 0 {
		s.send(fmt.Sprintf("(pop %d)", k))
		s.stack = s.stack[:n]
		s.sideLvl = s.sideLvl[:n]
	}
	for i := n; i < len(pc); i++ {
		s.pushAssert(pc[i])
	}
}

func (s *Solver) haveSides() map[int]bool {
	// union of all levels: build lazily as a chained lookup
	m := map[int]bool{}
	for _, l := range s.sideLvl {
		for k := range l {
			m[k] = true
		}
	}
	return m
}

func (s *Solver) pushAssert(t *Term) {
	ref := s.pr.Ref(t)
	s.flushDefs()
	s.send("(push 1)")
	lvl := map[int]bool{}
	if s.mode == ModeInt {
		have := s.haveSides()
		before := len(have)
		_ = before
		var sides []string
		mark := map[int]bool{}
		for k := range have {
			mark[k] = true
		}
		s.pr.Sides(t, mark, &sides)
		for k := range mark {
			if !have[k] {
				lvl[k] = true
			}
		}
		for _, c := range sides {
			s.send("(assert " + c + ")")
		}
	}
	s.send("(assert " + ref + ")")
	s.stack = append(s.stack, t)
	s.sideLvl = append(s.sideLvl, lvl)
}

type SatResult int

const (
	Unsat SatResult = iota
	Sat
	Unknown
)

func (r SatResult) String() string { return [...]string{"unsat", "sat", "unknown"}[r] }

// Check decides pc ∧ extra.
func (s *Solver) Check(pc []*Term, extra *Term) SatResult {
	if s.dead {
		s.restart()
	}
	s.sync(pc)
	if extra != nil {
		s.pushAssert(extra)
	}
	if s.pr.err != nil {
		s.Stats.Unknown++
		s.Stats.Queries++
		return Unknown
	}
	t0 := time.Now()
	s.send("(check-sat)")
	var r SatResult = Unknown
	for {
		l, err := s.readLine()
		if err != nil {
			s.dead = true
			r = Unknown
			break
		}
		if l == "" {
			continue
		}
		if l == "sat" {
			r = Sat
			break
		}
		if l == "unsat" {
			r = Unsat
			break
		}
		if l == "unknown" || l == "timeout" {
			r = Unknown
			break
		}
		if strings.HasPrefix(l, "(error") {
			s.Stats.ErrorSeen++
			if s.log != nil {
				fmt.Fprintln(s.log, "; ERROR:", l)
			}
			// an error line means nothing the solver says about this query can be trusted
			// keep reading until the verdict, then downgrade
			v, _ := s.readLine()
			_ = v
			r = Unknown
			break
		}
	}
	d := time.Since(t0)
	if s.log != nil {
		fmt.Fprintf(s.log, "; -> %s in %dms (stack %d)\n", r, d.Milliseconds(), len(s.stack))
	}
	s.Stats.Queries++
	s.Stats.Time += d
	if d > s.Stats.MaxQuery {
		s.Stats.MaxQuery = d
	}
	switch r {
	case Sat:
		s.Stats.Sat++
	case Unsat:
		s.Stats.Unsat++
	default:
		s.Stats.Unknown++
	}
	return r
}

// Model fetches values of the given variables after a Sat answer. The stack
// still holds the query (including `extra`).
func (s *Solver) Model(vars []*Term) map[string]*big.Int {
	tm0 := time.Now()
	defer func() { s.Stats.ModelTime += time.Since(tm0); s.Stats.Models++ }()
	m := map[string]*big.Int{}
	if len(vars) == 0 {
		return m
	}
	if s.name == "z3" || s.name == "z3-new" {
		// (eval x) is ~50x faster than (get-value (x)) in z3's incremental mode
		const chunk = 64
		for i := 0; i < len(vars); i += chunk {
			j := i + chunk
			if j > len(vars) {
				j = len(vars)
			}
			for _, v := range vars[i:j] {
				ref := s.pr.Ref(v)
				s.flushDefs()
				s.send("(eval " + ref + " :completion true)")
			}
			for _, v := range vars[i:j] {
				txt := s.readSexp()
				toks := tokenize("((x " + txt + "))")
				one := map[string]*big.Int{}
				parseModel(strings.Join(toks, " "), []*Term{v}, one)
				if val, ok := one[v.name]; ok {
					m[v.name] = val
				}
			}
		}
		return m
	}
	const chunk = 200
	for i := 0; i < len(vars); i += chunk {
		j := i + chunk
		if j > len(vars) {
			j = len(vars)
		}
		var sb strings.Builder
		sb.WriteString("(get-value (")
		for _, v := range vars[i:j] {
			sb.WriteString(s.pr.Ref(v))
			sb.WriteString(" ")
		}
		sb.WriteString("))")
		s.flushDefs()
		s.send(sb.String())
		txt := s.readSexp()
		parseModel(txt, vars[i:j], m)
	}
	return m
}

func (s *Solver) readSexp() string {
	var sb strings.Builder
	depth := 0
	started := false
	inBar := false
	for {
		l, err := s.readLine()
		if err != nil {
			return sb.String()
		}
		for _, ch := range l {
			if ch == '|' {
				inBar = !inBar
			}
			if inBar {
				continue
			}
			if ch == '(' {
				depth++
				started = true
			} else if ch == ')' {
				depth--
			}
		}
		sb.WriteString(l)
		sb.WriteString(" ")
		if started && depth <= 0 {
			return sb.String()
		}
		if !started && strings.TrimSpace(l) != "" {
			return sb.String() // a bare atom (answer of eval)
		}
	}
}

// parseModel reads "((name value) (name value) ...)" in order.
func parseModel(txt string, vars []*Term, m map[string]*big.Int) {
	toks := tokenize(txt)
	// structure: ( ( name val ) ( name val ) ... ) ; val may be nested e.g. (_ bv5 8) or (- 3)
	pos := 0
	next := func() string {
		if pos < len(toks) {
			pos++
			return toks[pos-1]
		}
		return ""
	}
	var readVal func() *big.Int
	readVal = func() *big.Int {
		t := next()
		if t == "(" {
			h := next()
			switch h {
			case "_":
				v := next() // bvN
				next()      // width
				next()      // )
				b, _ := new(big.Int).SetString(strings.TrimPrefix(v, "bv"), 10)
				return b
			case "-":
				v := readVal()
				next()
				return new(big.Int).Neg(v)
			default:
				// skip unknown
				depth := 1
				for depth > 0 && pos < len(toks) {
					x := next()
					if x == "(" {
						depth++
					} else if x == ")" {
						depth--
					}
				}
				return big.NewInt(0)
			}
		}
		switch {
		case t == "true":
			return big.NewInt(1)
		case t == "false":
			return big.NewInt(0)
		case strings.HasPrefix(t, "#x"):
			b, _ := new(big.Int).SetString(t[2:], 16)
			return b
		case strings.HasPrefix(t, "#b"):
			b, _ := new(big.Int).SetString(t[2:], 2)
			return b
		default:
			b, ok := new(big.Int).SetString(t, 10)
			if !ok {
				return big.NewInt(0)
			}
			return b
		}
	}
	if next() != "(" {
		return
	}
	for i := 0; i < len(vars); i++ {
		if next() != "(" {
			return
		}
		next() // name
		v := readVal()
		next() // )
		if v != nil {
			m[vars[i].name] = v
		}
	}
}

func tokenize(s string) []string {
	var toks []string
	i := 0
	for i < len(s) {
		c := s[i]
		switch {
		case c == ' ' || c == '\n' || c == '\t' || c == '\r':
			i++
		case c == '(' || c == ')':
			toks = append(toks, string(c))
			i++
		case c == '|':
			j := i + 1
			for j < len(s) && s[j] != '|' {
				j++
			}
			toks = append(toks, s[i:j+1])
			i = j + 1
		default:
			j := i
			for j < len(s) && s[j] != ' ' && s[j] != '(' && s[j] != ')' && s[j] != '\n' {
				j++
			}
			toks = append(toks, s[i:j])
			i = j
		}
	}
	return toks
}

// Standalone prints a self-contained SMT-LIB2 script deciding the conjunction
// of the given assertions (used for cross-checking with other solvers).
func Standalone(ts *TermStore, mode SMTMode, asserts []*Term) (string, error) {
	p := NewPrinter(ts, mode)
	var sb strings.Builder
	var refs []string
	for _, a := range asserts {
		refs = append(refs, p.Ref(a))
	}
	for _, c := range p.out {
		sb.WriteString(c)
		sb.WriteString("\n")
	}
	if mode == ModeInt {
		have := map[int]bool{}
		var sides []string
		for _, a := range asserts {
			p.Sides(a, have, &sides)
		}
		for _, c := range sides {
			sb.WriteString("(assert " + c + ")\n")
		}
	}
	for _, r := range refs {
		sb.WriteString("(assert " + r + ")\n")
	}
	sb.WriteString("(check-sat)\n")
	return sb.String(), p.err
}

// RunStandalone runs a one-shot solver on a script.
func RunStandalone(solver string, script string, timeoutMs int) (SatResult, time.Duration) {
	var argv []string
	switch solver {
	case "cvc5":
		argv = []string{"cvc5", "--lang=smt2", fmt.Sprintf("--tlimit=%d", timeoutMs)}
	default:
		argv = []string{solver, "-in", fmt.Sprintf("-T:%d", (timeoutMs+999)/1000)}
	}
	cmd := exec.Command(argv[0], argv[1:]...)
	if solver == "cvc5" {
		script = "(set-logic ALL)\n" + script
	}
	cmd.Stdin = strings.NewReader(script)
	t0 := time.Now()
	out, _ := cmd.Output()
	d := time.Since(t0)
	txt := string(out)
	if strings.Contains(txt, "(error") {
		return Unknown, d
	}
	for _, l := range strings.Split(txt, "\n") {
		l = strings.TrimSpace(l)
		if l == "sat" {
			return Sat, d
		}
		if l == "unsat" {
			return Unsat, d
		}
	}
	return Unknown, d
}
