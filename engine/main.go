package main

import (
	"flag"
	"fmt"
	"os"
	"runtime"
	"runtime/pprof"
	"sort"
	"strconv"
	"strings"
	"sync"
	"time"
)

type Options struct {
	Property string
	Tier     string
	Only     string
	Debug    bool
	Workers  int
	NoReplay bool
	Replay   string
	Seed     int64
	NoValidate bool
}

func main() {
	if len(os.Args) < 3 || os.Args[1] != "check" {
		fmt.Fprintln(os.Stderr, "usage: gosmt check <property> [--tier quick|thorough] [--only substr] [--debug] [--replay path]")
		os.Exit(2)
	}
	opt := &Options{Property: os.Args[2]}
	fs := flag.NewFlagSet("check", flag.ExitOnError)
	fs.StringVar(&opt.Tier, "tier", envDef("VERIF_TIER", "quick"), "quick|thorough")
	fs.StringVar(&opt.Only, "only", "", "run only obligations whose id contains this")
	fs.BoolVar(&opt.Debug, "debug", false, "debug output")
	fs.IntVar(&opt.Workers, "workers", runtime.NumCPU(), "parallel obligations")
	fs.BoolVar(&opt.NoReplay, "no-replay", false, "skip native replay (never prints VIOLATION)")
	fs.BoolVar(&opt.NoValidate, "no-validate", false, "skip translator validation")
	fs.StringVar(&opt.Replay, "replay", "", "replay a stored counterexample")
	fs.Parse(os.Args[3:])
	opt.Seed, _ = strconv.ParseInt(envDef("VERIF_SEED", "1"), 10, 64)
	os.Exit(runCheck(opt))
}

func envDef(k, d string) string {
	if v := os.Getenv(k); v != "" {
		return v
	}
	return d
}

func runCheck(opt *Options) int {
	t0 := time.Now()
	files, err := findHarnesses(opt.Property)
	if err != nil || len(files) == 0 {
		fmt.Printf("ENGINE-ERROR property=%s no harness found (%v)\n", opt.Property, err)
		return 2
	}
	if opt.Replay != "" {
		return replayStored(opt, files)
	}
	var obs []*Obligation
	for _, hf := range files {
		for _, o := range obligationsOf(hf, opt.Property) {
			if o.Tier == "thorough" && opt.Tier != "thorough" {
				continue
			}
			if o.Tier == "quickonly" && opt.Tier != "quick" {
				continue
			}
			if opt.Only != "" && !strings.Contains(o.ID(), opt.Only) {
				continue
			}
			obs = append(obs, o)
		}
	}
	if len(obs) == 0 {
		fmt.Printf("ENGINE-ERROR property=%s no obligations for tier %s\n", opt.Property, opt.Tier)
		return 2
	}
	w, err := loadWorld(files)
	if err != nil {
		fmt.Printf("ENGINE-ERROR property=%s load: %v\n", opt.Property, err)
		return 2
	}
	w.known = loadKnown()
	fmt.Printf("loaded %d packages in %.1fs; %d obligations\n", len(w.prog.AllPackages()), w.loadTime.Seconds(), len(obs))

	results := make([]*ObResult, len(obs))
	var wg sync.WaitGroup
	sem := make(chan struct{}, opt.Workers)
	for i, ob := range obs {
		wg.Add(1)
		go func(i int, ob *Obligation) {
			defer wg.Done()
			sem <- struct{}{}
			defer func() { <-sem }()
			defer func() {
				if r := recover(); r != nil {
					msg := fmt.Sprintf("%v", r)
					if ec, ok := r.(engineCrash); ok {
						msg = ec.msg
					}
					res := &ObResult{Ob: ob, KnownHits: map[string]*Violation{}, Reached: map[string]bool{}}
					res.Unsupported = append(res.Unsupported, "engine crash: "+msg)
					results[i] = res
				}
			}()
			if os.Getenv("VERIF_PROGRESS") != "" {
				fmt.Fprintf(os.Stderr, "progress: start %s\n", ob.ID())
			}
			results[i] = w.runObligation(ob, opt.Debug)
			if os.Getenv("VERIF_PROGRESS") != "" {
				fmt.Fprintf(os.Stderr, "progress: done  %s queries=%d wall=%.1fs\n", ob.ID(), results[i].Stats.Queries, results[i].Wall.Seconds())
			}
		}(i, ob)
	}
	wg.Wait()

	return report(opt, w, results, t0)
}

func report(opt *Options, w *World, results []*ObResult, t0 time.Time) int {
	exit := 0
	engineErr := false
	var confirmed []*Confirmed
	var unconfirmed []string
	knownPrinted := map[string]bool{}
	for _, r := range results {
		status := "ok"
		if len(r.Violations) > 0 {
			status = "CANDIDATE"
		}
		if len(r.Unsupported) > 0 || len(r.Inconclusive) > 0 || len(r.UnwindHits) > 0 {
			status += "+inconclusive"
		}
		fmt.Printf("  %-40s %-22s paths=%d asserts=%d discharged=%d queries=%d solver=%.1fs models=%d/%.1fs hits=%d wall=%.1fs\n", r.Ob.ID(), status, r.Paths, r.Asserts, r.Discharged, r.Stats.Queries, r.Stats.Time.Seconds(), r.Stats.Models, r.Stats.ModelTime.Seconds(), r.CacheHits, r.Wall.Seconds())
		for _, u := range r.Unsupported {
			fmt.Printf("      not-encodable: %s\n", trunc(u, 3000))
		}
		for _, u := range r.Inconclusive {
			fmt.Printf("      inconclusive: %s\n", trunc(u, 300))
		}
		for _, u := range r.UnwindHits {
			fmt.Printf("      unwind: %s\n", trunc(u, 300))
		}
		for _, u := range r.Disagree {
			fmt.Printf("ENGINE-ERROR property=%s solver disagreement: %s\n", opt.Property, u)
			engineErr = true
		}
		for _, v := range r.Violations {
			fmt.Printf("      candidate %s %s at %s %s\n", v.Kind, v.Label, v.Site, trunc(v.Msg, 200))
			if opt.Debug {
				printModel(v.Model)
			}
		}
	}
	// native replay of candidates
	if !opt.NoReplay {
		c, u, err := replayCandidates(opt, w, results)
		if err != nil {
			fmt.Printf("ENGINE-ERROR property=%s replay: %v\n", opt.Property, err)
			engineErr = true
		}
		confirmed, unconfirmed = c, u
	}
	for _, r := range results {
		ids := make([]string, 0, len(r.KnownHits))
		for id := range r.KnownHits {
			ids = append(ids, id)
		}
		sort.Strings(ids)
		for _, id := range ids {
			if knownPrinted[id] {
				continue
			}
			knownPrinted[id] = true
			kf := w.known.get(id)
			fmt.Printf("KNOWN-FINDING: property=%s %s: %s\n", opt.Property, id, kf.What)
		}
	}
	for _, c := range confirmed {
		fmt.Printf("VIOLATION property=%s replay=%s\n", opt.Property, c.Path)
		fmt.Printf("    %s %s at %s: %s\n", c.V.Kind, c.V.Label, c.V.Site, trunc(c.Native, 300))
		exit = 1
	}
	for _, u := range unconfirmed {
		fmt.Printf("UNCONFIRMED property=%s %s\n", opt.Property, u)
	}
	// vacuity: every verifReach label declared in the harness source must be reached by some obligation
	if opt.Only == "" {
		missing := vacuityCheck(w, results)
		for _, m := range missing {
			fmt.Printf("ENGINE-ERROR property=%s vacuity witness never reached: %s\n", opt.Property, m)
			engineErr = true
		}
	}
	// translator validation
	validated := 0
	if !opt.NoValidate && !opt.NoReplay {
		n, err := validateTranslator(opt, w, results)
		validated = n
		if err != nil {
			fmt.Printf("ENGINE-ERROR property=%s translator validation: %v\n", opt.Property, err)
			engineErr = true
		}
	}
	if opt.Only == "" && os.Getenv("VERIF_NOEVIDENCE") == "" {
		if err := writeEvidence(opt, w, results, confirmed, unconfirmed, validated, time.Since(t0)); err != nil {
			fmt.Printf("ENGINE-ERROR property=%s evidence: %v\n", opt.Property, err)
			engineErr = true
		}
	}
	tot, dis := 0, 0
	inc := 0
	for _, r := range results {
		tot += r.Asserts
		dis += r.Discharged
		inc += len(r.Inconclusive) + len(r.Unsupported) + len(r.UnwindHits)
	}
	fmt.Printf("property=%s tier=%s obligations=%d assertion-instances=%d discharged=%d inconclusive-notes=%d validated=%d wall=%.1fs\n", opt.Property, opt.Tier, len(results), tot, dis, inc, validated, time.Since(t0).Seconds())
	if exit == 1 {
		return 1
	}
	if engineErr {
		return 2
	}
	return 0
}

func trunc(s string, n int) string {
	if len(s) > n {
		return s[:n] + "..."
	}
	return s
}

func printModel(m map[string]*bigInt) {
	keys := make([]string, 0, len(m))
	for k := range m {
		keys = append(keys, k)
	}
	sort.Strings(keys)
	for _, k := range keys {
		fmt.Printf("          %s = %s\n", k, m[k].String())
	}
}

func vacuityCheck(w *World, results []*ObResult) []string {
	reached := map[string]bool{}
	ran := map[*HarnessFile]bool{}
	for _, r := range results {
		for k := range r.Reached {
			reached[k] = true
		}
		ran[r.Ob.File] = true
	}
	var missing []string
	for hf := range ran {
		for _, l := range strings.Split(string(hf.Src), "\n") {
			l = strings.TrimSpace(l)
			if i := strings.Index(l, "verifReach(\""); i >= 0 && !strings.HasPrefix(l, "//") {
				rest := l[i+len("verifReach(\""):]
				if j := strings.Index(rest, "\""); j >= 0 {
					lab := rest[:j]
					if !reached[lab] && !strings.Contains(l, "//verif:optional") {
						// only labels belonging to harness functions that ran in this tier
						if harnessOfLabelRan(hf, lab, results) {
							missing = append(missing, lab)
						}
					}
				}
			}
		}
	}
	sort.Strings(missing)
	return missing
}

// harnessOfLabelRan: a label is required only if its name is prefixed by the
// name of an obligation function that was run ("VerifX:label") or has no prefix.
func harnessOfLabelRan(hf *HarnessFile, lab string, results []*ObResult) bool {
	i := strings.Index(lab, ":")
	if i < 0 {
		return true
	}
	fn := lab[:i]
	for _, r := range results {
		if r.Ob.Name == fn && len(r.Unsupported) == 0 {
			return true
		}
	}
	return false
}

func init() {
	if p := os.Getenv("VERIF_PPROF"); p != "" {
		f, _ := os.Create(p)
		pprof.StartCPUProfile(f)
		go func() {
			time.Sleep(150 * time.Second)
			pprof.StopCPUProfile()
			f.Close()
		}()
	}
}
