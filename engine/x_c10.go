package main

import "golang.org/x/tools/go/ssa"

// Wall-clock reads used only for log fields (Store.SaveCheckpoints,
// Store.SaveBlock): the clock is outside every property, so time.Now yields
// the zero Time and time.Since a zero Duration.
func init() {
	zeroRes := func(in *Interp, fn *ssa.Function, a []Value) Value { return in.zeroResults(fn) }
	intrinsics["time.Now"] = zeroRes
	intrinsics["time.Since"] = zeroRes
}
