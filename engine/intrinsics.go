package main

import (
	"fmt"
	"go/types"
	"math/big"
	"strings"

	"golang.org/x/tools/go/ssa"
)

type intrinsicFn func(in *Interp, fn *ssa.Function, args []Value) Value

type hashApp struct {
	input []*Term
	out   []*Term // digest bytes
}

var intrinsics map[string]intrinsicFn

// packages whose functions are all replaced by "return zero values"
var nopPackages = map[string]bool{
	"github.com/sirupsen/logrus": true,
	"log":                        true,
}

func init() {
	intrinsics = map[string]intrinsicFn{
		// ---- harness API
		"verifU8":     func(in *Interp, fn *ssa.Function, a []Value) Value { return in.nondet(strArg(a[0]), 8) },
		"verifU16":    func(in *Interp, fn *ssa.Function, a []Value) Value { return in.nondet(strArg(a[0]), 16) },
		"verifU32":    func(in *Interp, fn *ssa.Function, a []Value) Value { return in.nondet(strArg(a[0]), 32) },
		"verifU64":    func(in *Interp, fn *ssa.Function, a []Value) Value { return in.nondet(strArg(a[0]), 64) },
		"verifI8":     func(in *Interp, fn *ssa.Function, a []Value) Value { return in.nondetS(strArg(a[0]), 8) },
		"verifI32":    func(in *Interp, fn *ssa.Function, a []Value) Value { return in.nondetS(strArg(a[0]), 32) },
		"verifI64":    func(in *Interp, fn *ssa.Function, a []Value) Value { return in.nondetS(strArg(a[0]), 64) },
		"verifInt":    func(in *Interp, fn *ssa.Function, a []Value) Value { return in.nondetS(strArg(a[0]), 64) },
		"verifBool":   func(in *Interp, fn *ssa.Function, a []Value) Value { return in.ts.Ne(in.nondet(strArg(a[0]), 8), in.ts.ConstU(8, 0)) },
		"verifBytes":  verifBytes,
		"verifBytesN": verifBytesN,
		"verifChoice": func(in *Interp, fn *ssa.Function, a []Value) Value {
			n, _ := constInt(a[1].(*Term))
			v := in.nondet(strArg(a[0]), 64)
			in.assume(in.ts.ULt(v, in.ts.ConstU(64, uint64(n))))
			return in.ts.ConstI(64, in.concretize(v, n+1, "verifChoice "+strArg(a[0])))
		},
		"verifAssume": func(in *Interp, fn *ssa.Function, a []Value) Value {
			c := a[0].(*Term)
			if c.IsFalse() {
				panic(pathEnd{"assume", "assumption false"})
			}
			if !c.IsTrue() {
				if in.dpos >= len(in.decisions) && in.feasible(c) == Unsat {
					panic(pathEnd{"assume", "assumption infeasible"})
				}
				in.assume(c)
			}
			return nil
		},
		"verifAssert": func(in *Interp, fn *ssa.Function, a []Value) Value {
			in.checkAssert(a[0].(*Term), strArg(a[1]))
			return nil
		},
		"verifReach": func(in *Interp, fn *ssa.Function, a []Value) Value {
			in.reached[strArg(a[0])] = true
			return nil
		},
		"verifKnown": func(in *Interp, fn *ssa.Function, a []Value) Value {
			in.known = append(in.known, knownRegion{strArg(a[0]), a[1].(*Term)})
			return nil
		},
		"verifAllocBytes": func(in *Interp, fn *ssa.Function, a []Value) Value { return in.allocated },
		"verifObserveU64": func(in *Interp, fn *ssa.Function, a []Value) Value {
			in.observe(strArg(a[0]), a[1].(*Term).String())
			return nil
		},
		"verifObserveI64": func(in *Interp, fn *ssa.Function, a []Value) Value {
			t := a[1].(*Term)
			if t.IsConst() {
				in.observe(strArg(a[0]), fmt.Sprintf("%d", t.Int64()))
			} else {
				in.observe(strArg(a[0]), t.String())
			}
			return nil
		},
		"verifObserveBool": func(in *Interp, fn *ssa.Function, a []Value) Value {
			in.observe(strArg(a[0]), a[1].(*Term).String())
			return nil
		},
		"verifObserveBytes": func(in *Interp, fn *ssa.Function, a []Value) Value {
			s := a[1].(*SliceV)
			if s.obj == nil {
				in.observe(strArg(a[0]), "")
				return nil
			}
			bs := in.bytesOf(s, "observed bytes")
			var sb strings.Builder
			for _, b := range bs {
				if b.IsConst() {
					fmt.Fprintf(&sb, "%02x", b.Uint64())
				} else {
					sb.WriteString("??")
				}
			}
			in.observe(strArg(a[0]), sb.String())
			return nil
		},
		"verifHash": verifHash,

		// ---- sync
		"(*sync.Mutex).Lock":        nop,
		"(*sync.Mutex).Unlock":      nop,
		"(*sync.RWMutex).Lock":      nop,
		"(*sync.RWMutex).Unlock":    nop,
		"(*sync.RWMutex).RLock":     nop,
		"(*sync.RWMutex).RUnlock":   nop,
		"(*sync.WaitGroup).Add":     nop,
		"(*sync.WaitGroup).Done":    nop,
		"(*sync.WaitGroup).Wait":    nop,
		"(*sync.Pool).Put":          syncPoolPut,
		"(*sync.Pool).Get":          syncPoolGet,
		"(*sync.Once).Do":           syncOnceDo,
		"sync/atomic.LoadInt32":     atomicLoad,
		"sync/atomic.LoadInt64":     atomicLoad,
		"sync/atomic.LoadUint32":    atomicLoad,
		"sync/atomic.LoadUint64":    atomicLoad,
		"sync/atomic.LoadPointer":   atomicLoad,
		"sync/atomic.StoreInt32":    atomicStore,
		"sync/atomic.StoreInt64":    atomicStore,
		"sync/atomic.StoreUint32":   atomicStore,
		"sync/atomic.StoreUint64":   atomicStore,
		"sync/atomic.AddInt32":      atomicAdd,
		"sync/atomic.AddInt64":      atomicAdd,
		"sync/atomic.AddUint32":     atomicAdd,
		"sync/atomic.AddUint64":     atomicAdd,
		"sync/atomic.CompareAndSwapInt32":  atomicCAS,
		"sync/atomic.CompareAndSwapInt64":  atomicCAS,
		"sync/atomic.CompareAndSwapUint32": atomicCAS,
		"sync/atomic.CompareAndSwapUint64": atomicCAS,

		// ---- bytes / strings kernels
		"bytes.Equal": func(in *Interp, fn *ssa.Function, a []Value) Value {
			return in.bytesEq(a[0].(*SliceV), a[1].(*SliceV))
		},
		"bytes.Compare":                  bytesCompare,
		"internal/bytealg.IndexByte":       indexByte,
		"internal/bytealg.IndexByteString": indexByte,
		"bytes.IndexByte":                  indexByte,
		"strings.IndexByte":                indexByte,
		"(*strings.Builder).copyCheck":     nop,
		"strings.Join":                     stringsJoin,
		"internal/bytealg.MakeNoZero": func(in *Interp, fn *ssa.Function, a []Value) Value {
			n := a[0].(*Term)
			return in.makeSlice(types.Typ[types.Uint8], n, n)
		},
		"internal/bytealg.CountString": func(in *Interp, fn *ssa.Function, a []Value) Value {
			s := a[0].(*StrV)
			c := a[1].(*Term)
			r := in.ts.ConstU(64, 0)
			for _, b := range s.b {
				r = in.ts.Add(r, in.ts.BoolToBV(in.ts.Eq(b, c), 64))
			}
			return r
		},

		// ---- runtime
		"runtime.Callers":    func(in *Interp, fn *ssa.Function, a []Value) Value { return in.ts.ConstU(64, 0) },
		"runtime.NumCPU":     func(in *Interp, fn *ssa.Function, a []Value) Value { return in.ts.ConstU(64, 16) },
		"runtime.GOMAXPROCS": func(in *Interp, fn *ssa.Function, a []Value) Value { return in.ts.ConstU(64, 16) },
		"runtime.Gosched":    nop,
		"runtime.KeepAlive":  nop,
		"runtime.SetFinalizer": nop,

		// ---- math/bits
		"math/bits.Add64": func(in *Interp, fn *ssa.Function, a []Value) Value {
			ts := in.ts
			x, y, c := ts.ZExt(a[0].(*Term), 65), ts.ZExt(a[1].(*Term), 65), ts.ZExt(a[2].(*Term), 65)
			s := ts.Add(ts.Add(x, y), c)
			return TupleV{ts.Extract(s, 63, 0), ts.ZExt(ts.Extract(s, 64, 64), 64)}
		},
		"math/bits.Sub64": func(in *Interp, fn *ssa.Function, a []Value) Value {
			ts := in.ts
			x, y, c := ts.ZExt(a[0].(*Term), 65), ts.ZExt(a[1].(*Term), 65), ts.ZExt(a[2].(*Term), 65)
			s := ts.Sub(ts.Sub(x, y), c)
			return TupleV{ts.Extract(s, 63, 0), ts.ZExt(ts.Extract(s, 64, 64), 64)}
		},
		"math/bits.Mul64": func(in *Interp, fn *ssa.Function, a []Value) Value {
			ts := in.ts
			p := ts.Mul(ts.ZExt(a[0].(*Term), 128), ts.ZExt(a[1].(*Term), 128))
			return TupleV{ts.Extract(p, 127, 64), ts.Extract(p, 63, 0)}
		},
		"math.Float64bits": func(in *Interp, fn *ssa.Function, a []Value) Value {
			panic(in.unsupported("math.Float64bits"))
		},

		// ---- formatting: opaque
		"fmt.Sprintf":  fmtOpaque,
		"fmt.Sprint":   fmtOpaque,
		"fmt.Sprintln": fmtOpaque,
		"fmt.Errorf":   fmtErrorf,
		"fmt.Println":  fmtDiscard,
		"fmt.Printf":   fmtDiscard,
		"fmt.Print":    fmtDiscard,
		"fmt.Fprintf":  fmtDiscard,
		"fmt.Fprintln": fmtDiscard,
		"fmt.Fprint":   fmtDiscard,
		"strconv.Itoa": func(in *Interp, fn *ssa.Function, a []Value) Value {
			t := a[0].(*Term)
			if t.IsConst() {
				return in.mkStr(fmt.Sprintf("%d", t.Int64()))
			}
			return &StrV{opaque: true, tag: "strconv.Itoa"}
		},
		"strconv.FormatInt":  fmtOpaque,
		"strconv.FormatUint": fmtOpaque,
		"strconv.Quote":      fmtOpaque,

		// bytom errors: drop stack capture
		"github.com/bytom/bytom/errors.getStack": func(in *Interp, fn *ssa.Function, a []Value) Value {
			return in.zero(fn.Signature.Results().At(0).Type())
		},
	}
}

func nop(in *Interp, fn *ssa.Function, a []Value) Value { return in.zeroResults(fn) }

func strArg(v Value) string {
	s := v.(*StrV)
	b := make([]byte, len(s.b))
	for i, t := range s.b {
		if !t.IsConst() {
			panic("harness API name argument must be a constant string")
		}
		b[i] = byte(t.Uint64())
	}
	return string(b)
}

func (w *World) intrinsicFor(fn *ssa.Function) intrinsicFn {
	if h, ok := w.icache.Load(fn); ok {
		if h == nil {
			return nil
		}
		return h.(intrinsicFn)
	}
	var h intrinsicFn
	name := fn.String()
	if strings.HasPrefix(fn.Name(), "verif") && fn.Blocks == nil {
		if x, ok := intrinsics[fn.Name()]; ok {
			h = x
		}
	}
	if h == nil {
		if x, ok := intrinsics[name]; ok {
			h = x
		} else if x, ok := cryptoIntrinsics[name]; ok {
			h = x
		}
	}
	if h == nil && fn.Pkg != nil && isNopPkg(fn.Pkg.Pkg.Path()) {
		h = nopPkgCall
	}
	if h == nil {
		// methods of types of nop packages (e.g. (*logrus.Entry).Info)
		if recv := fn.Signature.Recv(); recv != nil {
			t := recv.Type()
			if p, ok := t.(*types.Pointer); ok {
				t = p.Elem()
			}
			if n, ok := t.(*types.Named); ok && n.Obj().Pkg() != nil && isNopPkg(n.Obj().Pkg().Path()) {
				h = nopPkgCall
			}
		}
	}
	if h == nil {
		w.icache.Store(fn, nil)
		return nil
	}
	w.icache.Store(fn, h)
	return h
}

// nopPkgCall returns zero values, except that pointer results get a fresh
// zero object so that chained calls (logrus.WithField(...).Info(...)) work.
func nopPkgCall(in *Interp, fn *ssa.Function, a []Value) Value {
	res := fn.Signature.Results()
	mk := func(t types.Type) Value {
		if p, ok := t.Underlying().(*types.Pointer); ok {
			if _, isStruct := p.Elem().Underlying().(*types.Struct); isStruct {
				return &PtrV{obj: in.newObject(in.zero(p.Elem()), p.Elem(), "nop result")}
			}
		}
		return in.zero(t)
	}
	switch res.Len() {
	case 0:
		return nil
	case 1:
		return mk(res.At(0).Type())
	}
	tv := make(TupleV, res.Len())
	for i := range tv {
		tv[i] = mk(res.At(i).Type())
	}
	return tv
}

// ---------------------------------------------------------------------------
// nondeterministic inputs

func (in *Interp) nondetName(name string) string {
	k := in.nondetN[name]
	in.nondetN[name] = k + 1
	return fmt.Sprintf("%s#%d", name, k)
}

func (in *Interp) nondetVar(full string, w int) *Term {
	if in.concrete != nil {
		if v, ok := in.concrete[full]; ok {
			return in.ts.Const(w, v)
		}
		return in.ts.ConstU(w, 0)
	}
	v := in.ts.Var(full, w)
	if in.r.VarW != nil {
		in.r.VarW[full] = w
	}
	if !in.varSeen[full] {
		in.varSeen[full] = true
		in.vars = append(in.vars, v)
	}
	return v
}

func (in *Interp) nondet(name string, w int) *Term {
	return in.nondetVar(in.nondetName(name), w)
}

func verifBytes(in *Interp, fn *ssa.Function, a []Value) Value {
	name := in.nondetName(strArg(a[0]))
	max, ok := constInt(a[1].(*Term))
	if !ok {
		panic("verifBytes: max must be constant")
	}
	ts := in.ts
	n := in.nondetVar(name+".len", 64)
	in.assume(ts.ULe(n, ts.ConstU(64, uint64(max))))
	arr := &ArrayV{e: make([]Value, max)}
	for i := range arr.e {
		arr.e[i] = in.nondetVar(fmt.Sprintf("%s[%d]", name, i), 8)
	}
	o := in.newObject(arr, types.NewArray(types.Typ[types.Uint8], int64(max)), "verifBytes "+name)
	return &SliceV{obj: o, off: ts.ConstU(64, 0), len: n, cap: n}
}

func verifBytesN(in *Interp, fn *ssa.Function, a []Value) Value {
	name := in.nondetName(strArg(a[0]))
	n, ok := constInt(a[1].(*Term))
	if !ok {
		panic("verifBytesN: n must be constant")
	}
	ts := in.ts
	arr := &ArrayV{e: make([]Value, n)}
	for i := range arr.e {
		arr.e[i] = in.nondetVar(fmt.Sprintf("%s[%d]", name, i), 8)
	}
	o := in.newObject(arr, types.NewArray(types.Typ[types.Uint8], int64(n)), "verifBytesN "+name)
	nt := ts.ConstU(64, uint64(n))
	return &SliceV{obj: o, off: ts.ConstU(64, 0), len: nt, cap: nt}
}

func (in *Interp) observe(name, val string) {
	in.observed = append(in.observed, name+"="+val)
}

// ---------------------------------------------------------------------------
// uninterpreted hash functions with collision-freedom on the applications of
// one path

func (in *Interp) hashUF(kind string, input []*Term, outBytes int) []*Term {
	ts := in.ts
	// identical input term list => same application
	for _, app := range in.hashApps[kind] {
		if len(app.input) == len(input) {
			same := true
			for i := range input {
				if app.input[i] != input[i] {
					same = false
					break
				}
			}
			if same {
				return app.out
			}
		}
	}
	if out, ok := in.initTimeDigest(kind, input, outBytes); ok { // x_c03.go
		return out
	}
	if in.concrete != nil {
		data := make([]byte, len(input))
		for i, t := range input {
			if !t.IsConst() {
				panic(in.unsupported("symbolic hash input in concrete mode"))
			}
			data[i] = byte(t.Uint64())
		}
		d, ok := concreteDigest(kind, data, outBytes)
		if !ok || len(d) < outBytes {
			panic(in.unsupported("no concrete implementation of hash " + kind))
		}
		out := make([]*Term, outBytes)
		for i := range out {
			out[i] = ts.ConstU(8, uint64(d[i]))
		}
		in.hashApps[kind] = append(in.hashApps[kind], &hashApp{input: input, out: out})
		return out
	}
	in.ufSeq++
	out := constHashOut(in, kind, input, outBytes) // x_c12.go: constant input => the real digest
	if out == nil {
		out = make([]*Term, outBytes)
		// one wide variable split into bytes keeps the model small
		wide := ts.Var(fmt.Sprintf("uf!%s!%d", kind, in.ufSeq), outBytes*8)
		for i := range out {
			hi := (outBytes-i)*8 - 1
			out[i] = ts.Extract(wide, hi, hi-7)
		}
	}
	app := &hashApp{input: input, out: out}
	for _, o := range in.hashApps[kind] {
		// digests compared as whole words (the byte extracts re-fuse into the wide variable)
		wa, wb := out[0], o.out[0]
		for i := 1; i < len(out) && i < len(o.out); i++ {
			wa, wb = ts.Concat(wa, out[i]), ts.Concat(wb, o.out[i])
		}
		outEq := ts.Eq(wa, wb)
		if len(o.input) != len(input) {
			in.assume(ts.Not(outEq))
			continue
		}
		in.assume(ts.Eq(fusedBytesEq(ts, input, o.input), outEq))
	}
	in.hashApps[kind] = append(in.hashApps[kind], app)
	return out
}

// fusedBytesEq is the conjunction a[i] == b[i], with runs of bytes that are
// adjacent extracts of one term (a digest fed into another digest) or
// constants compared as one word: the equality of two embedded digests is then
// the same atom as the one collision-freedom speaks about.
func fusedBytesEq(ts *TermStore, a, b []*Term) *Term {
	if len(a) == 0 {
		return ts.True
	}
	fused := func(t *Term) bool { return t.op != OpConcat && t.op != OpZExt }
	eq := ts.True
	ca, cb := a[0], b[0]
	for i := 1; i < len(a); i++ {
		na, nb := ts.Concat(ca, a[i]), ts.Concat(cb, b[i])
		if fused(na) && fused(nb) {
			ca, cb = na, nb
			continue
		}
		eq = ts.And(eq, ts.Eq(ca, cb))
		ca, cb = a[i], b[i]
	}
	return ts.And(eq, ts.Eq(ca, cb))
}

// verifHash(kind string, data []byte, n int) []byte : UF digest of n bytes
func verifHash(in *Interp, fn *ssa.Function, a []Value) Value {
	kind := strArg(a[0])
	data := in.bytesOf(a[1].(*SliceV), "hash input length")
	n, _ := constInt(a[2].(*Term))
	return in.newByteSlice(in.hashUF(kind, data, n), "digest")
}

// ---------------------------------------------------------------------------
// sync helpers

// pool=reuse (obligation option): a sync.Pool hands back the object that was Put last
// (one possible behaviour of the real pool, and the usual one on a single goroutine), so that
// a use of pooled memory after its release becomes visible. Default: Get always calls New.
func poolKey(p *PtrV) string { return fmt.Sprintf("%p/%v", p.obj, p.path) }

func syncPoolPut(in *Interp, fn *ssa.Function, a []Value) Value {
	if in.ob != nil && in.ob.PoolReuse {
		p := a[0].(*PtrV)
		if in.poolFree == nil {
			in.poolFree = map[string][]Value{}
		}
		k := poolKey(p)
		in.poolFree[k] = append(in.poolFree[k], a[1])
	}
	return nil
}

func syncPoolGet(in *Interp, fn *ssa.Function, a []Value) Value {
	p := a[0].(*PtrV)
	if in.ob != nil && in.ob.PoolReuse {
		k := poolKey(p)
		if l := in.poolFree[k]; len(l) > 0 {
			v := l[len(l)-1]
			in.poolFree[k] = l[:len(l)-1]
			return v
		}
	}
	pool := in.load(p).(*StructV)
	// field "New" is the last field
	st := p.obj.typ
	if len(p.path) > 0 {
		st = fn.Signature.Recv().Type().(*types.Pointer).Elem()
	}
	s := st.Underlying().(*types.Struct)
	for i := 0; i < s.NumFields(); i++ {
		if s.Field(i).Name() == "New" {
			f := pool.f[i].(*FuncV)
			if f.fn == nil && f.native == nil {
				return &IfaceV{}
			}
			return in.callValue(f, nil)
		}
	}
	return &IfaceV{}
}

func syncOnceDo(in *Interp, fn *ssa.Function, a []Value) Value {
	p := a[0].(*PtrV)
	key := fmt.Sprintf("once:%d:%v", p.obj.id, p.path)
	if in.reached[key] {
		return nil
	}
	in.reached[key] = true
	in.callValue(a[1], nil)
	return nil
}

func atomicLoad(in *Interp, fn *ssa.Function, a []Value) Value { return in.load(a[0].(*PtrV)) }
func atomicStore(in *Interp, fn *ssa.Function, a []Value) Value {
	in.store(a[0].(*PtrV), a[1])
	return nil
}
func atomicAdd(in *Interp, fn *ssa.Function, a []Value) Value {
	p := a[0].(*PtrV)
	n := in.ts.Add(in.load(p).(*Term), a[1].(*Term))
	in.store(p, n)
	return n
}
func atomicCAS(in *Interp, fn *ssa.Function, a []Value) Value {
	p := a[0].(*PtrV)
	cur := in.load(p).(*Term)
	if in.branch(in.ts.Eq(cur, a[1].(*Term))) {
		in.store(p, a[2])
		return in.ts.True
	}
	return in.ts.False
}

// ---------------------------------------------------------------------------
// bytes helpers

func (in *Interp) byteSeq(v Value, what string) []*Term {
	switch s := v.(type) {
	case *SliceV:
		return in.bytesOf(s, what)
	case *StrV:
		if s.opaque {
			panic(in.unsupported("opaque string in " + what))
		}
		return s.b
	}
	panic(in.unsupported("byteSeq of " + fmt.Sprintf("%T", v)))
}

func bytesCompare(in *Interp, fn *ssa.Function, a []Value) Value {
	ts := in.ts
	x := in.byteSeq(a[0], "bytes.Compare")
	y := in.byteSeq(a[1], "bytes.Compare")
	lt := in.strLess(&StrV{b: x}, &StrV{b: y}, false)
	eq := in.strEq(&StrV{b: x}, &StrV{b: y})
	return ts.Ite(eq, ts.ConstU(64, 0), ts.Ite(lt, ts.ConstI(64, -1), ts.ConstU(64, 1)))
}

func indexByte(in *Interp, fn *ssa.Function, a []Value) Value {
	ts := in.ts
	x := in.byteSeq(a[0], "IndexByte")
	c := a[1].(*Term)
	r := ts.ConstI(64, -1)
	for i := len(x) - 1; i >= 0; i-- {
		r = ts.Ite(ts.Eq(x[i], c), ts.ConstU(64, uint64(i)), r)
	}
	return r
}

// ---------------------------------------------------------------------------
// formatting

func fmtOpaque(in *Interp, fn *ssa.Function, a []Value) Value {
	// all-constant Sprintf with %d/%s/%x of constants is executed natively
	if s, ok := in.tryNativeSprintf(fn, a); ok {
		return in.mkStr(s)
	}
	return &StrV{opaque: true, tag: fn.Name()}
}

func fmtDiscard(in *Interp, fn *ssa.Function, a []Value) Value { return in.zeroResults(fn) }

func (in *Interp) tryNativeSprintf(fn *ssa.Function, a []Value) (string, bool) {
	if fn.String() != "fmt.Sprintf" {
		return "", false
	}
	f, ok := a[0].(*StrV)
	if !ok || f.opaque {
		return "", false
	}
	for _, b := range f.b {
		if !b.IsConst() {
			return "", false
		}
	}
	format := strArg(f)
	sl := a[1].(*SliceV)
	var args []interface{}
	if sl.obj != nil {
		n, ok := constInt(sl.len)
		if !ok {
			return "", false
		}
		for i := 0; i < n; i++ {
			iv := in.sliceElem(sl, in.ts.ConstU(64, uint64(i))).(*IfaceV)
			if iv.typ == nil {
				args = append(args, nil)
				continue
			}
			switch v := iv.v.(type) {
			case *Term:
				if !v.IsConst() {
					return "", false
				}
				if v.W == 0 {
					args = append(args, v.IsTrue())
				} else if isSigned(iv.typ) {
					args = append(args, v.Int64())
				} else {
					if b, ok := iv.typ.Underlying().(*types.Basic); ok && b.Kind() == types.Uint8 {
						args = append(args, uint8(v.Uint64()))
					} else {
						args = append(args, v.Uint64())
					}
				}
			case *StrV:
				if v.opaque {
					return "", false
				}
				for _, b := range v.b {
					if !b.IsConst() {
						return "", false
					}
				}
				args = append(args, strArg(v))
			default:
				return "", false
			}
		}
	}
	return fmt.Sprintf(format, args...), true
}

func (in *Interp) opaqueError(tag string) Value {
	ep := in.prog.ImportedPackage("errors")
	if ep == nil {
		panic(in.unsupported("package errors not loaded"))
	}
	et := ep.Type("errorString").Type()
	st := &StructV{f: []Value{&StrV{opaque: true, tag: tag}}}
	o := in.newObject(st, et, "error")
	return &IfaceV{typ: types.NewPointer(et), v: &PtrV{obj: o}}
}

func fmtErrorf(in *Interp, fn *ssa.Function, a []Value) Value {
	return in.opaqueError("fmt.Errorf")
}

var _ = big.NewInt

// nondetS: a nondeterministic value of a signed type (hint for Int mode)
func (in *Interp) nondetS(name string, w int) *Term {
	full := in.nondetName(name)
	in.ts.signedVar[full] = true
	return in.nondetVar(full, w)
}

// strings.Join: concatenation when the element count is concrete and no
// element is opaque, otherwise an opaque string (formatting is never the subject)
func stringsJoin(in *Interp, fn *ssa.Function, a []Value) Value {
	sl := a[0].(*SliceV)
	sep, _ := a[1].(*StrV)
	if sl.obj == nil {
		return in.mkStr("")
	}
	n, ok := constInt(sl.len)
	if !ok || sep == nil || sep.opaque {
		return &StrV{opaque: true, tag: "Join"}
	}
	var out []*Term
	for i := 0; i < n; i++ {
		e, ok := in.sliceElem(sl, in.ts.ConstU(64, uint64(i))).(*StrV)
		if !ok || e.opaque {
			return &StrV{opaque: true, tag: "Join"}
		}
		if i > 0 {
			out = append(out, sep.b...)
		}
		out = append(out, e.b...)
	}
	return &StrV{b: out}
}
