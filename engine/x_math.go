package main

// Concrete floating-point helpers of package math (floats are concrete host
// IEEE-754 values in the engine): evaluated with the host's math package.

import (
	"math"

	"golang.org/x/tools/go/ssa"
)

func init() {
	f1 := func(g func(float64) float64) intrinsicFn {
		return func(in *Interp, fn *ssa.Function, a []Value) Value { return in.fl(g(a[0].(FloatV).f), 64) }
	}
	f2 := func(g func(float64, float64) float64) intrinsicFn {
		return func(in *Interp, fn *ssa.Function, a []Value) Value {
			return in.fl(g(a[0].(FloatV).f, a[1].(FloatV).f), 64)
		}
	}
	intrinsics["math.Exp2"] = f1(math.Exp2)
	intrinsics["math.Floor"] = f1(math.Floor)
	intrinsics["math.Ceil"] = f1(math.Ceil)
	intrinsics["math.Trunc"] = f1(math.Trunc)
	intrinsics["math.Round"] = f1(math.Round)
	intrinsics["math.Sqrt"] = f1(math.Sqrt)
	intrinsics["math.Log"] = f1(math.Log)
	intrinsics["math.Abs"] = f1(math.Abs)
	intrinsics["math.Pow"] = f2(math.Pow)
	intrinsics["math.Mod"] = f2(math.Mod)
}
