package main

import (
	"encoding/json"
	"os"
	"path/filepath"
)

// known_findings.json: committed, never written at run time.
type KnownFinding struct {
	ID          string   `json:"id"`
	Property    string   `json:"property"`
	Status      string   `json:"status"` // "open" | "fixed"
	Labels      []string `json:"labels"` // assert labels / "panic" / "alloc-bound" this finding explains
	Site        string   `json:"site"`
	What        string   `json:"what"`
	FixedCommit string   `json:"fixed_commit,omitempty"`
}

type KnownFindings struct {
	Findings []KnownFinding `json:"findings"`
}

func loadKnown() *KnownFindings {
	k := &KnownFindings{}
	b, err := os.ReadFile(filepath.Join(verifRoot, "known_findings.json"))
	if err != nil {
		return k
	}
	json.Unmarshal(b, k)
	return k
}

func (k *KnownFindings) get(id string) *KnownFinding {
	for i := range k.Findings {
		if k.Findings[i].ID == id {
			return &k.Findings[i]
		}
	}
	return nil
}

func (k *KnownFindings) active(id, property, label string) bool {
	f := k.get(id)
	if f == nil || f.Status != "open" || f.Property != property {
		return false
	}
	for _, l := range f.Labels {
		if l == label || l == "*" {
			return true
		}
	}
	return false
}
