package segwit

// C09: instruction parsing tiles the program, PushDataBytes round-trips
// through ParseOp, recognisers agree with the program builders.

//verif:property C09
//verif:bound (i) arbitrary program of <= 10 bytes (quick) / 14 (thorough) and arbitrary 32-bit pc for the one-instruction tiling lemma; whole-program ParseProgram cross-check for <= 5 / 7 bytes
//verif:bound (ii) PushDataBytes round trip for every length 0..80 (symbolic) and exactly 255, 256, 257 bytes
//verif:bound (iii) builders -> recognisers for all 20/32-byte hashes and contracts of 1..80, 255 and 256 bytes; converse (recogniser => canonical form) on programs [<=2 arbitrary bytes][arbitrary opcode byte][k zero bytes], k in 19..21 and 31..33 (quick), 0..40 (thorough)
//verif:outside Assemble/Disassemble (text processing over symbolic strings: strconv, bufio, fmt verbs); only the byte-level half of the property is claimed
//verif:outside PUSHDATA4-sized data (>= 65536 bytes) in the round trip
//verif:obligation fn=VerifC09ParseOpStep args=10 validate=40
//verif:obligation fn=VerifC09ParseOpStep args=14 tier=thorough secs=2400
//verif:obligation fn=VerifC09ParseProgram args=5 loops=200 validate=20
//verif:obligation fn=VerifC09ParseProgram args=7 loops=200 tier=thorough secs=2400
//verif:obligation fn=VerifC09PushDataRoundTrip args=80,0 validate=20
//verif:obligation fn=VerifC09PushDataRoundTrip args=0,255;0,256;0,257 split=300 validate=4
//verif:obligation fn=VerifC09Builders args=0;1;2;3;4;5 split=300 validate=6
//verif:obligation fn=VerifC09Converse args=2,19,21;2,31,33 loops=3000 validate=20
//verif:obligation fn=VerifC09Converse args=2,0,18;2,22,30;2,34,40;3,19,21;3,31,33 loops=4000 tier=thorough secs=2400
//verif:bound registration converse: the fixed registration prefix (FAIL, "bcrp", version) followed by <= 5 arbitrary bytes (one push of any form, truncated pushes, extra instructions)
//verif:obligation fn=VerifC09BCRPConverse args=4;5 validate=12

import (
	"bytes"

	"github.com/bytom/bytom/consensus/bcrp"
	"github.com/bytom/bytom/protocol/vm"
	"github.com/bytom/bytom/protocol/vm/vmutil"
)

// prefix length (opcode + length bytes) of the instruction class of op
func verifC09Prefix(op vm.Op) uint32 {
	switch {
	case op >= vm.OP_DATA_1 && op <= vm.OP_DATA_75:
		return 1
	case op == vm.OP_PUSHDATA1:
		return 2
	case op == vm.OP_PUSHDATA2:
		return 3
	case op == vm.OP_PUSHDATA4:
		return 5
	case op == vm.OP_JUMP || op == vm.OP_JUMPIF:
		return 1
	}
	return 1
}

// (i) one-instruction tiling lemma at an arbitrary pc
func VerifC09ParseOpStep(maxLen int) {
	prog := verifBytes("prog", maxLen)
	pc := verifU32("pc")
	inst, err := vm.ParseOp(prog, pc)
	verifObserveBool("err", err != nil)
	verifObserveU64("len", uint64(inst.Len))
	if err != nil {
		verifReach("VerifC09ParseOpStep:error")
		return
	}
	l := uint64(len(prog))
	verifAssert(uint64(pc) < l, "pc-inside-program")
	verifAssert(inst.Len >= 1, "instruction-length-positive")
	end := uint64(pc) + uint64(inst.Len)
	verifAssert(end <= l, "instruction-inside-program")
	op := vm.Op(prog[pc])
	verifAssert(inst.Op == op, "opcode-is-byte-at-pc")
	if op >= vm.OP_1 && op <= vm.OP_16 {
		verifAssert(inst.Len == 1 && len(inst.Data) == 1 && inst.Data[0] == uint8(op-vm.OP_1)+1, "small-int-data")
		verifReach("VerifC09ParseOpStep:smallint")
		return
	}
	pre := verifC09Prefix(op)
	isPush := (op >= vm.OP_DATA_1 && op <= vm.OP_PUSHDATA4) || op == vm.OP_JUMP || op == vm.OP_JUMPIF
	if !isPush {
		verifAssert(inst.Len == 1 && len(inst.Data) == 0, "plain-op-has-no-data")
		verifReach("VerifC09ParseOpStep:plain")
		return
	}
	verifAssert(uint64(len(inst.Data)) == uint64(inst.Len)-uint64(pre), "data-length-is-len-minus-prefix")
	for i := range inst.Data {
		verifAssert(inst.Data[i] == prog[uint64(pc)+uint64(pre)+uint64(i)], "data-is-the-program-bytes")
	}
	// the declared length is what the prefix says
	switch {
	case op >= vm.OP_DATA_1 && op <= vm.OP_DATA_75:
		verifAssert(len(inst.Data) == int(op-vm.OP_DATA_1)+1, "declared-length")
	case op == vm.OP_PUSHDATA1:
		verifAssert(len(inst.Data) == int(prog[pc+1]), "declared-length")
	case op == vm.OP_PUSHDATA2:
		verifAssert(len(inst.Data) == int(prog[pc+1])|int(prog[pc+2])<<8, "declared-length")
	case op == vm.OP_JUMP || op == vm.OP_JUMPIF:
		verifAssert(len(inst.Data) == 4, "declared-length")
	}
	verifReach("VerifC09ParseOpStep:push")
}

// whole-program cross-check: instruction lengths tile the program exactly
func VerifC09ParseProgram(maxLen int) {
	prog := verifBytes("prog", maxLen)
	insts, err := vm.ParseProgram(prog)
	verifObserveBool("err", err != nil)
	verifObserveI64("n", int64(len(insts)))
	if err != nil {
		verifAssert(len(insts) == 0, "no-instructions-on-error")
		verifReach("VerifC09ParseProgram:error")
		return
	}
	off := uint64(0)
	for _, inst := range insts {
		verifAssert(inst.Len >= 1, "instruction-length-positive")
		verifAssert(off < uint64(len(prog)) && vm.Op(prog[off]) == inst.Op, "instruction-starts-where-previous-ended")
		off += uint64(inst.Len)
	}
	verifAssert(off == uint64(len(prog)), "lengths-tile-the-program")
	verifReach("VerifC09ParseProgram:ok")
}

// (ii) ParseOp(PushDataBytes(d), 0) gives back d and the full length
func VerifC09PushDataRoundTrip(maxLen int, exact int) {
	var d []byte
	if exact > 0 {
		d = verifBytesN("d", exact)
	} else {
		d = verifBytes("d", maxLen)
	}
	p := vm.PushDataBytes(d)
	inst, err := vm.ParseOp(p, 0)
	verifAssert(err == nil, "parses")
	verifAssert(uint64(inst.Len) == uint64(len(p)), "covers-the-whole-encoding")
	verifAssert(bytes.Equal(inst.Data, d), "data-round-trips")
	verifObserveU64("len", uint64(inst.Len))
	insts, err := vm.ParseProgram(p)
	verifAssert(err == nil && len(insts) == 1, "single-instruction")
	verifReach("VerifC09PushDataRoundTrip:end")
}

func verifC09Kinds(p []byte) (n int, pkh, sh, straight, reg, call bool) {
	pkh = IsP2WPKHScript(p)
	sh = IsP2WSHScript(p)
	straight = IsStraightforward(p)
	reg = bcrp.IsBCRPScript(p)
	call = bcrp.IsCallContractScript(p)
	for _, b := range []bool{pkh, sh, straight, reg, call} {
		if b {
			n++
		}
	}
	return
}

// (iii) builders are recognised, by exactly one recogniser, and the payload is extracted
func VerifC09Builders(which int) {
	switch which {
	case 0:
		h := verifBytesN("h", 20)
		p, err := vmutil.P2WPKHProgram(h)
		verifAssert(err == nil, "builds")
		n, pkh, _, _, _, _ := verifC09Kinds(p)
		verifAssert(pkh && n == 1, "recognised-as-p2wpkh-only")
		verifAssert(IsP2WScript(p), "is-p2w")
		got, err := GetHashFromStandardProg(p)
		verifAssert(err == nil && bytes.Equal(got, h), "hash-extracted")
		verifObserveBytes("prog", p)
	case 1:
		h := verifBytesN("h", 32)
		p, err := vmutil.P2WSHProgram(h)
		verifAssert(err == nil, "builds")
		n, _, sh, _, _, _ := verifC09Kinds(p)
		verifAssert(sh && n == 1, "recognised-as-p2wsh-only")
		verifAssert(IsP2WScript(p), "is-p2w")
		got, err := GetHashFromStandardProg(p)
		verifAssert(err == nil && bytes.Equal(got, h), "hash-extracted")
		verifObserveBytes("prog", p)
	case 2:
		h := verifBytesN("h", 32)
		p, err := vmutil.CallContractProgram(h)
		verifAssert(err == nil, "builds")
		n, _, _, _, _, call := verifC09Kinds(p)
		verifAssert(call && n == 1, "recognised-as-call-contract-only")
		got, err := bcrp.ParseContractHash(p)
		verifAssert(err == nil && bytes.Equal(got[:], h), "hash-extracted")
		verifObserveBytes("prog", p)
	case 3, 4, 5:
		var c []byte
		switch which {
		case 3:
			c = verifBytes("contract", 80)
			verifAssume(len(c) >= 1)
		case 4:
			c = verifBytesN("contract", 255)
		case 5:
			c = verifBytesN("contract", 256)
		}
		p, err := vmutil.RegisterProgram(c)
		verifAssert(err == nil, "builds")
		n, _, _, _, reg, _ := verifC09Kinds(p)
		verifAssert(reg && n == 1, "recognised-as-register-only")
		got, err := bcrp.ParseContract(p)
		verifAssert(err == nil && bytes.Equal(got, c), "contract-extracted")
		verifObserveI64("proglen", int64(len(p)))
	}
	verifReach("VerifC09Builders:end")
}

// converse: whatever a recogniser accepts is exactly what the builder produces
// for the extracted payload, and at most one recogniser accepts
func VerifC09Converse(maxHead int, kLo int, kHi int) {
	head := verifBytes("head", maxHead)
	op := verifU8("op")
	k := verifInt("k")
	verifAssume(k >= kLo && k <= kHi)
	p := append([]byte{}, head...)
	p = append(p, op)
	p = append(p, make([]byte, k)...)
	n, pkh, sh, _, reg, call := verifC09Kinds(p)
	verifObserveI64("n", int64(n))
	verifAssert(n <= 1, "recognisers-mutually-exclusive")
	if pkh {
		h, err := GetHashFromStandardProg(p)
		verifAssert(err == nil && len(h) == 20, "p2wpkh-hash-length")
		q, _ := vmutil.P2WPKHProgram(h)
		verifAssert(bytes.Equal(p, q), "p2wpkh-canonical")
		verifReach("VerifC09Converse:pkh")
	}
	if sh {
		h, err := GetHashFromStandardProg(p)
		verifAssert(err == nil && len(h) == 32, "p2wsh-hash-length")
		q, _ := vmutil.P2WSHProgram(h)
		verifAssert(bytes.Equal(p, q), "p2wsh-canonical")
		verifReach("VerifC09Converse:sh")
	}
	if call {
		h, err := bcrp.ParseContractHash(p)
		verifAssert(err == nil, "call-hash-parses")
		q, _ := vmutil.CallContractProgram(h[:])
		verifAssert(bytes.Equal(p, q), "call-canonical")
	}
	if reg {
		c, err := bcrp.ParseContract(p)
		verifAssert(err == nil && len(c) > 0, "register-contract-parses")
		q, _ := vmutil.RegisterProgram(c)
		verifAssert(bytes.Equal(p, q), "register-canonical")
	}
	verifReach("VerifC09Converse:end")
}

// Registration programs, converse direction on the real prefix: whatever
// IsBCRPScript accepts, ParseContract parses (recogniser and parser agree), and
// the builder's program for the extracted contract is recognised and yields the
// same contract again.
func VerifC09BCRPConverse(maxBody int) {
	p := []byte{byte(vm.OP_FAIL), byte(vm.OP_DATA_4), 'b', 'c', 'r', 'p', byte(vm.OP_DATA_1), 1}
	p = append(p, verifBytes("body", maxBody)...)
	is := bcrp.IsBCRPScript(p)
	verifObserveBool("is", is)
	if is {
		c, err := bcrp.ParseContract(p)
		verifAssert(err == nil && len(c) > 0, "register-recogniser-and-parser-agree")
		if err == nil && len(c) > 0 {
			q, err := vmutil.RegisterProgram(c)
			verifAssert(err == nil && bcrp.IsBCRPScript(q), "register-builder-output-recognised")
			c2, err := bcrp.ParseContract(q)
			verifAssert(err == nil && bytes.Equal(c, c2), "register-builder-round-trips-the-contract")
		}
		verifReach("VerifC09BCRPConverse:accepted")
	}
	verifReach("VerifC09BCRPConverse:end")
}
