package dht

// C34: routing-table invariants. The real Table.add / stuff / delete /
// deleteReplace / deleteFromReplacement and bucket.addFront / bump run
//  (a) one step from an arbitrary state of one bucket (VerifC34Step), and
//  (b) as histories of real operations from an empty table (VerifC34History).

//verif:property C34
//verif:bound one step (VerifC34Step): bucket 24 with exactly k entries and 0..r replacements: (k,r) = (0..3, 2), (8, 1) and (15..16, 1) in quick; thorough adds (4..14, 1), (2, 3), one further entry in bucket 23; the operation is add, stuff (list of 1..2 nodes for k <= 3, one node otherwise), delete, deleteReplace or bump with an arbitrary node: any id (two arbitrary id bytes: equal to an entry, to a replacement, to both, or fresh), hashing into the same bucket, into bucket 23, or the local node itself
//verif:bound histories (VerifC34History): empty table, add x16 (bucket full), add of a 17th node, then every sequence of 3 operations from {add, stuff, delete, deleteReplace} x {17th node, first filler, last filler}
//verif:assume the node hash (SHA-256 of the id, cached in Node.sha) is an injective function of the id: the harness builds ids whose bytes 0,1 are arbitrary and byte 2 selects the bucket, and sets sha = (0.., id[2], id[0], id[1]); local node id and hash are all-zero; two Node objects with the same id therefore carry the same hash
//verif:assume pre-state of VerifC34Step: entries have pairwise distinct ids (entry i has id byte 0 = i+1, byte 1 arbitrary), replacements have pairwise distinct ids, and no id is in both lists (every operation keeps them disjoint since the fix of KF-C34-REPLACEMENT-OVERLAP; histories that would create an overlap are covered by VerifC34History from real operations only). Every such state is reachable: add the entries and fillers up to 16, add the replacement nodes (bucket full, so they go to the replacement list), delete the fillers; any entry order is reachable by bumping
//verif:outside closest / nodesByDistance.push, readRandomNodes, chooseBucketRefreshTarget (not part of the invariant), more than two buckets, the Network state machine that calls these operations
//verif:assume package initialisation: the two var initialisers of udp.go that size packets through go-wire's reflection encoder and the regexp compilation in node.go are cut for the solver (wire.WriteJSON and regexp.MustCompile stubs); none of them is read by the table code
//verif:override github.com/tendermint/go-wire.WriteJSON -> verifC34WriteJSON
//verif:override regexp.MustCompile -> verifC34MustCompile
//verif:obligation fn=VerifC34Step args=0,2,1;1,2,1;2,2,1;3,2,1 validate=10 secs=3000
//verif:obligation fn=VerifC34Step args=8,1,0;15,1,0;16,1,0 validate=10 secs=3000
//verif:obligation fn=VerifC34Step args=4,1,0;5,1,0;6,1,0;7,1,0;8,1,0;9,1,0;10,1,0;11,1,0;12,1,0;13,1,0;14,1,0;2,3,1 tier=thorough paths=4000000 secs=3000
//verif:obligation fn=VerifC34History args=3 loops=400000 validate=10 secs=3000

import (
	"io"
	"regexp"

	"github.com/bytom/bytom/common"
)

func verifC34WriteJSON(o interface{}, w io.Writer, n *int, err *error) { *n = 4096 }

func verifC34MustCompile(str string) *regexp.Regexp { return nil }

const (
	verifC34Here  = 0x90 // bucket 24
	verifC34There = 0x50 // bucket 23
)

func verifC34Node(a, b, sel byte) *Node {
	n := &Node{}
	n.ID[0], n.ID[1], n.ID[2] = a, b, sel
	n.sha[29], n.sha[30], n.sha[31] = sel, a, b
	return n
}

func verifC34Table() *Table {
	tab := &Table{self: &Node{}}
	for i := range tab.buckets {
		tab.buckets[i] = new(bucket)
	}
	return tab
}

// verifC34Inv asserts the invariant of the property statement on the whole table.
func verifC34Inv(tab *Table) {
	total := 0
	for d, b := range &tab.buckets {
		if len(b.entries) == 0 {
			continue
		}
		total += len(b.entries)
		verifAssert(len(b.entries) <= bucketSize, "at-most-sixteen-entries")
		for i, e := range b.entries {
			verifAssert(e != nil, "entry-not-nil")
			verifAssert(e.ID != tab.self.ID, "self-absent")
			verifAssert(logdist(tab.self.sha, e.sha) == d, "entry-at-bucket-distance")
			for j := 0; j < i; j++ {
				verifAssert(b.entries[j].ID != e.ID, "entries-distinct")
			}
		}
	}
	verifAssert(tab.count == total, "count-equals-entries")
}

func verifC34Overlap(b *bucket) bool {
	for _, r := range b.replacements {
		for _, e := range b.entries {
			if r != nil && e.ID == r.ID {
				return true
			}
		}
	}
	return false
}

// an arbitrary node: same bucket, the other bucket, or the local node
func verifC34Arg(tab *Table, name string) (*Node, int) {
	switch verifChoice(name+".where", 3) {
	case 0:
		return verifC34Node(verifU8(name+".a"), verifU8(name+".b"), verifC34Here), 24
	case 1:
		return verifC34Node(verifU8(name+".a"), verifU8(name+".b"), verifC34There), 23
	}
	return &Node{ID: tab.self.ID}, 0
}

func VerifC34Step(k int, maxRepl int, twoStuff int) {
	tab := verifC34Table()
	b := tab.buckets[24]
	for i := 0; i < k; i++ {
		b.entries = append(b.entries, verifC34Node(byte(i+1), verifU8("entry.b"), verifC34Here))
	}
	other := verifC34Node(0x77, verifU8("other.b"), verifC34There)
	tab.buckets[23].entries = []*Node{other}
	tab.count = k + 1

	nr := verifChoice("nrepl", maxRepl+1)
	for j := 0; j < nr; j++ {
		r := verifC34Node(verifU8("repl.a"), verifU8("repl.b"), verifC34Here)
		for _, q := range b.replacements {
			verifAssume(q.ID != r.ID)
		}
		b.replacements = append(b.replacements, r)
	}
	overlap := verifC34Overlap(b)
	verifObserveBool("overlap", overlap)
	// since the fix recorded as KF-C34-REPLACEMENT-OVERLAP no operation leaves an id both
	// among the entries and in the replacement list (add/stuff take it out of the list,
	// deleteReplace moves it): disjointness is part of the reachable-state invariant. A
	// regression of that fix is caught by VerifC34History, which only uses real operations.
	verifAssume(!overlap)

	n, _ := verifC34Arg(tab, "n")
	switch verifChoice("op", 5) {
	case 0:
		tab.add(n)
		verifReach("VerifC34Step:add")
	case 1:
		nodes := []*Node{n}
		if twoStuff != 0 && verifBool("stuff.two") {
			n2, _ := verifC34Arg(tab, "n2")
			nodes = append(nodes, n2)
		}
		tab.stuff(nodes)
		verifReach("VerifC34Step:stuff")
	case 2:
		tab.delete(n)
		verifReach("VerifC34Step:delete")
	case 3:
		tab.deleteReplace(n)
		verifReach("VerifC34Step:deleteReplace")
	case 4:
		// bump is only called by add, on the bucket the node hashes into
		tab.buckets[logdist(tab.self.sha, n.sha)].bump(n)
		verifReach("VerifC34Step:bump")
	}
	verifObserveI64("count", int64(tab.count))
	verifObserveI64("len", int64(len(b.entries)))
	verifC34Inv(tab)
}

func VerifC34History(steps int) {
	tab := verifC34Table()
	var fill []*Node
	for i := 0; i < bucketSize; i++ {
		f := verifC34Node(byte(i+1), 0, verifC34Here)
		fill = append(fill, f)
		tab.add(f)
	}
	x := verifC34Node(0x40, 0, verifC34Here)
	tab.add(x)
	verifC34Inv(tab)
	b := tab.buckets[24]
	for s := 0; s < steps; s++ {
		var n *Node
		switch verifChoice("node", 3) {
		case 0:
			n = x
		case 1:
			n = fill[0]
		case 2:
			n = fill[bucketSize-1]
		}
		verifKnown("KF-C34-REPLACEMENT-OVERLAP", verifC34Overlap(b))
		switch verifChoice("op", 4) {
		case 0:
			tab.add(n)
		case 1:
			tab.stuff([]*Node{n})
		case 2:
			tab.delete(n)
		case 3:
			tab.deleteReplace(n)
		}
		verifObserveI64("len", int64(len(b.entries)))
		verifC34Inv(tab)
	}
	verifReach("VerifC34History:end")
}

var _ = common.Hash{}
