package connection

// C32: byte stream over an established SecretConnection pair.  The real
// SecretConnection.Write / Read / incr2Nonce / io.ReadFull / encoding/binary
// run over an in-memory transport; only secretbox is replaced (for the solver)
// by an ideal authenticated box.

//verif:property C32
//verif:bound stream: two writes, first of symbolic length lo..hi, second of 0..1 bytes, arbitrary content; lengths 0..2, 1024, 1025, 1026 quick; 0..3, 1023..1026 and 2047..2050 thorough, so that 0, 1 or 2 frame boundaries are crossed inside one write; reader: two reads with buffer sizes from a window chosen per obligation (0..2 or 1022..1024 bytes), then reads with a 1100-byte buffer until the transport is exhausted; the transport hands out at most seg bytes per Read call (seg = unlimited or 700), so io.ReadFull needs several calls; nonces fixed at 5c ff .. ff fd so that the second frame's increment carries through 22 bytes (arbitrary nonces: see the nonce bound)
//verif:bound corruption: one write of symbolic length lo..hi ((0,2) and (1024,1026)), one sealed frame in transit (either one when there are two) is replaced by arbitrary different 1042 bytes: covers every single-byte and every multi-byte modification confined to one frame
//verif:bound nonce: incr2Nonce on an arbitrary 24-byte nonce equals +2 modulo 2^192 (big endian)
//verif:assume secretbox is an ideal authenticated box (INT-CTXT functionality): Seal(m, nonce, key) = 16 authenticator bytes || m and is recorded; Open(box, nonce, key) succeeds, returning the body, iff exactly this box was produced by Seal under the same key and nonce -- i.e. Open fails unless key, nonce and the whole box are intact (XSalsa20-Poly1305 forgery and confidentiality are not modelled); the native replay runs the real golang.org/x/crypto/nacl/secretbox
//verif:assume the transport is reliable and ordered (in-memory buffer standing for the TCP connection); it returns io.EOF when no byte is left
//verif:assume both ends start from the same shared secret and mirrored nonces, as MakeSecretConnection leaves them (genNonces)
//verif:outside the handshake MakeSecretConnection / shareEphPubKey / shareAuthSignature (goroutine pair via cmn.Parallel, curve25519, go-wire reflection): the clause "each side learns the key the other side authenticated with" is not decided
//verif:outside writes above 2050 bytes, more than two writes, concurrent Read/Write on one connection
//verif:override golang.org/x/crypto/nacl/secretbox.Seal -> verifC32Seal
//verif:override golang.org/x/crypto/nacl/secretbox.Open -> verifC32Open
//verif:obligation fn=VerifC32Stream args=0,2,0,0;0,2,700,0;1024,1024,0,0;1025,1025,0,0;1024,1024,700,1;1025,1025,0,1;1026,1026,700,0 loops=40000 validate=12
//verif:obligation fn=VerifC32Stream args=0,3,0,0;1023,1026,0,0;1023,1026,0,1;1023,1026,700,0;1023,1026,700,1;2047,2050,0,1;2047,2050,700,0 tier=thorough loops=40000 secs=1500
//verif:obligation fn=VerifC32Corrupt args=0,2;1024,1026 loops=40000 validate=12
//verif:obligation fn=VerifC32Nonce args=0 loops=200 validate=20

import (
	"bytes"
	"io"
)

// ---------------------------------------------------------------------------
// ideal secretbox (solver and concrete validation only; the replay uses the real one)

// Ideal functionality: Seal records what it produced, Open accepts a box only
// if exactly this box was produced under the same key and nonce.
type verifC32Sealed struct {
	key   [32]byte
	nonce [24]byte
	box   []byte
}

var verifC32Log []verifC32Sealed

func verifC32Seal(out, message []byte, nonce *[24]byte, key *[32]byte) []byte {
	start := len(out)
	out = append(out, make([]byte, 16)...) // authenticator (content irrelevant for the model)
	out = append(out, message...)
	verifC32Log = append(verifC32Log, verifC32Sealed{*key, *nonce, append([]byte{}, out[start:]...)})
	return out
}

func verifC32Open(out, box []byte, nonce *[24]byte, key *[32]byte) ([]byte, bool) {
	for _, e := range verifC32Log {
		if e.nonce == *nonce {
			if e.key == *key {
				if bytes.Equal(e.box, box) {
					return append(out, box[16:]...), true
				}
			}
		}
	}
	return nil, false
}

// ---------------------------------------------------------------------------
// transport

type verifC32Pipe struct {
	buf []byte
	rd  int
	seg int // at most seg bytes per Read (0: no limit)
}

func (p *verifC32Pipe) Write(b []byte) (int, error) {
	p.buf = append(p.buf, b...)
	return len(b), nil
}

func (p *verifC32Pipe) Read(b []byte) (int, error) {
	if p.rd >= len(p.buf) {
		return 0, io.EOF
	}
	if p.seg > 0 && len(b) > p.seg {
		b = b[:p.seg]
	}
	n := copy(b, p.buf[p.rd:])
	p.rd += n
	return n, nil
}

func (p *verifC32Pipe) Close() error { return nil }

func verifC32Pair(seg int) (snd, rcv *SecretConnection, pipe *verifC32Pipe) {
	pipe = &verifC32Pipe{seg: seg}
	var key1, key2 [32]byte
	copy(key1[:], verifBytesN("key", 32))
	key2 = key1
	var n1, n2, m1, m2 [24]byte
	for i := range n1 {
		n1[i] = 0xff
	}
	n1[0] = 0x5c
	n1[23] = 0xfd // second frame: fd -> ff -> 01 with a carry through bytes 22..1 into byte 0
	n2 = n1
	m1 = n1
	m1[0] = 0x5d // the other direction's nonce (not used by this one-way stream)
	m2 = m1
	snd = &SecretConnection{conn: pipe, sendNonce: &n1, recvNonce: &m1, shrSecret: &key1}
	rcv = &SecretConnection{conn: pipe, sendNonce: &m2, recvNonce: &n2, shrSecret: &key2}
	return
}

// ---------------------------------------------------------------------------

type verifC32Reader struct {
	rcv  *SecretConnection
	msg  []byte // everything the sender wrote, in order
	pos  int    // bytes the receiver was told about so far
	taken int   // bytes really taken out of the stream so far
	hit  bool   // some Read took bytes from a non-empty recvBuffer (region of KF-C32-READ-ZERO)
}

// one Read of the real connection with all per-read assertions; returns the error
func (r *verifC32Reader) read(buf []byte) error {
	before := len(r.rcv.recvBuffer)
	if before > 0 && len(buf) > 0 {
		r.hit = true
	}
	n, err := r.rcv.Read(buf)
	verifObserveI64("n", int64(n))
	verifObserveBool("err", err != nil)
	verifAssert(n >= 0 && n <= len(buf), "read-count-within-buffer")
	if err != nil {
		verifAssert(n == 0, "no-data-with-error")
		return err
	}
	// what really left the stream (independent of the count that is reported)
	if before > 0 {
		took := before - len(r.rcv.recvBuffer)
		verifAssert(took >= 0 && r.taken+took <= len(r.msg), "buffered-bytes-within-stream")
		verifAssert(bytes.Equal(buf[:took], r.msg[r.taken:r.taken+took]), "buffered-bytes-are-next-stream-bytes")
		r.taken += took
		verifReach("VerifC32Stream:buffered-read")
	} else {
		r.taken += n
	}
	verifKnown("KF-C32-READ-ZERO", r.hit)
	verifAssert(r.pos+n <= len(r.msg), "no-excess-or-duplicate-bytes")
	verifAssert(bytes.Equal(buf[:n], r.msg[r.pos:r.pos+n]), "reads-deliver-written-bytes-in-order")
	r.pos += n
	return nil
}

// VerifC32Stream: args lo,hi = window of the first write's length, seg =
// transport segment limit, win = 0: small read buffers, 1: read buffers around
// the frame payload size.
func VerifC32Stream(lo int, hi int, seg int, win int) {
	snd, rcv, _ := verifC32Pair(seg)

	w1 := verifBytes("w1", hi)
	verifAssume(len(w1) >= lo)
	w2 := verifBytes("w2", 1)
	msg := append(append(make([]byte, 0, hi+1), w1...), w2...)

	n1, err1 := snd.Write(w1)
	verifAssert(err1 == nil && n1 == len(w1), "write-reports-all-bytes")
	n2, err2 := snd.Write(w2)
	verifAssert(err2 == nil && n2 == len(w2), "write-reports-all-bytes")
	// caller's buffers are not retained/modified
	verifAssert(bytes.Equal(msg[:len(w1)], w1), "write-leaves-input-intact")

	r := &verifC32Reader{rcv: rcv, msg: msg}
	base := 0
	if win == 1 {
		base = dataMaxSize - 2
	}
	var err error
	for i := 0; i < 2 && err == nil; i++ {
		sz := verifInt("rsize")
		verifAssume(sz >= base && sz <= base+2)
		err = r.read(make([]byte, sz))
	}
	big := make([]byte, dataMaxSize+76)
	for i := 0; i < 7 && err == nil; i++ {
		err = r.read(big)
	}
	verifAssert(err != nil, "stream-ends-after-bounded-reads")
	verifKnown("KF-C32-READ-ZERO", r.hit)
	verifAssert(r.pos == len(msg), "no-loss")
	if len(w1) > dataMaxSize {
		verifReach("VerifC32Stream:write-crosses-frame")
	}
	verifReach("VerifC32Stream:end")
}

// VerifC32Corrupt: one sealed frame is modified in transit (replaced by any other 1042 bytes).
func VerifC32Corrupt(lo int, hi int) {
	snd, rcv, pipe := verifC32Pair(0)
	w1 := verifBytes("w1", hi)
	verifAssume(len(w1) >= lo)
	msg := append(make([]byte, 0, hi), w1...)
	n1, err1 := snd.Write(w1)
	verifAssert(err1 == nil && n1 == len(w1), "write-reports-all-bytes")

	nFrames := len(pipe.buf) / sealedFrameSize
	if nFrames == 0 {
		return // nothing was sent (empty write)
	}
	badFrame := verifChoice("flip.frame", nFrames)
	repl := verifBytesN("flip.frame.bytes", sealedFrameSize)
	orig := append([]byte{}, pipe.buf[badFrame*sealedFrameSize:(badFrame+1)*sealedFrameSize]...)
	verifAssume(!bytes.Equal(orig, repl)) // at least one bit of that frame differs
	copy(pipe.buf[badFrame*sealedFrameSize:], repl)

	big := make([]byte, dataMaxSize+76)
	pos := 0
	frame := 0
	var err error
	for i := 0; i < 4; i++ {
		var n int
		n, err = rcv.Read(big)
		verifObserveI64("n", int64(n))
		verifObserveBool("err", err != nil)
		if err != nil {
			verifAssert(n == 0, "no-data-with-error")
			break
		}
		// frames before the modified one arrive intact, the modified one never does
		verifAssert(frame < badFrame, "modified-frame-rejected")
		verifAssert(pos+n <= len(msg) && bytes.Equal(big[:n], msg[pos:pos+n]), "reads-deliver-written-bytes-in-order")
		pos += n
		frame++
	}
	verifAssert(err != nil, "modified-frame-rejected")
	verifAssert(frame == badFrame, "error-exactly-at-modified-frame")
	if badFrame > 0 {
		verifReach("VerifC32Corrupt:second-frame")
	}
	verifReach("VerifC32Corrupt:end")
}

// VerifC32Nonce: incr2Nonce is +2 on the 192-bit big-endian counter, with wraparound.
func VerifC32Nonce(_ int) {
	var old, cur, ref [24]byte
	copy(old[:], verifBytesN("nonce", 24))
	cur = old
	incr2Nonce(&cur)
	carry := uint16(2)
	for i := 23; i >= 0; i-- {
		s := uint16(old[i]) + carry
		ref[i] = byte(s)
		carry = s >> 8
	}
	verifObserveBytes("cur", cur[:])
	verifAssert(cur == ref, "nonce-advances-by-two")
	verifAssert(cur != old, "nonce-never-repeats-immediately")
	if old[23] >= 0xfe {
		verifReach("VerifC32Nonce:carry")
	}
	verifReach("VerifC32Nonce:end")
}
