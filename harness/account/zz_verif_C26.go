package account

// C26: UTXO reservations. The real utxoKeeper.Reserve / ReserveParticular /
// Cancel / cancel / expireReservation / findUtxos / findUtxo / optUTXOs /
// AddUnconfirmedUtxo run sequentially over a slice-backed dbm.DB; the oracle
// is the list of reservations handed out so far, kept by the harness.

//verif:property C26
//verif:bound UTXO sets: nConf confirmed + nUnc unconfirmed records with (nConf,nUnc) in {(1,0),(2,0),(1,1),(2,1)} (quick and thorough); every unconfirmed record is either a fresh output or the same output as one of the confirmed records (the state between attaching a block and processing the pool removal); amounts arbitrary below 2^40, valid heights and the current height arbitrary uint64
//verif:bound request: account, asset and vote of the records vary in one field per obligation (quick: vary = 0 account / 1 asset / 2 vote, the other two fields equal to the request) or in all three (thorough: vary = 3 with one confirmed and one unconfirmed record); amount arbitrary below 2^42, useUnconfirmed arbitrary
//verif:bound histories: VerifC26Reserve = up to nEarlier (quick 0..1; thorough 2 for one confirmed + one unconfirmed record) earlier ReserveParticular calls on arbitrary outputs, then optionally Cancel(arbitrary id) or expireReservation(arbitrary instant), then Reserve; VerifC26Particular = an earlier Reserve, then optionally Cancel / expireReservation, then ReserveParticular of an arbitrary (existing or unknown) output
//verif:bound selection over three or four matching outputs (VerifC26Select): 3 (quick) / 4 (thorough) confirmed records that all match the request and are mature, amounts arbitrary below 2^40; one earlier ReserveParticular of an arbitrary one of them (or of an unknown output = no earlier reservation); then Reserve with an arbitrary amount below 2^42: the replacement loop of optUTXOs (largest chosen output swapped for several smaller ones) runs over reserved and unreserved candidates in every order of amounts
//verif:bound pool confirmation histories (VerifC26Confirm): attempt A (ReserveParticular of an arbitrary output, or Reserve when kind = 1); then one of: nothing / the pool transaction of an arbitrary unconfirmed output is confirmed (its record is written to the database unless already there, and RemoveUnconfirmedUtxo is called for it) / AddUnconfirmedUtxo of a fresh output; then attempt B (ReserveParticular of an arbitrary output, or Reserve when kind = 2); record sets (1,1) for all kinds and (2,1) for the ReserveParticular kind in quick, (2,1) for the Reserve kinds and (1,2) in thorough; useUnconfirmed arbitrary
//verif:bound expiry histories (VerifC26Expiry): reservation A (ReserveParticular of an arbitrary output, or Reserve when kind = 1) expiring d_A seconds after its creation; t1 seconds pass; reservation attempt B (ReserveParticular of an arbitrary output); t2 seconds pass; then nothing, the sweeper (expireReservation(now)) or Cancel(arbitrary id); t3 seconds pass; reservation attempt C (ReserveParticular of an arbitrary output, or Reserve when kind = 2); all d and t symbolic in 0..65535 s, so every expiry may or may not have passed at every later step, with or without the sweeper having run; record sets (1,0),(2,0),(1,1) in quick, (2,1) and the Reserve kinds on two records in thorough
//verif:assume liveness of a reservation (oracle): a reservation is live from the moment it is handed out until it is cancelled or removed by the sweeper (expireReservation called with an instant later than its expiry). A reservation whose expiry instant has passed but that has not been swept yet is STILL live: the keeper still holds its outputs, so ReserveParticular must answer ErrReserved and Reserve must not select them until the sweeper has run
//verif:assume clock of VerifC26Expiry: for the solver time.Now and the expiry instants are read from a harness clock (whole seconds) that verifC26Pass advances; in the native replay they come from the real clock and verifC26Pass instead moves the expiry of every reservation in the keeper into the past by the same amount; steps at which an expiry instant equals the current instant exactly are excluded (the real clock advances between two reads). The unmodified keeper never reads the clock itself; the stub exists so that a keeper that does is still decided
//verif:assume encoding/json.Marshal / Unmarshal round-trip a UTXO record (solver: record looked up by buffer identity; native replay: the real encoder and decoder)
//verif:assume bc.Hash.String (protobuf text form, used for the database keys) is an injective function of the hash (solver: the 32 raw bytes; native replay: the real text form)
//verif:assume totals stay below 2^64 (amounts below 2^40: the BTM supply is below 2^61)
//verif:assume sequential execution: every entry point takes uk.mtx for its whole body, so the concurrent behaviour is a sequential one; that argument is not machine-checked here
//verif:outside concurrent callers and the expireWorker goroutine (its body expireReservation is covered), contract UTXOs (SCU: keys), LevelDB, account/builder.go and wallet/unconfirmed.go (callers), map iteration orders other than the engine's for the unconfirmed set (the native replay uses Go's)
//verif:override encoding/json.Unmarshal -> verifC26Unmarshal
//verif:override time.Now -> verifC26Now
//verif:override github.com/bytom/bytom/account.verifC26Pass -> verifC26PassStub
//verif:override github.com/bytom/bytom/account.verifC26ExpiryIn -> verifC26ExpiryInStub
//verif:override encoding/json.Marshal -> verifC26Marshal
//verif:override (*github.com/bytom/bytom/protocol/bc.Hash).String -> verifC26HashString
//verif:obligation fn=VerifC26Reserve args=1,0,0,1;2,0,0,1;1,1,0,1;1,1,1,1;1,1,2,1 secs=900 validate=12 timeout=120000
//verif:obligation fn=VerifC26Reserve args=2,1,0,0;2,1,1,0;2,1,2,0 secs=900 timeout=120000
//verif:obligation fn=VerifC26Reserve args=2,1,0,1;1,1,0,2;1,1,3,1 tier=thorough secs=3000 paths=4000000 timeout=120000
//verif:obligation fn=VerifC26Particular args=1,1,0;2,0,0 secs=900 validate=12 timeout=120000
//verif:obligation fn=VerifC26Select args=3 secs=3000 validate=12 timeout=120000
//verif:obligation fn=VerifC26Select args=4 tier=thorough secs=3000 paths=4000000 timeout=120000
//verif:obligation fn=VerifC26Confirm args=1,1,0;2,1,0;1,1,1;1,1,2 secs=3000 validate=12 timeout=120000
//verif:obligation fn=VerifC26Confirm args=2,1,1;2,1,2;1,2,0 tier=thorough secs=3000 paths=4000000 timeout=120000
//verif:obligation fn=VerifC26Expiry args=1,0,0;2,0,0;1,1,0;1,0,1;1,0,2 secs=3000 validate=12 timeout=120000
//verif:obligation fn=VerifC26Expiry args=2,1,0;2,0,1;2,0,2;1,1,1;1,1,2 tier=thorough secs=3000 paths=4000000 timeout=120000
//verif:obligation fn=VerifC26Particular args=2,1,0 tier=thorough secs=3000 paths=4000000 timeout=120000

import (
	"bytes"
	"encoding/json"
	"time"

	dbm "github.com/bytom/bytom/database/leveldb"
	"github.com/bytom/bytom/protocol/bc"
)

// ---------------------------------------------------------------------------
// environment

type verifC26DB struct {
	keys []string
	vals [][]byte
}

func (d *verifC26DB) Get(k []byte) []byte {
	for i := range d.keys {
		if d.keys[i] == string(k) {
			return d.vals[i]
		}
	}
	return nil
}
func (d *verifC26DB) Set(k []byte, v []byte) {
	d.keys = append(d.keys, string(k))
	d.vals = append(d.vals, v)
}
func (d *verifC26DB) SetSync(k []byte, v []byte) { d.Set(k, v) }
func (d *verifC26DB) Delete(k []byte)            {}
func (d *verifC26DB) DeleteSync(k []byte)        {}
func (d *verifC26DB) Close()                     {}
func (d *verifC26DB) NewBatch() dbm.Batch        { return nil }
func (d *verifC26DB) Iterator() dbm.Iterator     { return &verifC26Iter{db: d, pos: -1} }
func (d *verifC26DB) Print()                     {}
func (d *verifC26DB) Stats() map[string]string   { return nil }
func (d *verifC26DB) IteratorPrefix(p []byte) dbm.Iterator {
	return &verifC26Iter{db: d, prefix: string(p), pos: -1}
}
func (d *verifC26DB) IteratorPrefixWithStart(Prefix, start []byte, isReverse bool) dbm.Iterator {
	return &verifC26Iter{db: d, prefix: string(Prefix), pos: -1}
}

type verifC26Iter struct {
	db     *verifC26DB
	prefix string
	pos    int
}

func (it *verifC26Iter) Next() bool {
	for it.pos++; it.pos < len(it.db.keys); it.pos++ {
		k := it.db.keys[it.pos]
		if len(k) >= len(it.prefix) && k[:len(it.prefix)] == it.prefix {
			return true
		}
	}
	return false
}
func (it *verifC26Iter) Key() []byte      { return []byte(it.db.keys[it.pos]) }
func (it *verifC26Iter) Value() []byte    { return it.db.vals[it.pos] }
func (it *verifC26Iter) Seek([]byte) bool { return false }
func (it *verifC26Iter) Release()         {}
func (it *verifC26Iter) Error() error     { return nil }

type verifC26Record struct {
	data []byte
	u    *UTXO
}

var verifC26Records []verifC26Record

func verifC26Marshal(v interface{}) ([]byte, error) {
	data := []byte{'#'}
	verifC26Records = append(verifC26Records, verifC26Record{data, v.(*UTXO)})
	return data, nil
}

func verifC26Unmarshal(data []byte, v interface{}) error {
	for i := range verifC26Records {
		r := &verifC26Records[i]
		if len(data) > 0 && &r.data[0] == &data[0] {
			*(v.(*UTXO)) = *r.u
			return nil
		}
	}
	return ErrMatchUTXO
}

func verifC26HashString(h *bc.Hash) string {
	b := h.Byte32()
	return string(b[:])
}

// harness clock (solver); the native replay uses the real clock
var verifC26Clock int64

func verifC26Now() time.Time { return time.Unix(1600000000+verifC26Clock, 0) }

// an instant d seconds from now
func verifC26ExpiryInStub(d int64) time.Time { return time.Unix(1600000000+verifC26Clock+d, 0) }
func verifC26ExpiryIn(d int64) time.Time     { return time.Now().Add(time.Duration(d) * time.Second) }

// d seconds pass
func verifC26PassStub(uk *utxoKeeper, d int64) { verifC26Clock += d }
func verifC26Pass(uk *utxoKeeper, d int64) {
	for _, r := range uk.reservations {
		r.expiry = r.expiry.Add(-time.Duration(d) * time.Second)
	}
}

var verifC26AB = [256]bool{'a': true, 'b': true}

// ---------------------------------------------------------------------------
// state

type verifC26World struct {
	uk      *utxoKeeper
	height  uint64
	conf    []*UTXO
	unc     []*UTXO // as added (a later record with the same id replaces an earlier one)
	live    []*verifC26Res
	reqAcct string
	reqAsst bc.AssetID
	reqVote []byte
	dup     bool
	now     int64          // VerifC26Expiry: seconds since the start of the history
	all     []*verifC26Res // every reservation ever handed out
}

type verifC26Res struct {
	id   uint64
	outs []bc.Hash
	exp  int64
}

func verifC26Fields(w *verifC26World, u *UTXO, vary int) {
	u.AccountID, u.AssetID, u.Vote = w.reqAcct, w.reqAsst, w.reqVote
	if vary == 0 || vary == 3 {
		c := verifU8("utxo.account")
		verifAssume(verifC26AB[c])
		u.AccountID = string([]byte{c})
	}
	if vary == 1 || vary == 3 {
		a := verifU64("utxo.asset")
		verifAssume(a < 2)
		u.AssetID = bc.AssetID{V0: a}
	}
	if vary == 2 || vary == 3 {
		u.Vote = verifBytes("utxo.vote", 1)
	}
	u.Amount = verifU64("utxo.amount")
	verifAssume(u.Amount < 1<<40)
	u.ValidHeight = verifU64("utxo.validHeight")
	if vary == 4 {
		// every record matches the request and is mature
		verifAssume(u.ValidHeight <= w.height)
	}
	u.ControlProgram = []byte{0x51}
}

func verifC26Setup(nConf, nUnc, vary int) *verifC26World {
	verifC26Records = nil
	verifC26Clock = 0
	w := &verifC26World{}
	w.height = verifU64("height")
	c := verifU8("req.account")
	verifAssume(verifC26AB[c])
	w.reqAcct = string([]byte{c})
	a := verifU64("req.asset")
	verifAssume(a < 2)
	w.reqAsst = bc.AssetID{V0: a}
	if vary == 2 || vary == 3 {
		w.reqVote = verifBytes("req.vote", 1)
	}
	db := &verifC26DB{}
	w.uk = &utxoKeeper{
		db:            db,
		currentHeight: func() uint64 { return w.height },
		unconfirmed:   make(map[bc.Hash]*UTXO),
		reserved:      make(map[bc.Hash]uint64),
		reservations:  make(map[uint64]*reservation),
	}
	for i := 0; i < nConf; i++ {
		u := &UTXO{OutputID: bc.Hash{V0: uint64(i + 1)}}
		verifC26Fields(w, u, vary)
		data, _ := json.Marshal(u)
		db.Set(StandardUTXOKey(u.OutputID), data)
		w.conf = append(w.conf, u)
	}
	for j := 0; j < nUnc; j++ {
		var u *UTXO
		if d := verifChoice("unconfirmed.sameAs", nConf+1); d < nConf {
			cp := *w.conf[d] // the same output, seen in the pool and in a block
			u = &cp
			w.dup = true
		} else {
			u = &UTXO{OutputID: bc.Hash{V0: uint64(10 + j)}}
			verifC26Fields(w, u, vary)
		}
		w.uk.AddUnconfirmedUtxo([]*UTXO{u})
		w.unc = append(w.unc, u)
	}
	return w
}

// lookup returns the record of an output as the keeper may see it.
func (w *verifC26World) lookup(id bc.Hash, useUnconfirmed bool) *UTXO {
	for _, u := range w.conf {
		if u.OutputID == id {
			return u
		}
	}
	if useUnconfirmed {
		for i := len(w.unc) - 1; i >= 0; i-- {
			if w.unc[i].OutputID == id {
				return w.unc[i]
			}
		}
	}
	return nil
}

func (w *verifC26World) held(id bc.Hash) bool {
	for _, l := range w.live {
		for _, o := range l.outs {
			if o == id {
				return true
			}
		}
	}
	return false
}

func (w *verifC26World) record(res *reservation, exp int64) {
	l := &verifC26Res{id: res.id, exp: exp}
	for _, u := range res.utxos {
		l.outs = append(l.outs, u.OutputID)
	}
	for _, o := range w.live {
		verifAssert(o.id != res.id, "reservation-id-fresh")
	}
	w.live = append(w.live, l)
	w.all = append(w.all, l)
}

func (w *verifC26World) anyHash(name string) bc.Hash {
	k := verifChoice(name, len(w.conf)+len(w.unc)+1)
	if k < len(w.conf) {
		return w.conf[k].OutputID
	}
	if k < len(w.conf)+len(w.unc) {
		return w.unc[k-len(w.conf)].OutputID
	}
	return bc.Hash{V0: 99}
}

func verifC26Exp(name string) (time.Time, int64) {
	s := verifI64(name)
	verifAssume(s >= 0 && s < 1<<40)
	return time.Unix(s, 0), s
}

// cancel / expire / nothing
func (w *verifC26World) disturb() {
	switch verifChoice("disturb", 3) {
	case 1:
		rid := verifU64("cancel.id")
		w.uk.Cancel(rid)
		var keep []*verifC26Res
		for _, l := range w.live {
			if l.id != rid {
				keep = append(keep, l)
			} else {
				verifReach("C26:cancelled-a-live-reservation") //verif:optional
			}
		}
		w.live = keep
	case 2:
		t, ts := verifC26Exp("expire.at")
		w.uk.expireReservation(t)
		var keep []*verifC26Res
		for _, l := range w.live {
			if !(l.exp < ts) {
				keep = append(keep, l)
			}
		}
		w.live = keep
	}
}

func (w *verifC26World) checkParticular(id bc.Hash, useUnc bool, res *reservation, err error, exp int64) {
	rec := w.lookup(id, useUnc)
	switch {
	case err == nil:
		verifAssert(len(res.utxos) == 1 && res.utxos[0].OutputID == id, "particular-holds-the-requested-output")
		verifAssert(rec != nil, "output-exists")
		verifAssert(!w.held(id), "no-output-in-two-live-reservations")
		verifAssert(res.utxos[0].ValidHeight <= w.height, "outputs-mature")
		if rec != nil {
			verifAssert(rec.ValidHeight <= w.height, "outputs-mature")
		}
		verifAssert(res.change == 0, "change-equals-excess")
		w.record(res, exp)
	case err == ErrReserved:
		verifAssert(w.held(id), "failure-class")
	case err == ErrMatchUTXO:
		verifAssert(rec == nil, "failure-class")
	case err == ErrImmature:
		verifAssert(rec != nil && rec.ValidHeight > w.height, "failure-class")
	default:
		verifAssert(false, "failure-class")
	}
}

func (w *verifC26World) checkReserve(amount uint64, useUnc bool, res *reservation, err error, exp int64) {
	// oracle: every output once
	var avail, reserved, immature uint64
	seen := map[bc.Hash]bool{}
	count := func(u *UTXO) {
		if seen[u.OutputID] {
			return
		}
		seen[u.OutputID] = true
		if u.AccountID != w.reqAcct || u.AssetID != w.reqAsst || !bytes.Equal(u.Vote, w.reqVote) {
			return
		}
		switch {
		case u.ValidHeight > w.height:
			immature += u.Amount
		case w.held(u.OutputID):
			reserved += u.Amount
		default:
			avail += u.Amount
		}
	}
	for _, u := range w.conf {
		count(u)
	}
	if useUnc {
		for i := len(w.unc) - 1; i >= 0; i-- {
			count(w.unc[i])
		}
	}
	verifObserveU64("avail", avail)
	verifObserveU64("reserved", reserved)
	verifObserveU64("immature", immature)

	switch {
	case err == nil:
		sum := uint64(0)
		for i, u := range res.utxos {
			sum += u.Amount
			for j := 0; j < i; j++ {
				verifAssert(res.utxos[j].OutputID != u.OutputID, "outputs-distinct")
			}
			rec := w.lookup(u.OutputID, useUnc)
			verifAssert(rec != nil, "output-exists")
			verifAssert(u.AccountID == w.reqAcct && u.AssetID == w.reqAsst && bytes.Equal(u.Vote, w.reqVote), "right-account-asset-vote")
			verifAssert(u.ValidHeight <= w.height, "outputs-mature")
			if rec != nil {
				verifAssert(rec.Amount == u.Amount && rec.ValidHeight == u.ValidHeight && rec.AccountID == u.AccountID && rec.AssetID == u.AssetID && bytes.Equal(rec.Vote, u.Vote), "output-exists")
			}
			verifAssert(!w.held(u.OutputID), "no-output-in-two-live-reservations")
		}
		verifObserveU64("sum", sum)
		verifObserveU64("change", res.change)
		verifAssert(sum >= amount, "covers-amount")
		verifAssert(res.change == sum-amount, "change-equals-excess")
		verifAssert(avail >= amount, "success-only-with-available-funds")
		w.record(res, exp)
	case err == ErrInsufficient:
		verifAssert(avail+reserved+immature < amount, "failure-class")
	case err == ErrImmature:
		verifAssert(avail+reserved < amount && avail+reserved+immature >= amount, "failure-class")
	case err == ErrReserved:
		verifAssert(avail < amount && avail+reserved >= amount, "failure-class")
	default:
		verifAssert(false, "failure-class")
	}
}

// ---------------------------------------------------------------------------

func VerifC26Reserve(nConf int, nUnc int, vary int, nEarlier int) {
	w := verifC26Setup(nConf, nUnc, vary)
	for k := 0; k < nEarlier; k++ {
		if !verifBool("earlier.particular") {
			break
		}
		id := w.anyHash("earlier.output")
		useUnc := verifBool("earlier.useUnconfirmed")
		t, ts := verifC26Exp("earlier.exp")
		res, err := w.uk.ReserveParticular(id, useUnc, t)
		w.checkParticular(id, useUnc, res, err, ts)
	}
	w.disturb()

	amount := verifU64("amount")
	verifAssume(amount < 1<<42)
	useUnc := verifBool("useUnconfirmed")
	t, ts := verifC26Exp("exp")
	// the same output as a confirmed and as an unconfirmed record is selected twice
	verifKnown("KF-C26-DUPLICATE-OUTPUT", w.dup && useUnc)
	// Reserve(amount 0) dereferences the front of an empty list in optUTXOs
	verifKnown("KF-C26-ZERO-AMOUNT", amount == 0)
	res, err := w.uk.Reserve(w.reqAcct, &w.reqAsst, amount, useUnc, w.reqVote, t)
	verifObserveBool("ok", err == nil)
	w.checkReserve(amount, useUnc, res, err, ts)
	switch err {
	case nil:
		verifReach("VerifC26Reserve:success")
		if len(res.utxos) >= 2 {
			verifReach("VerifC26Reserve:two-outputs")
		}
	case ErrInsufficient:
		verifReach("VerifC26Reserve:insufficient")
	case ErrImmature:
		verifReach("VerifC26Reserve:immature")
	case ErrReserved:
		verifReach("VerifC26Reserve:reserved")
	}
}

func VerifC26Particular(nConf int, nUnc int, vary int) {
	w := verifC26Setup(nConf, nUnc, vary)
	amount0 := verifU64("earlier.amount")
	verifAssume(amount0 < 1<<42)
	useUnc0 := verifBool("earlier.useUnconfirmed")
	t0, ts0 := verifC26Exp("earlier.exp")
	verifKnown("KF-C26-DUPLICATE-OUTPUT", w.dup && useUnc0)
	verifKnown("KF-C26-ZERO-AMOUNT", amount0 == 0)
	res0, err0 := w.uk.Reserve(w.reqAcct, &w.reqAsst, amount0, useUnc0, w.reqVote, t0)
	w.checkReserve(amount0, useUnc0, res0, err0, ts0)
	w.disturb()

	id := w.anyHash("output")
	useUnc := verifBool("useUnconfirmed")
	t, ts := verifC26Exp("exp")
	res, err := w.uk.ReserveParticular(id, useUnc, t)
	verifObserveBool("ok", err == nil)
	w.checkParticular(id, useUnc, res, err, ts)
	switch err {
	case nil:
		verifReach("VerifC26Particular:success")
	case ErrReserved:
		verifReach("VerifC26Particular:reserved")
	case ErrMatchUTXO:
		verifReach("VerifC26Particular:unknown")
	case ErrImmature:
		verifReach("VerifC26Particular:immature")
	}
}

// ---------------------------------------------------------------------------
// expiry histories: an expiry instant may pass without the sweeper having run

func (w *verifC26World) pass(name string) {
	d := int64(verifU16(name))
	verifC26Pass(w.uk, d)
	w.now += d
}

// notAtBoundary: no expiry instant equals the current instant exactly
func (w *verifC26World) notAtBoundary() {
	for _, l := range w.all {
		verifAssume(l.exp != w.now)
	}
}

func (w *verifC26World) expiredUnsweptHolder(id bc.Hash) bool {
	for _, l := range w.live {
		for _, o := range l.outs {
			if o == id && l.exp < w.now {
				return true
			}
		}
	}
	return false
}

func (w *verifC26World) everHeld(id bc.Hash) bool {
	for _, l := range w.all {
		for _, o := range l.outs {
			if o == id {
				return true
			}
		}
	}
	return false
}

// attempt makes one reservation attempt expiring `expiresIn` seconds from now
func (w *verifC26World) attempt(name string, reserve bool, useUnc bool) {
	w.notAtBoundary()
	d := int64(verifU16(name + ".expiresIn"))
	t := verifC26ExpiryIn(d)
	if reserve {
		amount := verifU64(name + ".amount")
		verifAssume(amount < 1<<42)
		verifKnown("KF-C26-DUPLICATE-OUTPUT", w.dup && useUnc)
		verifKnown("KF-C26-ZERO-AMOUNT", amount == 0)
		res, err := w.uk.Reserve(w.reqAcct, &w.reqAsst, amount, useUnc, w.reqVote, t)
		verifObserveBool(name+".ok", err == nil)
		w.checkReserve(amount, useUnc, res, err, w.now+d)
		return
	}
	id := w.anyHash(name + ".output")
	res, err := w.uk.ReserveParticular(id, useUnc, t)
	verifObserveBool(name+".ok", err == nil)
	stale := w.expiredUnsweptHolder(id)
	again := w.everHeld(id)
	w.checkParticular(id, useUnc, res, err, w.now+d)
	if err == ErrReserved && stale {
		verifReach("VerifC26Expiry:refused-while-expired-but-unswept")
	}
	if err == nil && again {
		verifReach("VerifC26Expiry:reserved-again-after-release")
	}
}

func VerifC26Expiry(nConf int, nUnc int, kind int) {
	w := verifC26Setup(nConf, nUnc, 0)
	useUnc := verifBool("useUnconfirmed")
	w.attempt("a", kind == 1, useUnc)
	w.pass("t1")
	w.attempt("b", false, useUnc)
	w.pass("t2")
	switch verifChoice("disturb", 3) {
	case 1:
		w.notAtBoundary()
		w.uk.expireReservation(time.Now())
		var keep []*verifC26Res
		for _, l := range w.live {
			if !(l.exp < w.now) {
				keep = append(keep, l)
			} else {
				verifReach("VerifC26Expiry:swept-a-live-reservation")
			}
		}
		w.live = keep
	case 2:
		rid := verifU64("cancel.id")
		w.uk.Cancel(rid)
		var keep []*verifC26Res
		for _, l := range w.live {
			if l.id != rid {
				keep = append(keep, l)
			}
		}
		w.live = keep
	}
	w.pass("t3")
	w.attempt("c", kind == 2, useUnc)
	verifReach("VerifC26Expiry:end")
}

// ---------------------------------------------------------------------------
// selection among three or more matching outputs, one of them possibly reserved

func VerifC26Select(nConf int) {
	w := verifC26Setup(nConf, 0, 4)
	w.attempt("earlier", false, false)
	w.attempt("reserve", true, false)
	verifReach("VerifC26Select:end")
	if len(w.live) == 2 {
		verifReach("VerifC26Select:both-live")
		if len(w.live[1].outs) >= 2 {
			verifReach("VerifC26Select:several-outputs-next-to-a-reserved-one")
		}
	}
}

// ---------------------------------------------------------------------------
// the pool transaction of an unconfirmed output is confirmed between two attempts

func (w *verifC26World) poolStep(vary int) {
	switch verifChoice("pool", 3) {
	case 1:
		// confirmed: the record is in the database, the unconfirmed entry is removed
		if len(w.unc) == 0 {
			return
		}
		j := verifChoice("pool.confirmed", len(w.unc))
		u := w.unc[j]
		id := u.OutputID
		inDB := false
		for _, c := range w.conf {
			if c.OutputID == id {
				inDB = true
			}
		}
		if !inDB {
			data, _ := json.Marshal(u)
			w.uk.db.Set(StandardUTXOKey(id), data)
			w.conf = append(w.conf, u)
		}
		w.uk.RemoveUnconfirmedUtxo([]*bc.Hash{&id})
		var keep []*UTXO
		for _, x := range w.unc {
			if x.OutputID != id {
				keep = append(keep, x)
			}
		}
		w.unc = keep
		verifReach("VerifC26Confirm:confirmed")
		if w.held(id) {
			verifReach("VerifC26Confirm:confirmed-while-reserved")
		}
	case 2:
		u := &UTXO{OutputID: bc.Hash{V0: 20}}
		verifC26Fields(w, u, vary)
		w.uk.AddUnconfirmedUtxo([]*UTXO{u})
		w.unc = append(w.unc, u)
		verifReach("VerifC26Confirm:added")
	}
}

func VerifC26Confirm(nConf int, nUnc int, kind int) {
	w := verifC26Setup(nConf, nUnc, 0)
	useUnc := verifBool("useUnconfirmed")
	w.attempt("a", kind == 1, useUnc)
	w.poolStep(0)
	w.attempt("b", kind == 2, useUnc)
	verifReach("VerifC26Confirm:end")
}
