package wallet

// C25: differential of two real functions -- the wallet's maturity record
// (txOutToUtxos / txInToUtxos, filtered as the UTXO keeper does) against
// consensus' spend rule (UtxoViewpoint.ApplyTransaction -> applySpendUtxo).

//verif:property C25
//verif:bound output kind in {normal, coinbase, vote}; creation height and current height arbitrary below 2^62; transactions with 1 or 3 outputs of that kind, every output index checked; mainnet parameters
//verif:assume the UTXO keeper treats a record as usable at height c iff ValidHeight <= c (account/utxo_keeper.go findUtxos and ReserveParticular; that comparison itself is checked by VerifC25KeeperFilter)
//verif:assume heights stay below 2^62 (no uint64 wrap-around of height + pending period)
//verif:outside the wallet database, the account filter (filterAccountUtxo) and the reorganisation walk that decides which blocks are detached
//verif:obligation fn=VerifC25Created args=0,1;1,1;2,1;0,3;1,3;2,3 validate=30
//verif:obligation fn=VerifC25Restored args=1;2 validate=30

import (
	"github.com/bytom/bytom/consensus"
	"github.com/bytom/bytom/database/storage"
	"github.com/bytom/bytom/protocol/bc"
	"github.com/bytom/bytom/protocol/bc/types"
	"github.com/bytom/bytom/protocol/state"
)

// verifC25Tx builds a one-input one-output transaction creating an output of
// the given kind (0 normal, 1 coinbase, 2 vote).
func verifC25Tx(kind int, nOut int) *types.Tx {
	prog := []byte{0x51}
	amount := verifU64("amount")
	verifAssume(amount > 0 && amount < 1<<62)
	var in *types.TxInput
	if kind == 1 {
		in = types.NewCoinbaseInput([]byte{1, 2, 3})
	} else {
		in = types.NewSpendInput(nil, bc.Hash{V0: 1}, *consensus.BTMAssetID, amount, 0, prog, nil)
	}
	var out *types.TxOutput
	if kind == 2 {
		out = types.NewVoteOutput(*consensus.BTMAssetID, amount, prog, []byte{0xaa, 0xbb}, nil)
	} else {
		out = types.NewOriginalTxOutput(*consensus.BTMAssetID, amount, prog, nil)
	}
	outs := []*types.TxOutput{out}
	for i := 1; i < nOut; i++ {
		// further outputs of the same kind (an epoch-reward coinbase pays several validators)
		if kind == 2 {
			outs = append(outs, types.NewVoteOutput(*consensus.BTMAssetID, amount, []byte{0x51, byte(i)}, []byte{0xaa, 0xbb}, nil))
		} else {
			outs = append(outs, types.NewOriginalTxOutput(*consensus.BTMAssetID, amount, []byte{0x51, byte(i)}, nil))
		}
	}
	return types.NewTx(types.TxData{Version: 1, Inputs: []*types.TxInput{in}, Outputs: outs})
}

func verifC25UtxoType(kind int) uint32 {
	switch kind {
	case 1:
		return storage.CoinbaseUTXOType
	case 2:
		return storage.VoteUTXOType
	}
	return storage.NormalUTXOType
}

// consensus' verdict on spending `id` (created at h0 with the given type) in a block at height h
func verifC25ConsensusAccepts(id bc.Hash, utxoType uint32, h0, h uint64) bool {
	view := state.NewUtxoViewpoint()
	view.Entries[id] = storage.NewUtxoEntry(utxoType, h0, false)
	spender := &bc.Tx{SpentOutputIDs: []bc.Hash{id}, TxHeader: &bc.TxHeader{}}
	return view.ApplyTransaction(&bc.Block{BlockHeader: &bc.BlockHeader{Height: h}}, spender) == nil
}

func VerifC25Created(kind int, nOut int) {
	h0 := verifU64("createdAt")
	cur := verifU64("current")
	verifAssume(h0 < 1<<62 && cur < 1<<62 && cur >= h0)
	tx := verifC25Tx(kind, nOut)
	utxos := txOutToUtxos(tx, h0)
	verifAssert(len(utxos) == nOut, "wallet-records-the-output")
	u := utxos[verifChoice("outputIndex", nOut)]
	verifObserveU64("validHeight", u.ValidHeight)
	verifKnown("KF-C25-VOTEBOUNDARY", kind == 2 && h0 < 432000 && cur+1 >= 432000)
	usable := u.ValidHeight <= cur
	accepts := verifC25ConsensusAccepts(u.OutputID, verifC25UtxoType(kind), h0, cur+1)
	verifObserveBool("usable", usable)
	verifObserveBool("accepts", accepts)
	verifAssert(!usable || accepts, "wallet-mature-implies-consensus-spendable")
	if usable {
		verifReach("VerifC25Created:usable")
	} else {
		verifReach("VerifC25Created:immature")
	}
}

// The record the wallet re-creates when the block that spent the output is
// detached (txInToUtxos), while the chain tip is anywhere at or above the
// creation height.
func VerifC25Restored(kind int) {
	h0 := verifU64("createdAt")
	cur := verifU64("current")
	verifAssume(h0 < 1<<62 && cur < 1<<62 && cur >= h0)
	prog := []byte{0x51}
	amount := verifU64("amount")
	verifAssume(amount > 0 && amount < 1<<62)
	var in *types.TxInput
	if kind == 2 {
		in = types.NewVetoInput(nil, bc.Hash{V0: 1}, *consensus.BTMAssetID, amount, 0, prog, []byte{0xaa, 0xbb}, nil)
	} else {
		// a spend of a (coinbase-created) ordinary output
		in = types.NewSpendInput(nil, bc.Hash{V0: 1}, *consensus.BTMAssetID, amount, 0, prog, nil)
	}
	out := types.NewOriginalTxOutput(*consensus.BTMAssetID, amount, prog, nil)
	tx := types.NewTx(types.TxData{Version: 1, Inputs: []*types.TxInput{in}, Outputs: []*types.TxOutput{out}})
	utxos := txInToUtxos(tx)
	verifAssert(len(utxos) == 1, "wallet-restores-the-output")
	u := utxos[0]
	verifObserveU64("validHeight", u.ValidHeight)
	verifKnown("KF-C25-RESTORED-HEIGHT", u.ValidHeight == 0)
	usable := u.ValidHeight <= cur
	accepts := verifC25ConsensusAccepts(u.OutputID, verifC25UtxoType(kind), h0, cur+1)
	verifAssert(!usable || accepts, "restored-mature-implies-consensus-spendable")
	verifReach("VerifC25Restored:end")
}
