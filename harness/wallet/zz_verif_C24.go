package wallet

// C24: the wallet's UTXO table follows the main chain. Algebraic step over
// the real Wallet.attachUtxos / detachUtxos / filterAccountUtxo /
// batchSaveUtxos / txInToUtxos / txOutToUtxos on a real MemDB:
//   (1) attach(S, b) holds exactly the records a rescan would hold for the
//       outputs b touches (identity, asset, amount, program, account, vote key)
//   (2) detach(attach(S, b), b) == S on those outputs.

//verif:property C24
//verif:bound single-transaction blocks built by the real types.NewTx / MapTx: one input (spend / veto / coinbase) and 1 output (quick) or 2 outputs (thorough; first: original or vote; second: the other kind, paying the wallet); amounts arbitrary 64-bit (0 included), vote keys 2 arbitrary bytes; program menu {wallet P2WPKH, P2WPKH the wallet may or may not own (arbitrary), non-segwit contract program, wallet P2WSH (32-byte witness program, multi-signature account), wallet "straightforward" OP_TRUE program}: the input takes any of the 5, the first output the input's program or the one two places further (every program occurs in both roles; the wallet treats inputs and outputs independently); spends and first original outputs carry a non-BTM asset, the rest BTM; block height arbitrary below 2^62
//verif:bound chained blocks (VerifC24Chain): tx1 = [spend of a pre-existing output] -> [O1 original or vote], tx2 = [spend / veto of O1] -> [O2 original], both built by the real types.NewTx; O1's program any of the 5 (one obligation each), the pre-existing output and O2 pay the next / third-next program of the menu; three arbitrary 64-bit amounts (0 included), arbitrary vote key and height
//verif:bound block level (VerifC24Blocks): the real Wallet.AttachBlock / Wallet.DetachBlock from an arbitrary status record (WorkHeight <= BestHeight < 2^62, arbitrary work / best hashes) on a block of one transaction [spend of a wallet output] -> [original output paying the wallet, arbitrary amount]: AttachBlock of a block with arbitrary height whose parent hash differs from the work hash, AttachBlock of the child of the work block (height WorkHeight+1), DetachBlock of the best block (height BestHeight >= 1, arbitrary parent hash)
//verif:bound wallet table before the block: a record for the spent output exists iff the wallet owns its program (as a rescan would have it), with arbitrary bookkeeping fields
//verif:assume vote outputs and veto inputs carry BTM (consensus rule); the spent output is not an output of the spending transaction or of a later transaction (ids of the pre-existing output, O1 and O2 differ); ids are SHA3 hashes modelled as an uninterpreted collision-free function
//verif:assume solver side: json.Marshal / json.Unmarshal of account.UTXO and account.CtrlProgram are replaced by a handle table (value semantics, lossless), bc.Hash.String (protobuf text) by an injective byte encoding; the native replay uses the real ones
//verif:outside blocks of more than two transactions or with more than one input per transaction, walletUpdater goroutine and its reorganisation walk (which blocks it hands to AttachBlock / DetachBlock), the transaction index and recovery scan inside AttachBlock / DetachBlock, account manager, GetAccountUtxos iteration, transaction index, ValidHeight of the records (property C25)
//verif:override encoding/json.Marshal -> verifC24Marshal
//verif:override encoding/json.Unmarshal -> verifC24Unmarshal
//verif:override (*github.com/bytom/bytom/protocol/bc.Hash).String -> verifC24HashString
//verif:assume VerifC24Blocks: the transaction index kept next to the UTXO table is cut out of Wallet.AttachBlock / DetachBlock: indexTransactions and deleteTransactions are replaced by no-ops for the solver and for the native replay (nativecut); they write other key ranges (annotated txs, tx index) and never touch UTXO records or the status; the recovery manager is a real one that is not started (FilterRecoveryTxs returns at once); json of the status record written by commitWalletInfo is an opaque constant for the solver (the status is observed in memory)
//verif:override (*github.com/bytom/bytom/wallet.Wallet).indexTransactions -> verifC24IndexTxs
//verif:nativecut indexer.go indexTransactions -> verifC24IndexTxs
//verif:override (*github.com/bytom/bytom/wallet.Wallet).deleteTransactions -> verifC24DeleteTxs
//verif:nativecut indexer.go deleteTransactions -> verifC24DeleteTxs
//verif:obligation fn=VerifC24AttachDetach args=0,0,1;1,1,1;2,0,1 validate=10 secs=1800
//verif:obligation fn=VerifC24AttachDetach args=0,1,1;1,0,1;2,1,1 secs=1800
//verif:obligation fn=VerifC24AttachDetach args=0,0,2;0,1,2;1,0,2;1,1,2;2,0,2;2,1,2 tier=thorough secs=3000
//verif:obligation fn=VerifC24Chain args=0,0;1,3 validate=24 secs=1800
//verif:obligation fn=VerifC24Chain args=0,1;0,2;0,3;0,4;1,0;1,1;1,2;1,4 secs=1800
//verif:obligation fn=VerifC24Blocks args=0;1;2 validate=30 secs=1800

import (
	"bytes"
	"encoding/json"
	"errors"

	"github.com/bytom/bytom/account"
	"github.com/bytom/bytom/consensus"
	"github.com/bytom/bytom/crypto/sha3pool"
	dbm "github.com/bytom/bytom/database/leveldb"
	"github.com/bytom/bytom/protocol/bc"
	"github.com/bytom/bytom/protocol/bc/types"
)

// ---- handle table standing in for JSON (solver side) ----------------------

var (
	verifC24Utxos []account.UTXO
	verifC24CPs   []account.CtrlProgram
)

func verifC24Marshal(v interface{}) ([]byte, error) {
	switch x := v.(type) {
	case *account.UTXO:
		verifC24Utxos = append(verifC24Utxos, *x)
		return []byte{0xc2, 1, byte(len(verifC24Utxos) - 1)}, nil
	case *account.CtrlProgram:
		verifC24CPs = append(verifC24CPs, *x)
		return []byte{0xc2, 2, byte(len(verifC24CPs) - 1)}, nil
	case StatusInfo:
		return []byte{0xc2, 3, 0}, nil // wallet status record: written by commitWalletInfo, observed in memory here
	}
	panic("verif: json.Marshal stub: unexpected type")
}

func verifC24Unmarshal(data []byte, v interface{}) error {
	if len(data) != 3 || data[0] != 0xc2 {
		return errors.New("verif: not a handle")
	}
	switch x := v.(type) {
	case *account.UTXO:
		if data[1] != 1 {
			return errors.New("verif: wrong handle kind")
		}
		*x = verifC24Utxos[int(data[2])]
		return nil
	case *account.CtrlProgram:
		if data[1] != 2 {
			return errors.New("verif: wrong handle kind")
		}
		*x = verifC24CPs[int(data[2])]
		return nil
	}
	panic("verif: json.Unmarshal stub: unexpected type")
}

func verifC24HashString(h *bc.Hash) string { return string(h.Bytes()) }

// ---- fixtures -------------------------------------------------------------

var (
	verifC24ProgA = append([]byte{0x00, 0x14}, bytes.Repeat([]byte{0xa1}, 20)...) // P2WPKH, owned
	verifC24ProgB = append([]byte{0x00, 0x14}, bytes.Repeat([]byte{0xb2}, 20)...) // P2WPKH, owned or not
	verifC24ProgC = []byte{0x51, 0x51, 0x87}                                      // not a segwit program
	verifC24ProgD = append([]byte{0x00, 0x20}, bytes.Repeat([]byte{0xd4}, 32)...) // P2WSH (multi-signature account), owned
	verifC24ProgE = []byte{0x51}                                                  // "straightforward" OP_TRUE program, owned
	verifC24Other = bc.AssetID{V0: 7, V1: 7}
)

const verifC24NProg = 5

func verifC24Prog(k int) []byte {
	switch k {
	case 0:
		return verifC24ProgA
	case 1:
		return verifC24ProgB
	case 3:
		return verifC24ProgD
	case 4:
		return verifC24ProgE
	}
	return verifC24ProgC
}

// verifC24Wallet registers the wallet's control programs; B is owned or not.
func verifC24Wallet(db dbm.DB) func(pk int) (string, bool) {
	ownsB := verifBool("ownsB")
	verifC24Own(db, verifC24ProgA, "acc-a")
	if ownsB {
		verifC24Own(db, verifC24ProgB, "acc-b")
	}
	verifC24Own(db, verifC24ProgD, "acc-d")
	verifC24Own(db, verifC24ProgE, "acc-e")
	return func(pk int) (string, bool) {
		switch {
		case pk == 0:
			return "acc-a", true
		case pk == 1 && ownsB:
			return "acc-b", true
		case pk == 3:
			return "acc-d", true
		case pk == 4:
			return "acc-e", true
		}
		return "", false
	}
}

func verifC24Own(db dbm.DB, prog []byte, acc string) {
	var h [32]byte
	sha3pool.Sum256(h[:], prog)
	data, _ := json.Marshal(&account.CtrlProgram{AccountID: acc, Address: "addr-" + acc, KeyIndex: 5, ControlProgram: prog})
	db.Set(account.ContractKey(h), data)
}

type verifC24Rec struct {
	present bool
	u       account.UTXO
}

func verifC24Get(db dbm.DB, id bc.Hash) verifC24Rec {
	// standard (segwit program) table first, then the contract table
	key := account.ContractUTXOKey(id)
	if k := account.StandardUTXOKey(id); db.Get(k) != nil {
		key = k
	}
	data := db.Get(key)
	if data == nil {
		return verifC24Rec{}
	}
	r := verifC24Rec{present: true}
	if err := json.Unmarshal(data, &r.u); err != nil {
		panic("verif: unreadable wallet record")
	}
	return r
}

// the six fields the property names
func verifC24SameFields(a, b *account.UTXO) bool {
	return a.OutputID == b.OutputID && a.AssetID == b.AssetID && a.Amount == b.Amount &&
		bytes.Equal(a.ControlProgram, b.ControlProgram) && a.AccountID == b.AccountID && bytes.Equal(a.Vote, b.Vote)
}

// VerifC24AttachDetach: inKind 0 spend, 1 veto, 2 coinbase; outKind 0 original, 1 vote (kind of the first output); nOut outputs.
func VerifC24AttachDetach(inKind int, outKind int, nOut int) {
	height := verifU64("height")
	verifAssume(height < 1<<62)
	db := dbm.NewMemDB()
	w := &Wallet{DB: db}
	verifC24Utxos, verifC24CPs = nil, nil

	owner := verifC24Wallet(db)

	// the transaction
	inAmount := verifU64("inAmount")
	inProg := verifChoice("inProg", verifC24NProg)
	inAsset := *consensus.BTMAssetID
	if inKind == 0 {
		inAsset = verifC24Other
	}
	vote := verifBytesN("vote", 2)
	var in *types.TxInput
	switch inKind {
	case 0:
		in = types.NewSpendInput(nil, bc.Hash{V0: 1}, inAsset, inAmount, 1, verifC24Prog(inProg), nil)
	case 1:
		in = types.NewVetoInput(nil, bc.Hash{V0: 1}, inAsset, inAmount, 1, verifC24Prog(inProg), vote, nil)
	default:
		in = types.NewCoinbaseInput([]byte{1, 2, 3})
	}
	type outSpec struct {
		vote   bool
		prog   int
		amount uint64
		asset  bc.AssetID
		key    []byte
	}
	var specs []outSpec
	var outs []*types.TxOutput
	for j := 0; j < nOut; j++ {
		// the wallet handles input and output programs independently: the first output pays the
		// input's program or the one two places further in the menu (every program in both roles)
		s := outSpec{vote: outKind == 1, prog: (inProg + 2*verifChoice("outProg", 2)) % verifC24NProg, amount: verifU64("outAmount"), asset: *consensus.BTMAssetID}
		if j > 0 {
			// further outputs: the other kind, paying the wallet's own program
			s.vote, s.prog = outKind != 1, 0
		}
		if s.vote {
			s.key = verifBytesN("outVoteKey", 2)
			outs = append(outs, types.NewVoteOutput(s.asset, s.amount, verifC24Prog(s.prog), s.key, nil))
		} else {
			if j == 0 {
				s.asset = verifC24Other
			}
			outs = append(outs, types.NewOriginalTxOutput(s.asset, s.amount, verifC24Prog(s.prog), nil))
		}
		specs = append(specs, s)
	}
	tx := types.NewTx(types.TxData{Version: 1, Inputs: []*types.TxInput{in}, Outputs: outs})
	block := &types.Block{BlockHeader: types.BlockHeader{Height: height}, Transactions: []*types.Tx{tx}}

	// wallet table before the block: the record of the spent output, as a rescan would hold it
	var prevID bc.Hash
	var prev verifC24Rec
	if inKind != 2 {
		prevID = tx.SpentOutputIDs[0]
		for j := range outs {
			// a transaction cannot spend an output of its own (the output id commits to the transaction)
			verifAssume(prevID != *tx.OutputID(j))
		}
		if acc, ok := owner(inProg); ok {
			u := &account.UTXO{OutputID: prevID, SourceID: bc.Hash{V0: 1}, AssetID: inAsset, Amount: inAmount, SourcePos: 1,
				ControlProgram: verifC24Prog(inProg), AccountID: acc, Address: "addr-" + acc, ControlProgramIndex: 5, ValidHeight: verifU64("prevValidHeight")}
			if inKind == 1 {
				u.Vote = vote
			}
			data, _ := json.Marshal(u)
			db.Set(account.StandardUTXOKey(prevID), data)
		}
		prev = verifC24Get(db, prevID)
	}

	// attach
	batch := db.NewBatch()
	w.attachUtxos(batch, block)
	batch.Write()

	// (1) rescan reference
	if inKind != 2 {
		verifAssert(!verifC24Get(db, prevID).present, "attach-removes-spent-output")
	}
	for j, s := range specs {
		id := *tx.OutputID(j)
		got := verifC24Get(db, id)
		acc, owned := owner(s.prog)
		want := owned && (s.vote || s.amount != 0)
		verifObserveBool("recorded", got.present)
		verifAssert(got.present == want, "attach-records-exactly-the-wallet-outputs")
		if got.present && want {
			exp := &account.UTXO{OutputID: id, AssetID: s.asset, Amount: s.amount, ControlProgram: verifC24Prog(s.prog), AccountID: acc, Vote: s.key}
			verifAssert(verifC24SameFields(&got.u, exp), "attach-record-fields")
		}
	}
	verifReach("VerifC24AttachDetach:attached")

	// (2) detach
	batch = db.NewBatch()
	w.detachUtxos(batch, block)
	batch.Write()
	if inKind != 2 {
		back := verifC24Get(db, prevID)
		verifObserveBool("restored", back.present)
		verifAssert(back.present == prev.present, "detach-restores-exactly-the-wallet-outputs")
		if back.present && prev.present {
			verifAssert(verifC24SameFields(&back.u, &prev.u), "detach-restored-record-fields")
		}
	}
	for j, s := range specs {
		_, owned := owner(s.prog)
		gone := !verifC24Get(db, *tx.OutputID(j)).present
		if s.vote {
			verifKnown("KF-C24-DETACH-VOTE", owned)
			verifAssert(gone, "detach-removes-created-vote-outputs")
		} else {
			verifAssert(gone, "detach-removes-created-outputs")
		}
	}
	verifReach("VerifC24AttachDetach:end")
}

// VerifC24Chain: a block of two chained transactions, tx1 = [spend of a
// pre-existing output] -> [O1], tx2 = [spend / veto of O1] -> [O2]. kind1: O1
// is 0 original, 1 vote; q: menu index of O1's program. After attach the
// wallet holds what a rescan lists (O1 is already spent), after detach
// exactly the table it held before the block.
func VerifC24Chain(kind1 int, q int) {
	height := verifU64("height")
	verifAssume(height < 1<<62)
	db := dbm.NewMemDB()
	w := &Wallet{DB: db}
	verifC24Utxos, verifC24CPs = nil, nil
	owner := verifC24Wallet(db)
	p0, r := (q+1)%verifC24NProg, (q+3)%verifC24NProg // programs of the pre-existing output and of O2

	a0, a1, a2 := verifU64("amount0"), verifU64("amount1"), verifU64("amount2")
	key := verifBytesN("voteKey", 2)
	btm := *consensus.BTMAssetID
	in1 := types.NewSpendInput(nil, bc.Hash{V0: 1}, btm, a0, 1, verifC24Prog(p0), nil)
	var out1 *types.TxOutput
	if kind1 == 1 {
		out1 = types.NewVoteOutput(btm, a1, verifC24Prog(q), key, nil)
	} else {
		out1 = types.NewOriginalTxOutput(btm, a1, verifC24Prog(q), nil)
	}
	tx1 := types.NewTx(types.TxData{Version: 1, Inputs: []*types.TxInput{in1}, Outputs: []*types.TxOutput{out1}})
	id1 := *tx1.OutputID(0)

	// tx2 spends O1: the spend commitment repeats O1's source, value and program
	var in2 *types.TxInput
	if kind1 == 1 {
		o := tx1.Entries[id1].(*bc.VoteOutput)
		in2 = types.NewVetoInput(nil, *o.Source.Ref, btm, a1, o.Source.Position, verifC24Prog(q), key, nil)
	} else {
		o := tx1.Entries[id1].(*bc.OriginalOutput)
		in2 = types.NewSpendInput(nil, *o.Source.Ref, btm, a1, o.Source.Position, verifC24Prog(q), nil)
	}
	out2 := types.NewOriginalTxOutput(btm, a2, verifC24Prog(r), nil)
	tx2 := types.NewTx(types.TxData{Version: 1, Inputs: []*types.TxInput{in2}, Outputs: []*types.TxOutput{out2}})
	id2 := *tx2.OutputID(0)
	verifAssert(tx2.SpentOutputIDs[0] == id1, "harness-tx2-spends-o1")
	block := &types.Block{BlockHeader: types.BlockHeader{Height: height}, Transactions: []*types.Tx{tx1, tx2}}

	// wallet table before the block
	prevID := tx1.SpentOutputIDs[0]
	// an output is created after the outputs its transaction (or an ancestor) spends
	verifAssume(prevID != id1 && prevID != id2 && id1 != id2)
	if acc, ok := owner(p0); ok {
		u := &account.UTXO{OutputID: prevID, SourceID: bc.Hash{V0: 1}, AssetID: btm, Amount: a0, SourcePos: 1,
			ControlProgram: verifC24Prog(p0), AccountID: acc, Address: "addr-" + acc, ControlProgramIndex: 5, ValidHeight: verifU64("prevValidHeight")}
		data, _ := json.Marshal(u)
		db.Set(account.StandardUTXOKey(prevID), data)
	}
	prev := verifC24Get(db, prevID)

	batch := db.NewBatch()
	w.attachUtxos(batch, block)
	batch.Write()

	// (1) rescan reference: the pre-existing output and O1 are spent, O2 is listed iff it is the wallet's
	verifAssert(!verifC24Get(db, prevID).present, "attach-removes-spent-output")
	verifAssert(!verifC24Get(db, id1).present, "attach-removes-output-spent-in-the-block")
	got := verifC24Get(db, id2)
	acc, owned := owner(r)
	want := owned && a2 != 0
	verifObserveBool("recorded", got.present)
	verifAssert(got.present == want, "attach-records-exactly-the-wallet-outputs")
	if got.present && want {
		exp := &account.UTXO{OutputID: id2, AssetID: btm, Amount: a2, ControlProgram: verifC24Prog(r), AccountID: acc}
		verifAssert(verifC24SameFields(&got.u, exp), "attach-record-fields")
	}
	verifReach("VerifC24Chain:attached")

	// (2) detach: exactly the table before the block
	batch = db.NewBatch()
	w.detachUtxos(batch, block)
	batch.Write()
	back := verifC24Get(db, prevID)
	verifObserveBool("restored", back.present)
	verifAssert(back.present == prev.present, "detach-restores-exactly-the-wallet-outputs")
	if back.present && prev.present {
		verifAssert(verifC24SameFields(&back.u, &prev.u), "detach-restored-record-fields")
	}
	verifObserveBool("intermediateLeft", verifC24Get(db, id1).present)
	verifAssert(!verifC24Get(db, id1).present, "detach-removes-output-created-and-spent-in-the-block")
	verifAssert(!verifC24Get(db, id2).present, "detach-removes-created-outputs")
	verifReach("VerifC24Chain:end")
}

// ---- Wallet.AttachBlock / Wallet.DetachBlock ------------------------------

func verifC24IndexTxs(w *Wallet, batch dbm.Batch, b *types.Block) error { return nil }
func verifC24DeleteTxs(w *Wallet, batch dbm.Batch, height uint64)       {}

func verifC24Hash(name string) bc.Hash {
	return bc.Hash{V0: verifU64(name + ".v0"), V1: verifU64(name + ".v1")}
}

// VerifC24Blocks runs the real Wallet.AttachBlock / Wallet.DetachBlock from an
// arbitrary status record (WorkHeight <= BestHeight, arbitrary hashes) on a
// block of one transaction [spend of a wallet output] -> [original output
// paying the wallet, arbitrary amount]. mode 0: AttachBlock of a block whose
// parent is not the work block (any height); mode 1: AttachBlock of the child
// of the work block; mode 2: DetachBlock of the best block.
func VerifC24Blocks(mode int) {
	db := dbm.NewMemDB()
	verifC24Utxos, verifC24CPs = nil, nil
	verifC24Own(db, verifC24ProgA, "acc-a")
	w := &Wallet{DB: db, RecoveryMgr: &recoveryManager{}}
	st := StatusInfo{Version: 1, WorkHeight: verifU64("workHeight"), WorkHash: verifC24Hash("workHash"), BestHeight: verifU64("bestHeight"), BestHash: verifC24Hash("bestHash")}
	verifAssume(st.WorkHeight <= st.BestHeight && st.BestHeight < 1<<62)
	w.status = st

	btm := *consensus.BTMAssetID
	inAmount, outAmount := verifU64("inAmount"), verifU64("outAmount")
	in := types.NewSpendInput(nil, bc.Hash{V0: 1}, btm, inAmount, 1, verifC24ProgA, nil)
	out := types.NewOriginalTxOutput(btm, outAmount, verifC24ProgA, nil)
	tx := types.NewTx(types.TxData{Version: 1, Inputs: []*types.TxInput{in}, Outputs: []*types.TxOutput{out}})
	prevID, outID := tx.SpentOutputIDs[0], *tx.OutputID(0)
	verifAssume(prevID != outID)

	block := &types.Block{BlockHeader: types.BlockHeader{Version: 1, Timestamp: 7}, Transactions: []*types.Tx{tx}}
	switch mode {
	case 0:
		block.Height = verifU64("blockHeight")
		block.PreviousBlockHash = verifC24Hash("parent")
		verifAssume(block.PreviousBlockHash != st.WorkHash)
	case 1:
		block.Height = st.WorkHeight + 1
		block.PreviousBlockHash = st.WorkHash
	default:
		verifAssume(st.BestHeight >= 1)
		block.Height = st.BestHeight
		block.PreviousBlockHash = verifC24Hash("parent")
	}

	// wallet table before the call: the spent output is the wallet's; for a
	// detach the block has been attached before
	u := &account.UTXO{OutputID: prevID, SourceID: bc.Hash{V0: 1}, AssetID: btm, Amount: inAmount, SourcePos: 1,
		ControlProgram: verifC24ProgA, AccountID: "acc-a", Address: "addr-acc-a", ControlProgramIndex: 5}
	data, _ := json.Marshal(u)
	db.Set(account.StandardUTXOKey(prevID), data)
	if mode == 2 {
		batch := db.NewBatch()
		w.attachUtxos(batch, block)
		batch.Write()
	}
	before := [2]bool{verifC24Get(db, prevID).present, verifC24Get(db, outID).present}

	var err error
	if mode == 2 {
		err = w.DetachBlock(block)
	} else {
		err = w.AttachBlock(block)
	}
	verifAssert(err == nil, "block-call-succeeds")
	after := [2]bool{verifC24Get(db, prevID).present, verifC24Get(db, outID).present}
	now := w.status
	verifObserveU64("workHeight", now.WorkHeight)
	verifObserveU64("bestHeight", now.BestHeight)
	verifObserveBool("spentRecord", after[0])
	verifObserveBool("createdRecord", after[1])

	switch mode {
	case 0:
		// (a) a block that does not extend the work block changes nothing
		verifAssert(after[0] == before[0], "stale-attach-deletes-nothing")
		verifAssert(after[1] == before[1], "stale-attach-records-nothing")
		verifAssert(now == st, "stale-attach-keeps-status")
		verifReach("VerifC24Blocks:stale-attach")
	case 1:
		// (b) the child of the work block
		verifAssert(!after[0], "attach-removes-spent-output")
		verifAssert(after[1] == (outAmount != 0), "attach-records-exactly-the-wallet-outputs")
		verifAssert(now.WorkHeight == block.Height, "attach-moves-work-to-the-block")
		verifAssert(now.WorkHash == block.Hash(), "attach-moves-work-to-the-block")
		if block.Height >= st.BestHeight {
			verifAssert(now.BestHeight == block.Height, "attach-moves-best-only-forward")
			verifAssert(now.BestHash == block.Hash(), "attach-moves-best-only-forward")
		} else {
			verifAssert(now.BestHeight == st.BestHeight, "attach-moves-best-only-forward")
			verifAssert(now.BestHash == st.BestHash, "attach-moves-best-only-forward")
		}
		verifReach("VerifC24Blocks:child-attach")
	default:
		// (c) detach of the best block
		verifAssert(after[0], "detach-restores-exactly-the-wallet-outputs")
		verifAssert(!after[1], "detach-removes-created-outputs")
		verifAssert(now.BestHeight == block.Height-1, "detach-sets-best-to-the-parent")
		verifAssert(now.BestHash == block.PreviousBlockHash, "detach-sets-best-to-the-parent")
		verifAssert(now.WorkHeight <= st.WorkHeight, "detach-never-moves-work-forward")
		if st.WorkHeight > now.BestHeight {
			verifAssert(now.WorkHeight == now.BestHeight, "detach-pulls-work-back-to-best")
			verifAssert(now.WorkHash == now.BestHash, "detach-pulls-work-back-to-best")
		} else {
			verifAssert(now.WorkHeight == st.WorkHeight, "detach-keeps-work-below-best")
			verifAssert(now.WorkHash == st.WorkHash, "detach-keeps-work-below-best")
		}
		verifReach("VerifC24Blocks:detach")
	}
}
