package database

// C10: the persisted UTXO set and contract table are a function of the main
// chain only. Algebraic step: for an arbitrary persisted state S and an
// arbitrary block b that attaches on S,
//   (1) attach(S, b) is what a replay from genesis would hold (reference model),
//   (2) detach(attach(S, b), b) == S                     (round trip through the store),
//   (3) one reorganisation view: detach b, attach sibling b'  ==  attach(S, b')
// observed through the real getUtxo / getContract. The code under test is the
// real state.UtxoViewpoint / state.ContractViewpoint, the real
// getTransactionsUtxo, every commit through the real Store.SaveChainStatus
// (saveUtxoView, deleteContractView, saveContractView in its own order, one
// batch), and the real MemDB backend with its batch.

//verif:property C10 C13
//verif:bound utxo: pre-state of 2 pre-existing outputs, each absent or {type in 0..2, creation height < block height, spent}; block height in [1, 2^62); block = coinbase tx (1 output) + 1..2 ordinary txs (inputs x outputs per ordinary tx; quick: 1 tx of 1x1, 2x1 or 1x2, and 2 txs of 1x1; thorough adds 1 tx of 2x2 and 2 txs of 1x2; 2 txs of 2x1 would need more than 2 pre-existing outputs to attach and are not covered); every input spends a pre-existing output or an output of an earlier ordinary tx of the block (double spends included; by symmetry of the two pre-existing outputs the very first input spends number 0); every output is original / vote / retirement with arbitrary amount (0 included)
//verif:bound reorganisation view: block b and sibling b' at the same height over 2 pre-existing outputs, one ordinary tx each with 1 input (quick) / 2 inputs (thorough) and 1 output; b' has its own tx or confirms b's tx again
//verif:bound contracts: one contract hash slot; pre-state absent or registered by an earlier tx; contract bodies X, Y of 2 arbitrary bytes (Y == X possible); block of 2 txs each registering X, Y or nothing; sibling block likewise, optionally confirming one tx of b again
//verif:assume output ids and tx ids are pairwise different concrete hashes (they are collision-free hashes in the real system); the outputs a block creates do not exist in the pre-state
//verif:assume persisted pre-state is one saveUtxoView can have written: a spent entry is persisted only for coinbase outputs; creation heights are below the height of the block
//verif:assume the output entry a transaction carries for a prevout has the kind of the output that was created (output ids commit to the entry kind): vote utxo <-> *bc.VoteOutput, normal and coinbase utxo <-> *bc.OriginalOutput
//verif:assume solver side: proto.Marshal / proto.Unmarshal of storage.UtxoEntry replaced by a 13-byte handle codec (type, height, spent); the native replay uses real protobuf
//verif:assume sha3 of the contract body and the block header hash are uninterpreted collision-free functions; solver side: json.Marshal of the chain status record (written by SaveChainStatus, never read here) is an opaque constant
//verif:outside Chain.reorganizeChain / calcReorganizeChain as a whole, the chain status record and main-chain index part of Store.SaveChainStatus (no main-chain headers are passed; see C21), setState write ordering, GoLevelDB, acceptance of a probe block through Chain.ProcessBlock (only the utxo spend rule applySpendUtxo is probed)
//verif:override github.com/golang/protobuf/proto.Marshal -> verifC10Marshal
//verif:override github.com/golang/protobuf/proto.Unmarshal -> verifC10Unmarshal
//verif:override encoding/json.Marshal -> verifC10StatusJSON
//verif:obligation fn=VerifC10RoundTrip args=1,1,1,-1 validate=12
//verif:obligation fn=VerifC10RoundTrip args=1,2,1,-1;1,1,2,0;1,1,2,1;1,1,2,2;2,1,1,0;2,1,1,1;2,1,1,2
//verif:obligation fn=VerifC10RoundTrip args=1,2,2,0;1,2,2,1;1,2,2,2;2,1,2,0;2,1,2,1;2,1,2,2 tier=thorough secs=6000 paths=2000000
//verif:obligation fn=VerifC10Verdict validate=30
//verif:obligation fn=VerifC10Reorg args=1,0,0;1,1,0;1,2,0;1,0,1;1,1,1 validate=12
//verif:obligation fn=VerifC10Reorg args=1,2,1
//verif:obligation fn=VerifC10Reorg args=2,0,0;2,1,0;2,2,0;2,0,1;2,1,1;2,2,1 tier=thorough secs=3000 paths=2000000
//verif:obligation fn=VerifC10Contracts validate=12
//verif:obligation property=C13 fn=VerifC13Batch validate=12

import (
	"bytes"

	"github.com/golang/protobuf/proto"

	"github.com/bytom/bytom/crypto/sha3pool"
	dbm "github.com/bytom/bytom/database/leveldb"
	"github.com/bytom/bytom/database/storage"
	"github.com/bytom/bytom/protocol/bc"
	"github.com/bytom/bytom/protocol/bc/types"
	"github.com/bytom/bytom/protocol/state"
)

// the chain status record SaveChainStatus writes next to the views is not read here
func verifC10StatusJSON(v interface{}) ([]byte, error) {
	if _, ok := v.(state.BlockStoreState); !ok {
		panic("verif: json.Marshal stub: unexpected type")
	}
	return []byte{0xc3}, nil
}

// ---- handle codec for storage.UtxoEntry (solver side only) ----------------

func verifC10Marshal(pb proto.Message) ([]byte, error) {
	e := pb.(*storage.UtxoEntry)
	b := make([]byte, 13)
	for i := 0; i < 4; i++ {
		b[i] = byte(e.Type >> (8 * uint(i)))
	}
	for i := 0; i < 8; i++ {
		b[4+i] = byte(e.BlockHeight >> (8 * uint(i)))
	}
	if e.Spent {
		b[12] = 1
	}
	return b, nil
}

func verifC10Unmarshal(buf []byte, pb proto.Message) error {
	e := pb.(*storage.UtxoEntry)
	e.Type, e.BlockHeight = 0, 0
	for i := 0; i < 4; i++ {
		e.Type |= uint32(buf[i]) << (8 * uint(i))
	}
	for i := 0; i < 8; i++ {
		e.BlockHeight |= uint64(buf[4+i]) << (8 * uint(i))
	}
	e.Spent = buf[12] == 1
	return nil
}

// ---- block builder --------------------------------------------------------

const (
	verifC10Orig   = 0
	verifC10Vote   = 1
	verifC10Retire = 2
)

func verifC10PreID(i int) bc.Hash { return bc.Hash{V0: 0xc10, V1: uint64(i)} }
func verifC10OutID(tag, tx, j int) bc.Hash {
	return bc.Hash{V0: 0xc10, V1: uint64(1000*tag + 10*tx + j), V2: 1}
}
func verifC10TxID(tag, tx int) bc.Hash { return bc.Hash{V0: 0x7c10, V1: uint64(10*tag + tx)} }

func verifC10Entry(kind int, amount uint64) bc.Entry {
	src := &bc.ValueSource{Value: &bc.AssetAmount{Amount: amount}}
	switch kind {
	case verifC10Orig:
		return &bc.OriginalOutput{Source: src}
	case verifC10Vote:
		return &bc.VoteOutput{Source: src}
	}
	return &bc.Retirement{Source: src}
}

// a spendable candidate: its id and the kind of entry a spender carries for it
type verifC10Cand struct {
	id   bc.Hash
	vote bool
}

type verifC10Made struct {
	id       bc.Hash
	kind     int
	amount   uint64
	coinbase bool
}

type verifC10Block struct {
	b     *bc.Block
	spent []bc.Hash
	made  []verifC10Made
}

// verifC10Build builds a block of a coinbase transaction plus nTx ordinary
// transactions. tag separates the ids of sibling blocks.
func verifC10Build(tag int, height uint64, pool []verifC10Cand, nTx, nIn, nOut, sel int) *verifC10Block {
	vb := &verifC10Block{b: &bc.Block{BlockHeader: &bc.BlockHeader{Height: height}}}
	cands := append([]verifC10Cand{}, pool...)
	for t := 0; t <= nTx; t++ {
		tx := &bc.Tx{TxHeader: &bc.TxHeader{}, ID: verifC10TxID(tag, t), Entries: map[bc.Hash]bc.Entry{}}
		ins, outs := 0, 1
		if t > 0 {
			ins, outs = nIn, nOut
		}
		for i := 0; i < ins; i++ {
			c := cands[0] // the first input of block b spends pre-existing output 0 (0 and 1 are interchangeable)
			if tag != 0 || t != 1 || i != 0 {
				c = cands[verifChoice("spend", len(cands))]
			}
			tx.SpentOutputIDs = append(tx.SpentOutputIDs, c.id)
			if c.vote {
				tx.Entries[c.id] = verifC10Entry(verifC10Vote, 1)
			} else {
				tx.Entries[c.id] = verifC10Entry(verifC10Orig, 1)
			}
			vb.spent = append(vb.spent, c.id)
		}
		var made []verifC10Cand
		for j := 0; j < outs; j++ {
			kind := verifC10Orig
			if t == 1 && j == 0 && sel >= 0 {
				kind = sel // this obligation covers one kind for the first output
			} else if t > 0 {
				kind = verifChoice("outKind", 3)
			}
			amount := verifU64("amount")
			id := verifC10OutID(tag, t, j)
			idc := id
			tx.ResultIds = append(tx.ResultIds, &idc)
			tx.Entries[id] = verifC10Entry(kind, amount)
			vb.made = append(vb.made, verifC10Made{id: id, kind: kind, amount: amount, coinbase: t == 0})
			if kind != verifC10Retire && t > 0 {
				made = append(made, verifC10Cand{id: id, vote: kind == verifC10Vote})
			}
		}
		cands = append(cands, made...)
		vb.b.Transactions = append(vb.b.Transactions, tx)
	}
	return vb
}

// ---- persisted state ------------------------------------------------------

type verifC10Snap struct {
	present bool
	typ     uint32
	height  uint64
	spent   bool
}

func verifC10Get(db dbm.DB, id bc.Hash) verifC10Snap {
	e, err := getUtxo(db, &id)
	if err != nil {
		return verifC10Snap{}
	}
	return verifC10Snap{true, e.Type, e.BlockHeight, e.Spent}
}

// verifC10PreState declares an arbitrary persisted record for each of n
// pre-existing outputs (nothing is written yet) and returns the spend
// candidates (id + entry kind carried by a spender). saveUtxoView never
// persists a spent entry unless it is a coinbase entry.
type verifC10Pre struct {
	id      bc.Hash
	typ     uint32
	height  uint64
	spent   bool
	present bool
}

func verifC10PreState(n int, height uint64) ([]verifC10Pre, []verifC10Cand) {
	var pre []verifC10Pre
	var pool []verifC10Cand
	for i := 0; i < n; i++ {
		p := verifC10Pre{verifC10PreID(i), verifU32("pre.type"), verifU64("pre.height"), verifBool("pre.spent"), verifBool("pre.present")}
		verifAssume(p.typ <= 2)
		verifAssume(p.height < height)
		verifAssume(!p.spent || p.typ == storage.CoinbaseUTXOType)
		pre = append(pre, p)
		pool = append(pool, verifC10Cand{id: p.id, vote: p.typ == storage.VoteUTXOType})
	}
	return pre, pool
}

// verifC10Persist writes the pre-state of the outputs the blocks refer to (all
// of them when all is set) into every database.
func verifC10Persist(pre []verifC10Pre, all bool, blocks []*verifC10Block, dbs ...dbm.DB) {
	for _, p := range pre {
		used := all
		for _, vb := range blocks {
			for _, s := range vb.spent {
				if s == p.id {
					used = true
				}
			}
		}
		if used && p.present {
			for _, db := range dbs {
				data, _ := proto.Marshal(storage.NewUtxoEntry(p.typ, p.height, p.spent))
				db.Set(CalcUtxoKey(&p.id), data)
			}
		}
	}
}

func verifC10Attach(db dbm.DB, view *state.UtxoViewpoint, b *bc.Block) error {
	if err := getTransactionsUtxo(db, view, b.Transactions); err != nil {
		return err
	}
	return view.ApplyBlock(b)
}

func verifC10Detach(db dbm.DB, view *state.UtxoViewpoint, b *bc.Block) error {
	if err := getTransactionsUtxo(db, view, b.Transactions); err != nil {
		return err
	}
	return view.DetachBlock(b)
}

// verifC10Status commits a utxo view and a contract view the way the chain
// does: through the real Store.SaveChainStatus (one batch: utxo view, contract
// deletions, contract registrations, chain status record).
func verifC10Status(db dbm.DB, view *state.UtxoViewpoint, contracts *state.ContractViewpoint) {
	tip := &types.BlockHeader{Version: 1, Height: 1}
	fin := bc.Hash{V0: 0xf1}
	if err := NewStore(db).SaveChainStatus(tip, nil, view, contracts, 0, &fin); err != nil {
		panic("verif: SaveChainStatus failed")
	}
}

func verifC10Commit(db dbm.DB, view *state.UtxoViewpoint) {
	verifC10Status(db, view, state.NewContractViewpoint())
}

// verifC10Same asserts that two persisted records of one output are the same
// as far as the property goes: existence, spent flag, type, and the creation
// height of coinbase / vote outputs (their maturity / lock). VerifC10Verdict
// shows that records equal in this sense get the same verdict from the
// consensus spend rule at every height.
func verifC10Same(want, got verifC10Snap, pfx string) {
	if want == got {
		return
	}
	verifAssert(want.present == got.present, pfx+"-same-outputs-exist")
	if !want.present || !got.present {
		return
	}
	verifAssert(want.spent == got.spent, pfx+"-same-spent-flag")
	verifAssert(want.typ == got.typ, pfx+"-same-utxo-type")
	verifKnown("KF-C10-DETACH-HEIGHT", want.typ == storage.VoteUTXOType && !want.spent && got.height == 0 && want.height != 0)
	if want.typ != storage.NormalUTXOType {
		verifAssert(want.height == got.height, pfx+"-same-maturity-height")
	}
}

// consensus' verdict on spending an output with this persisted record in a block at height h
func verifC10Spendable(s verifC10Snap, h uint64) bool {
	if !s.present {
		return false
	}
	id := bc.Hash{V0: 0xbeef}
	view := state.NewUtxoViewpoint()
	view.Entries[id] = storage.NewUtxoEntry(s.typ, s.height, s.spent)
	spender := &bc.Tx{SpentOutputIDs: []bc.Hash{id}, TxHeader: &bc.TxHeader{}}
	return view.ApplyTransaction(&bc.Block{BlockHeader: &bc.BlockHeader{Height: h}}, spender) == nil
}

// VerifC10Verdict: two arbitrary records that verifC10Same accepts as equal
// are accepted / rejected alike by the real spend rule at any height.
func VerifC10Verdict() {
	var r [2]verifC10Snap
	for i := range r {
		r[i] = verifC10Snap{verifBool("present"), verifU32("type"), verifU64("height"), verifBool("spent")}
		verifAssume(r[i].typ <= 2 && r[i].height < 1<<62)
	}
	verifAssume(r[0].present == r[1].present && r[0].spent == r[1].spent && r[0].typ == r[1].typ)
	verifAssume(r[0].typ == storage.NormalUTXOType || r[0].height == r[1].height)
	probe := verifU64("probe")
	verifAssume(probe < 1<<62)
	a, b := verifC10Spendable(r[0], probe), verifC10Spendable(r[1], probe)
	verifObserveBool("a", a)
	verifObserveBool("b", b)
	verifAssert(a == b, "equal-records-same-spend-verdict")
	if a {
		verifReach("VerifC10Verdict:accepted")
	} else {
		verifReach("VerifC10Verdict:rejected")
	}
}

func VerifC10RoundTrip(nTx int, nIn int, nOut int, sel int) {
	height := verifU64("height")
	verifAssume(height >= 1 && height < 1<<62)
	db := dbm.NewMemDB()
	pre, pool := verifC10PreState(2, height)
	vb := verifC10Build(0, height, pool, nTx, nIn, nOut, sel)
	verifC10Persist(pre, nTx*nIn == 1, []*verifC10Block{vb}, db)

	var ids []bc.Hash
	for _, c := range pool {
		ids = append(ids, c.id)
	}
	for _, m := range vb.made {
		ids = append(ids, m.id)
	}
	var orig []verifC10Snap
	for _, id := range ids {
		orig = append(orig, verifC10Get(db, id))
	}

	// attach
	v1 := state.NewUtxoViewpoint()
	if err := verifC10Attach(db, v1, vb.b); err != nil {
		verifReach("VerifC10RoundTrip:block-rejected")
		return
	}
	verifC10Commit(db, v1)
	verifReach("VerifC10RoundTrip:attached")

	// (1) reference model of the attached state
	for i, id := range ids {
		after := verifC10Get(db, id)
		nSpent := 0
		for _, s := range vb.spent {
			if s == id {
				nSpent++
			}
		}
		verifAssert(nSpent <= 1, "attach-no-double-spend")
		if i < len(pool) {
			if nSpent == 0 {
				verifAssert(after == orig[i], "attach-untouched-output-unchanged")
			} else {
				verifAssert(orig[i].present, "attach-spends-only-existing-outputs")
				verifAssert(!orig[i].spent, "attach-spends-only-unspent-outputs")
				if after.present {
					verifAssert(after.spent, "attach-spent-output-not-spendable")
					verifAssert(after.typ == storage.CoinbaseUTXOType, "attach-only-spent-coinbase-kept")
					verifAssert(after.typ == orig[i].typ, "attach-spent-coinbase-type-kept")
					verifAssert(after.height == orig[i].height, "attach-spent-coinbase-height-kept")
				}
			}
			continue
		}
		m := vb.made[i-len(pool)]
		if m.kind == verifC10Retire || m.amount == 0 || nSpent == 1 {
			verifAssert(!after.present, "attach-no-utxo-for-retired-empty-or-spent-output")
			continue
		}
		wantType := storage.NormalUTXOType
		if m.coinbase {
			wantType = storage.CoinbaseUTXOType
		} else if m.kind == verifC10Vote {
			wantType = storage.VoteUTXOType
		}
		verifAssert(after.present, "attach-created-output-exists")
		verifAssert(!after.spent, "attach-created-output-unspent")
		verifAssert(after.typ == wantType, "attach-created-output-type")
		verifAssert(after.height == height, "attach-created-output-height")
	}

	// (2) detach restores the persisted state
	v2 := state.NewUtxoViewpoint()
	err := verifC10Detach(db, v2, vb.b)
	verifAssert(err == nil, "detach-of-attached-block-succeeds")
	if err != nil {
		return
	}
	verifC10Commit(db, v2)
	for i, id := range ids {
		got := verifC10Get(db, id)
		verifObserveBool("present", got.present)
		verifObserveU64("type", uint64(got.typ))
		verifObserveU64("height", got.height)
		verifC10Same(orig[i], got, "detach")
	}
	verifReach("VerifC10RoundTrip:end")
}

// VerifC10Reorg: (3) one reorganisation view as Chain.reorganizeChain builds
// it (detach b, then attach the sibling b' in the same view, one commit)
// against attaching b' directly on the state before b.
func VerifC10Reorg(nIn int, sel int, keep int) {
	height := verifU64("height")
	verifAssume(height >= 1 && height < 1<<62)
	db, ref := dbm.NewMemDB(), dbm.NewMemDB()
	pre, pool := verifC10PreState(2, height)
	vb := verifC10Build(0, height, pool, 1, nIn, 1, sel)
	var vs *verifC10Block
	if keep == 1 {
		// the sibling block confirms the same ordinary transaction
		vs = verifC10Build(1, height, pool, 0, 0, 0, -1)
		vs.b.Transactions = append(vs.b.Transactions, vb.b.Transactions[1])
		vs.made = append(vs.made, vb.made[1])
		vs.spent = vb.spent
	} else {
		vs = verifC10Build(1, height, pool, 1, nIn, 1, -1)
	}
	verifC10Persist(pre, false, []*verifC10Block{vb, vs}, db, ref)

	v1 := state.NewUtxoViewpoint()
	if err := verifC10Attach(db, v1, vb.b); err != nil {
		return
	}
	verifC10Commit(db, v1)

	// reference: b' attached on the state before b
	vr := state.NewUtxoViewpoint()
	refErr := verifC10Attach(ref, vr, vs.b)
	if refErr == nil {
		verifC10Commit(ref, vr)
	}

	// the reorganisation
	view := state.NewUtxoViewpoint()
	err := verifC10Detach(db, view, vb.b)
	verifAssert(err == nil, "reorg-detach-succeeds")
	if err != nil {
		return
	}
	err = verifC10Attach(db, view, vs.b)
	verifObserveBool("siblingRejected", err != nil)
	verifAssert((err == nil) == (refErr == nil), "reorg-sibling-accepted-iff-accepted-without-history")
	if err != nil || refErr != nil {
		verifReach("VerifC10Reorg:sibling-rejected")
		return
	}
	verifC10Commit(db, view)

	var ids []bc.Hash
	for _, c := range pool {
		ids = append(ids, c.id)
	}
	for _, m := range vb.made {
		ids = append(ids, m.id)
	}
	for _, m := range vs.made {
		ids = append(ids, m.id)
	}
	for _, id := range ids {
		got := verifC10Get(db, id)
		verifObserveBool("present", got.present)
		verifObserveU64("type", uint64(got.typ))
		verifObserveU64("height", got.height)
		verifC10Same(verifC10Get(ref, id), got, "reorg")
	}
	verifReach("VerifC10Reorg:end")
}

// ---- contract table -------------------------------------------------------

func verifC10Program(contract []byte) []byte {
	// OP_FAIL, OP_DATA_4 "bcrp", OP_DATA_1 0x01, OP_DATA_n contract
	p := []byte{0x6a, 0x04, 'b', 'c', 'r', 'p', 0x01, 0x01, byte(len(contract))}
	return append(p, contract...)
}

// a transaction with one output: a registration of contract (or an ordinary
// output when contract is nil)
func verifC10RegTx(n uint64, contract []byte) *types.Tx {
	prog := []byte{0x51}
	if contract != nil {
		prog = verifC10Program(contract)
	}
	out := types.NewOriginalTxOutput(bc.AssetID{V0: 1}, 1, prog, nil)
	return &types.Tx{TxData: types.TxData{Outputs: []*types.TxOutput{out}}, Tx: &bc.Tx{ID: bc.Hash{V0: 0x7c10, V1: n}}}
}

func verifC10ContractHash(contract []byte) (h [32]byte) {
	sha3pool.Sum256(h[:], contract)
	return h
}

func verifC10CommitContracts(db dbm.DB, view *state.ContractViewpoint) {
	verifC10Status(db, state.NewUtxoViewpoint(), view)
}

// verifC10RegBlock: two transactions, each registering X, Y or nothing
func verifC10RegBlock(firstTx uint64, x, y []byte) *types.Block {
	b := &types.Block{}
	for i := uint64(0); i < 2; i++ {
		var c []byte
		switch verifChoice("registers", 3) {
		case 1:
			c = x
		case 2:
			c = y
		}
		b.Transactions = append(b.Transactions, verifC10RegTx(firstTx+i, c))
	}
	return b
}

func verifC10SameContract(db, ref dbm.DB, h [32]byte, label string) {
	got, gotErr := getContract(db, h)
	want, wantErr := getContract(ref, h)
	verifObserveBool("registered", gotErr == nil)
	verifAssert((gotErr == nil) == (wantErr == nil), label+"-same-contracts-registered")
	if gotErr == nil && wantErr == nil {
		verifAssert(bytes.Equal(got, want), label+"-same-contract-code")
	}
	// the registering transaction (first 32 bytes of the record) decides
	// whether a later detach may remove the contract
	verifAssert(bytes.Equal(db.Get(CalcContractKey(h)), ref.Get(CalcContractKey(h))), label+"-same-registering-tx")
}

// VerifC10Contracts: contract table under attach, detach and a
// reorganisation view (detach b + attach sibling b' in one commit).
func VerifC10Contracts() {
	x := verifBytesN("x", 2)
	y := verifBytesN("y", 2)
	hx, hy := verifC10ContractHash(x), verifC10ContractHash(y)

	// db: the node that goes through b and the reorganisation; ref0: the state
	// before b; ref: b' attached without history
	db, ref0, ref := dbm.NewMemDB(), dbm.NewMemDB(), dbm.NewMemDB()
	if verifBool("pre.x") {
		// X registered by an earlier transaction of the main chain
		rec := append(bc.Hash{V0: 0x7c10, V1: 99}.Bytes(), x...)
		for _, d := range []dbm.DB{db, ref0, ref} {
			d.Set(CalcContractKey(hx), rec)
		}
	}

	b := verifC10RegBlock(10, x, y)
	s := verifC10RegBlock(20, x, y)
	if k := verifChoice("siblingKeepsTx", 3); k > 0 {
		// the sibling confirms one of the transactions of b again
		s.Transactions[1] = b.Transactions[k-1]
	}

	// attach b
	v1 := state.NewContractViewpoint()
	if err := v1.ApplyBlock(b); err != nil {
		panic("verif: contract ApplyBlock failed")
	}
	verifC10CommitContracts(db, v1)

	switch verifChoice("then", 2) {
	case 0:
		// (2) detach b: back to the state before b
		v2 := state.NewContractViewpoint()
		if err := v2.DetachBlock(b); err != nil {
			panic("verif: contract DetachBlock failed")
		}
		verifC10CommitContracts(db, v2)
		verifC10SameContract(db, ref0, hx, "detach")
		verifC10SameContract(db, ref0, hy, "detach")
		verifReach("VerifC10Contracts:detached")
	case 1:
		// (3) reorganisation to the sibling in one view
		vr := state.NewContractViewpoint()
		if err := vr.ApplyBlock(s); err != nil {
			panic("verif: contract ApplyBlock failed")
		}
		verifC10CommitContracts(ref, vr)

		view := state.NewContractViewpoint()
		if err := view.DetachBlock(b); err != nil {
			panic("verif: contract DetachBlock failed")
		}
		if err := view.ApplyBlock(s); err != nil {
			panic("verif: contract ApplyBlock failed")
		}
		verifC10CommitContracts(db, view)
		verifC10SameContract(db, ref, hx, "reorg")
		verifC10SameContract(db, ref, hy, "reorg")
		verifReach("VerifC10Contracts:reorganised")
	}
}

// ---------------------------------------------------------------------------
// C13 (spending rules at attach), several blocks connected through ONE view as
// reorganizeChain does: an output spent by an earlier block of the batch must
// not be spendable again by a later block of the same batch.

func VerifC13Batch() {
	h := verifU64("height")
	verifAssume(h >= 1 && h < 1<<62)
	pre, pool := verifC10PreState(1, h)
	db := dbm.NewMemDB()
	mk := func(tag int, height uint64) *bc.Block {
		tx := &bc.Tx{TxHeader: &bc.TxHeader{}, ID: verifC10TxID(tag, 1), Entries: map[bc.Hash]bc.Entry{}}
		c := pool[0]
		tx.SpentOutputIDs = append(tx.SpentOutputIDs, c.id)
		if c.vote {
			tx.Entries[c.id] = verifC10Entry(verifC10Vote, 1)
		} else {
			tx.Entries[c.id] = verifC10Entry(verifC10Orig, 1)
		}
		id := verifC10OutID(tag, 1, 0)
		tx.ResultIds = append(tx.ResultIds, &id)
		tx.Entries[id] = verifC10Entry(verifC10Orig, 7)
		return &bc.Block{BlockHeader: &bc.BlockHeader{Height: height}, Transactions: []*bc.Tx{tx}}
	}
	a, b := mk(0, h), mk(1, h+1)
	for _, p := range pre {
		if p.present {
			data, _ := proto.Marshal(storage.NewUtxoEntry(p.typ, p.height, p.spent))
			db.Set(CalcUtxoKey(&p.id), data)
		}
	}
	view := state.NewUtxoViewpoint()
	errA := verifC10Attach(db, view, a)
	verifObserveBool("errA", errA != nil)
	if errA == nil {
		errB := verifC10Attach(db, view, b)
		verifObserveBool("errB", errB != nil)
		verifAssert(errB != nil, "output-spent-earlier-in-the-batch-is-not-spendable-again")
		verifReach("VerifC13Batch:first-spend-accepted")
	}
	verifReach("VerifC13Batch:end")
}
