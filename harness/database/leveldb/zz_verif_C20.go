package leveldb

// C20: the in-memory backend (MemDB) and the LevelDB backend (GoLevelDB, the
// Bytom-side wrapper of go_level_db.go) are interchangeable. The real code of
// both wrappers is executed on the same arbitrary short history of writes
// (set, delete, batch of two writes); then the same reads are made on both
// and every returned key / value / bool must be equal.
// The third-party goleveldb engine underneath GoLevelDB is replaced, for the
// solver only, by a sorted-key-space contract stub; the native replay opens a
// real goleveldb database in a temporary directory.

//verif:property C20
//verif:bound VerifC20Reads: history of exactly 0, 1 or 2 writes (thorough: 3), as single calls or as one batch of two writes + Write (thorough: 3 single calls for every read; single+batch and batch+single for the Iterator() read); every write is Delete(k), Set(k, nil) or Set(k, v); keys of 0..2 arbitrary bytes, v of 0..1 arbitrary bytes; then one read on both backends: Get of an arbitrary key of 0..2 bytes, Iterator() drained to the end, or IteratorPrefix(p) (p of 0..2 arbitrary bytes) drained to the end
//verif:bound VerifC20Start: IteratorPrefixWithStart(p, start, false), p of 0..2 arbitrary bytes, start nil or exactly 0, 1, 2 arbitrary bytes: Key()/Value() right after creation (as store_checkpoint.go reads them), then drained to the end; after the empty history, any single write, two Set(k, v) calls with start nil, 0 or 1 byte (quick) / any two writes as two calls or one batch, three Set(k, v) calls with 1-byte values (thorough)
//verif:bound VerifC20Reverse (isReverse = true; beyond the property statement, own labels reverse-...): as VerifC20Start after the empty history, one write (start nil or 1 byte), two Set(k, v) of 1-byte values with start nil (quick) / any two writes with start nil, two calls with start of 1 byte (thorough)
//verif:bound VerifC20Rewrite: one batch object per backend with 1..2 writes (Delete / Set nil / Set v, keys 0..2 bytes), Write, then a direct Set or Delete on the DB of one of the batch's keys, then Write of the SAME batch again; then Get of an arbitrary key or Iterator() drained (quick: 1 write of any kind, 2 writes with the kinds listed in the obligations; thorough: any 2 writes)
//verif:bound VerifC20Alias: Set or batch.Set of a 1-byte key and 1-byte value, then the caller overwrites the value buffer (mode 0), key and value buffers before Write (mode 1) or the key buffer (mode 2) with arbitrary bytes; Get(old key), Get(new key) on both backends
//verif:assume goleveldb contract (solver side; the native replay links the real goleveldb): the DB is a map from byte strings to byte strings ordered by bytes.Compare; Put/Delete/Batch.Put/Batch.Delete copy their arguments; Write applies the batch records in order and does not modify the batch (goleveldb: "Write will not modify content of the batch"): a Batch keeps its records until Batch.Reset is called, so writing the same batch again applies them again; Get returns a fresh non-nil copy or (nil, ErrNotFound)
//verif:assume goleveldb iterator contract: NewIterator(r) is a snapshot of the keys in [r.Start, r.Limit) (nil Limit: unbounded), initially before the first key; Seek(k) positions at the first key >= k of the snapshot (false and past-the-end if none); Next from before-the-first goes to the first key, from past-the-end stays (false); Last/Prev symmetric, Prev from past-the-end goes to the last key; Key()/Value() are nil when unpositioned, otherwise a buffer owned by the iterator that is overwritten by the next move; no errors (Error() == nil, Put/Delete/Write succeed)
//verif:assume util.BytesPrefix is executed for real (not stubbed)
//verif:outside everything inside goleveldb (journal, compaction, on-disk tables, snapshots under concurrent writes, I/O errors -> PanicCrisis); writes interleaved with a live iterator (MemDB iterators read values live, goleveldb iterators are snapshots); SetSync/DeleteSync (same code as Set/Delete in MemDB); Print/Stats; the mutexes (single goroutine); node/node.go backend selection (dbm.NewDB is a table lookup); Seek on a dbm.Iterator after its creation; histories of more than 3 writes, keys longer than 2 bytes, values longer than 1 byte
//verif:override github.com/syndtr/goleveldb/leveldb.OpenFile -> verifC20OpenFile
//verif:override (*github.com/syndtr/goleveldb/leveldb.DB).Get -> verifC20DBGet
//verif:override (*github.com/syndtr/goleveldb/leveldb.DB).Put -> verifC20DBPut
//verif:override (*github.com/syndtr/goleveldb/leveldb.DB).Delete -> verifC20DBDelete
//verif:override (*github.com/syndtr/goleveldb/leveldb.DB).Write -> verifC20DBWrite
//verif:override (*github.com/syndtr/goleveldb/leveldb.DB).NewIterator -> verifC20DBNewIterator
//verif:override (*github.com/syndtr/goleveldb/leveldb.DB).Close -> verifC20DBClose
//verif:override (*github.com/syndtr/goleveldb/leveldb.Batch).Put -> verifC20BatchPut
//verif:override (*github.com/syndtr/goleveldb/leveldb.Batch).Delete -> verifC20BatchDelete
//verif:override (*github.com/syndtr/goleveldb/leveldb.Batch).Reset -> verifC20BatchReset
//verif:override io/ioutil.TempDir -> verifC20TempDir
//verif:override os.RemoveAll -> verifC20RemoveAll
//verif:obligation fn=VerifC20Reads args=0,0,0;0,1,0;0,2,0;1,0,0;1,1,0;1,2,0 validate=12
//verif:obligation fn=VerifC20Reads args=2,0,0;2,1,0;2,2,33;11,0,0;11,1,0;11,2,10;11,2,20;11,2,31;11,2,32;11,2,33
//verif:obligation fn=VerifC20Reads args=111,0,110;111,0,120;111,0,130;111,0,210;111,0,220;111,0,230;111,0,310;111,0,320;111,0,330;111,1,0;12,1,0;21,1,0;2,2,10;2,2,20;2,2,31;2,2,32 tier=thorough secs=3000 paths=2000000
//verif:obligation fn=VerifC20Reads args=111,2,111;111,2,112;111,2,113;111,2,121;111,2,122;111,2,123;111,2,131;111,2,132;111,2,133;111,2,211;111,2,212;111,2,213;111,2,221;111,2,222;111,2,223;111,2,231;111,2,232;111,2,233;111,2,311;111,2,312;111,2,313;111,2,321;111,2,322;111,2,323;111,2,331;111,2,332;111,2,333 tier=thorough secs=3000 paths=2000000
//verif:obligation fn=VerifC20Start args=0,0,-1;0,0,1;1,0,-1;1,0,0;1,0,1;1,0,2 validate=12
//verif:obligation fn=VerifC20Start args=11,33,-1;11,33,0;11,33,1
//verif:obligation fn=VerifC20Start args=2,0,-1;2,0,0;2,0,1;2,0,2;11,0,-1;11,0,0;11,0,1;11,0,2;111,444,-1;111,444,0;111,444,1;111,444,2 tier=thorough secs=3000 paths=2000000
//verif:obligation fn=VerifC20Reverse args=0,0,-1;1,0,-1;1,0,1 validate=12
//verif:obligation fn=VerifC20Reverse args=11,44,-1
//verif:obligation fn=VerifC20Reverse args=11,0,-1;2,0,-1;11,0,1 tier=thorough secs=3000 paths=2000000
//verif:obligation fn=VerifC20Rewrite args=1,0,0;1,1,0 validate=12
//verif:obligation fn=VerifC20Rewrite args=2,1,44;2,1,14;2,1,41;2,0,44
//verif:obligation fn=VerifC20Rewrite args=2,0,0;2,1,0 tier=thorough secs=3000 paths=2000000
//verif:obligation fn=VerifC20Alias args=0;1;2 validate=12

import (
	"bytes"
	"io/ioutil"
	"os"

	"github.com/syndtr/goleveldb/leveldb"
	lerrors "github.com/syndtr/goleveldb/leveldb/errors"
	"github.com/syndtr/goleveldb/leveldb/iterator"
	"github.com/syndtr/goleveldb/leveldb/opt"
	"github.com/syndtr/goleveldb/leveldb/util"
)

// ---- goleveldb contract stub (solver side) ---------------------------------

type verifC20KV struct{ k, v []byte }

type verifC20Rec struct {
	b   *leveldb.Batch
	del bool
	k   []byte
	v   []byte
}

var (
	verifC20Live    []verifC20KV // ascending by key, keys unique
	verifC20Pending []verifC20Rec
)

// copy of b (never nil); written so that a symbolic length does not fork
func verifC20Copy(b []byte) []byte {
	c := make([]byte, cap(b))
	copy(c, b[:cap(b)])
	return c[:len(b)]
}

func verifC20TempDir(dir, pattern string) (string, error) { return "verif-c20", nil }
func verifC20RemoveAll(path string) error                 { return nil }

func verifC20OpenFile(path string, o *opt.Options) (*leveldb.DB, error) {
	verifC20Live = nil
	verifC20Pending = nil
	return new(leveldb.DB), nil
}

func verifC20DBClose(db *leveldb.DB) error { return nil }

func verifC20DBGet(db *leveldb.DB, key []byte, ro *opt.ReadOptions) ([]byte, error) {
	for _, e := range verifC20Live {
		if bytes.Equal(e.k, key) {
			return append([]byte{}, e.v...), nil
		}
	}
	return nil, lerrors.ErrNotFound
}

func verifC20Apply(del bool, key, value []byte) {
	out := make([]verifC20KV, 0, len(verifC20Live)+1)
	placed := del
	for _, e := range verifC20Live {
		c := bytes.Compare(e.k, key)
		if c == 0 {
			continue
		}
		if c > 0 && !placed {
			out = append(out, verifC20KV{verifC20Copy(key), verifC20Copy(value)})
			placed = true
		}
		out = append(out, e)
	}
	if !placed {
		out = append(out, verifC20KV{verifC20Copy(key), verifC20Copy(value)})
	}
	verifC20Live = out
}

func verifC20DBPut(db *leveldb.DB, key, value []byte, wo *opt.WriteOptions) error {
	verifC20Apply(false, key, value)
	return nil
}

func verifC20DBDelete(db *leveldb.DB, key []byte, wo *opt.WriteOptions) error {
	verifC20Apply(true, key, nil)
	return nil
}

func verifC20BatchPut(b *leveldb.Batch, key, value []byte) {
	verifC20Pending = append(verifC20Pending, verifC20Rec{b, false, verifC20Copy(key), verifC20Copy(value)})
}

func verifC20BatchDelete(b *leveldb.Batch, key []byte) {
	verifC20Pending = append(verifC20Pending, verifC20Rec{b, true, verifC20Copy(key), nil})
}

func verifC20BatchReset(b *leveldb.Batch) {
	var keep []verifC20Rec
	for _, r := range verifC20Pending {
		if r.b != b {
			keep = append(keep, r)
		}
	}
	verifC20Pending = keep
}

func verifC20DBWrite(db *leveldb.DB, b *leveldb.Batch, wo *opt.WriteOptions) error {
	for _, r := range verifC20Pending {
		if r.b == b {
			verifC20Apply(r.del, r.k, r.v)
		}
	}
	return nil
}

const (
	verifC20SOI = 0 // before the first key
	verifC20EOI = 1 // past the last key
	verifC20At  = 2
)

type verifC20Iter struct {
	kv   []verifC20KV
	dir  int
	pos  int
	kbuf []byte
	vbuf []byte
}

func verifC20DBNewIterator(db *leveldb.DB, slice *util.Range, ro *opt.ReadOptions) iterator.Iterator {
	it := &verifC20Iter{}
	for _, e := range verifC20Live {
		if slice != nil {
			if slice.Start != nil && bytes.Compare(e.k, slice.Start) < 0 {
				continue
			}
			if slice.Limit != nil && bytes.Compare(e.k, slice.Limit) >= 0 {
				continue
			}
		}
		it.kv = append(it.kv, e)
	}
	return it
}

func (it *verifC20Iter) at(i int) bool {
	it.dir, it.pos = verifC20At, i
	// the iterator owns one key and one value buffer and reuses them
	it.kbuf = append(it.kbuf[:0], it.kv[i].k...)
	it.vbuf = append(it.vbuf[:0], it.kv[i].v...)
	return true
}

func (it *verifC20Iter) First() bool {
	if len(it.kv) == 0 {
		it.dir = verifC20EOI
		return false
	}
	return it.at(0)
}

func (it *verifC20Iter) Last() bool {
	if len(it.kv) == 0 {
		it.dir = verifC20SOI
		return false
	}
	return it.at(len(it.kv) - 1)
}

func (it *verifC20Iter) Seek(key []byte) bool {
	for i, e := range it.kv {
		if bytes.Compare(e.k, key) >= 0 {
			return it.at(i)
		}
	}
	it.dir = verifC20EOI
	return false
}

func (it *verifC20Iter) Next() bool {
	n := 0
	switch it.dir {
	case verifC20EOI:
		return false
	case verifC20At:
		n = it.pos + 1
	}
	if n >= len(it.kv) {
		it.dir = verifC20EOI
		return false
	}
	return it.at(n)
}

func (it *verifC20Iter) Prev() bool {
	switch it.dir {
	case verifC20SOI:
		return false
	case verifC20EOI:
		return it.Last()
	}
	if it.pos == 0 {
		it.dir = verifC20SOI
		return false
	}
	return it.at(it.pos - 1)
}

func (it *verifC20Iter) Valid() bool { return it.dir == verifC20At }
func (it *verifC20Iter) Key() []byte {
	if it.dir != verifC20At {
		return nil
	}
	return it.kbuf
}
func (it *verifC20Iter) Value() []byte {
	if it.dir != verifC20At {
		return nil
	}
	return it.vbuf
}
func (it *verifC20Iter) Error() error                 { return nil }
func (it *verifC20Iter) Release()                     { it.kv = nil }
func (it *verifC20Iter) SetReleaser(r util.Releaser) {}

// ---- the two backends and the write history --------------------------------

type verifC20Pair struct {
	mem DB
	ldb DB
	dir string
}

func verifC20Open() *verifC20Pair {
	dir, err := ioutil.TempDir("", "verif-c20")
	if err != nil {
		panic(err)
	}
	ldb, err := NewGoLevelDB("c20", dir)
	if err != nil {
		panic(err)
	}
	return &verifC20Pair{mem: NewMemDB(), ldb: ldb, dir: dir}
}

func (p *verifC20Pair) close() {
	p.mem.Close()
	p.ldb.Close()
	os.RemoveAll(p.dir)
}

func verifC20Key(name string) []byte { return verifBytes(name, 2) }

func verifC20Value() []byte {
	if verifBool("valueNil") {
		return nil
	}
	return verifBytes("value", 1)
}

// a write applied to both backends; the key/value slices handed to the two
// backends are separate copies
type verifC20Write struct {
	del bool
	k   []byte
	v   []byte
}

// kind: 1 = Delete(k), 2 = Set(k, nil), 3 = Set(k, v) with v of 0..1 bytes, 0 = any of
// these three; 4 = Set(k, v) with v of exactly 1 byte (a sub-case of 3)
func verifC20NewWrite(kind int) verifC20Write {
	w := verifC20Write{k: verifC20Key("key")}
	if kind == 0 {
		kind = 1 + verifChoice("write", 3)
	}
	switch kind {
	case 1:
		w.del = true
	case 2:
		w.v = nil
	case 3:
		w.v = verifBytes("value", 1)
	case 4:
		w.v = verifBytesN("value", 1)
	}
	return w
}

func verifC20CopyNil(b []byte) []byte {
	if b == nil {
		return nil
	}
	return verifC20Copy(b)
}

func verifC20Digits(n int) []int {
	var digits []int
	for ; n > 0; n /= 10 {
		digits = append([]int{n % 10}, digits...)
	}
	return digits
}

// verifC20History applies the history described by shape to both backends:
// the decimal digits of shape, most significant first, are 1 = one write
// (Set or Delete), 2 = a batch of two writes followed by Write. The digits of
// kinds give the kind of each write in order (see verifC20NewWrite); kinds = 0
// leaves every kind open.
func verifC20History(p *verifC20Pair, shape int, kinds int) []verifC20Write {
	kd := verifC20Digits(kinds)
	kind := func() int {
		if len(kd) == 0 {
			return 0
		}
		k := kd[0]
		kd = kd[1:]
		return k
	}
	var hist []verifC20Write
	for _, d := range verifC20Digits(shape) {
		if d == 2 {
			w1 := verifC20NewWrite(kind())
			w2 := verifC20NewWrite(kind())
			for _, db := range []DB{p.mem, p.ldb} {
				b := db.NewBatch()
				for _, w := range []verifC20Write{w1, w2} {
					if w.del {
						b.Delete(verifC20Copy(w.k))
					} else {
						b.Set(verifC20Copy(w.k), verifC20CopyNil(w.v))
					}
				}
				b.Write()
			}
			hist = append(hist, w1, w2)
			verifReach("VerifC20Reads:batch")
			continue
		}
		w := verifC20NewWrite(kind())
		for _, db := range []DB{p.mem, p.ldb} {
			if w.del {
				db.Delete(verifC20Copy(w.k))
			} else {
				db.Set(verifC20Copy(w.k), verifC20CopyNil(w.v))
			}
		}
		hist = append(hist, w)
	}
	return hist
}

// verifC20Drain steps both iterators to the end in lockstep and returns the
// keys they yielded (equal on both sides once the assertions passed). The
// slices returned by Key()/Value() are kept and compared after the drain, so
// an iterator handing out its internal buffer is noticed.
func verifC20Drain(a, b Iterator, max int, what string) [][]byte {
	var ka, va, kb, vb [][]byte
	for i := 0; i <= max; i++ {
		na, nb := a.Next(), b.Next()
		verifAssert(na == nb, what+"-next-agree")
		if !na {
			break
		}
		verifAssert(i < max, what+"-terminates")
		ka, va = append(ka, a.Key()), append(va, a.Value())
		kb, vb = append(kb, b.Key()), append(vb, b.Value())
	}
	verifObserveU64(what+"-yielded", uint64(len(ka)))
	for i := range ka {
		verifObserveBytes(what+"-mem-key", ka[i])
		verifObserveBytes(what+"-ldb-key", kb[i])
		verifObserveBytes(what+"-mem-value", va[i])
		verifObserveBytes(what+"-ldb-value", vb[i])
		verifAssert(bytes.Equal(ka[i], kb[i]), what+"-key-equal")
		verifAssert(bytes.Equal(va[i], vb[i]), what+"-value-equal")
	}
	a.Release()
	b.Release()
	return ka
}

func verifC20And(a, b bool) bool { return a && b }
func verifC20Or(a, b bool) bool  { return a || b }

const (
	verifC20ReadGet    = 0
	verifC20ReadIter   = 1
	verifC20ReadPrefix = 2
)

// VerifC20Reads: the history given by shape, then one kind of read on both backends.
func VerifC20Reads(shape int, read int, kinds int) {
	p := verifC20Open()
	hist := verifC20History(p, shape, kinds)
	maxKeys := len(hist)

	switch read {
	case verifC20ReadGet:
		q := verifC20Key("query")
		g1, g2 := p.mem.Get(verifC20Copy(q)), p.ldb.Get(verifC20Copy(q))
		verifObserveBool("memGetNil", g1 == nil)
		verifObserveBool("ldbGetNil", g2 == nil)
		verifObserveBytes("memGet", g1)
		verifObserveBytes("ldbGet", g2)
		// region of KF-C20-NIL-VALUE: the last write to q was Set(q, nil)
		lastNil := false
		for _, w := range hist {
			if bytes.Equal(w.k, q) {
				lastNil = !w.del && w.v == nil
			}
		}
		verifKnown("KF-C20-NIL-VALUE", lastNil)
		verifAssert((g1 == nil) == (g2 == nil), "get-nil-agree")
		verifAssert(bytes.Equal(g1, g2), "get-bytes-equal")
		if g2 != nil {
			verifReach("VerifC20Reads:get-hit")
		} else {
			verifReach("VerifC20Reads:get-miss")
		}

	case verifC20ReadIter:
		keys := verifC20Drain(p.mem.Iterator(), p.ldb.Iterator(), maxKeys, "iter")
		verifObserveU64("liveKeys", uint64(len(keys)))
		if len(keys) >= 2 {
			verifReach("VerifC20Reads:two-live-keys")
		}

	case verifC20ReadPrefix:
		pre := verifC20Key("prefix")
		pk := verifC20Drain(p.mem.IteratorPrefix(verifC20Copy(pre)), p.ldb.IteratorPrefix(verifC20Copy(pre)), maxKeys, "prefix-iter")
		verifObserveU64("prefixKeys", uint64(len(pk)))
		if len(pk) > 0 {
			verifReach("VerifC20Reads:prefix-yields")
		}
	}
	p.close()
}

// VerifC20Start: the history given by shape and kinds, then
// IteratorPrefixWithStart(prefix, start, false) on both backends: Key()/Value()
// right after creation, then drained to the end. startLen = -1: start is nil,
// otherwise start has exactly startLen arbitrary bytes.
func VerifC20Start(shape int, kinds int, startLen int) {
	p := verifC20Open()
	hist := verifC20History(p, shape, kinds)
	maxKeys := len(hist)
	pre := verifC20Key("prefix")
	var start []byte
	if startLen >= 0 {
		start = verifBytesN("start", startLen)
	}
	// the live keys, as both backends report them through Iterator()
	keys := verifC20Drain(p.mem.Iterator(), p.ldb.Iterator(), maxKeys, "iter")

	// region of KF-C20-START-PREFIX: a live key at or after start lacks the prefix
	// region of KF-C20-UNPOSITIONED-VALUE: no live key with the prefix at or after start, and the key "" is live
	stray, positioned, emptyLive := false, false, false
	for _, k := range keys {
		fromStart := verifC20Or(start == nil, bytes.Compare(k, start) >= 0)
		hasPre := bytes.HasPrefix(k, pre)
		stray = verifC20Or(stray, verifC20And(fromStart, !hasPre))
		positioned = verifC20Or(positioned, verifC20And(fromStart, verifC20And(hasPre, start != nil)))
		emptyLive = verifC20Or(emptyLive, len(k) == 0)
	}
	verifKnown("KF-C20-START-PREFIX", stray)
	verifKnown("KF-C20-UNPOSITIONED-VALUE", verifC20And(!positioned, emptyLive))

	a := p.mem.IteratorPrefixWithStart(verifC20Copy(pre), verifC20CopyNil(start), false)
	b := p.ldb.IteratorPrefixWithStart(verifC20Copy(pre), verifC20CopyNil(start), false)
	k1, k2 := a.Key(), b.Key()
	v1, v2 := a.Value(), b.Value()
	verifObserveBytes("memFirstKey", k1)
	verifObserveBytes("ldbFirstKey", k2)
	verifObserveBytes("memFirstValue", v1)
	verifObserveBytes("ldbFirstValue", v2)
	verifAssert(bytes.Equal(k1, k2), "start-iter-first-key-equal")
	verifAssert(bytes.Equal(v1, v2), "start-iter-first-value-equal")
	if positioned {
		verifReach("VerifC20Start:positioned")
	} else {
		verifReach("VerifC20Start:unpositioned")
	}
	rest := verifC20Drain(a, b, maxKeys, "start-iter")
	if len(rest) > 0 {
		verifReach("VerifC20Start:yields-more")
	}
	p.close()
}

// VerifC20Reverse: as VerifC20Start with isReverse = true. Reverse iteration is
// part of the dbm.DB interface but not of the property statement (which speaks
// of forward iterations) and has no caller in the node; its assertions carry
// their own labels (reverse-...).
func VerifC20Reverse(shape int, kinds int, startLen int) {
	p := verifC20Open()
	hist := verifC20History(p, shape, kinds)
	maxKeys := len(hist)
	pre := verifC20Key("prefix")
	var start []byte
	if startLen >= 0 {
		start = verifBytesN("start", startLen)
	}
	keys := verifC20Drain(p.mem.Iterator(), p.ldb.Iterator(), maxKeys, "iter")

	stray, positioned, emptyLive, below := false, false, false, false
	for _, k := range keys {
		fromStart := verifC20Or(start == nil, bytes.Compare(k, start) >= 0)
		hasPre := bytes.HasPrefix(k, pre)
		stray = verifC20Or(stray, verifC20And(fromStart, !hasPre))
		positioned = verifC20Or(positioned, verifC20And(fromStart, verifC20And(hasPre, start != nil)))
		emptyLive = verifC20Or(emptyLive, len(k) == 0)
		below = verifC20Or(below, !fromStart)
	}
	verifKnown("KF-C20-START-PREFIX", stray)
	verifKnown("KF-C20-UNPOSITIONED-VALUE", verifC20And(!positioned, emptyLive))
	// region of KF-C20-REVERSE-START: start given and a live key below it, or two or more live keys
	verifKnown("KF-C20-REVERSE-START", verifC20And(start != nil, verifC20Or(below, len(keys) >= 2)))

	a := p.mem.IteratorPrefixWithStart(verifC20Copy(pre), verifC20CopyNil(start), true)
	b := p.ldb.IteratorPrefixWithStart(verifC20Copy(pre), verifC20CopyNil(start), true)
	k1, k2 := a.Key(), b.Key()
	v1, v2 := a.Value(), b.Value()
	verifObserveBytes("memFirstKey", k1)
	verifObserveBytes("ldbFirstKey", k2)
	verifObserveBytes("memFirstValue", v1)
	verifObserveBytes("ldbFirstValue", v2)
	verifAssert(bytes.Equal(k1, k2), "reverse-iter-first-key-equal")
	verifAssert(bytes.Equal(v1, v2), "reverse-iter-first-value-equal")
	rest := verifC20Drain(a, b, maxKeys, "reverse-iter")
	verifObserveU64("yielded", uint64(len(rest)))
	if len(rest) >= 2 {
		verifReach("VerifC20Reverse:descends-over-two-keys")
	}
	if len(rest) == 0 {
		verifReach("VerifC20Reverse:yields-nothing")
	}
	p.close()
}

// VerifC20Alias: the caller reuses a buffer it has handed to the backend.
//   mode 0: Set(k, v), then v is overwritten, then Get(k)
//   mode 1: batch.Set(k, v), then k and v are overwritten, then Write, then Get(k) and Get(k')
//   mode 2: Set(k, v), then k is overwritten, then Get(k) and Get(k')
// goleveldb documents that arguments may be modified after Put / Batch.Put return.
func VerifC20Alias(mode int) {
	p := verifC20Open()
	k := verifBytesN("key", 1)
	v := verifBytesN("value", 1)
	k2 := verifBytesN("newKey", 1)
	v2 := verifBytesN("newValue", 1)
	var got [2][2][]byte
	for i, db := range []DB{p.mem, p.ldb} {
		kb, vb := verifC20Copy(k), verifC20Copy(v)
		switch mode {
		case 0:
			db.Set(kb, vb)
			vb[0] = v2[0]
		case 1:
			b := db.NewBatch()
			b.Set(kb, vb)
			kb[0], vb[0] = k2[0], v2[0]
			b.Write()
		case 2:
			db.Set(kb, vb)
			kb[0] = k2[0]
		}
		got[i][0] = db.Get(verifC20Copy(k))
		got[i][1] = db.Get(verifC20Copy(k2))
	}
	verifObserveBytes("memGetKey", got[0][0])
	verifObserveBytes("ldbGetKey", got[1][0])
	verifObserveBytes("memGetNewKey", got[0][1])
	verifObserveBytes("ldbGetNewKey", got[1][1])
	// region of KF-C20-ALIAS: a value buffer, or a key/value buffer queued in a batch, changed after the call
	verifKnown("KF-C20-ALIAS", verifC20And(mode != 2, verifC20Or(v[0] != v2[0], verifC20And(mode == 1, k[0] != k2[0]))))
	verifAssert(bytes.Equal(got[0][0], got[1][0]), "alias-get-equal")
	verifAssert((got[0][0] == nil) == (got[1][0] == nil), "alias-get-nil-agree")
	verifAssert(bytes.Equal(got[0][1], got[1][1]), "alias-get-equal")
	verifAssert((got[0][1] == nil) == (got[1][1] == nil), "alias-get-nil-agree")
	verifAssert(got[1][0] != nil, "alias-stored-under-the-key-given")
	verifReach("VerifC20Alias:end")
	p.close()
}

// VerifC20Rewrite: one batch object is written twice with a direct write of
// one of its keys in between. nOps = number of writes queued in the batch
// (1..2), read = 0: Get of an arbitrary key, 1: Iterator() drained; the digits
// of kinds give the kinds of the batch's writes (0 = any).
func VerifC20Rewrite(nOps int, read int, kinds int) {
	p := verifC20Open()
	kd := verifC20Digits(kinds)
	var ws []verifC20Write
	for i := 0; i < nOps; i++ {
		k := 0
		if i < len(kd) {
			k = kd[i]
		}
		ws = append(ws, verifC20NewWrite(k))
	}
	// the direct write between the two Write calls hits one of the batch's keys
	direct := verifC20Write{k: ws[verifChoice("directKey", nOps)].k}
	switch verifChoice("directWrite", 3) {
	case 0:
		direct.del = true
	case 1:
		direct.v = nil
	case 2:
		direct.v = verifBytes("directValue", 1)
	}
	for _, db := range []DB{p.mem, p.ldb} {
		b := db.NewBatch()
		for _, w := range ws {
			if w.del {
				b.Delete(verifC20Copy(w.k))
			} else {
				b.Set(verifC20Copy(w.k), verifC20CopyNil(w.v))
			}
		}
		b.Write()
		if direct.del {
			db.Delete(verifC20Copy(direct.k))
		} else {
			db.Set(verifC20Copy(direct.k), verifC20CopyNil(direct.v))
		}
		b.Write()
	}
	if read == 0 {
		q := verifC20Key("query")
		g1, g2 := p.mem.Get(verifC20Copy(q)), p.ldb.Get(verifC20Copy(q))
		verifObserveBool("memGetNil", g1 == nil)
		verifObserveBool("ldbGetNil", g2 == nil)
		verifObserveBytes("memGet", g1)
		verifObserveBytes("ldbGet", g2)
		verifAssert((g1 == nil) == (g2 == nil), "rewrite-get-nil-agree")
		verifAssert(bytes.Equal(g1, g2), "rewrite-get-bytes-equal")
		if g2 != nil {
			verifReach("VerifC20Rewrite:get-hit")
		}
	} else {
		keys := verifC20Drain(p.mem.Iterator(), p.ldb.Iterator(), nOps, "rewrite-iter")
		if len(keys) > 0 {
			verifReach("VerifC20Rewrite:replayed-key-live")
		}
	}
	p.close()
}
