package database

// C21: checkpoint and header reads through the Store caches equal a fresh
// read from the database, after any short interleaving of reads and saves.
// Real code: Store.GetCheckpoint, Store.GetBlockHeader, Store.SaveCheckpoints,
// cache.lookupCheckPoint / lookupBlockHeader / removeCheckPoint, common.Cache,
// groupcache lru and singleflight, getCheckpointFromDB, calcCheckpointKey, MemDB.

//verif:property C21
//verif:bound VerifC21Checkpoints: 2 block headers (arbitrary height below 2^32, timestamp; 0..2 sup links each) with one checkpoint each (arbitrary status and timestamp); sequences of exactly N operations (quick N = 3, thorough N = 4 and, with 1 sup link, 5), each one of: read checkpoint A, read checkpoint B, read header A, save a new version of checkpoint A (arbitrary status / timestamp); headers served by a harness fill function
//verif:bound VerifC21Headers (real Store from NewStore on a MemDB): one block header (height below 2^32, timestamp below 2^63) whose unhashed part (2-byte witness, 1 or 2 sup links with arbitrary source heights below 2^63) is re-saved with arbitrary new content of the same length, plus its checkpoint; every sequence of N operations (quick N = 3, and 4 with 1 sup link; thorough N = 4 with 2 sup links, 5 with 1) from {GetBlockHeader, SaveBlockHeader of a new version, GetCheckpoint, SaveCheckpoints of a new version (arbitrary status, timestamp, one vote entry), the caller changing status / vote entry / rewards of the checkpoint object it saved last without saving again}
//verif:bound VerifC21MainChain (real Store): two alternative chains of 2 headers at heights 1 and 2 with arbitrary timestamps; every sequence of N operations (quick N = 3, 4; thorough 5, 6) from {GetMainChainHash(1), GetMainChainHash(2), SaveChainStatus switching to the other chain with both headers, listed ascending or descending}
//verif:bound VerifC21HeightIndex (real Store): height 1 with up to N blocks saved one after the other by the real SaveBlock; every sequence of N operations (quick N = 3, 4; thorough 5, 6) from {GetBlockHashesByHeight(1), SaveBlock of a further block at height 1, GetMainChainHash(1), SaveChainStatus putting the first block on the main chain}; the empty index and side-chain-only heights (main-chain read must fail as the database read does) are included
//verif:assume VerifC21Checkpoints only: headers are immutable and served by a harness fill function that returns a fresh copy per call; the checkpoint fill function is the real getCheckpointFromDB on a real MemDB. The other two functions use the real fill functions (GetBlockHeader, GetMainChainHash, getCheckpointFromDB)
//verif:assume solver side: json.Marshal / json.Unmarshal of state.Checkpoint are a handle table that keeps exactly the persisted fields (Parent and SupLinks carry json:"-"), json of the chain status record is an opaque constant, json of the height index ([]*bc.Hash) a handle table of hash values that builds a fresh list per decode; the header / transaction text SaveBlock stores (Block.MarshalTextForBlockHeader / MarshalTextForTransactions) is an opaque constant, not read back here; BlockHeader.MarshalText / UnmarshalText are a lossless handle table that builds fresh objects on every decode (the wire round trip is property C04); bc.Hash.MarshalText / UnmarshalText carry the 32 raw bytes; bc.Hash.String (protobuf text) and hex.EncodeToString (used only to form cache keys) are injective byte encodings; block header hashes are an uninterpreted collision-free function. The native replay uses the real ones
//verif:outside singleflight under real concurrency, LRU eviction (capacities 256..2048 are not reached), the block-transactions cache and GetBlock, reading back the header SaveBlock stores, the utxo / contract part of SaveChainStatus (empty views here), re-saving a header with a different number of sup links, LevelDB
//verif:override encoding/json.Marshal -> verifC21Marshal
//verif:override encoding/json.Unmarshal -> verifC21Unmarshal
//verif:override (*github.com/bytom/bytom/protocol/bc.Hash).String -> verifC21HashString
//verif:override encoding/hex.EncodeToString -> verifC21Hex
//verif:override (*github.com/bytom/bytom/protocol/bc/types.BlockHeader).MarshalText -> verifC21HeaderMarshal
//verif:override (*github.com/bytom/bytom/protocol/bc/types.BlockHeader).UnmarshalText -> verifC21HeaderUnmarshal
//verif:override (github.com/bytom/bytom/protocol/bc.Hash).MarshalText -> verifC21HashMarshal
//verif:override (*github.com/bytom/bytom/protocol/bc.Hash).UnmarshalText -> verifC21HashUnmarshal
//verif:override (*github.com/bytom/bytom/protocol/bc/types.Block).MarshalTextForBlockHeader -> verifC21BlockText
//verif:override (*github.com/bytom/bytom/protocol/bc/types.Block).MarshalTextForTransactions -> verifC21BlockText
//verif:obligation fn=VerifC21Checkpoints args=3,1 validate=10 secs=1800
//verif:obligation fn=VerifC21Checkpoints args=3,0;3,2 secs=1800
//verif:obligation fn=VerifC21Checkpoints args=4,0;4,1;4,2;5,1 tier=thorough secs=3000
//verif:obligation fn=VerifC21Headers args=3,1 validate=40 secs=1800
//verif:obligation fn=VerifC21Headers args=3,2;4,1 secs=1800
//verif:obligation fn=VerifC21Headers args=4,2;5,1 tier=thorough secs=3000
//verif:obligation fn=VerifC21MainChain args=3 validate=20 secs=1800
//verif:obligation fn=VerifC21MainChain args=4 secs=1800
//verif:obligation fn=VerifC21MainChain args=5;6 tier=thorough secs=3000
//verif:obligation fn=VerifC21HeightIndex args=3 validate=20 secs=1800
//verif:obligation fn=VerifC21HeightIndex args=4 secs=1800
//verif:obligation fn=VerifC21HeightIndex args=5;6 tier=thorough secs=3000

import (
	"bytes"
	"errors"

	dbm "github.com/bytom/bytom/database/leveldb"
	"github.com/bytom/bytom/protocol/bc"
	"github.com/bytom/bytom/protocol/bc/types"
	"github.com/bytom/bytom/protocol/state"
)

var verifC21Table []state.Checkpoint

func verifC21CopyMap(m map[string]uint64) map[string]uint64 {
	if m == nil {
		return nil
	}
	c := make(map[string]uint64, len(m))
	for k, v := range m {
		c[k] = v
	}
	return c
}

var verifC21HashLists [][]bc.Hash

func verifC21Marshal(v interface{}) ([]byte, error) {
	switch x := v.(type) {
	case state.BlockStoreState:
		return []byte{0xc3}, nil // chain status record: written by SaveChainStatus, not read here
	case []*bc.Hash:
		// the height index: a list of hash values
		var l []bc.Hash
		for _, h := range x {
			l = append(l, *h)
		}
		verifC21HashLists = append(verifC21HashLists, l)
		return []byte{0xc6, byte(len(verifC21HashLists) - 1)}, nil
	case *state.Checkpoint:
		c := *x
		c.Parent, c.SupLinks = nil, nil // json:"-"
		c.Rewards, c.Votes = verifC21CopyMap(x.Rewards), verifC21CopyMap(x.Votes)
		verifC21Table = append(verifC21Table, c)
		return []byte{0xc2, byte(len(verifC21Table) - 1)}, nil
	}
	panic("verif: json.Marshal stub: unexpected type")
}

func verifC21Unmarshal(data []byte, v interface{}) error {
	switch x := v.(type) {
	case *[]*bc.Hash:
		if len(data) != 2 || data[0] != 0xc6 {
			return errors.New("verif: not a hash list handle")
		}
		l := []*bc.Hash{}
		for _, h := range verifC21HashLists[int(data[1])] {
			hc := h
			l = append(l, &hc)
		}
		*x = l
		return nil
	case *state.Checkpoint:
		if len(data) != 2 || data[0] != 0xc2 {
			return errors.New("verif: not a handle")
		}
		t := verifC21Table[int(data[1])]
		x.Height, x.Hash, x.ParentHash, x.Timestamp, x.Status = t.Height, t.Hash, t.ParentHash, t.Timestamp, t.Status
		x.Rewards, x.Votes = verifC21CopyMap(t.Rewards), verifC21CopyMap(t.Votes)
		return nil
	}
	panic("verif: json.Unmarshal stub: unexpected type")
}

// SaveBlock also stores the header and transaction text of the block; neither is read back here
func verifC21BlockText(b *types.Block) ([]byte, error) { return []byte{0xc5}, nil }

func verifC21HashString(h *bc.Hash) string { return string(h.Bytes()) }

// cache keys only need an injective text form of the database key
func verifC21Hex(b []byte) string { return string(b) }

// block header text form (solver side): a handle table with value semantics,
// every decode builds fresh objects as the real UnmarshalText does
var verifC21HeaderTable []types.BlockHeader

func verifC21CloneHeader(bh *types.BlockHeader) types.BlockHeader {
	c := *bh
	c.BlockWitness = append(types.BlockWitness(nil), bh.BlockWitness...)
	c.SupLinks = nil
	for _, l := range bh.SupLinks {
		lc := *l
		c.SupLinks = append(c.SupLinks, &lc)
	}
	return c
}

func verifC21HeaderMarshal(bh *types.BlockHeader) ([]byte, error) {
	verifC21HeaderTable = append(verifC21HeaderTable, verifC21CloneHeader(bh))
	return []byte{0xc4, byte(len(verifC21HeaderTable) - 1)}, nil
}

func verifC21HeaderUnmarshal(bh *types.BlockHeader, text []byte) error {
	if len(text) != 2 || text[0] != 0xc4 {
		return errors.New("verif: not a header handle")
	}
	*bh = verifC21CloneHeader(&verifC21HeaderTable[int(text[1])])
	return nil
}

// hash text form (solver side): the 32 raw bytes instead of 64 hex digits
func verifC21HashMarshal(h bc.Hash) ([]byte, error) { return h.Bytes(), nil }

func verifC21HashUnmarshal(h *bc.Hash, v []byte) error {
	if len(v) != 32 {
		return errors.New("verif: bad hash length")
	}
	var b [32]byte
	copy(b[:], v)
	*h = bc.NewHash(b)
	return nil
}

type verifC21Node struct {
	header *types.BlockHeader
	hash   bc.Hash
	reads  int // checkpoint reads since the last save
}

func VerifC21Checkpoints(nOps int, nSup int) {
	verifC21Table = nil
	db := dbm.NewMemDB()
	var nodes [2]*verifC21Node
	for i := range nodes {
		h := &types.BlockHeader{Version: 1, Height: verifU64("height"), Timestamp: verifU64("timestamp")}
		verifAssume(h.Height < 1<<32)
		for k := 0; k < nSup; k++ {
			h.SupLinks = append(h.SupLinks, &types.SupLink{SourceHeight: uint64(10*i + k), SourceHash: bc.Hash{V0: uint64(k + 1)}})
		}
		nodes[i] = &verifC21Node{header: h, hash: h.Hash()}
	}
	verifAssume(nodes[0].header.Height != nodes[1].header.Height || nodes[0].header.Timestamp != nodes[1].header.Timestamp)

	headerFills := 0
	fillHeader := func(hash *bc.Hash) (*types.BlockHeader, error) {
		headerFills++
		for _, n := range nodes {
			if n.hash == *hash {
				c := *n.header
				c.SupLinks = append(types.SupLinks{}, n.header.SupLinks...)
				return &c, nil
			}
		}
		return nil, errors.New("verif: no such header")
	}
	fillCheckpoint := func(key []byte) (*state.Checkpoint, error) { return getCheckpointFromDB(db, key) }
	s := &Store{db: db, cache: newCache(fillHeader, nil, nil, nil, fillCheckpoint)}

	save := func(n *verifC21Node) {
		cp := &state.Checkpoint{Height: n.header.Height, Hash: n.hash, Timestamp: verifU64("cp.timestamp"), Status: state.CheckpointStatus(verifU8("cp.status"))}
		if err := s.SaveCheckpoints([]*state.Checkpoint{cp}); err != nil {
			panic("verif: SaveCheckpoints failed")
		}
		n.reads = 0
	}
	save(nodes[0])
	save(nodes[1])

	for op := 0; op < nOps; op++ {
		switch k := verifChoice("op", 4); k {
		case 0, 1:
			n := nodes[k]
			got, err := s.GetCheckpoint(&n.hash)
			verifAssert(err == nil, "checkpoint-read-succeeds")
			if err != nil {
				return
			}
			fresh, ferr := getCheckpointFromDB(db, calcCheckpointKey(n.header.Height, &n.hash))
			if ferr != nil {
				panic("verif: fresh read failed")
			}
			verifObserveU64("status", uint64(got.Status))
			verifObserveU64("suplinks", uint64(len(got.SupLinks)))
			verifAssert(got.Height == fresh.Height && got.Hash == fresh.Hash && got.ParentHash == fresh.ParentHash, "checkpoint-read-equals-fresh-identity")
			verifAssert(got.Timestamp == fresh.Timestamp, "checkpoint-read-equals-fresh-timestamp")
			verifAssert(got.Status == fresh.Status, "checkpoint-read-equals-fresh-status")
			// fresh read: the persisted fields plus the sup links of the header
			verifKnown("KF-C21-SUPLINKS-APPEND", n.reads > 0 && nSup > 0 && len(got.SupLinks) == (n.reads+1)*nSup)
			verifAssert(len(got.SupLinks) == len(n.header.SupLinks), "checkpoint-read-equals-fresh-suplinks")
			for i := 0; nSup > 0 && i < len(got.SupLinks); i++ {
				want := n.header.SupLinks[i%nSup]
				verifAssert(got.SupLinks[i].SourceHeight == want.SourceHeight && got.SupLinks[i].SourceHash == want.SourceHash, "checkpoint-read-suplink-content")
			}
			n.reads++
			verifReach("VerifC21Checkpoints:checkpoint-read")
		case 2:
			n := nodes[0]
			got, err := s.GetBlockHeader(&n.hash)
			verifAssert(err == nil, "header-read-succeeds")
			if err != nil {
				return
			}
			verifAssert(got.Height == n.header.Height && got.Timestamp == n.header.Timestamp && got.Version == n.header.Version, "header-read-equals-fresh")
			verifAssert(len(got.SupLinks) == len(n.header.SupLinks), "header-read-equals-fresh-suplinks")
			verifReach("VerifC21Checkpoints:header-read")
		case 3:
			save(nodes[0])
			verifReach("VerifC21Checkpoints:saved")
		}
	}
	verifObserveU64("headerFills", uint64(headerFills))
}

// ---- real store paths: SaveBlockHeader, SaveChainStatus ---------------------

// the fields of a header that are not part of its hash
func verifC21Unhashed(bh *types.BlockHeader, nSup int, tag uint64) {
	bh.BlockWitness = types.BlockWitness(verifBytesN("witness", 2))
	bh.SupLinks = nil
	for k := 0; k < nSup; k++ {
		sh := verifU64("sup.height")
		verifAssume(sh < 1<<63) // the wire format carries 63-bit integers
		bh.SupLinks = append(bh.SupLinks, &types.SupLink{SourceHeight: sh, SourceHash: bc.Hash{V0: tag, V1: uint64(k)}})
	}
}

func verifC21SameLinks(got, want types.SupLinks, countLabel, contentLabel string) {
	verifAssert(len(got) == len(want), countLabel)
	if len(got) != len(want) {
		return
	}
	for i := range got {
		verifAssert(got[i].SourceHeight == want[i].SourceHeight, contentLabel)
		verifAssert(got[i].SourceHash == want[i].SourceHash, contentLabel)
	}
}

// VerifC21Headers: one block header (arbitrary height and timestamp) whose
// unhashed part (witness, nSup sup links) is re-saved with arbitrary new
// content, and its checkpoint; every sequence of nOps operations from {read
// header, re-save header, read checkpoint, save new checkpoint version}
// through the real Store built by NewStore on a MemDB.
func VerifC21Headers(nOps int, nSup int) {
	verifC21Table, verifC21HeaderTable = nil, nil
	db := dbm.NewMemDB()
	s := NewStore(db)

	base := types.BlockHeader{Version: 1, Height: verifU64("height"), Timestamp: verifU64("timestamp")}
	verifAssume(base.Height < 1<<32 && base.Timestamp < 1<<63)
	version := uint64(0)
	saveHeader := func() bc.Hash {
		version++
		h := base
		verifC21Unhashed(&h, nSup, version)
		if err := s.SaveBlockHeader(&h); err != nil {
			panic("verif: SaveBlockHeader failed")
		}
		return h.Hash()
	}
	hash := saveHeader()
	var saved *state.Checkpoint // the caller's object of the last SaveCheckpoints
	saveCheckpoint := func() {
		cp := &state.Checkpoint{Height: base.Height, Hash: hash, Timestamp: verifU64("cp.timestamp"), Status: state.CheckpointStatus(verifU8("cp.status")),
			Votes: map[string]uint64{"validator": verifU64("cp.votes")}, Rewards: map[string]uint64{}}
		if err := s.SaveCheckpoints([]*state.Checkpoint{cp}); err != nil {
			panic("verif: SaveCheckpoints failed")
		}
		saved = cp
	}
	saveCheckpoint()

	for op := 0; op < nOps; op++ {
		switch verifChoice("op", 5) {
		case 4:
			// the caller keeps working on the checkpoint it saved, without saving again
			saved.Status = state.CheckpointStatus(verifU8("cp.status"))
			saved.Votes["validator"] = verifU64("cp.votes")
			saved.Rewards["program"] = 1
			verifReach("VerifC21Headers:caller-object-changed")
		case 0:
			got, err := s.GetBlockHeader(&hash)
			verifAssert(err == nil, "header-read-succeeds")
			if err != nil {
				return
			}
			fresh, ferr := GetBlockHeader(db, &hash)
			if ferr != nil {
				panic("verif: fresh header read failed")
			}
			verifObserveU64("headerLinks", uint64(len(got.SupLinks)))
			verifObserveBytes("headerWitness", got.BlockWitness)
			verifAssert(got.Version == fresh.Version, "header-read-equals-fresh")
			verifAssert(got.Height == fresh.Height, "header-read-equals-fresh")
			verifAssert(got.Timestamp == fresh.Timestamp, "header-read-equals-fresh")
			verifAssert(bytes.Equal(got.BlockWitness, fresh.BlockWitness), "header-read-equals-fresh-witness")
			verifC21SameLinks(got.SupLinks, fresh.SupLinks, "header-read-equals-fresh-suplinks", "header-read-equals-fresh-suplink-content")
			verifReach("VerifC21Headers:header-read")
		case 1:
			again := saveHeader()
			verifAssert(again == hash, "harness-resaved-header-has-the-same-hash")
			verifReach("VerifC21Headers:header-saved")
		case 2:
			got, err := s.GetCheckpoint(&hash)
			verifAssert(err == nil, "checkpoint-read-succeeds")
			if err != nil {
				return
			}
			fresh, ferr := getCheckpointFromDB(db, calcCheckpointKey(base.Height, &hash))
			freshHeader, herr := GetBlockHeader(db, &hash)
			if ferr != nil || herr != nil {
				panic("verif: fresh read failed")
			}
			verifObserveU64("status", uint64(got.Status))
			verifObserveU64("checkpointLinks", uint64(len(got.SupLinks)))
			verifAssert(got.Height == fresh.Height, "checkpoint-read-equals-fresh-identity")
			verifAssert(got.Hash == fresh.Hash, "checkpoint-read-equals-fresh-identity")
			verifAssert(got.Timestamp == fresh.Timestamp, "checkpoint-read-equals-fresh-timestamp")
			verifAssert(got.Status == fresh.Status, "checkpoint-read-equals-fresh-status")
			verifAssert(len(got.Votes) == len(fresh.Votes), "checkpoint-read-equals-fresh-votes")
			verifAssert(got.Votes["validator"] == fresh.Votes["validator"], "checkpoint-read-equals-fresh-votes")
			verifAssert(len(got.Rewards) == len(fresh.Rewards), "checkpoint-read-equals-fresh-rewards")
			verifC21SameLinks(got.SupLinks, freshHeader.SupLinks, "checkpoint-read-equals-fresh-suplinks", "checkpoint-read-suplink-content")
			verifReach("VerifC21Headers:checkpoint-read")
		case 3:
			saveCheckpoint()
			verifReach("VerifC21Headers:checkpoint-saved")
		}
	}
}

// VerifC21MainChain: main-chain index at heights 1 and 2 written by the real
// Store.SaveChainStatus with two headers (two alternative chains with
// arbitrary timestamps, listed in either order), read through the real
// Store.GetMainChainHash; every sequence of nOps operations from {read height
// 1, read height 2, switch to the other chain}.
func VerifC21MainChain(nOps int) {
	verifC21Table, verifC21HeaderTable = nil, nil
	db := dbm.NewMemDB()
	s := NewStore(db)

	var chain [2][2]*types.BlockHeader
	for c := range chain {
		for i := range chain[c] {
			chain[c][i] = &types.BlockHeader{Version: 1, Height: uint64(i + 1), Timestamp: verifU64("timestamp")}
		}
	}
	status := func(c int) {
		list := []*types.BlockHeader{chain[c][0], chain[c][1]}
		if verifChoice("descending", 2) == 1 {
			list[0], list[1] = list[1], list[0]
		}
		fin := chain[c][0].Hash()
		if err := s.SaveChainStatus(chain[c][1], list, state.NewUtxoViewpoint(), state.NewContractViewpoint(), 1, &fin); err != nil {
			panic("verif: SaveChainStatus failed")
		}
	}
	cur := 0
	status(cur)

	for op := 0; op < nOps; op++ {
		switch k := verifChoice("op", 3); k {
		case 0, 1:
			height := uint64(k + 1)
			got, err := s.GetMainChainHash(height)
			verifAssert(err == nil, "main-chain-hash-read-succeeds")
			if err != nil {
				return
			}
			fresh, ferr := GetMainChainHash(db, height)
			if ferr != nil {
				panic("verif: fresh main-chain read failed")
			}
			verifObserveBool("isCurrentChain", *got == chain[cur][k].Hash())
			verifAssert(*got == *fresh, "main-chain-hash-read-equals-fresh")
			verifReach("VerifC21MainChain:read")
		case 2:
			cur ^= 1
			status(cur)
			verifReach("VerifC21MainChain:status-saved")
		}
	}
}

// VerifC21HeightIndex: the height index (block hashes by height) and the
// main-chain index at height 1 through the real Store: every sequence of nOps
// operations from {GetBlockHashesByHeight(1), SaveBlock of a further block at
// height 1, GetMainChainHash(1), SaveChainStatus putting the first block on
// the main chain}. Before any SaveChainStatus the blocks at height 1 are side
// chain blocks: the main-chain read must fail exactly as the database read does.
func VerifC21HeightIndex(nOps int) {
	verifC21Table, verifC21HeaderTable, verifC21HashLists = nil, nil, nil
	db := dbm.NewMemDB()
	s := NewStore(db)
	nBlocks := 0
	block := func(k int) *types.Block {
		return &types.Block{BlockHeader: types.BlockHeader{Version: 1, Height: 1, Timestamp: uint64(100 + k)}}
	}

	for op := 0; op < nOps; op++ {
		switch verifChoice("op", 4) {
		case 0:
			got, err := s.GetBlockHashesByHeight(1)
			fresh, ferr := GetBlockHashesByHeight(db, 1)
			if ferr != nil {
				panic("verif: fresh height index read failed")
			}
			verifAssert(err == nil, "height-index-read-succeeds")
			if err != nil {
				return
			}
			verifObserveU64("indexed", uint64(len(got)))
			verifAssert(len(got) == len(fresh), "height-index-read-equals-fresh-count")
			if len(got) != len(fresh) {
				return
			}
			for i := range got {
				verifAssert(*got[i] == *fresh[i], "height-index-read-equals-fresh-hashes")
			}
			verifReach("VerifC21HeightIndex:index-read")
		case 1:
			if err := s.SaveBlock(block(nBlocks)); err != nil {
				panic("verif: SaveBlock failed")
			}
			nBlocks++
			verifReach("VerifC21HeightIndex:block-saved")
		case 2:
			got, err := s.GetMainChainHash(1)
			fresh, ferr := GetMainChainHash(db, 1)
			verifObserveBool("onMainChain", err == nil)
			verifAssert((err == nil) == (ferr == nil), "main-chain-hash-read-fails-iff-fresh-read-fails")
			if err == nil && ferr == nil {
				verifAssert(*got == *fresh, "main-chain-hash-read-equals-fresh")
			}
			verifReach("VerifC21HeightIndex:main-chain-read")
		case 3:
			h := &block(0).BlockHeader
			fin := h.Hash()
			if err := s.SaveChainStatus(h, []*types.BlockHeader{h}, state.NewUtxoViewpoint(), state.NewContractViewpoint(), 0, &fin); err != nil {
				panic("verif: SaveChainStatus failed")
			}
			verifReach("VerifC21HeightIndex:status-saved")
		}
	}
}
