package database

// C21: checkpoint and header reads through the Store caches equal a fresh
// read from the database, after any short interleaving of reads and saves.
// Real code: Store.GetCheckpoint, Store.GetBlockHeader, Store.SaveCheckpoints,
// cache.lookupCheckPoint / lookupBlockHeader / removeCheckPoint, common.Cache,
// groupcache lru and singleflight, getCheckpointFromDB, calcCheckpointKey, MemDB.

//verif:property C21
//verif:bound 2 block headers (arbitrary height below 2^32, timestamp; 0..2 sup links each) with one checkpoint each (arbitrary status and timestamp); sequences of exactly N operations (quick N = 3, thorough N = 4 and, with 1 sup link, 5), each one of: read checkpoint A, read checkpoint B, read header A, save a new version of checkpoint A (arbitrary status / timestamp)
//verif:assume headers are immutable and served by a harness fill function that returns a fresh copy per call (as GetBlockHeader's UnmarshalText does); the checkpoint fill function is the real getCheckpointFromDB on a real MemDB
//verif:assume solver side: json.Marshal / json.Unmarshal of state.Checkpoint are a handle table that keeps exactly the persisted fields (Parent and SupLinks carry json:"-"); bc.Hash.String (protobuf text) and hex.EncodeToString (used only to form cache keys) are injective byte encodings; block header hashes are an uninterpreted collision-free function. The native replay uses the real ones
//verif:outside singleflight under real concurrency, LRU eviction (capacities 256..2048 are not reached), block transactions / height index / main-chain hash caches, SaveBlockHeader / SaveChainStatus invalidation, LevelDB
//verif:override encoding/json.Marshal -> verifC21Marshal
//verif:override encoding/json.Unmarshal -> verifC21Unmarshal
//verif:override (*github.com/bytom/bytom/protocol/bc.Hash).String -> verifC21HashString
//verif:override encoding/hex.EncodeToString -> verifC21Hex
//verif:obligation fn=VerifC21Checkpoints args=3,1 validate=10 secs=1800
//verif:obligation fn=VerifC21Checkpoints args=3,0;3,2 secs=1800
//verif:obligation fn=VerifC21Checkpoints args=4,0;4,1;4,2;5,1 tier=thorough secs=3000

import (
	"errors"

	dbm "github.com/bytom/bytom/database/leveldb"
	"github.com/bytom/bytom/protocol/bc"
	"github.com/bytom/bytom/protocol/bc/types"
	"github.com/bytom/bytom/protocol/state"
)

var verifC21Table []state.Checkpoint

func verifC21Marshal(v interface{}) ([]byte, error) {
	cp, ok := v.(*state.Checkpoint)
	if !ok {
		panic("verif: json.Marshal stub: unexpected type")
	}
	c := *cp
	c.Parent, c.SupLinks = nil, nil // json:"-"
	verifC21Table = append(verifC21Table, c)
	return []byte{0xc2, byte(len(verifC21Table) - 1)}, nil
}

func verifC21Unmarshal(data []byte, v interface{}) error {
	cp, ok := v.(*state.Checkpoint)
	if !ok {
		panic("verif: json.Unmarshal stub: unexpected type")
	}
	if len(data) != 2 || data[0] != 0xc2 {
		return errors.New("verif: not a handle")
	}
	t := verifC21Table[int(data[1])]
	cp.Height, cp.Hash, cp.ParentHash, cp.Timestamp, cp.Status = t.Height, t.Hash, t.ParentHash, t.Timestamp, t.Status
	cp.Rewards, cp.Votes = t.Rewards, t.Votes
	return nil
}

func verifC21HashString(h *bc.Hash) string { return string(h.Bytes()) }

// cache keys only need an injective text form of the database key
func verifC21Hex(b []byte) string { return string(b) }

type verifC21Node struct {
	header *types.BlockHeader
	hash   bc.Hash
	reads  int // checkpoint reads since the last save
}

func VerifC21Checkpoints(nOps int, nSup int) {
	verifC21Table = nil
	db := dbm.NewMemDB()
	var nodes [2]*verifC21Node
	for i := range nodes {
		h := &types.BlockHeader{Version: 1, Height: verifU64("height"), Timestamp: verifU64("timestamp")}
		verifAssume(h.Height < 1<<32)
		for k := 0; k < nSup; k++ {
			h.SupLinks = append(h.SupLinks, &types.SupLink{SourceHeight: uint64(10*i + k), SourceHash: bc.Hash{V0: uint64(k + 1)}})
		}
		nodes[i] = &verifC21Node{header: h, hash: h.Hash()}
	}
	verifAssume(nodes[0].header.Height != nodes[1].header.Height || nodes[0].header.Timestamp != nodes[1].header.Timestamp)

	headerFills := 0
	fillHeader := func(hash *bc.Hash) (*types.BlockHeader, error) {
		headerFills++
		for _, n := range nodes {
			if n.hash == *hash {
				c := *n.header
				c.SupLinks = append(types.SupLinks{}, n.header.SupLinks...)
				return &c, nil
			}
		}
		return nil, errors.New("verif: no such header")
	}
	fillCheckpoint := func(key []byte) (*state.Checkpoint, error) { return getCheckpointFromDB(db, key) }
	s := &Store{db: db, cache: newCache(fillHeader, nil, nil, nil, fillCheckpoint)}

	save := func(n *verifC21Node) {
		cp := &state.Checkpoint{Height: n.header.Height, Hash: n.hash, Timestamp: verifU64("cp.timestamp"), Status: state.CheckpointStatus(verifU8("cp.status"))}
		if err := s.SaveCheckpoints([]*state.Checkpoint{cp}); err != nil {
			panic("verif: SaveCheckpoints failed")
		}
		n.reads = 0
	}
	save(nodes[0])
	save(nodes[1])

	for op := 0; op < nOps; op++ {
		switch k := verifChoice("op", 4); k {
		case 0, 1:
			n := nodes[k]
			got, err := s.GetCheckpoint(&n.hash)
			verifAssert(err == nil, "checkpoint-read-succeeds")
			if err != nil {
				return
			}
			fresh, ferr := getCheckpointFromDB(db, calcCheckpointKey(n.header.Height, &n.hash))
			if ferr != nil {
				panic("verif: fresh read failed")
			}
			verifObserveU64("status", uint64(got.Status))
			verifObserveU64("suplinks", uint64(len(got.SupLinks)))
			verifAssert(got.Height == fresh.Height && got.Hash == fresh.Hash && got.ParentHash == fresh.ParentHash, "checkpoint-read-equals-fresh-identity")
			verifAssert(got.Timestamp == fresh.Timestamp, "checkpoint-read-equals-fresh-timestamp")
			verifAssert(got.Status == fresh.Status, "checkpoint-read-equals-fresh-status")
			// fresh read: the persisted fields plus the sup links of the header
			verifKnown("KF-C21-SUPLINKS-APPEND", n.reads > 0 && nSup > 0 && len(got.SupLinks) == (n.reads+1)*nSup)
			verifAssert(len(got.SupLinks) == len(n.header.SupLinks), "checkpoint-read-equals-fresh-suplinks")
			for i := 0; nSup > 0 && i < len(got.SupLinks); i++ {
				want := n.header.SupLinks[i%nSup]
				verifAssert(got.SupLinks[i].SourceHeight == want.SourceHeight && got.SupLinks[i].SourceHash == want.SourceHash, "checkpoint-read-suplink-content")
			}
			n.reads++
			verifReach("VerifC21Checkpoints:checkpoint-read")
		case 2:
			n := nodes[0]
			got, err := s.GetBlockHeader(&n.hash)
			verifAssert(err == nil, "header-read-succeeds")
			if err != nil {
				return
			}
			verifAssert(got.Height == n.header.Height && got.Timestamp == n.header.Timestamp && got.Version == n.header.Version, "header-read-equals-fresh")
			verifAssert(len(got.SupLinks) == len(n.header.SupLinks), "header-read-equals-fresh-suplinks")
			verifReach("VerifC21Checkpoints:header-read")
		case 3:
			save(nodes[0])
			verifReach("VerifC21Checkpoints:saved")
		}
	}
	verifObserveU64("headerFills", uint64(headerFills))
}
