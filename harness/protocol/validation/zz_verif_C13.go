package validation

// C13: blocks violating consensus rules are rejected, rule by rule, on the real
// rule functions: ValidateBlockHeader (version, height, parent link, timestamp
// window, proposer signature), ValidateBlock (transaction validity, coinbase
// shape, merkle root) and UtxoViewpoint.ApplyTransaction (spend rules).

//verif:property C13
//verif:bound header: every field of the header, of the parent header and the clock arbitrary (clock below 2^33 s (year 2242: time.Time.UnixNano is defined up to year 2262), timestamps below 2^50 ms); mainnet parameters with a federation of two validators whose private keys the harness knows; checkpoint in state Growing, i.e. the federation schedule; the header is signed by the validator of its slot or by the other one
//verif:bound spends: a UTXO view with one or two entries of arbitrary type (normal, coinbase, vote), arbitrary creation height and spent flag, or absent; a transaction spending two outputs whose ids may coincide; heights below 2^62
//verif:bound block: a block of one coinbase transaction with one output (original or vote) of arbitrary amount, asset and one-byte program, arbitrary merkle root field, arbitrary height (reward heights included, with an empty reward table in the checkpoint), under a valid header
//verif:assume the wall clock is a single arbitrary instant during one validation (override of time.Now for the solver; the native replay uses the real clock and places the header timestamp relative to it)
//verif:assume the checkpoint's timestamp is not after the parent block's timestamp (it is the timestamp of an ancestor)
//verif:assume ed25519: XPrv.Sign returns arbitrary bytes for the solver and XPub.Verify is an uninterpreted predicate constrained by: a signature verifies under the key that made it and under no other key (real signing and verification in the native replay); SHA3 uninterpreted and collision-free
//verif:bound block of two: a valid coinbase transaction followed by one spend transaction (thorough: one veto-to-vote transaction) (one input, one output, arbitrary assets, amounts, source position, serialized size below 2^32) and an arbitrary or correct merkle root
//verif:assume bc.Hash.String (protobuf text form, used for a log line only) is cut
//verif:assume heights below 2^62: no uint64 wrap-around of creation height + pending period
//verif:outside where in a chain or fork Chain.ProcessBlock runs these checks (orphan handling, reorganisation: goroutines and the store); validator sets elected by votes (sort.Slice over a map, not encodable); reward-height coinbase amounts (hex-keyed map of control programs); blocks with more than the coinbase transaction in ValidateBlock (transaction validity itself is C01/C02)
//verif:override time.Now -> verifC13Now
//verif:override (github.com/bytom/bytom/crypto/ed25519/chainkd.XPrv).Sign -> verifC13Sign
//verif:override github.com/bytom/bytom/protocol/validation.ValidateTxs -> verifC13ValidateTxs
//verif:obligation fn=VerifC13Spend args=0;1;2 validate=20
//verif:obligation fn=VerifC13DoubleSpend args=0 validate=12
//verif:obligation fn=VerifC13Header args=0 validate=12 mode=int
//verif:obligation fn=VerifC13Block args=0;1 validate=12 mode=int
//verif:override (*github.com/bytom/bytom/protocol/bc.Hash).String -> verifC13HashString
//verif:obligation fn=VerifC13BlockTx args=0 mode=int validate=12
//verif:obligation fn=VerifC13BlockTx args=1 mode=int tier=thorough secs=3000
//verif:bound gas accounting: a transaction of 2 (thorough: 3) BTM spend inputs and one BTM output, every control program chosen from the menu {OP_1}, {OP_1 OP_1 OP_ADD}, {OP_1 OP_DUP OP_EQUAL}, {OP_1 OP_1 OP_CAT OP_SHA3} (different costs), arbitrary amounts, arbitrary serialized size below 2^32
//verif:bound block gas limit: a valid coinbase transaction followed by N = 34..40 copies of one such transaction (2 inputs, amounts fixed so that the fee buys the full 300000 gas, programs from the menu, arbitrary serialized size), so that MaxBlockGas = 10^7 is reachable (one transaction can use at most 300000 gas); ValidateBlock itself does not look at repeated transactions
//verif:assume gas oracle: the gas a control program consumes is what the real vm.Verify consumes when the harness runs that program on its own (limit minus returned gas; the menu programs use no context); storage gas is SerializedSize x consensus.StorageGasRate; the expected GasUsed of a transaction is storage gas plus the sum over its inputs, the expected block total the sum over its transactions
//verif:obligation fn=VerifC13TxGas args=2 mode=int validate=12
//verif:obligation fn=VerifC13TxGas args=3 mode=int tier=thorough secs=3000
//verif:obligation fn=VerifC13BlockGas args=34 mode=int validate=12 secs=900 loops=1000000
//verif:obligation fn=VerifC13BlockGas args=40 mode=int tier=thorough secs=3000 loops=1000000

import (
	"time"

	"golang.org/x/crypto/sha3"

	"github.com/bytom/bytom/consensus"
	"github.com/bytom/bytom/crypto/ed25519/chainkd"
	"github.com/bytom/bytom/database/storage"
	"github.com/bytom/bytom/protocol/bc"
	"github.com/bytom/bytom/protocol/bc/types"
	"github.com/bytom/bytom/protocol/state"
	"github.com/bytom/bytom/protocol/vm"
)

// ---------------------------------------------------------------------------
// spend rules

// the vote lock period in force at a spending height, from the parameter table
func verifC13VoteLock(h uint64) uint64 {
	for _, p := range consensus.ActiveNetParams.VotePendingBlockNums {
		if p.BeginBlock <= h && h < p.EndBlock {
			return p.Num
		}
	}
	return 302400
}

func verifC13UtxoType(kind int) uint32 {
	switch kind {
	case 1:
		return storage.CoinbaseUTXOType
	case 2:
		return storage.VoteUTXOType
	}
	return storage.NormalUTXOType
}

// one spent output against a view holding (or not) its entry
func VerifC13Spend(kind int) {
	h0 := verifU64("createdAt")
	h := verifU64("height")
	verifAssume(h0 < 1<<62 && h < 1<<62)
	id := bc.Hash{V0: verifU64("id")}
	other := bc.Hash{V0: verifU64("other")}
	present := verifBool("present")
	spent := verifBool("spent")
	view := state.NewUtxoViewpoint()
	var entry *storage.UtxoEntry
	if present {
		entry = storage.NewUtxoEntry(verifC13UtxoType(kind), h0, spent)
		view.Entries[id] = entry
	} else {
		// some other output is in the view
		verifAssume(other != id)
		view.Entries[other] = storage.NewUtxoEntry(storage.NormalUTXOType, h0, false)
	}
	tx := &bc.Tx{SpentOutputIDs: []bc.Hash{id}, TxHeader: &bc.TxHeader{}}
	block := &bc.Block{BlockHeader: &bc.BlockHeader{Height: h}}

	err := view.ApplyTransaction(block, tx)

	verifObserveBool("accepted", err == nil)
	mature := true
	switch kind {
	case 1:
		mature = h0+10 <= h
	case 2:
		mature = h0+verifC13VoteLock(h) <= h
	}
	spendable := present && !spent && mature
	verifAssert(err != nil || present, "missing-output-rejected")
	verifAssert(err != nil || !spent, "spent-output-rejected")
	verifAssert(err != nil || mature, "immature-output-rejected")
	verifAssert(err == nil || !spendable, "spendable-output-accepted")
	if err == nil {
		verifAssert(entry != nil && entry.Spent, "accepted-spend-marks-spent")
		verifReach("VerifC13Spend:accepted")
	} else {
		verifReach("VerifC13Spend:rejected")
	}
}

// two spends in one block (same or different transaction): the second spend
// of the same output is rejected
func VerifC13DoubleSpend(_ int) {
	id1 := bc.Hash{V0: verifU64("id1")}
	id2 := bc.Hash{V0: verifU64("id2")}
	view := state.NewUtxoViewpoint()
	view.Entries[id1] = storage.NewUtxoEntry(storage.NormalUTXOType, 5, false)
	if id2 != id1 {
		view.Entries[id2] = storage.NewUtxoEntry(storage.NormalUTXOType, 5, false)
	}
	block := &bc.Block{BlockHeader: &bc.BlockHeader{Height: verifU64("height")}}
	var err error
	if verifBool("sameTx") {
		err = view.ApplyTransaction(block, &bc.Tx{SpentOutputIDs: []bc.Hash{id1, id2}, TxHeader: &bc.TxHeader{}})
	} else {
		err = view.ApplyTransaction(block, &bc.Tx{SpentOutputIDs: []bc.Hash{id1}, TxHeader: &bc.TxHeader{}})
		verifAssert(err == nil, "first-spend-accepted")
		err = view.ApplyTransaction(block, &bc.Tx{SpentOutputIDs: []bc.Hash{id2}, TxHeader: &bc.TxHeader{}})
	}
	verifObserveBool("accepted", err == nil)
	verifAssert(err != nil || id1 != id2, "double-spend-rejected")
	verifAssert(err == nil || id1 == id2, "distinct-spends-accepted")
	if err == nil {
		verifReach("VerifC13DoubleSpend:accepted")
	} else {
		verifReach("VerifC13DoubleSpend:rejected")
	}
}

// ---------------------------------------------------------------------------
// header rules

var verifC13Clock int64 // seconds since the epoch, set by the harness before the call

func verifC13Now() time.Time { return time.Unix(verifC13Clock, 0) }

// two validators with known private keys (chainkd.RootXPrv of the seeds {0,'c','1','3'} and {1,'c','1','3'})
const (
	verifC13Prv0 = "f837d3adfb5f397e20ed64f715653da1ba081d673d867ea4ac09481e5725ee493cb65dd8759435b4896199935da2ff97ad58eaa4c5bc62a9fa5c938cbe59c799"
	verifC13Pub0 = "0874e72edabccf8b94a87dc03ec41bea55e718e8a377da52bf65edc14da1048c3cb65dd8759435b4896199935da2ff97ad58eaa4c5bc62a9fa5c938cbe59c799"
	verifC13Prv1 = "c0e9b18b534e288038a51b285f01dfb8a37b7cc5b308f436f4616bfccfa7455513684960770da2ec99783af23beb86cd0c8a634a11e88ca48e64877ff0f09fbe"
	verifC13Pub1 = "14e52e07b6818ea3a8c92ab63fc92499e911371897e82835d30ca214de21da4a13684960770da2ec99783af23beb86cd0c8a634a11e88ca48e64877ff0f09fbe"
)

func verifC13Unhex(s string) (out [64]byte) {
	nib := func(c byte) byte {
		if c >= 'a' {
			return c - 'a' + 10
		}
		return c - '0'
	}
	for i := 0; i < 64; i++ {
		out[i] = nib(s[2*i])<<4 | nib(s[2*i+1])
	}
	return
}

// solver: a signature is 64 arbitrary bytes (what it verifies under is fixed by the assumptions below); replay: the real XPrv.Sign
func verifC13Sign(xprv chainkd.XPrv, msg []byte) []byte { return verifBytesN("sig", 64) }

func VerifC13Header(_ int) {
	verifC13Clock = int64(verifU64("now.sec"))
	verifAssume(verifC13Clock >= 0 && verifC13Clock < 1<<33)
	now := uint64(time.Now().UnixNano() / 1e6)
	prvs := []chainkd.XPrv{chainkd.XPrv(verifC13Unhex(verifC13Prv0)), chainkd.XPrv(verifC13Unhex(verifC13Prv1))}
	fed := []chainkd.XPub{chainkd.XPub(verifC13Unhex(verifC13Pub0)), chainkd.XPub(verifC13Unhex(verifC13Pub1))}
	consensus.ActiveNetParams.FederationXpubs = fed

	parent := &types.BlockHeader{
		Version:   verifU64("parent.version"),
		Height:    verifU64("parent.height"),
		Timestamp: verifU64("parent.timestamp"),
	}
	// the timestamp is placed relative to the clock so that a counterexample replays under the real clock
	ts := now + verifU64("ts.offset")
	b := &types.BlockHeader{
		Version:           verifU64("version"),
		Height:            verifU64("height"),
		PreviousBlockHash: bc.Hash{V0: verifU64("prev0"), V1: verifU64("prev1"), V2: verifU64("prev2"), V3: verifU64("prev3")},
		Timestamp:         ts,
	}
	if verifBool("prev.isParent") {
		b.PreviousBlockHash = parent.Hash()
	}
	cp := &state.Checkpoint{Status: state.Growing, Timestamp: verifU64("checkpoint.timestamp")}
	interval := consensus.ActiveNetParams.BlockTimeInterval
	verifAssume(parent.Timestamp < 1<<50 && ts < 1<<50 && cp.Timestamp <= parent.Timestamp && ts >= cp.Timestamp+interval)

	// the validator whose turn it is: slots of one interval, round-robin, the first slot starting one interval after the checkpoint
	slot := int(((ts - cp.Timestamp - interval) / interval) % 2)
	signer := slot
	if !verifBool("signedBySlotValidator") {
		signer = 1 - slot
	}
	msg := b.Hash().Bytes()
	b.BlockWitness = prvs[signer].Sign(msg)
	// a signature verifies under the key that made it and under no other key
	verifAssume(fed[signer].Verify(msg, b.BlockWitness) && !fed[1-signer].Verify(msg, b.BlockWitness))

	err := ValidateBlockHeader(b, parent, cp)

	verifObserveBool("accepted", err == nil)
	after := uint64(time.Now().UnixNano() / 1e6)
	if err == nil {
		verifAssert(b.Version == 1, "version-rule")
		verifAssert(b.Height == parent.Height+1, "height-rule")
		verifAssert(b.PreviousBlockHash == parent.Hash(), "parent-link-rule")
		verifAssert(ts >= parent.Timestamp+interval, "timestamp-after-parent")
		verifAssert(ts <= after+consensus.ActiveNetParams.MaxTimeOffsetMs, "timestamp-not-in-future")
		verifAssert(signer == slot, "signed-by-slot-validator")
		verifReach("VerifC13Header:accepted")
	} else {
		ok := b.Version == 1 && b.Height == parent.Height+1 && b.PreviousBlockHash == parent.Hash() &&
			ts >= parent.Timestamp+interval && ts <= now+consensus.ActiveNetParams.MaxTimeOffsetMs && signer == slot
		verifAssert(!ok, "valid-header-accepted")
		verifReach("VerifC13Header:rejected")
	}
}

// ---------------------------------------------------------------------------
// block rules

// ValidateTxs distributes the transactions over goroutines; the same results sequentially
func verifC13ValidateTxs(txs []*bc.Tx, block *bc.Block, converter ProgramConverterFunc) []*ValidateTxResult {
	results := make([]*ValidateTxResult, len(txs))
	for i, tx := range txs {
		gasStatus, err := ValidateTx(tx, block, converter)
		results[i] = &ValidateTxResult{i: i, gasStatus: gasStatus, err: err}
	}
	return results
}

// log text only
func verifC13HashString(h *bc.Hash) string { return "" }

// a block holding only its coinbase transaction, under a valid header
// (outKind 0: original output, 1: vote output)
func VerifC13Block(outKind int) {
	verifC13Clock = int64(verifU64("now.sec"))
	verifAssume(verifC13Clock >= 10 && verifC13Clock < 1<<33)
	now := uint64(time.Now().UnixNano() / 1e6)
	prvs := []chainkd.XPrv{chainkd.XPrv(verifC13Unhex(verifC13Prv0)), chainkd.XPrv(verifC13Unhex(verifC13Prv1))}
	fed := []chainkd.XPub{chainkd.XPub(verifC13Unhex(verifC13Pub0)), chainkd.XPub(verifC13Unhex(verifC13Pub1))}
	consensus.ActiveNetParams.FederationXpubs = fed
	interval := consensus.ActiveNetParams.BlockTimeInterval

	height := verifU64("height")
	verifAssume(height >= 1 && height < 1<<62)
	parent := &types.BlockHeader{Version: 1, Height: height - 1, Timestamp: now - interval}
	cp := &state.Checkpoint{Status: state.Growing, Timestamp: now - interval, Rewards: map[string]uint64{}}

	asset := bc.AssetID{V0: verifU64("out.asset"), V1: ^uint64(0), V2: ^uint64(0), V3: ^uint64(0)}
	amount := verifU64("out.amount")
	prog := []byte{verifU8("out.prog")}
	var out *types.TxOutput
	if outKind == 1 {
		out = types.NewVoteOutput(asset, amount, prog, make([]byte, 64), nil)
	} else {
		out = types.NewOriginalTxOutput(asset, amount, prog, nil)
	}
	coinbase := types.NewTx(types.TxData{
		Version:        1,
		SerializedSize: 100,
		Inputs:         []*types.TxInput{types.NewCoinbaseInput([]byte{1, 2, 3})},
		Outputs:        []*types.TxOutput{out},
	})
	root, _ := types.TxMerkleRoot([]*bc.Tx{coinbase.Tx})
	b := &types.Block{
		BlockHeader:  types.BlockHeader{Version: 1, Height: height, PreviousBlockHash: parent.Hash(), Timestamp: now},
		Transactions: []*types.Tx{coinbase},
	}
	b.TransactionsMerkleRoot = bc.Hash{V0: verifU64("root0"), V1: verifU64("root1"), V2: verifU64("root2"), V3: verifU64("root3")}
	if verifBool("root.correct") {
		b.TransactionsMerkleRoot = root
	}
	// signed by the validator of the first slot after the checkpoint
	msg := b.BlockHeader.Hash().Bytes()
	b.BlockWitness = prvs[0].Sign(msg)
	verifAssume(fed[0].Verify(msg, b.BlockWitness) && !fed[1].Verify(msg, b.BlockWitness))

	err := ValidateBlock(b, parent, cp, func(prog []byte) ([]byte, error) { return nil, nil })

	verifObserveBool("accepted", err == nil)
	rewardHeight := height%consensus.ActiveNetParams.BlocksOfEpoch == 1
	if err == nil {
		verifAssert(outKind == 0, "coinbase-output-is-original")
		verifAssert(asset == *consensus.BTMAssetID, "coinbase-output-is-btm")
		verifAssert(rewardHeight || amount == 0, "no-reward-outside-reward-height")
		verifAssert(!rewardHeight || amount == 0, "no-reward-without-recorded-rewards")
		verifAssert(b.TransactionsMerkleRoot == root, "merkle-root-rule")
		verifReach("VerifC13Block:accepted")
	} else {
		ok := outKind == 0 && asset == *consensus.BTMAssetID && amount == 0 && b.TransactionsMerkleRoot == root
		verifAssert(!ok, "valid-block-accepted")
		verifReach("VerifC13Block:rejected")
	}
}

// a block of a valid coinbase transaction and one arbitrary spend transaction:
// the block is accepted exactly if that transaction is valid on its own and the
// merkle root field is the root of the two transaction ids
func VerifC13BlockTx(kind int) {
	verifC13Clock = int64(verifU64("now.sec"))
	verifAssume(verifC13Clock >= 10 && verifC13Clock < 1<<33)
	now := uint64(time.Now().UnixNano() / 1e6)
	prvs := []chainkd.XPrv{chainkd.XPrv(verifC13Unhex(verifC13Prv0)), chainkd.XPrv(verifC13Unhex(verifC13Prv1))}
	fed := []chainkd.XPub{chainkd.XPub(verifC13Unhex(verifC13Pub0)), chainkd.XPub(verifC13Unhex(verifC13Pub1))}
	consensus.ActiveNetParams.FederationXpubs = fed
	interval := consensus.ActiveNetParams.BlockTimeInterval
	height := uint64(7)
	parent := &types.BlockHeader{Version: 1, Height: height - 1, Timestamp: now - interval}
	cp := &state.Checkpoint{Status: state.Growing, Timestamp: now - interval, Rewards: map[string]uint64{}}
	m := ^uint64(0)
	coinbase := types.NewTx(types.TxData{
		Version:        1,
		SerializedSize: 100,
		Inputs:         []*types.TxInput{types.NewCoinbaseInput([]byte{1, 2, 3})},
		Outputs:        []*types.TxOutput{types.NewOriginalTxOutput(*consensus.BTMAssetID, 0, []byte{0x51}, nil)},
	})
	// the serialized size is the byte length of the wire form
	size := verifU64("size")
	verifAssume(size < 1<<32)
	inAsset := bc.AssetID{V0: verifU64("in.asset"), V1: m, V2: m, V3: m}
	outAsset := bc.AssetID{V0: verifU64("out.asset"), V1: m, V2: m, V3: m}
	src := bc.NewHash(sha3.Sum256([]byte{1}))
	in := types.NewSpendInput(nil, src, inAsset, verifU64("in.amount"), verifU64("in.pos"), []byte{0x51}, nil)
	out := types.NewOriginalTxOutput(outAsset, verifU64("out.amount"), []byte{0x51}, nil)
	if kind == 1 {
		// a veto of a vote output re-voted
		in = types.NewVetoInput(nil, src, inAsset, verifU64("in.amount"), verifU64("in.pos"), []byte{0x51}, make([]byte, 64), nil)
		out = types.NewVoteOutput(outAsset, verifU64("out.amount"), []byte{0x51}, make([]byte, 64), nil)
	}
	spend := types.NewTx(types.TxData{Version: 1, SerializedSize: size, Inputs: []*types.TxInput{in}, Outputs: []*types.TxOutput{out}})
	root, _ := types.TxMerkleRoot([]*bc.Tx{coinbase.Tx, spend.Tx})
	b := &types.Block{
		BlockHeader:  types.BlockHeader{Version: 1, Height: height, PreviousBlockHash: parent.Hash(), Timestamp: now},
		Transactions: []*types.Tx{coinbase, spend},
	}
	b.TransactionsMerkleRoot = bc.Hash{V0: verifU64("root0"), V1: verifU64("root1"), V2: verifU64("root2"), V3: verifU64("root3")}
	if verifBool("root.correct") {
		b.TransactionsMerkleRoot = root
	}
	msg := b.BlockHeader.Hash().Bytes()
	b.BlockWitness = prvs[0].Sign(msg)
	verifAssume(fed[0].Verify(msg, b.BlockWitness) && !fed[1].Verify(msg, b.BlockWitness))
	conv := func(prog []byte) ([]byte, error) { return nil, nil }

	err := ValidateBlock(b, parent, cp, conv)

	verifObserveBool("accepted", err == nil)
	bcBlock := types.MapBlock(b)
	gas, txErr := ValidateTx(spend.Tx, bcBlock, conv)
	if err == nil {
		verifAssert(txErr == nil, "block-with-invalid-transaction-rejected")
		verifAssert(txErr != nil || uint64(gas.GasUsed) <= consensus.MaxBlockGas, "gas-limit-rule")
		verifAssert(b.TransactionsMerkleRoot == root, "merkle-root-rule")
		verifReach("VerifC13BlockTx:accepted")
	} else {
		verifAssert(txErr != nil || b.TransactionsMerkleRoot != root || uint64(gas.GasUsed) > consensus.MaxBlockGas, "valid-block-accepted")
		verifReach("VerifC13BlockTx:rejected")
	}
}

// ---------------------------------------------------------------------------
// gas accounting against an independent oracle

var verifC13Menu = [][]byte{
	{0x51},                   // OP_1
	{0x51, 0x51, 0x93},       // OP_1 OP_1 OP_ADD
	{0x51, 0x76, 0x87},       // OP_1 OP_DUP OP_EQUAL
	{0x51, 0x51, 0x7e, 0xaa}, // OP_1 OP_1 OP_CAT OP_SHA3
}

// the gas a program consumes when run on its own through the real vm.Verify
func verifC13ProgramCost(prog []byte) int64 {
	one := uint64(1)
	const limit = 100000
	left, err := vm.Verify(&vm.Context{VMVersion: 1, Code: prog, TxVersion: &one}, limit)
	verifAssert(err == nil, "menu-program-succeeds")
	return limit - left
}

// a transaction of n BTM spends into one BTM output; returns the oracle's VM gas (sum over the inputs)
func verifC13GasTx(n int, amounts []uint64, outAmount uint64, size uint64) (*types.Tx, int64) {
	var ins []*types.TxInput
	vmGas := int64(0)
	for i := 0; i < n; i++ {
		prog := verifC13Menu[verifChoice("program", len(verifC13Menu))]
		vmGas += verifC13ProgramCost(prog)
		src := bc.NewHash(sha3.Sum256([]byte{byte(i)}))
		ins = append(ins, types.NewSpendInput(nil, src, *consensus.BTMAssetID, amounts[i], uint64(i), prog, nil))
	}
	out := types.NewOriginalTxOutput(*consensus.BTMAssetID, outAmount, []byte{0x51}, nil)
	return types.NewTx(types.TxData{Version: 1, SerializedSize: size, Inputs: ins, Outputs: []*types.TxOutput{out}}), vmGas
}

// the gas ValidateTx reports as used = storage gas + sum of the per-input program costs
func VerifC13TxGas(n int) {
	size := uint64(verifU32("size"))
	amounts := make([]uint64, n)
	for i := range amounts {
		amounts[i] = verifU64("in.amount")
	}
	tx, vmGas := verifC13GasTx(n, amounts, verifU64("out.amount"), size)
	block := &bc.Block{BlockHeader: &bc.BlockHeader{Version: 1, Height: 7}, Transactions: []*bc.Tx{tx.Tx}}

	gas, err := ValidateTx(tx.Tx, block, func(prog []byte) ([]byte, error) { return nil, nil })

	verifObserveBool("accepted", err == nil)
	if err != nil {
		verifReach("VerifC13TxGas:rejected")
		return
	}
	verifObserveI64("gasUsed", gas.GasUsed)
	expected := int64(size)*consensus.StorageGasRate + vmGas
	verifAssert(gas.GasUsed == expected, "gas-used-is-storage-plus-sum-of-program-costs")
	verifAssert(gas.StorageGas == int64(size)*consensus.StorageGasRate, "storage-gas-is-size-times-rate")
	verifReach("VerifC13TxGas:accepted")
}

// a block whose total gas can cross MaxBlockGas: rejected exactly when the oracle's total exceeds the limit
func VerifC13BlockGas(n int) {
	verifC13Clock = int64(verifU64("now.sec"))
	verifAssume(verifC13Clock >= 10 && verifC13Clock < 1<<33)
	now := uint64(time.Now().UnixNano() / 1e6)
	prvs := []chainkd.XPrv{chainkd.XPrv(verifC13Unhex(verifC13Prv0)), chainkd.XPrv(verifC13Unhex(verifC13Prv1))}
	fed := []chainkd.XPub{chainkd.XPub(verifC13Unhex(verifC13Pub0)), chainkd.XPub(verifC13Unhex(verifC13Pub1))}
	consensus.ActiveNetParams.FederationXpubs = fed
	interval := consensus.ActiveNetParams.BlockTimeInterval
	height := uint64(7)
	parent := &types.BlockHeader{Version: 1, Height: height - 1, Timestamp: now - interval}
	cp := &state.Checkpoint{Status: state.Growing, Timestamp: now - interval, Rewards: map[string]uint64{}}
	coinbase := types.NewTx(types.TxData{
		Version:        1,
		SerializedSize: 100,
		Inputs:         []*types.TxInput{types.NewCoinbaseInput([]byte{1, 2, 3})},
		Outputs:        []*types.TxOutput{types.NewOriginalTxOutput(*consensus.BTMAssetID, 0, []byte{0x51}, nil)},
	})
	size := uint64(verifU32("size"))
	// fee 10^9: buys the maximum of 300000 gas
	tx, vmGas := verifC13GasTx(2, []uint64{1000000000, 1000000000}, 1000000000, size)
	txs := []*types.Tx{coinbase}
	ids := []*bc.Tx{coinbase.Tx}
	for i := 0; i < n; i++ {
		txs = append(txs, tx)
		ids = append(ids, tx.Tx)
	}
	root, _ := types.TxMerkleRoot(ids)
	b := &types.Block{
		BlockHeader:  types.BlockHeader{Version: 1, Height: height, PreviousBlockHash: parent.Hash(), Timestamp: now},
		Transactions: txs,
	}
	b.TransactionsMerkleRoot = root
	msg := b.BlockHeader.Hash().Bytes()
	b.BlockWitness = prvs[0].Sign(msg)
	verifAssume(fed[0].Verify(msg, b.BlockWitness) && !fed[1].Verify(msg, b.BlockWitness))
	conv := func(prog []byte) ([]byte, error) { return nil, nil }

	err := ValidateBlock(b, parent, cp, conv)

	verifObserveBool("accepted", err == nil)
	// validity of the transaction on its own (its gas figures are not used)
	_, txErr := ValidateTx(tx.Tx, types.MapBlock(b), conv)
	perTx := uint64(int64(size)*consensus.StorageGasRate + vmGas)
	total := uint64(n) * perTx // the coinbase transaction uses no gas
	if err == nil {
		verifAssert(txErr == nil, "block-with-invalid-transaction-rejected")
		verifAssert(total <= consensus.MaxBlockGas, "block-over-gas-limit-rejected")
		verifReach("VerifC13BlockGas:accepted")
	} else {
		verifAssert(txErr != nil || total > consensus.MaxBlockGas, "block-within-gas-limit-accepted")
		if txErr == nil {
			verifReach("VerifC13BlockGas:over-limit")
		}
		verifReach("VerifC13BlockGas:rejected")
	}
}
