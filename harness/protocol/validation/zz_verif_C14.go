package validation

// C14 (reward check): checkCoinbaseAmount / checkoutRewardCoinbase accept a
// coinbase exactly when it pays what the property says.

//verif:property C14
//verif:bound reward check: block height arbitrary; coinbase with 0..3 outputs (quick) / 4 outputs (thorough), each an ordinary BTM output, a vote output or an output of another asset, with an arbitrary 1-byte control program and an arbitrary amount below 2^62; reward table of 0..2 (quick) / 3 (thorough) distinct 1-byte programs with arbitrary amounts in [1, 2^62); also the block without transactions
//verif:assume amounts stay below 2^62 (the BTM supply is below 2^58), so per-program sums of at most 4 outputs do not wrap
//verif:assume reward table entries are positive (applyValidatorReward creates an entry together with a subsidy of at least BlockReward/2)
//verif:assume mainnet parameters (BlocksOfEpoch = 100)
//verif:outside proposal.createCoinbaseTx (needs the chain, the account manager and txbuilder's clock); the supply bound over whole chains; control programs longer than one byte (they are only used as map keys)
//verif:obligation fn=VerifC14Coinbase args=-1,0;0,0;0,1;1,0;1,1;1,2;2,1;2,2;3,1;3,2 loops=5000 validate=12
//verif:obligation fn=VerifC14Coinbase args=4,2;3,3;4,3 loops=5000 tier=thorough secs=3000 paths=2000000

import (
	"encoding/hex"

	"github.com/bytom/bytom/consensus"
	"github.com/bytom/bytom/protocol/bc"
	"github.com/bytom/bytom/protocol/bc/types"
	"github.com/bytom/bytom/protocol/state"
)

func VerifC14Coinbase(nOut int, nTable int) {
	height := verifU64("height")
	cp := &state.Checkpoint{Rewards: map[string]uint64{}, Votes: map[string]uint64{}}
	tableProg := make([]byte, nTable)
	tableAmt := make([]uint64, nTable)
	for t := 0; t < nTable; t++ {
		p := verifU8("tableProgram")
		for u := 0; u < t; u++ {
			verifAssume(tableProg[u] != p)
		}
		a := verifU64("tableAmount")
		verifAssume(a >= 1 && a < 1<<62)
		tableProg[t], tableAmt[t] = p, a
		cp.Rewards[hex.EncodeToString([]byte{p})] = a
	}

	b := &types.Block{BlockHeader: types.BlockHeader{Version: 1, Height: height}}
	if nOut < 0 {
		err := checkCoinbaseAmount(b, cp)
		verifAssert(err != nil, "empty-block-rejected")
		verifReach("VerifC14Coinbase:empty-block")
		return
	}

	otherAsset := bc.AssetID{V0: 7}
	outProg := make([]byte, nOut)
	outAmt := make([]uint64, nOut)
	wellTyped := true
	var outs []*types.TxOutput
	for i := 0; i < nOut; i++ {
		p := verifU8("outProgram")
		a := verifU64("outAmount")
		verifAssume(a < 1<<62)
		outProg[i], outAmt[i] = p, a
		switch verifChoice("outKind", 3) {
		case 0:
			outs = append(outs, types.NewOriginalTxOutput(*consensus.BTMAssetID, a, []byte{p}, nil))
		case 1:
			outs = append(outs, types.NewVoteOutput(*consensus.BTMAssetID, a, []byte{p}, []byte{0xaa}, nil))
			wellTyped = false
		default:
			outs = append(outs, types.NewOriginalTxOutput(otherAsset, a, []byte{p}, nil))
			wellTyped = false
		}
	}
	b.Transactions = []*types.Tx{{TxData: types.TxData{Version: 1, Inputs: []*types.TxInput{types.NewCoinbaseInput([]byte{0})}, Outputs: outs}}}

	err := checkCoinbaseAmount(b, cp)
	accepted := err == nil
	verifObserveBool("accepted", accepted)

	if !wellTyped {
		verifAssert(!accepted, "only-ordinary-btm-outputs")
		return
	}
	if height%consensus.ActiveNetParams.BlocksOfEpoch != 1 {
		// every other block's coinbase pays nothing
		paysNothing := nOut == 1 && outAmt[0] == 0
		verifAssert(accepted == paysNothing, "off-epoch-coinbase-pays-nothing")
		if accepted {
			verifReach("VerifC14Coinbase:off-epoch-accepted")
		}
		return
	}
	// first block of an epoch: exactly the table. A leading zero-amount output
	// (the proposer's placeholder) does not count.
	exact := true
	for t := 0; t < nTable; t++ {
		sum := uint64(0)
		for i := 0; i < nOut; i++ {
			if i == 0 && outAmt[0] == 0 {
				continue
			}
			if outProg[i] == tableProg[t] {
				sum += outAmt[i]
			}
		}
		if sum != tableAmt[t] {
			exact = false
		}
	}
	for i := 0; i < nOut; i++ {
		if i == 0 && outAmt[0] == 0 {
			continue
		}
		listed := false
		for t := 0; t < nTable; t++ {
			if outProg[i] == tableProg[t] {
				listed = true
			}
		}
		if !listed {
			exact = false
		}
	}
	verifAssert(accepted == exact, "epoch-start-coinbase-pays-exactly-the-table")
	if accepted {
		verifReach("VerifC14Coinbase:epoch-start-accepted")
	} else {
		verifReach("VerifC14Coinbase:epoch-start-rejected")
	}
}
