package validation

// C01: validated transactions conserve value and report the true fee.
//
// A transaction of a fixed shape (kind of every input and output) is built with
// the real constructors, mapped with the real types.MapTx and validated with
// the real ValidateTx. Amounts, asset ids, source positions, serialized size,
// time range, transaction version and block height are arbitrary. On the
// accepting path the harness recomputes, with 128-bit sums, the totals per
// asset directly from the TxData and compares.

//verif:property C01
//verif:bound shapes (kind of every input x kind of every output), <= 2 inputs of {spend, issuance, veto, coinbase} x <= 2 outputs of {original, vote, retirement}; quick: spend>orig, coinbase>orig, coinbase+spend>orig, veto>vote, spend>orig+retire, spend>vote+orig, issuance+spend>orig, spend+spend>orig; thorough adds spend+spend>orig+orig, issuance+spend>orig+retire, veto+spend>vote+orig, coinbase+spend>orig+orig, issuance+issuance>orig+orig, spend+veto>retire+vote
//verif:bound every amount an arbitrary uint64; every asset id of a spend/veto input and of an output is ff..ff (BTM) in its upper 24 bytes and arbitrary in its first 8 bytes (BTM itself included; equalities between ids are solver-chosen); issuance asset ids are the real hash of the issuance data; source ids are distinct constants, source positions arbitrary; SerializedSize, TimeRange, tx version, block height arbitrary
//verif:assume control and issuance programs are the one-byte program OP_TRUE (0x51) with no arguments and no state, retirement program OP_FAIL (0x6a); vote public key 64 bytes
//verif:assume SHA3-256 is an uninterpreted collision-free function for the solver (real in validation and replay)
//verif:assume a coinbase input creates value by design: for transactions with a coinbase input only conservation of non-BTM assets and agreement of the reported fee with TxData.Fee() are asserted, not "BTM in >= BTM out"
//verif:outside non-trivial control programs (VM semantics: C07/C08), more than 2 inputs or outputs, asset ids differing from BTM outside their first 8 bytes
//verif:obligation fn=VerifC01Shape args=1,0,1,0;4,0,1,0;4,1,1,0;3,0,2,0;1,0,1,3;1,0,2,1;2,1,1,0;1,1,1,0 validate=12 mode=int secs=900
//verif:obligation fn=VerifC01Shape args=1,1,1,1;2,1,1,3;3,1,2,1;4,1,1,1;2,2,1,1;1,3,3,2 mode=int tier=thorough secs=3000

import (
	"math/bits"

	"golang.org/x/crypto/sha3"

	"github.com/bytom/bytom/consensus"
	"github.com/bytom/bytom/protocol/bc"
	"github.com/bytom/bytom/protocol/bc/types"
)

const (
	verifC01None = iota
	verifC01Spend
	verifC01Issuance
	verifC01Veto
	verifC01Coinbase
)

const (
	verifC01Original = 1
	verifC01Vote     = 2
	verifC01Retire   = 3
)

func verifC01Asset(name string) bc.AssetID {
	m := ^uint64(0)
	return bc.AssetID{V0: verifU64(name), V1: m, V2: m, V3: m}
}

func verifC01Input(kind int, idx int) *types.TxInput {
	prog := []byte{0x51}
	// the id of the (absent) transaction entry that created the spent output: a real digest, so
	// that it cannot coincide with an entry id of this transaction
	src := bc.NewHash(sha3.Sum256([]byte{byte(idx)}))
	switch kind {
	case verifC01Spend:
		return types.NewSpendInput(nil, src, verifC01Asset("in.asset"), verifU64("in.amount"), verifU64("in.pos"), prog, nil)
	case verifC01Issuance:
		return types.NewIssuanceInput([]byte{byte(idx), 7}, verifU64("in.amount"), prog, nil, []byte{9})
	case verifC01Veto:
		return types.NewVetoInput(nil, src, verifC01Asset("in.asset"), verifU64("in.amount"), verifU64("in.pos"), prog, make([]byte, 64), nil)
	case verifC01Coinbase:
		return types.NewCoinbaseInput([]byte{1, 2, 3})
	}
	return nil
}

func verifC01Output(kind int) *types.TxOutput {
	prog := []byte{0x51}
	switch kind {
	case verifC01Original:
		return types.NewOriginalTxOutput(verifC01Asset("out.asset"), verifU64("out.amount"), prog, nil)
	case verifC01Vote:
		return types.NewVoteOutput(verifC01Asset("out.asset"), verifU64("out.amount"), prog, make([]byte, 64), nil)
	case verifC01Retire:
		return types.NewOriginalTxOutput(verifC01Asset("out.asset"), verifU64("out.amount"), []byte{0x6a}, nil)
	}
	return nil
}

// asset and amount carried by an input, read from the typed input itself (not
// through TxInput.Amount/AssetID, which TxData.Fee uses); false for a coinbase
func verifC01InValue(in *types.TxInput) (bc.AssetID, uint64, bool) {
	switch inp := in.TypedInput.(type) {
	case *types.SpendInput:
		return *inp.AssetId, inp.Amount, true
	case *types.VetoInput:
		return *inp.AssetId, inp.Amount, true
	case *types.IssuanceInput:
		return inp.AssetID(), inp.Amount, true
	}
	return bc.AssetID{}, 0, false
}

// 128-bit total of the amounts of asset a among the value-carrying inputs
// (spend, issuance, veto) and among the outputs
func verifC01Totals(td *types.TxData, a bc.AssetID) (inHi, inLo, outHi, outLo uint64) {
	for _, in := range td.Inputs {
		asset, amount, ok := verifC01InValue(in)
		if ok && asset == a {
			var c uint64
			inLo, c = bits.Add64(inLo, amount, 0)
			inHi += c
		}
	}
	for _, out := range td.Outputs {
		if *out.AssetId == a {
			var c uint64
			outLo, c = bits.Add64(outLo, out.Amount, 0)
			outHi += c
		}
	}
	return
}

func VerifC01Shape(i0 int, i1 int, o0 int, o1 int) {
	td := types.TxData{
		Version:        verifU64("version"),
		SerializedSize: verifU64("size"),
		TimeRange:      verifU64("timerange"),
	}
	hasCoinbase := false
	for idx, k := range []int{i0, i1} {
		if k != verifC01None {
			td.Inputs = append(td.Inputs, verifC01Input(k, idx))
			if k == verifC01Coinbase {
				hasCoinbase = true
			}
		}
	}
	for _, k := range []int{o0, o1} {
		if k != verifC01None {
			td.Outputs = append(td.Outputs, verifC01Output(k))
		}
	}
	tx := &types.Tx{TxData: td, Tx: types.MapTx(&td)}
	block := &bc.Block{
		BlockHeader:  &bc.BlockHeader{Version: 1, Height: verifU64("height")},
		Transactions: []*bc.Tx{tx.Tx},
	}

	gas, err := ValidateTx(tx.Tx, block, func(prog []byte) ([]byte, error) { return nil, nil })

	verifObserveBool("accepted", err == nil)
	if err != nil {
		verifReach("VerifC01Shape:rejected")
		return
	}
	verifReach("VerifC01Shape:accepted")
	fee := td.Fee()
	verifObserveU64("reported", gas.BTMValue)
	verifObserveU64("fee", fee)

	// conservation, asset class by asset class: every asset occurring anywhere
	assets := []bc.AssetID{*consensus.BTMAssetID}
	for _, in := range td.Inputs {
		if asset, _, ok := verifC01InValue(in); ok {
			assets = append(assets, asset)
		}
	}
	for _, out := range td.Outputs {
		assets = append(assets, *out.AssetId)
	}
	for _, a := range assets {
		inHi, inLo, outHi, outLo := verifC01Totals(&td, a)
		if a == *consensus.BTMAssetID {
			if hasCoinbase {
				continue
			}
			verifAssert(inHi > outHi || (inHi == outHi && inLo >= outLo), "btm-in-at-least-out")
			diffLo, borrow := bits.Sub64(inLo, outLo, 0)
			diffHi, _ := bits.Sub64(inHi, outHi, borrow)
			verifAssert(diffHi == 0 && gas.BTMValue == diffLo, "reported-fee-is-btm-difference")
		} else {
			verifAssert(inHi == outHi && inLo == outLo, "non-btm-asset-conserved")
		}
	}
	// a coinbase input together with a value-carrying input: see known_findings.json
	verifKnown("KF-C01-COINBASE-MIXED", hasCoinbase && len(td.Inputs) > 1)
	verifAssert(gas.BTMValue == fee, "reported-fee-equals-txdata-fee")
}
