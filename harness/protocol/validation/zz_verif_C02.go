package validation

// C02 (program level): a one-input transaction spending an output locked by a
// standard segwit program is run through the real ValidateTx (MapTx, checkValid,
// NewTxVMContext, convertProgram, segwit.Convert*, vm.Verify with the P2PKH /
// P2SH templates, CHECKPREDICATE, CHECKMULTISIG, TXSIGHASH) with a symbolic
// witness.  Asserted:
//
//   P2WPKH(h20 = RIPEMD160(pkc)):
//     ValidateTx == nil  =>  the witness is [.., sig, pk] with pk == pkc and
//                            Verify(pkc, SHA3(inputID || txID), sig)
//     and conversely such a witness is accepted
//   P2WSH(h32 = SHA3(script)), script = P2SPMultiSig(keys, q):
//     ValidateTx == nil  =>  the last witness item equals the committed script
//                            and the q items before it carry valid signatures
//                            over SHA3(inputID || txID) for q of the committed
//                            keys, in key order
//     and conversely such a witness is accepted
//
// SHA3(inputID || txID) is recomputed by the harness from the mapped
// transaction, independently of NewTxVMContext.
//
// Worlds (last harness argument) as in the opcode-level harness: 0 = Verify is
// an arbitrary predicate and signatures are arbitrary bytes; 1 = signatures are
// honest ed25519.Sign outputs (by an arbitrary seed over this transaction's
// signature hash, over the signature hash of a sibling transaction that
// differs in one committed field (P2WPKH and 1-of-1 only), or over an arbitrary message; also a real signature over this transaction's
// signature hash cut to 63 bytes or with one arbitrary byte appended) or short junk,
// and Verify is true exactly on honest triples, so that every counterexample
// replays natively.

//verif:property C02
//verif:bound transaction shape: version 1, one BTM spend input (amount 10000000000, source id/position arbitrary), one BTM output of amount-40000000 to a program [OP_1, arbitrary byte], time range arbitrary but not expired (0 or >= block height), serialized size 300, block version 1 at arbitrary height (gas available to the program: 199700)
//verif:bound P2WPKH: witness of 0..3 items: [junk of 2 bytes]* then signature item, then key item of 31..33 arbitrary bytes (closed world: the committed key, the public key of an arbitrary seed, the committed key cut to 31 bytes or with one arbitrary byte appended)
//verif:bound P2WSH: redeem script P2SPMultiSig with (keys, quorum) = (1,1) (2,1) (2,2) quick, (3,2) (3,3) thorough; witness = [optional junk item] [quorum or quorum-1 signature items] [script item]; script item = the committed script, the same keys with another quorum, the script with one key replaced, or (1-of-1 quick; 2-of-2 and 2-of-3 thorough, open world) arbitrary bytes of the committed script's length
//verif:assume SHA3-256 and RIPEMD-160 are uninterpreted and collision-free; ed25519.Verify as stated above (world 0: uninterpreted predicate; world 1: override verifC02Verify); ed25519.NewKeyFromSeed/Sign are uninterpreted for the solver with the axiom Verify(pub(seed), msg, Sign(seed||pub(seed), msg))
//verif:assume error texts are not the subject: vm.Disassemble and hex.EncodeToString (used by vm.wrapErr only on this path) are cut for the solver
//verif:assume "any change to a committed field of the transaction invalidates the spend" is decided as: the verified message is SHA3(inputID || txID) of this transaction, and a signature over the sibling transaction's signature hash is rejected; that txID/inputID commit to every consensus field is property C03
//verif:outside blockchain/txbuilder/signature_witness.go (wallet side: JSON, HSM, key derivation); cryptographic strength of ed25519 and of the hashes; more than 3 keys at program level; non-BTM assets and multi-input transactions (the signature check is per input and does not read them except through txID)
//verif:override crypto/ed25519.Verify -> verifC02Verify
//verif:override github.com/bytom/bytom/protocol/vm.Disassemble -> verifC02Disassemble
//verif:override encoding/hex.EncodeToString -> verifC02Hex
//verif:obligation fn=VerifC02P2WPKH args=2,0;1,0 nooverride=verifC02Verify validate=24 secs=3000 timeout=120000
//verif:obligation fn=VerifC02P2WPKH args=2,1;0,1 validate=24 secs=3000 timeout=120000
//verif:obligation fn=VerifC02P2WSH args=1,1,0,4,0;2,1,0,3,0;2,2,0,3,0 nooverride=verifC02Verify validate=24 secs=3000 timeout=120000
//verif:obligation fn=VerifC02P2WSH args=1,1,0,4,1;2,1,0,3,1;2,2,0,3,1;2,2,2,1,1 validate=24 secs=3000 timeout=120000
//verif:obligation fn=VerifC02P2WPKH args=3,0 nooverride=verifC02Verify tier=thorough secs=3000 timeout=120000
//verif:obligation fn=VerifC02P2WPKH args=3,1 tier=thorough secs=3000 timeout=120000
//verif:obligation fn=VerifC02P2WSH args=2,2,0,4,0;2,2,1,3,0;3,2,0,4,0;3,3,0,3,0 nooverride=verifC02Verify tier=thorough secs=3000 timeout=120000
//verif:obligation fn=VerifC02P2WSH args=1,1,1,1,1;2,2,1,3,1;3,2,0,3,1;3,3,0,3,1 tier=thorough secs=3000 timeout=120000

import (
	"bytes"
	"crypto/ed25519"

	"golang.org/x/crypto/sha3"

	"github.com/bytom/bytom/consensus"
	"github.com/bytom/bytom/crypto"
	"github.com/bytom/bytom/protocol/bc"
	"github.com/bytom/bytom/protocol/bc/types"
	"github.com/bytom/bytom/protocol/vm/vmutil"
)

type verifC02Triple struct{ pk, msg, sig []byte }

var verifC02Honest []verifC02Triple

func verifC02And(a, b bool) bool { return a && b }
func verifC02Or(a, b bool) bool  { return a || b }

func verifC02Verify(pk ed25519.PublicKey, msg, sig []byte) bool {
	r := false
	for _, t := range verifC02Honest {
		r = verifC02Or(r, verifC02And(bytes.Equal(pk, t.pk), verifC02And(bytes.Equal(msg, t.msg), bytes.Equal(sig, t.sig))))
	}
	return r
}

func verifC02Disassemble(prog []byte) (string, error) { return "", nil }
func verifC02Hex(b []byte) string                      { return "" }

// arbitrary bytes of a length in lo..hi; the length is forked (not symbolic) so that gas stays concrete
func verifC02Shaped(name string, lo, hi int) []byte {
	return verifBytesN(name, lo+verifChoice(name+".len", hi-lo+1))
}

// a key-shaped witness item. Closed world: the committed key, the public key of
// an arbitrary seed, or the committed key cut to 31 bytes / with one arbitrary
// byte appended (values the native replay reproduces); open world: arbitrary bytes of 31..33 bytes
func verifC02KeyItem(world int, committed []byte) []byte {
	if world == 0 {
		return verifC02Shaped("pk", 31, 33)
	}
	switch verifChoice("pk.kind", 4) {
	case 0:
		return append([]byte{}, committed...)
	case 1:
		priv := ed25519.NewKeyFromSeed(verifBytesN("pk.seed", 32))
		return []byte(priv[32:])
	case 2: // the committed key without its last byte
		return append([]byte{}, committed[:len(committed)-1]...)
	}
	// the committed key with one arbitrary byte appended
	return append(append([]byte{}, committed...), verifU8("pk.tail"))
}

// the spending transaction; field values that only flow into the ids are arbitrary
type verifC02Spend struct {
	amount    uint64
	sourceID  bc.Hash
	sourcePos uint64
	timeRange uint64
	outTag    byte
	height    uint64
}

func verifC02Fields() *verifC02Spend {
	s := &verifC02Spend{}
	s.amount = 10000000000 // concrete, so that the gas budget is concrete
	s.sourceID = bc.Hash{V0: verifU64("source.v0"), V1: 7}
	s.sourcePos = verifU64("source.pos")
	s.timeRange = verifU64("timeRange")
	s.outTag = verifU8("out.tag")
	s.height = verifU64("height")
	verifAssume(s.timeRange == 0 || s.timeRange >= s.height) // documented precondition of inclusion: the time range has not expired
	verifAssume(s.timeRange != ^uint64(0))                  // the sibling transaction uses timeRange+1
	return s
}

func (s *verifC02Spend) build(prog []byte, args [][]byte) *types.Tx {
	in := types.NewSpendInput(args, s.sourceID, *consensus.BTMAssetID, s.amount, s.sourcePos, prog, nil)
	out := types.NewOriginalTxOutput(*consensus.BTMAssetID, s.amount-40000000, []byte{0x51, s.outTag}, nil)
	return types.NewTx(types.TxData{Version: 1, SerializedSize: 300, TimeRange: s.timeRange, Inputs: []*types.TxInput{in}, Outputs: []*types.TxOutput{out}})
}

// SHA3(inputID || txID), computed without the code under test
func verifC02SigHash(tx *types.Tx) []byte {
	buf := append([]byte{}, tx.Tx.InputIDs[0].Bytes()...)
	buf = append(buf, tx.Tx.ID.Bytes()...)
	h := sha3.Sum256(buf)
	return h[:]
}

// the signature hash of the sibling transaction: same spend, one committed field changed
func verifC02SiblingSigHash(s *verifC02Spend, prog []byte) []byte {
	t := *s
	switch verifChoice("sibling.field", 4) {
	case 0:
		t.amount = s.amount + 1
	case 1:
		t.timeRange = s.timeRange + 1
	case 2:
		t.outTag = s.outTag + 1
	case 3:
		t.sourcePos = s.sourcePos + 1
	}
	return verifC02SigHash(t.build(prog, nil))
}

// a signature-shaped witness item. seeds: the committed keys' seeds (the signer
// seed is arbitrary: the solver may make it equal to one of them or not)
func verifC02SigItem(world int, s *verifC02Spend, prog []byte, sighash []byte, sibling bool) []byte {
	if world == 0 {
		return verifC02Shaped("sig", 63, 65)
	}
	kind := verifChoice("sig.kind", 6)
	if kind == 3 {
		return verifBytesN("sig.junk", 1)
	}
	if kind == 1 && !sibling {
		verifAssume(false) // sibling-transaction signatures are explored for P2WPKH and 1-of-1 only
	}
	priv := ed25519.NewKeyFromSeed(verifBytesN("sig.seed", 32))
	var msg []byte
	switch kind {
	case 0, 4, 5:
		msg = sighash
	case 1:
		msg = verifC02SiblingSigHash(s, prog)
	case 2:
		msg = verifBytesN("sig.msg", 32)
		verifAssume(!bytes.Equal(msg, sighash)) // that case is kind 0
	}
	sig := ed25519.Sign(priv, msg)
	verifC02Honest = append(verifC02Honest, verifC02Triple{pk: priv[32:], msg: msg, sig: sig})
	switch kind {
	case 4: // a real signature over this transaction's signature hash with one arbitrary byte appended
		return append(append([]byte{}, sig...), verifU8("sig.tail"))
	case 5: // ... or without its last byte: a modified signature is not a valid signature
		return append([]byte{}, sig[:len(sig)-1]...)
	}
	return sig
}

func verifC02Validate(s *verifC02Spend, tx *types.Tx) error {
	block := &bc.Block{BlockHeader: &bc.BlockHeader{Version: 1, Height: s.height}}
	_, err := ValidateTx(tx.Tx, block, nil)
	return err
}

func VerifC02P2WPKH(nArgs int, world int) {
	verifC02Honest = nil
	s := verifC02Fields()
	privc := ed25519.NewKeyFromSeed(verifBytesN("committed.seed", 32))
	pkc := []byte(privc[32:])
	prog, err := vmutil.P2WPKHProgram(crypto.Ripemd160(pkc))
	verifAssume(err == nil)

	// the ids do not depend on the witness: signature hash first, then the witness
	sighash := verifC02SigHash(s.build(prog, nil))
	var args [][]byte
	for i := 0; i < nArgs-2; i++ {
		args = append(args, verifBytesN("junk", 2))
	}
	var sig, pk []byte
	if nArgs >= 2 {
		sig = verifC02SigItem(world, s, prog, sighash, true)
		args = append(args, sig)
	}
	if nArgs >= 1 {
		pk = verifC02KeyItem(world, pkc)
		args = append(args, pk)
	}
	tx := s.build(prog, args)
	verifAssert(bytes.Equal(verifC02SigHash(tx), sighash), "sighash-does-not-depend-on-witness")

	verr := verifC02Validate(s, tx)

	verifObserveBool("accepted", verr == nil)
	if nArgs < 2 {
		verifAssert(verr != nil, "p2wpkh-needs-signature-and-key")
		verifReach("VerifC02P2WPKH:too-few-arguments")
		return
	}
	good := false
	if len(pk) == 32 {
		good = verifC02And(bytes.Equal(pk, pkc), ed25519.Verify(ed25519.PublicKey(pk), sighash, sig))
	}
	verifObserveBool("good", good)
	if verr == nil {
		verifAssert(good, "p2wpkh-accept-needs-committed-key-and-valid-signature-over-sighash")
		verifReach("VerifC02P2WPKH:accepted")
	} else {
		verifAssert(!good, "p2wpkh-matching-witness-accepted")
		verifReach("VerifC02P2WPKH:rejected")
	}
}

// exists a strictly increasing map of sigs[si:] into keys[ki:] with V true
func verifC02Exists(V [][]bool, si, ki int) bool {
	m := len(V)
	if si == m {
		return true
	}
	n := len(V[si])
	if n-ki < m-si {
		return false
	}
	return verifC02Or(verifC02And(V[si][ki], verifC02Exists(V, si+1, ki+1)), verifC02Exists(V, si, ki+1))
}

// shape: 0 = [sig x quorum, script], 1 = [junk, sig x quorum, script], 2 = [sig x (quorum-1), script]
// scriptKinds: how many of the script-item variants are explored (see below)
func VerifC02P2WSH(nKeys int, quorum int, shape int, scriptKinds int, world int) {
	verifC02Honest = nil
	s := verifC02Fields()
	keys := make([]ed25519.PublicKey, nKeys)
	for j := range keys {
		priv := ed25519.NewKeyFromSeed(verifBytesN("committed.seed", 32))
		keys[j] = ed25519.PublicKey(priv[32:])
	}
	script, err := vmutil.P2SPMultiSigProgram(keys, quorum)
	verifAssume(err == nil)
	h32 := sha3.Sum256(script)
	prog, err := vmutil.P2WSHProgram(h32[:])
	verifAssume(err == nil)
	sighash := verifC02SigHash(s.build(prog, nil))

	var args [][]byte
	if shape == 1 {
		args = append(args, verifBytesN("junk", 2))
	}
	nSigs := quorum
	if shape == 2 {
		nSigs = quorum - 1
	}
	sigs := make([][]byte, nSigs)
	for i := range sigs {
		sigs[i] = verifC02SigItem(world, s, prog, sighash, nKeys == 1)
		args = append(args, sigs[i])
	}
	var item []byte
	switch verifChoice("script.kind", scriptKinds) {
	case 0: // the committed script
		item = append([]byte{}, script...)
	case 1: // one committed key replaced by another key
		other := ed25519.NewKeyFromSeed(verifBytesN("attacker.seed", 32))
		keys2 := append([]ed25519.PublicKey{}, keys...)
		keys2[verifChoice("attacker.slot", nKeys)] = ed25519.PublicKey(other[32:])
		item, err = vmutil.P2SPMultiSigProgram(keys2, quorum)
		verifAssume(err == nil)
	case 2: // the same keys with a smaller quorum (the committed one if it is already 1)
		q2 := quorum - 1
		if q2 < 1 {
			q2 = 1
		}
		item, err = vmutil.P2SPMultiSigProgram(keys, q2)
		verifAssume(err == nil)
	case 3: // arbitrary bytes of the committed script's length
		item = verifBytesN("script.item", len(script))
	}
	args = append(args, item)
	tx := s.build(prog, args)

	verr := verifC02Validate(s, tx)

	verifObserveBool("accepted", verr == nil)
	if shape == 2 {
		verifAssert(verr != nil, "p2wsh-needs-quorum-signatures")
		verifReach("VerifC02P2WSH:too-few-signatures")
		return
	}
	V := make([][]bool, nSigs)
	for i := range V {
		V[i] = make([]bool, nKeys)
		for j := range keys {
			V[i][j] = ed25519.Verify(keys[j], sighash, sigs[i])
		}
	}
	good := verifC02And(bytes.Equal(item, script), verifC02Exists(V, 0, 0))
	verifObserveBool("good", good)
	if verr == nil {
		verifAssert(good, "p2wsh-accept-needs-committed-script-and-quorum-ordered-valid-signatures-over-sighash")
		verifReach("VerifC02P2WSH:accepted")
	} else {
		verifAssert(!good, "p2wsh-matching-witness-accepted")
		verifReach("VerifC02P2WSH:rejected")
	}
}
