package validation

// C07 (gas accounting around the VM, protocol/validation/tx.go): the gas limit
// a transaction's programs run under is what its fee buys, capped at the
// consensus maximum, and GasState never lets the remaining gas go negative or
// grow.

//verif:property C07
//verif:bound GasState kernel: setGas / chargeStorageGas / updateUsage with arbitrary int64 fee, transaction size and returned gas (mode=int)
//verif:assume the transaction size is that of a real serialised transaction (0 <= size < 2^40); the gas the VM returns is at most the limit it was given (that is the VM part of C07, decided by the step lemma and the Verify prologue/epilogue obligations)
//verif:obligation fn=VerifC07GasState mode=int validate=30

import "github.com/bytom/bytom/consensus"

func VerifC07GasState() {
	fee := verifI64("fee")
	size := verifI64("size")
	verifAssume(size >= 0 && size < 1<<40)
	g := &GasState{}
	err := g.setGas(fee, size)
	verifObserveBool("setGasErr", err != nil)
	if err != nil {
		verifReach("VerifC07GasState:setgas-rejected")
		return
	}
	verifAssert(fee >= 0, "negative-fee-rejected")
	// what the fee buys, capped at the consensus maximum
	want := fee / consensus.VMGasRate
	if want > consensus.MaxGasAmount {
		want = consensus.MaxGasAmount
	}
	verifObserveI64("gasLeft", g.GasLeft)
	verifAssert(g.GasLeft == want, "gas-limit-is-fee-over-rate-capped-at-maximum")
	verifAssert(g.BTMValue == uint64(fee), "fee-recorded")
	if err := g.chargeStorageGas(); err != nil {
		verifReach("VerifC07GasState:storage-rejected")
		return
	}
	verifAssert(g.GasLeft >= 0 && g.GasLeft <= want, "storage-gas-only-lowers-the-limit")
	before := g.GasLeft
	used := g.GasUsed
	left := verifI64("vmGasLeft")
	verifAssume(left <= before)
	if err := g.updateUsage(left); err != nil {
		// rejected: negative gas, or less gas left than the storage gas credit (ErrOverGasCredit)
		verifAssert(left < 0 || g.StorageGas > left, "usage-rejected-only-for-negative-gas-or-gas-credit")
		verifReach("VerifC07GasState:usage-rejected")
		return
	}
	verifAssert(left >= 0, "negative-returned-gas-rejected")
	verifAssert(g.GasLeft == left && g.GasLeft <= before, "remaining-gas-never-grows")
	verifAssert(g.GasUsed == used+(before-left), "used-gas-accumulates")
	verifReach("VerifC07GasState:ok")
}
