package state

// C15: effective validator set (vote tally filter + ranking + truncation +
// federation fallback), block-proposer slot arithmetic and the vote/veto tally.

//verif:property C15
//verif:bound slot arithmetic: every checkpoint timestamp, every block time >= epoch start (below 2^64), every validator count 1..10
//verif:bound validator set: vote maps of exactly 1..4 keys (quick) / 5 keys (thorough) with arbitrary 2-byte key strings and arbitrary uint64 tallies, every status; k <= 3 (quick) / 4 (thorough) additionally under every map iteration order; truncation: 11 and 12 qualifying keys whose tallies are arbitrary but listed in strictly descending, strictly ascending or all-equal order
//verif:bound schedule: GetValidator for vote maps of 1..3 keys and every block time >= epoch start
//verif:bound tally: blocks of 1..2 (thorough 3) transactions, each with a spend input, a plain output, at most one veto input and at most one vote output over 2 candidate keys (vetoes are applied before the votes of the same transaction), arbitrary amounts below 2^62, arbitrary prior tallies below 2^62
//verif:assume mainnet parameters (BlockTimeInterval 6000 ms, MinValidatorVoteNum 1e14, 10 validators, the mainnet federation key)
//verif:assume checkpoint timestamp + BlockTimeInterval does not wrap (timestamps are milliseconds since 1970)
//verif:assume map iteration order: insertion order of the engine's map model, plus every permutation for the obligations marked permute
//verif:outside Chain.GetValidator / casper lookup of the parent checkpoint (store access); more than 12 keys; arbitrary orders of 11+ keys (11! sort paths)
//verif:obligation fn=VerifC15Order args=1;2;3;4;5;6;7;8;9;10 mode=int validate=30 timeout=120000
//verif:obligation fn=VerifC15Validators args=1;2;3;4 loops=5000 validate=12
//verif:obligation fn=VerifC15Validators args=2;3 loops=5000 permute=true
//verif:obligation fn=VerifC15Validators args=5 loops=5000 tier=thorough secs=3000
//verif:obligation fn=VerifC15Validators args=4 loops=5000 permute=true tier=thorough secs=3000
//verif:obligation fn=VerifC15Truncate args=11;12 loops=5000 validate=10
//verif:obligation fn=VerifC15Schedule args=1;2;3 mode=int loops=5000 validate=12 timeout=120000
//verif:obligation fn=VerifC15Tally args=1;2 loops=5000 validate=12
//verif:obligation fn=VerifC15Epochs args=1;2 loops=5000 validate=12
//verif:obligation fn=VerifC15Tally args=3 loops=5000 tier=thorough secs=3000 paths=2000000

import (
	"encoding/hex"

	"github.com/bytom/bytom/consensus"
	"github.com/bytom/bytom/protocol/bc"
	"github.com/bytom/bytom/protocol/bc/types"
)

// ---------------------------------------------------------------------------
// slot arithmetic

func VerifC15Order(nValidators int) {
	cpTime := verifU64("checkpointTime")
	t := verifU64("blockTime")
	n := uint64(nValidators)
	interval := consensus.ActiveNetParams.BlockTimeInterval
	verifAssume(cpTime <= 0xffffffffffffffff-interval)
	start := cpTime + interval
	verifAssume(t >= start)

	order := getValidatorOrder(start, t, n)

	verifObserveU64("order", order)
	verifAssert(order < n, "order-below-validator-count")
	verifAssert(order == ((t-start)/interval)%n, "order-is-slot-mod-count")
	verifReach("VerifC15Order:end")
}

// ---------------------------------------------------------------------------
// validator set

type verifC15Cand struct {
	key   string
	votes uint64
}

// verifC15Votes builds a checkpoint whose vote map has exactly k distinct keys.
func verifC15Votes(k int) (*Checkpoint, []verifC15Cand) {
	c := &Checkpoint{Votes: map[string]uint64{}, Rewards: map[string]uint64{}}
	var cands []verifC15Cand
	for i := 0; i < k; i++ {
		key := string(verifBytesN("key", 2))
		for _, o := range cands {
			verifAssume(o.key != key)
		}
		v := verifU64("votes")
		c.Votes[key] = v
		cands = append(cands, verifC15Cand{key, v})
	}
	return c, cands
}

// verifC15Rank: number of qualifying candidates ranked strictly before cands[i]
// (more votes, or equal votes and larger key). Only called for qualifying i.
func verifC15Rank(cands []verifC15Cand, i int) int {
	min := consensus.ActiveNetParams.MinValidatorVoteNum
	r := 0
	for j := range cands {
		if j == i || cands[j].votes < min {
			continue
		}
		if cands[j].votes > cands[i].votes {
			r++
		} else if cands[j].votes == cands[i].votes && cands[j].key > cands[i].key {
			r++
		}
	}
	return r
}

func verifC15CheckFederation(result map[string]*Validator) {
	fed := consensus.ActiveNetParams.FederationXpubs
	verifAssert(len(result) == len(fed), "fallback-is-federation-size")
	for i, x := range fed {
		v := result[x.String()]
		verifAssert(v != nil, "fallback-has-federation-key")
		if v != nil {
			verifAssert(v.Order == i && v.PubKey == x.String(), "fallback-order-is-federation-index")
		}
	}
}

// verifC15CheckSet compares an EffectiveValidators result with the rule of the property.
func verifC15CheckSet(result map[string]*Validator, cands []verifC15Cand, growing bool) int {
	min := consensus.ActiveNetParams.MinValidatorVoteNum
	qualifying := 0
	if !growing {
		for _, cd := range cands {
			if cd.votes >= min {
				qualifying++
			}
		}
	}
	if qualifying == 0 {
		verifC15CheckFederation(result)
		return len(result)
	}
	want := qualifying
	if want > consensus.MaxNumOfValidators {
		want = consensus.MaxNumOfValidators
	}
	verifAssert(len(result) == want, "size-is-min-of-qualifying-and-ten")
	for i, cd := range cands {
		v := result[cd.key]
		if cd.votes < min {
			verifAssert(v == nil, "below-minimum-excluded")
			continue
		}
		r := verifC15Rank(cands, i)
		if r >= consensus.MaxNumOfValidators {
			verifAssert(v == nil, "beyond-ten-excluded")
			continue
		}
		verifAssert(v != nil, "qualifying-key-included")
		if v != nil {
			verifAssert(v.Order == r, "order-is-rank-by-votes-then-key")
			verifAssert(v.VoteNum == cd.votes, "votenum-is-tally")
			verifAssert(v.PubKey == cd.key, "pubkey-is-map-key")
		}
	}
	return want
}

func VerifC15Validators(k int) {
	c, cands := verifC15Votes(k)
	st := verifU8("status")
	verifAssume(st <= uint8(Finalized))
	c.Status = CheckpointStatus(st)

	result := c.EffectiveValidators()

	verifObserveI64("n", int64(len(result)))
	n := verifC15CheckSet(result, cands, c.Status == Growing)
	if c.Status == Growing {
		verifReach("VerifC15Validators:growing-fallback")
	} else if n == k {
		verifReach("VerifC15Validators:all-qualify")
	}
}

// more than ten qualifying keys: the ranking of the listed keys is fixed by
// the arrangement (descending / ascending / all equal), the values are arbitrary
func VerifC15Truncate(k int) {
	c := &Checkpoint{Votes: map[string]uint64{}, Rewards: map[string]uint64{}, Status: Unjustified}
	arrangement := verifChoice("arrangement", 3)
	var cands []verifC15Cand
	min := consensus.ActiveNetParams.MinValidatorVoteNum
	for i := 0; i < k; i++ {
		key := string([]byte{'k', byte('a' + (i*7)%k)})
		v := verifU64("votes")
		verifAssume(v >= min)
		if i > 0 {
			switch arrangement {
			case 0:
				verifAssume(v < cands[i-1].votes)
			case 1:
				verifAssume(v > cands[i-1].votes)
			default:
				verifAssume(v == cands[i-1].votes)
			}
		}
		c.Votes[key] = v
		cands = append(cands, verifC15Cand{key, v})
	}

	result := c.EffectiveValidators()

	verifObserveI64("n", int64(len(result)))
	verifC15CheckSet(result, cands, false)
	verifReach("VerifC15Truncate:end")
}

// ---------------------------------------------------------------------------
// schedule

func VerifC15Schedule(k int) {
	c, cands := verifC15Votes(k)
	c.Status = Unjustified
	c.Timestamp = verifU64("checkpointTime")
	interval := consensus.ActiveNetParams.BlockTimeInterval
	verifAssume(c.Timestamp <= 0xffffffffffffffff-interval)
	start := c.Timestamp + interval
	t := verifU64("blockTime")
	verifAssume(t >= start)

	v := c.GetValidator(t)

	verifAssert(v != nil, "a-validator-is-scheduled")
	if v == nil {
		return
	}
	min := consensus.ActiveNetParams.MinValidatorVoteNum
	n := 0
	for _, cd := range cands {
		if cd.votes >= min {
			n++
		}
	}
	if n == 0 {
		n = len(consensus.ActiveNetParams.FederationXpubs)
		verifReach("VerifC15Schedule:federation")
	} else {
		verifReach("VerifC15Schedule:elected")
	}
	slot := ((t - start) / interval) % uint64(n)
	verifObserveI64("order", int64(v.Order))
	verifAssert(uint64(v.Order) == slot, "scheduled-order-is-slot-mod-count")
	// the scheduled validator is the candidate of that rank
	for i, cd := range cands {
		if cd.votes >= min && cd.key == v.PubKey {
			verifAssert(verifC15Rank(cands, i) == v.Order, "scheduled-validator-has-that-rank")
		}
	}
}

// ---------------------------------------------------------------------------
// tally

var verifC15Keys = [][]byte{{0xaa, 0x01}, {0xbb, 0x02}}

func VerifC15Tally(nTx int) {
	c := &Checkpoint{Votes: map[string]uint64{}, Rewards: map[string]uint64{}}
	// reference tally: 0 == absent
	ref := make([]uint64, len(verifC15Keys))
	for i, k := range verifC15Keys {
		v := verifU64("prior")
		verifAssume(v < 1<<62)
		if v != 0 {
			c.Votes[hex.EncodeToString(k)] = v
		}
		ref[i] = v
	}
	block := &types.Block{}
	prog := []byte{0x51}
	for t := 0; t < nTx; t++ {
		// a spend input and a plain output are always present (they must not count)
		ins := []*types.TxInput{types.NewSpendInput(nil, bc.Hash{V0: uint64(t*10 + 9)}, *consensus.BTMAssetID, verifU64("spendAmount"), 0, prog, nil)}
		outs := []*types.TxOutput{types.NewOriginalTxOutput(*consensus.BTMAssetID, verifU64("plainAmount"), prog, nil)}
		if who := verifChoice("vetoKey", len(verifC15Keys)+1); who < len(verifC15Keys) {
			amt := verifU64("vetoAmount")
			verifAssume(amt < 1<<62)
			ins = append(ins, types.NewVetoInput(nil, bc.Hash{V0: uint64(t * 10)}, *consensus.BTMAssetID, amt, 0, prog, verifC15Keys[who], nil))
			if ref[who] > amt {
				ref[who] -= amt
			} else {
				ref[who] = 0
			}
		}
		if who := verifChoice("voteKey", len(verifC15Keys)+1); who < len(verifC15Keys) {
			amt := verifU64("voteAmount")
			verifAssume(amt < 1<<62)
			outs = append(outs, types.NewVoteOutput(*consensus.BTMAssetID, amt, prog, verifC15Keys[who], nil))
			ref[who] += amt
		}
		block.Transactions = append(block.Transactions, &types.Tx{TxData: types.TxData{Version: 1, Inputs: ins, Outputs: outs}})
	}

	c.applyVotes(block)

	for i, k := range verifC15Keys {
		got := c.Votes[hex.EncodeToString(k)]
		verifObserveU64("tally", got)
		verifAssert(got == ref[i], "tally-is-votes-minus-vetoes-floored-at-zero")
	}
	verifAssert(len(c.Votes) <= len(verifC15Keys), "no-foreign-keys")
	verifReach("VerifC15Tally:end")
}

// ---------------------------------------------------------------------------
// epochs: the tally of a running epoch is fixed when the next checkpoint is
// created; votes and vetoes of the next epoch's blocks must not reach it
// (the validator set of an epoch is a function of the branch up to its
// checkpoint, not of later blocks).

func VerifC15Epochs(nTx int) {
	parent := &Checkpoint{Height: 100, Status: Unjustified, Votes: map[string]uint64{}, Rewards: map[string]uint64{}}
	prior := make([]uint64, len(verifC15Keys))
	for i, k := range verifC15Keys {
		v := verifU64("prior")
		verifAssume(v < 1<<62)
		if v != 0 {
			parent.Votes[hex.EncodeToString(k)] = v
		}
		prior[i] = v
	}
	child := NewCheckpoint(parent)
	for i, k := range verifC15Keys {
		verifAssert(child.Votes[hex.EncodeToString(k)] == prior[i], "child-starts-from-the-parent-tally")
	}
	block := &types.Block{}
	prog := []byte{0x51}
	for t := 0; t < nTx; t++ {
		ins := []*types.TxInput{types.NewSpendInput(nil, bc.Hash{V0: uint64(t*10 + 9)}, *consensus.BTMAssetID, 5, 0, prog, nil)}
		outs := []*types.TxOutput{types.NewOriginalTxOutput(*consensus.BTMAssetID, 1, prog, nil)}
		if who := verifChoice("vetoKey", len(verifC15Keys)+1); who < len(verifC15Keys) {
			amt := verifU64("vetoAmount")
			verifAssume(amt < 1<<62)
			ins = append(ins, types.NewVetoInput(nil, bc.Hash{V0: uint64(t * 10)}, *consensus.BTMAssetID, amt, 0, prog, verifC15Keys[who], nil))
		}
		if who := verifChoice("voteKey", len(verifC15Keys)+1); who < len(verifC15Keys) {
			amt := verifU64("voteAmount")
			verifAssume(amt < 1<<62)
			outs = append(outs, types.NewVoteOutput(*consensus.BTMAssetID, amt, prog, verifC15Keys[who], nil))
		}
		block.Transactions = append(block.Transactions, &types.Tx{TxData: types.TxData{Version: 1, Inputs: ins, Outputs: outs}})
	}
	child.applyVotes(block)
	for i, k := range verifC15Keys {
		got := parent.Votes[hex.EncodeToString(k)]
		verifObserveU64("parentTally", got)
		verifAssert(got == prior[i], "next-epoch-votes-do-not-change-the-running-epoch")
	}
	verifReach("VerifC15Epochs:end")
}
