package state

// C14 (reward accumulation): Checkpoint.applyValidatorReward credits, per
// block, the fees of all transactions plus the subsidy to the program of the
// block's first coinbase output, and touches nothing else.

//verif:property C14
//verif:bound accumulation: block of a coinbase plus 0..2 transactions with 2 inputs and 2 outputs each (BTM or another asset, arbitrary amounts below 2^60), arbitrary 2-byte proposer program, prior reward table of 0..2 entries (one of them possibly the proposer's) with arbitrary amounts below 2^62
//verif:assume amounts below 2^60 / table entries below 2^62 (no wrap-around of fee sums; the BTM supply is below 2^58)
//verif:outside the value of the subsidy: validatorReward / pledgeRate are float64 arithmetic, which the engine only executes on concrete operands; the harness runs the real validatorReward on a checkpoint with a concrete height and concrete vote totals (3 menus) and asserts only that exactly this value is added; its range [BlockReward/2, BlockReward] is NOT decided
//verif:bound per-block step: Checkpoint.Increase on a block at height 201 or 300 (epoch end) made of a coinbase and one transaction with an arbitrary BTM spend input and plain output (amounts below 2^60, i.e. arbitrary fee) plus, from a menu of 6, a vote output and/or a veto input of concrete amounts (1e16..5e16 BTM-neu) for key A or a new key B; prior tally from a menu of 3 (empty; A=5e16, pledge rate 0.30; A=1.2e17, pledge rate 0.71 above the 0.5 threshold); arbitrary prior reward of the proposer below 2^62
//verif:assume Increase ordering reference: the subsidy is the real validatorReward evaluated on a separately built checkpoint at the block's height whose vote map already contains this block's votes and vetoes (tally built by the harness: veto >= tally deletes, votes add)
//verif:obligation fn=VerifC14Accumulate args=0,1;1,1;1,2;2,2 loops=5000 validate=12
//verif:obligation fn=VerifC14Increase args=0;1;2 loops=5000 validate=12
//verif:obligation fn=VerifC14Accumulate args=3,2 loops=5000 tier=thorough secs=3000 paths=2000000

import (
	"encoding/hex"

	"github.com/bytom/bytom/consensus"
	"github.com/bytom/bytom/protocol/bc"
	"github.com/bytom/bytom/protocol/bc/types"
)

func VerifC14Accumulate(nTx int, nPrior int) {
	c := &Checkpoint{Rewards: map[string]uint64{}, Votes: map[string]uint64{}}
	switch verifChoice("voteMenu", 3) {
	case 0:
		c.Height = 100
	case 1:
		c.Height = 1000000
		c.Votes["aa"] = 50000000000000000
	default:
		c.Height = 12345600
		c.Votes["aa"] = 100000000000000000
		c.Votes["bb"] = 30000000000000000
	}
	proposer := verifBytesN("proposerProgram", 2)
	proposerKey := hex.EncodeToString(proposer)

	// prior table: entry 0 may be the proposer's, entry 1 is another program
	priorProposer := uint64(0)
	other := []byte{0x6a, 0x01, 0x02}
	otherKey := hex.EncodeToString(other)
	priorOther := uint64(0)
	if nPrior >= 1 && verifBool("proposerListed") {
		priorProposer = verifU64("priorProposer")
		verifAssume(priorProposer < 1<<62)
		c.Rewards[proposerKey] = priorProposer
	}
	if nPrior >= 2 {
		priorOther = verifU64("priorOther")
		verifAssume(priorOther < 1<<62)
		c.Rewards[otherKey] = priorOther
	}

	otherAsset := bc.AssetID{V0: 7}
	prog := []byte{0x51}
	coinbase := &types.Tx{TxData: types.TxData{Version: 1,
		Inputs:  []*types.TxInput{types.NewCoinbaseInput([]byte{0})},
		Outputs: []*types.TxOutput{types.NewOriginalTxOutput(*consensus.BTMAssetID, verifU64("coinbaseAmount"), proposer, nil), types.NewOriginalTxOutput(*consensus.BTMAssetID, verifU64("coinbaseAmount2"), other, nil)},
	}}
	block := &types.Block{BlockHeader: types.BlockHeader{Version: 1, Height: c.Height + 1}, Transactions: []*types.Tx{coinbase}}
	fees := uint64(0)
	for t := 0; t < nTx; t++ {
		in0, in1 := verifU64("in"), verifU64("in")
		out0, out1 := verifU64("out"), verifU64("out")
		verifAssume(in0 < 1<<60 && in1 < 1<<60 && out0 < 1<<60 && out1 < 1<<60)
		inAsset, outAsset := *consensus.BTMAssetID, *consensus.BTMAssetID
		btmIn, btmOut := in0+in1, out0+out1
		if verifBool("secondInputOtherAsset") {
			inAsset = otherAsset
			btmIn = in0
		}
		if verifBool("secondOutputOtherAsset") {
			outAsset = otherAsset
			btmOut = out0
		}
		tx := &types.Tx{TxData: types.TxData{Version: 1,
			Inputs: []*types.TxInput{
				types.NewSpendInput(nil, bc.Hash{V0: uint64(t)}, *consensus.BTMAssetID, in0, 0, prog, nil),
				types.NewSpendInput(nil, bc.Hash{V0: uint64(t), V1: 1}, inAsset, in1, 1, prog, nil),
			},
			Outputs: []*types.TxOutput{
				types.NewOriginalTxOutput(*consensus.BTMAssetID, out0, prog, nil),
				types.NewOriginalTxOutput(outAsset, out1, prog, nil),
			},
		}}
		block.Transactions = append(block.Transactions, tx)
		if btmIn > btmOut {
			fees += btmIn - btmOut
		}
	}
	// coinbase has no BTM input: its fee is zero
	subsidy := c.validatorReward()
	verifObserveU64("subsidy", subsidy)

	c.applyValidatorReward(block)

	got := c.Rewards[proposerKey]
	verifObserveU64("credited", got)
	verifAssert(got == priorProposer+fees+subsidy, "proposer-credited-fees-plus-subsidy")
	want := 1
	if nPrior >= 2 {
		verifAssert(c.Rewards[otherKey] == priorOther, "other-entries-untouched")
		want = 2
	}
	verifAssert(len(c.Rewards) == want, "no-other-entry-created")
	verifReach("VerifC14Accumulate:end")
}

// ---------------------------------------------------------------------------
// the whole per-block step: Checkpoint.Increase must tally the block's votes
// first and compute the subsidy from the tally that includes them

var (
	verifC14KeyA = []byte{0xaa, 0x0a}
	verifC14KeyB = []byte{0xbb, 0x0b}
)

func VerifC14Increase(priorMenu int) {
	keyA, keyB := hex.EncodeToString(verifC14KeyA), hex.EncodeToString(verifC14KeyB)
	prev := bc.Hash{V0: 0x1234, V3: 0x5678}
	c := &Checkpoint{Hash: prev, Status: Growing, Rewards: map[string]uint64{}, Votes: map[string]uint64{}}
	tallyA, tallyB := uint64(0), uint64(0)
	switch priorMenu {
	case 1:
		tallyA = 50000000000000000
	case 2:
		tallyA = 120000000000000000
	}
	if tallyA != 0 {
		c.Votes[keyA] = tallyA
	}
	height := uint64(201)
	if verifBool("epochEnd") {
		height = 300
	}
	c.Height = height - 1

	proposer := verifBytesN("proposerProgram", 2)
	proposerKey := hex.EncodeToString(proposer)
	prior := uint64(0)
	if verifBool("proposerListed") {
		prior = verifU64("priorProposer")
		verifAssume(prior < 1<<62)
		c.Rewards[proposerKey] = prior
	}

	prog := []byte{0x51}
	in0, out0 := verifU64("spendIn"), verifU64("plainOut")
	verifAssume(in0 < 1<<60 && out0 < 1<<60)
	ins := []*types.TxInput{types.NewSpendInput(nil, bc.Hash{V0: 1}, *consensus.BTMAssetID, in0, 0, prog, nil)}
	outs := []*types.TxOutput{types.NewOriginalTxOutput(*consensus.BTMAssetID, out0, prog, nil)}
	btmIn, btmOut := in0, out0
	veto := func(amt uint64) {
		ins = append(ins, types.NewVetoInput(nil, bc.Hash{V0: 2}, *consensus.BTMAssetID, amt, 1, prog, verifC14KeyA, nil))
		btmIn += amt
		if tallyA > amt {
			tallyA -= amt
		} else {
			tallyA = 0
		}
	}
	vote := func(toB bool, amt uint64) {
		k := verifC14KeyA
		if toB {
			k = verifC14KeyB
			tallyB += amt
		} else {
			tallyA += amt
		}
		outs = append(outs, types.NewVoteOutput(*consensus.BTMAssetID, amt, prog, k, nil))
		btmOut += amt
	}
	// vetoes are inputs, votes are outputs of the same transaction: vetoes count first
	switch verifChoice("action", 6) {
	case 0:
		vote(false, 10000000000000000)
	case 1:
		vote(true, 20000000000000000)
	case 2:
		veto(30000000000000000)
	case 3:
		veto(50000000000000000)
	case 4:
		veto(30000000000000000)
		vote(true, 10000000000000000)
	default:
		vote(false, 20000000000000000)
		vote(true, 20000000000000000)
	}
	fee := uint64(0)
	if btmIn > btmOut {
		fee = btmIn - btmOut
	}
	coinbase := &types.Tx{TxData: types.TxData{Version: 1,
		Inputs:  []*types.TxInput{types.NewCoinbaseInput([]byte{0})},
		Outputs: []*types.TxOutput{types.NewOriginalTxOutput(*consensus.BTMAssetID, 0, proposer, nil)},
	}}
	tx := &types.Tx{TxData: types.TxData{Version: 1, Inputs: ins, Outputs: outs}}
	block := &types.Block{
		BlockHeader:  types.BlockHeader{Version: 1, Height: height, PreviousBlockHash: prev, Timestamp: 1600000000000},
		Transactions: []*types.Tx{coinbase, tx},
	}

	// reference subsidy: tally AFTER this block, at this block's height
	after := &Checkpoint{Height: height, Votes: map[string]uint64{}}
	if tallyA != 0 {
		after.Votes[keyA] = tallyA
	}
	if tallyB != 0 {
		after.Votes[keyB] = tallyB
	}
	subsidy := after.validatorReward()
	before := &Checkpoint{Height: height, Votes: map[string]uint64{}}
	for k, v := range c.Votes {
		before.Votes[k] = v
	}
	subsidyBefore := before.validatorReward()
	verifObserveU64("subsidy", subsidy)
	verifObserveU64("subsidyBefore", subsidyBefore)

	if subsidy != subsidyBefore {
		verifReach("VerifC14Increase:subsidy-depends-on-this-blocks-votes")
	} else {
		verifReach("VerifC14Increase:subsidy-unchanged-by-this-block")
	}

	err := c.Increase(block)

	verifAssert(err == nil, "increase-accepts-child-block")
	verifAssert(c.Height == height, "height-advanced")
	got := c.Rewards[proposerKey]
	verifObserveU64("credited", got)
	verifAssert(got == prior+fee+subsidy, "proposer-credited-fees-plus-subsidy-of-updated-tally")
	verifAssert(len(c.Rewards) == 1, "no-other-entry-created")
	verifAssert(c.Votes[keyA] == tallyA, "votes-tallied-exactly-once")
	verifAssert(c.Votes[keyB] == tallyB, "votes-tallied-exactly-once")
}
