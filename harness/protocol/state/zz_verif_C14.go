package state

// C14 (reward accumulation): Checkpoint.applyValidatorReward credits, per
// block, the fees of all transactions plus the subsidy to the program of the
// block's first coinbase output, and touches nothing else.

//verif:property C14
//verif:bound accumulation: block of a coinbase plus 0..2 transactions with 2 inputs and 2 outputs each (BTM or another asset, arbitrary amounts below 2^60), arbitrary 2-byte proposer program, prior reward table of 0..2 entries (one of them possibly the proposer's) with arbitrary amounts below 2^62
//verif:assume amounts below 2^60 / table entries below 2^62 (no wrap-around of fee sums; the BTM supply is below 2^58)
//verif:outside the value of the subsidy: validatorReward / pledgeRate are float64 arithmetic, which the engine only executes on concrete operands; the harness runs the real validatorReward on a checkpoint with a concrete height and concrete vote totals (3 menus) and asserts only that exactly this value is added; its range [BlockReward/2, BlockReward] is NOT decided
//verif:obligation fn=VerifC14Accumulate args=0,1;1,1;1,2;2,2 loops=5000 validate=12
//verif:obligation fn=VerifC14Accumulate args=3,2 loops=5000 tier=thorough secs=3000 paths=2000000

import (
	"encoding/hex"

	"github.com/bytom/bytom/consensus"
	"github.com/bytom/bytom/protocol/bc"
	"github.com/bytom/bytom/protocol/bc/types"
)

func VerifC14Accumulate(nTx int, nPrior int) {
	c := &Checkpoint{Rewards: map[string]uint64{}, Votes: map[string]uint64{}}
	switch verifChoice("voteMenu", 3) {
	case 0:
		c.Height = 100
	case 1:
		c.Height = 1000000
		c.Votes["aa"] = 50000000000000000
	default:
		c.Height = 12345600
		c.Votes["aa"] = 100000000000000000
		c.Votes["bb"] = 30000000000000000
	}
	proposer := verifBytesN("proposerProgram", 2)
	proposerKey := hex.EncodeToString(proposer)

	// prior table: entry 0 may be the proposer's, entry 1 is another program
	priorProposer := uint64(0)
	other := []byte{0x6a, 0x01, 0x02}
	otherKey := hex.EncodeToString(other)
	priorOther := uint64(0)
	if nPrior >= 1 && verifBool("proposerListed") {
		priorProposer = verifU64("priorProposer")
		verifAssume(priorProposer < 1<<62)
		c.Rewards[proposerKey] = priorProposer
	}
	if nPrior >= 2 {
		priorOther = verifU64("priorOther")
		verifAssume(priorOther < 1<<62)
		c.Rewards[otherKey] = priorOther
	}

	otherAsset := bc.AssetID{V0: 7}
	prog := []byte{0x51}
	coinbase := &types.Tx{TxData: types.TxData{Version: 1,
		Inputs:  []*types.TxInput{types.NewCoinbaseInput([]byte{0})},
		Outputs: []*types.TxOutput{types.NewOriginalTxOutput(*consensus.BTMAssetID, verifU64("coinbaseAmount"), proposer, nil), types.NewOriginalTxOutput(*consensus.BTMAssetID, verifU64("coinbaseAmount2"), other, nil)},
	}}
	block := &types.Block{BlockHeader: types.BlockHeader{Version: 1, Height: c.Height + 1}, Transactions: []*types.Tx{coinbase}}
	fees := uint64(0)
	for t := 0; t < nTx; t++ {
		in0, in1 := verifU64("in"), verifU64("in")
		out0, out1 := verifU64("out"), verifU64("out")
		verifAssume(in0 < 1<<60 && in1 < 1<<60 && out0 < 1<<60 && out1 < 1<<60)
		inAsset, outAsset := *consensus.BTMAssetID, *consensus.BTMAssetID
		btmIn, btmOut := in0+in1, out0+out1
		if verifBool("secondInputOtherAsset") {
			inAsset = otherAsset
			btmIn = in0
		}
		if verifBool("secondOutputOtherAsset") {
			outAsset = otherAsset
			btmOut = out0
		}
		tx := &types.Tx{TxData: types.TxData{Version: 1,
			Inputs: []*types.TxInput{
				types.NewSpendInput(nil, bc.Hash{V0: uint64(t)}, *consensus.BTMAssetID, in0, 0, prog, nil),
				types.NewSpendInput(nil, bc.Hash{V0: uint64(t), V1: 1}, inAsset, in1, 1, prog, nil),
			},
			Outputs: []*types.TxOutput{
				types.NewOriginalTxOutput(*consensus.BTMAssetID, out0, prog, nil),
				types.NewOriginalTxOutput(outAsset, out1, prog, nil),
			},
		}}
		block.Transactions = append(block.Transactions, tx)
		if btmIn > btmOut {
			fees += btmIn - btmOut
		}
	}
	// coinbase has no BTM input: its fee is zero
	subsidy := c.validatorReward()
	verifObserveU64("subsidy", subsidy)

	c.applyValidatorReward(block)

	got := c.Rewards[proposerKey]
	verifObserveU64("credited", got)
	verifAssert(got == priorProposer+fees+subsidy, "proposer-credited-fees-plus-subsidy")
	want := 1
	if nPrior >= 2 {
		verifAssert(c.Rewards[otherKey] == priorOther, "other-entries-untouched")
		want = 2
	}
	verifAssert(len(c.Rewards) == want, "no-other-entry-created")
	verifReach("VerifC14Accumulate:end")
}
