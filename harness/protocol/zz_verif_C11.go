package protocol

// C11 (reorganisation and main-chain index): one reorganisation step from an
// arbitrary consistent state. Chain.calcReorganizeChain, Chain.tryReorganize,
// Chain.reorganizeChain, Chain.setState, Chain.BestBlockHeader, Chain.GetHeaderByHeight and
// Chain.InMainChain are the real functions; the store is a mock.

//verif:property C11
//verif:bound reorganisation: common main chain of 1..2 blocks below an arbitrary base height (< 2^62), old branch of 0..3 blocks and new branch of 0..3 blocks above the fork point (quick) / 0..5 each (thorough); includes pure extension, pure rollback to an ancestor, equal length, longer-to-shorter and shorter-to-longer; the step is entered through tryReorganize(hash of the new tip); finalized height arbitrary in [0, fork point height]; one stored side-fork block (not on either branch) at an arbitrary height of the common part, before and after the step
//verif:assume pre-state: the height index maps every height up to the old best block to the old best block's ancestor at that height (what this same step establishes); the block tree is well formed (height = parent height + 1, PreviousBlockHash = parent hash)
//verif:assume store contract (mock, from database/store.go): GetBlockHeader/GetBlock return the saved block of that hash or an error; SaveChainStatus writes index[h.Height] = h.Hash() for exactly the headers it is given and deletes nothing; GetMainChainHash(height) returns the index entry or an error
//verif:assume BlockHeader.Hash is injective on the blocks of the tree (solver: stub hash built from height and timestamp; native replay: the real hash); Casper.LastFinalized is stubbed for the solver to return the harness' finalized height and hash (native replay: the real Casper whose root checkpoint has that height and hash)
//verif:assume the finalized checkpoint is at or below the fork point (a reorganisation never detaches a finalized block: C16)
//verif:assume blocks carry one transaction without inputs and outputs (the UTXO / contract views are not the subject: C10)
//verif:outside LevelDB, the store's LRU caches (C21), the transaction pool updates of reorganizeChain, processBlock / blockProcessor (channels, goroutines), sequences of more than one reorganisation
//verif:override (*github.com/bytom/bytom/protocol/bc/types.BlockHeader).Hash -> verifC11StubHeaderHash
//verif:override (*github.com/bytom/bytom/protocol/casper.Casper).LastFinalized -> verifC11LastFinalized
//verif:override github.com/bytom/bytom/protocol/casper.NewCasper -> verifC11NewCasper
//verif:obligation fn=VerifC11Reorganize args=3,3 loops=5000 validate=40
//verif:obligation fn=VerifC11Reorganize args=5,5 loops=5000 tier=thorough secs=3000

import (
	"errors"
	"sync"

	"github.com/bytom/bytom/database/storage"
	"github.com/bytom/bytom/protocol/bc"
	"github.com/bytom/bytom/protocol/bc/types"
	"github.com/bytom/bytom/protocol/casper"
	"github.com/bytom/bytom/protocol/state"
)

var errVerifC11NotFound = errors.New("verif: not found")

func verifC11StubHeaderHash(bh *types.BlockHeader) bc.Hash {
	return bc.Hash{V0: bh.Height, V1: bh.Timestamp, V2: 0x5a5a}
}

var (
	verifC11FinHeight uint64
	verifC11FinHash   bc.Hash
)

func verifC11LastFinalized(c *casper.Casper) (uint64, bc.Hash) {
	return verifC11FinHeight, verifC11FinHash
}

// solver: an empty Casper (NewCasper starts a goroutine); native replay: the real constructor
func verifC11NewCasper(store state.Store, queue interface{ Post(interface{}) error }, checkpoints []*state.Checkpoint) *casper.Casper {
	return &casper.Casper{}
}

type verifC11Store struct {
	headers []*types.BlockHeader
	index   map[uint64]bc.Hash
	saved   [][]*types.BlockHeader
}

func (s *verifC11Store) BlockExist(h *bc.Hash) bool {
	_, err := s.GetBlockHeader(h)
	return err == nil
}
func (s *verifC11Store) GetBlock(h *bc.Hash) (*types.Block, error) {
	hdr, err := s.GetBlockHeader(h)
	if err != nil {
		return nil, err
	}
	tx := &types.Tx{TxData: types.TxData{Version: 1}, Tx: &bc.Tx{TxHeader: &bc.TxHeader{}, Entries: map[bc.Hash]bc.Entry{}}}
	return &types.Block{BlockHeader: *hdr, Transactions: []*types.Tx{tx}}, nil
}
func (s *verifC11Store) GetBlockHeader(h *bc.Hash) (*types.BlockHeader, error) {
	for _, x := range s.headers {
		if x.Hash() == *h {
			return x, nil
		}
	}
	return nil, errVerifC11NotFound
}
func (s *verifC11Store) GetStoreStatus() *state.BlockStoreState { return nil }
func (s *verifC11Store) GetTransactionsUtxo(*state.UtxoViewpoint, []*bc.Tx) error {
	return nil
}
func (s *verifC11Store) GetUtxo(*bc.Hash) (*storage.UtxoEntry, error) {
	return nil, errVerifC11NotFound
}
func (s *verifC11Store) GetMainChainHash(height uint64) (*bc.Hash, error) {
	if h, ok := s.index[height]; ok {
		return &h, nil
	}
	return nil, errVerifC11NotFound
}
func (s *verifC11Store) GetContract(hash [32]byte) ([]byte, error) { return nil, errVerifC11NotFound }
func (s *verifC11Store) GetCheckpoint(*bc.Hash) (*state.Checkpoint, error) {
	return nil, errVerifC11NotFound
}
func (s *verifC11Store) CheckpointsFromNode(uint64, *bc.Hash) ([]*state.Checkpoint, error) {
	return nil, errVerifC11NotFound
}
func (s *verifC11Store) GetCheckpointsByHeight(uint64) ([]*state.Checkpoint, error) {
	return nil, errVerifC11NotFound
}
func (s *verifC11Store) SaveCheckpoints([]*state.Checkpoint) error { return nil }
func (s *verifC11Store) SaveBlock(*types.Block) error              { return nil }
func (s *verifC11Store) SaveBlockHeader(*types.BlockHeader) error  { return nil }
func (s *verifC11Store) SaveChainStatus(best *types.BlockHeader, main []*types.BlockHeader, _ *state.UtxoViewpoint, _ *state.ContractViewpoint, _ uint64, _ *bc.Hash) error {
	for _, h := range main {
		s.index[h.Height] = h.Hash()
	}
	s.saved = append(s.saved, main)
	return nil
}

func VerifC11Reorganize(maxOld int, maxNew int) {
	base := verifU64("baseHeight")
	verifAssume(base < 1<<62)
	s := &verifC11Store{index: map[uint64]bc.Hash{}}
	stamp := uint64(1000)
	mk := func(parent *types.BlockHeader) *types.BlockHeader {
		stamp++
		h := &types.BlockHeader{Version: 1, Timestamp: stamp}
		if parent == nil {
			h.Height = base
		} else {
			h.Height = parent.Height + 1
			h.PreviousBlockHash = parent.Hash()
		}
		s.headers = append(s.headers, h)
		return h
	}
	// common part: 1..2 blocks; the last one is the fork point
	var common []*types.BlockHeader
	common = append(common, mk(nil))
	if verifChoice("commonLen", 2) == 1 {
		common = append(common, mk(common[0]))
	}
	fork := common[len(common)-1]
	nOld := verifChoice("oldLen", maxOld+1)
	nNew := verifChoice("newLen", maxNew+1)
	var oldBranch, newBranch []*types.BlockHeader // fork point excluded, ascending
	tip := fork
	for i := 0; i < nOld; i++ {
		tip = mk(tip)
		oldBranch = append(oldBranch, tip)
	}
	oldBest := tip
	tip = fork
	for i := 0; i < nNew; i++ {
		tip = mk(tip)
		newBranch = append(newBranch, tip)
	}
	newBest := tip
	// consistent pre-state: index follows the old main chain
	for _, h := range common {
		s.index[h.Height] = h.Hash()
	}
	for _, h := range oldBranch {
		s.index[h.Height] = h.Hash()
	}

	c := &Chain{store: s, bestBlockHeader: oldBest}
	// finalized checkpoint: anywhere at or below the fork point
	fin := verifU64("finalizedHeight")
	verifAssume(fin <= fork.Height)
	verifC11FinHeight, verifC11FinHash = fin, bc.Hash{V0: fin, V1: 999}
	c.casper = casper.NewCasper(s, nil, []*state.Checkpoint{{Height: fin, Hash: verifC11FinHash, Status: state.Finalized}})
	// a stored block of a losing fork at a height of the common part
	stamp++
	side := &types.BlockHeader{Version: 1, Timestamp: stamp, Height: common[verifChoice("sideAt", len(common))].Height, PreviousBlockHash: bc.Hash{V0: 7, V1: 7}}
	s.headers = append(s.headers, side)
	if side.Height <= fin {
		verifReach("VerifC11Reorganize:side-block-at-or-below-finalized")
	}
	c.cond.L = new(sync.Mutex)

	switch {
	case nOld > nNew && nNew > 0:
		verifReach("VerifC11Reorganize:longer-to-shorter")
	case nOld > 0 && nNew > nOld:
		verifReach("VerifC11Reorganize:shorter-to-longer")
	case nOld == 0 && nNew > 0:
		verifReach("VerifC11Reorganize:extension")
	case nOld > 0 && nNew == 0:
		verifReach("VerifC11Reorganize:rollback-to-ancestor")
	}

	verifAssert(!c.InMainChain(side.Hash()), "side-fork-block-not-reported-in-main-chain")

	// (a) the attach / detach lists
	attach, detach, err := c.calcReorganizeChain(newBest, oldBest)
	verifAssert(err == nil, "calc-no-error")
	verifObserveI64("attach", int64(len(attach)))
	verifObserveI64("detach", int64(len(detach)))
	verifAssert(len(attach) == nNew, "attach-is-whole-new-branch")
	verifAssert(len(detach) == nOld, "detach-is-whole-old-branch")
	if len(attach) == nNew {
		for i := range attach {
			verifAssert(attach[i] == newBranch[i], "attach-ascending-from-fork")
		}
	}
	if len(detach) == nOld {
		for i := range detach {
			verifAssert(detach[i] == oldBranch[nOld-1-i], "detach-descending-from-old-tip")
		}
	}

	// (b) the step itself
	err = c.tryReorganize(newBest.Hash())
	verifAssert(err == nil, "reorganize-no-error")
	verifAssert(c.BestBlockHeader() == newBest, "best-block-is-the-new-tip")

	// every height from the base to the best block maps to the best block's ancestor
	newMain := append(append([]*types.BlockHeader{}, common...), newBranch...)
	for _, h := range newMain {
		got, err := c.GetHeaderByHeight(h.Height)
		verifAssert(err == nil && got == h, "height-maps-to-ancestor-of-best")
	}
	// a block is reported on the main chain exactly when it is such an ancestor
	for _, h := range newMain {
		verifAssert(c.InMainChain(h.Hash()), "ancestor-reported-in-main-chain")
	}
	for _, h := range oldBranch {
		verifKnown("KF-C11-STALE-INDEX", h.Height > newBest.Height)
		verifAssert(!c.InMainChain(h.Hash()), "detached-block-not-reported-in-main-chain")
	}
	verifAssert(!c.InMainChain(side.Hash()), "side-fork-block-not-reported-in-main-chain")

}
