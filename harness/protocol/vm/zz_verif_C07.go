package vm

// C07: termination within the gas limit, by a potential argument.
//
//   Phi = runLimit + sum over data stack and alt stack of (8 + len(item))
//
// Step lemma, for every opcode from an arbitrary VM state with runLimit >= 0:
//   (a) after step(), on success and on every error exit, 0 <= runLimit' <= Phi
//   (b) on success Phi' <= Phi - 1
// Prologue: Verify's initial pushes keep runLimit + stack cost == gasLimit.
// Together: at most gasLimit successful steps, and the gas returned by
// Verify lies in [0, gasLimit].

//verif:property C07
//verif:bound step lemma: every opcode 0x00..0xff (one obligation per 16 opcodes x stack depth), data stack of 0..4 items and alt stack of 0..1 items, item length symbolic 0..3 bytes; additionally CHECKPREDICATE, PICK, ROLL, CHECKMULTISIG (key count) and SUBSTR/LEFT/RIGHT (sizes) with a top operand of 0..9 bytes (CHECKPREDICATE in the quick tier: exactly 8 bytes) over items of 0..1 byte, so that 64-bit operands with the top bit set are reached (a panic inside step is an outcome there: Verify recovers it) / 0..9 and 32..33 (thorough), instruction data <= 5 bytes, runLimit any value in [0, 2^20] (consensus maximum is 300000; [0, 2^15] for opcodes 0xa0..0xaf so that CHECKMULTISIG key counts stay enumerable; MUL/DIV/MOD range 0x90..0x9f with two or more operands: operand length <= 1 byte)
//verif:bound Verify end to end: a menu of 11 one/two-instruction programs (thorough: every 1-byte program), <= 2 arguments of <= 2 bytes, gas limit in [0, 2^12]
//verif:assume CHECKPREDICATE: the child VM's run() is replaced for the solver by a havoc stub constrained by this same lemma (0 <= runLimit' and runLimit' + stack cost' <= Phi_child); well-founded because entering a child costs 256 - 192 = 64 non-refundable gas
//verif:assume hash functions and ed25519.Verify are uninterpreted; context callbacks (TxSigHash, CheckOutput) return arbitrary values
//verif:outside item lengths above 33 bytes in the step lemma; programs outside that menu in the end-to-end cross-check
//verif:override (*github.com/bytom/bytom/protocol/vm.virtualMachine).run -> verifC07ChildRun
//verif:obligation fn=VerifC07Step args=0,15,0,3,20;16,31,0,3,20;32,47,0,3,20;48,63,0,3,20;64,79,0,3,20;80,95,0,3,20;96,111,0,3,20;112,127,0,3,20;128,143,0,3,20;144,159,0,3,20;160,175,0,3,15;176,191,0,3,20;192,207,0,3,20;208,223,0,3,20;224,239,0,3,20;240,255,0,3,20 loops=300 secs=900
//verif:obligation fn=VerifC07Step args=0,15,1,3,20;16,31,1,3,20;32,47,1,3,20;48,63,1,3,20;64,79,1,3,20;80,95,1,3,20;96,111,1,3,20;112,127,1,3,20;128,143,1,3,20;144,159,1,3,20;160,175,1,3,15;176,191,1,3,20;192,207,1,3,20;208,223,1,3,20;224,239,1,3,20;240,255,1,3,20 loops=300 secs=900
//verif:obligation fn=VerifC07Step args=0,15,2,3,20;16,31,2,3,20;32,47,2,3,20;48,63,2,3,20;64,79,2,3,20;80,95,2,3,20;96,111,2,3,20;112,127,2,3,20;128,143,2,3,20;144,159,2,1,20;160,175,2,3,15;176,191,2,3,20;192,207,2,3,20;208,223,2,3,20;224,239,2,3,20;240,255,2,3,20 loops=300 secs=900 validate=6
//verif:obligation fn=VerifC07Step args=0,15,3,2,20;16,31,3,2,20;32,47,3,2,20;48,63,3,2,20;64,79,3,2,20;80,95,3,2,20;96,111,3,2,20;112,127,3,2,20;128,143,3,2,20;144,159,3,1,20;160,175,3,2,15;176,191,3,2,20;192,207,3,2,20;208,223,3,2,20;224,239,3,2,20;240,255,3,2,20 loops=300 secs=900
//verif:obligation fn=VerifC07StepWide args=192,192,3,20,8 loops=300 secs=900 nopanic=off
//verif:obligation fn=VerifC07StepWide args=121,122,2,20,0;121,122,3,20,0;173,173,2,15,8;127,129,2,15,8;127,129,3,15,8 loops=300 secs=900 nopanic=off validate=6
//verif:obligation fn=VerifC07StepWide args=192,192,3,20,0 loops=300 secs=3000 nopanic=off tier=thorough
//verif:obligation fn=VerifC07Prologue args=2,0 validate=20 nooverride=verifC07ChildRun
//verif:obligation fn=VerifC07Prologue args=1,1 nooverride=verifC07ChildRun tier=thorough secs=3000 paths=2000000
//verif:override github.com/bytom/bytom/protocol/vm.Disassemble -> verifC07Disassemble

import (
	"github.com/bytom/bytom/errors"
)

// havoc stub for the child VM of CHECKPREDICATE (solver only)
func verifC07ChildRun(vm *virtualMachine) error {
	if vm.runLimit < 0 {
		// outside the lemma's precondition (never reached on a correct tree): a VM entered with a
		// negative limit cannot pay for any instruction: its first applyCost fails and zeroes the
		// limit; an empty program returns at once with the state unchanged
		if verifBool("child.err") {
			vm.runLimit = 0
			return ErrRunLimitExceeded
		}
		return nil
	}
	phi := vm.runLimit + stackCost(vm.dataStack) + stackCost(vm.altStack)
	r := verifI64("child.runLimit")
	n := verifChoice("child.nstack", 3)
	var st [][]byte
	for i := 0; i < n; i++ {
		st = append(st, verifBytes("child.item", 2))
	}
	verifAssume(r >= 0 && r+stackCost(st) <= phi)
	vm.runLimit = r
	vm.dataStack = st
	vm.altStack = nil
	if verifBool("child.err") {
		return ErrVerifyFailed
	}
	return nil
}

func verifC07Context() *Context {
	one := uint64(1)
	ctx := &Context{VMVersion: 1, TxVersion: &one}
	if verifBool("ctx.present") {
		h := verifU64("ctx.height")
		nr := verifU64("ctx.numResults")
		am := verifU64("ctx.amount")
		dp := verifU64("ctx.destPos")
		asset := verifBytesN("ctx.asset", 4)
		spent := verifBytesN("ctx.spent", 4)
		ctx.BlockHeight, ctx.NumResults, ctx.Amount, ctx.DestPos = &h, &nr, &am, &dp
		ctx.AssetID, ctx.SpentOutputID = &asset, &spent
		ctx.EntryID = verifBytesN("ctx.entry", 4)
		ctx.TxSigHash = func() []byte { return verifBytesN("ctx.sighash", 32) }
		ctx.CheckOutput = func(index uint64, amount uint64, assetID []byte, vmVersion uint64, code []byte, state [][]byte, expansion bool) (bool, error) {
			if verifBool("ctx.checkoutput.err") {
				return false, ErrBadValue
			}
			return verifBool("ctx.checkoutput.ok"), nil
		}
	}
	return ctx
}

// error texts are not the subject: Disassemble (used by wrapErr only) is cut for the solver
func verifC07Disassemble(prog []byte) (string, error) { return "", nil }

func verifC07VM(nData int, maxItem int, rlBits int) *virtualMachine {
	vm := &virtualMachine{context: verifC07Context()}
	vm.expansionReserved = verifBool("expansionReserved")
	for i := 0; i < nData; i++ {
		vm.dataStack = append(vm.dataStack, verifBytes("item", maxItem))
	}
	if verifBool("hasAlt") {
		vm.altStack = append(vm.altStack, verifBytes("alt", maxItem))
	}
	r := verifI64("runLimit")
	verifAssume(r >= 0 && r <= int64(1)<<uint(rlBits))
	vm.runLimit = r
	vm.depth = 0
	return vm
}

func verifC07Phi(vm *virtualMachine) int64 {
	return vm.runLimit + stackCost(vm.dataStack) + stackCost(vm.altStack)
}

// one step of an arbitrary opcode in [opLo, opHi]
func VerifC07Step(opLo int, opHi int, nData int, maxItem int, rlBits int) {
	op := verifU8("op")
	verifAssume(int(op) >= opLo && int(op) <= opHi)
	vm := verifC07VM(nData, maxItem, rlBits)
	data := verifBytesN("progdata", 5)
	vm.program = append([]byte{op}, data...)
	vm.pc = 0
	phi := verifC07Phi(vm)

	err := vm.step()

	verifObserveBool("err", err != nil)
	verifObserveI64("runLimit", vm.runLimit)
	verifAssert(vm.runLimit >= 0, "runlimit-nonnegative")
	verifAssert(vm.runLimit <= phi, "runlimit-at-most-potential")
	if err == nil {
		phi2 := verifC07Phi(vm)
		verifObserveI64("phi-drop", phi-phi2)
		verifAssert(phi2 <= phi-1, "every-step-costs-at-least-one")
		verifReach("VerifC07Step:ok")
	}
	verifReach("VerifC07Step:end")
}

// the same lemma with a wide top operand (numeric operands up to 2^72) over short items
func VerifC07StepWide(opLo int, opHi int, nData int, rlBits int, exact int) {
	op := verifU8("op")
	verifAssume(int(op) >= opLo && int(op) <= opHi)
	vm := verifC07VM(nData-1, 1, rlBits)
	if exact > 0 {
		vm.dataStack = append(vm.dataStack, verifBytesN("top", exact))
	} else {
		vm.dataStack = append(vm.dataStack, verifBytes("top", 9))
	}
	data := verifBytesN("progdata", 5)
	vm.program = append([]byte{op}, data...)
	vm.pc = 0
	phi := verifC07Phi(vm)

	err := vm.step()

	verifObserveBool("err", err != nil)
	verifObserveI64("runLimit", vm.runLimit)
	verifAssert(vm.runLimit >= 0, "runlimit-nonnegative")
	verifAssert(vm.runLimit <= phi, "runlimit-at-most-potential")
	if err == nil {
		phi2 := verifC07Phi(vm)
		verifAssert(phi2 <= phi-1, "every-step-costs-at-least-one")
		verifReach("VerifC07StepWide:ok")
	}
	verifReach("VerifC07StepWide:end")
}

// Verify's prologue and epilogue on tiny programs: the returned gas is within [0, gasLimit]
func VerifC07Prologue(nArgs int, progLen int) {
	one := uint64(1)
	ctx := &Context{VMVersion: 1, TxVersion: &one}
	menuIdx := -1
	if progLen == 0 {
		// a fixed menu of one- and two-instruction programs: the step lemma covers every
		// opcode, this harness is about Verify's prologue (argument/state pushes) and epilogue
		menu := [][]byte{{}, {0x51}, {0x00}, {0x6a}, {0x69}, {0x75}, {0x74}, {0x75, 0x51}, {0x7e}, {0x01, 0x07}, {0x51, 0xc0}}
		menuIdx = verifChoice("code.menu", len(menu))
		ctx.Code = menu[menuIdx]
	} else {
		ctx.Code = verifBytes("code", progLen)
	}
	for i := 0; i < nArgs; i++ {
		ctx.Arguments = append(ctx.Arguments, verifBytes("arg", 2))
	}
	if verifBool("hasState") {
		ctx.StateData = append(ctx.StateData, verifBytes("state", 2))
	}
	limit := verifI64("gasLimit")
	verifAssume(limit >= 0 && limit <= 1<<12)
	left, err := Verify(ctx, limit)
	verifObserveI64("left", left)
	verifObserveBool("err", err != nil)
	verifAssert(left >= 0 && left <= limit, "gas-left-within-limit")
	// the initial pushes are paid for: 8 + length per state item and argument
	pre := int64(0)
	for _, a := range ctx.Arguments {
		pre += 8 + int64(len(a))
	}
	for _, a := range ctx.StateData {
		pre += 8 + int64(len(a))
	}
	verifAssert(pre <= limit || err != nil, "initial-stack-exceeding-the-limit-fails")
	if menuIdx >= 0 && menuIdx <= 2 && (err == nil || errors.Root(err) == ErrFalseVMResult) {
		// these programs pop nothing: everything pushed initially is still charged at the end
		verifAssert(left <= limit-pre, "initial-stack-is-charged")
	}
	if err == nil {
		verifReach("VerifC07Prologue:accepted")
	}
	if errors.Root(err) == ErrRunLimitExceeded {
		verifReach("VerifC07Prologue:out-of-gas")
	}
	verifReach("VerifC07Prologue:end")
}

