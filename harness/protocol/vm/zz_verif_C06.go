package vm

// C06: VM values behave as immutable byte strings.
//
// Step lemma (VerifC06Step), for every opcode except CHECKPREDICATE, from an
// arbitrary memory layout: the stack items are arbitrary (possibly overlapping)
// sub-slices buf[o:o+l:c] of ONE caller-owned buffer with arbitrary spare
// capacity. The real vm.step() is run on that VM (A) and on a VM (B) whose items
// are fresh exact-capacity copies of the same byte values. Asserted:
//   - the caller-owned buffer, the program and the context data hold the same
//     bytes as before the step;
//   - A and B end with the same error, the same runLimit and -- on success --
//     the same pc and byte-wise equal data and alt stacks.
// The lemma is inductive: A's post-state is again "some layout" of the values in
// B's post-state, so it extends to programs of any length.
//
// VerifC06Predicate: the same for CHECKPREDICATE with the child program drawn
// from a menu (the child VM inherits the parent's aliased items).
//
// VerifC06Verify: end to end, the real decoder blockchain.ReadVarstrList
// produces the argument list out of one shared buffer (each argument's spare
// capacity reaches over the following arguments); vm.Verify on a menu of short
// programs; compared with Verify on independent copies of the arguments.

//verif:property C06
//verif:bound step lemma: every opcode 0x00..0xff except 0xc0 (16 opcodes per obligation); data stack of 1..3 items (thorough: 4) and alt stack of 0..1 items; every item is a window buf[o:o+l:o+l+s] of one 8-byte buffer with offset o, length l <= 3 and spare capacity s all symbolic (overlaps allowed; l <= 2 at depth 3 and 4); buffer content, 5 bytes of instruction data, context values arbitrary; runLimit arbitrary in [0, 2^15]; with two or more items on the stack: item length <= 2 for opcodes 0x90..0x94, <= 1 for MUL/DIV/MOD 0x95..0x97 and for 0x98..0x9f (shifts, boolean and comparison operators)
//verif:bound CHECKPREDICATE: real child VM run, child program from a menu of 8 programs (empty, CAT, DUP CAT, push CAT, SWAP CAT, 1 LEFT, TOALTSTACK, DROP), 2 (thorough: 3) aliased items below the three operands, 0..all of them handed to the child, runLimit arbitrary in [0, 2^12]
//verif:bound Verify end to end: arguments decoded by the real ReadVarstrList from one 8-byte buffer holding any well-formed list of <= 3 arguments of <= 3 bytes with arbitrary content, one state item with spare capacity, the program with 2 bytes of spare capacity; menu of 14 programs of <= 7 instructions over splice/stack/bitwise/numeric opcodes with arbitrary push data, gas limit 10000
//verif:bound long-item step lemma (VerifC06Wide): opcode groups 0x70..0xaf and 0xc0..0xcf (every opcode that converts items to numbers: PICK/ROLL, SUBSTR/LEFT/RIGHT, 1ADD..WITHIN, shifts, CHECKMULTISIG counts, CHECKOUTPUT; CHECKPREDICATE via VerifC06PredicateWide with the long item as limit, as count or handed to the child running 1ADD / DUP 0 LEFT DROP / 1 SWAP ADD); data stack of 1..3 items (CHECKOUTPUT: 5, thorough) of which ONE, at every position, is a 32-byte (thorough: 31, 33) window of a second 36-byte caller buffer with spare capacity; quick: its lowest and highest byte (sign bit free) and all surrounding bytes arbitrary, bytes between fixed to distinct non-zero values; thorough: all 32 bytes arbitrary; the other items <= 1 byte from the shared 8-byte buffer
//verif:bound long-argument Verify (VerifC06VerifyWide): argument list {long, 1 byte} decoded by the real ReadVarstrList from one buffer, 9 programs (SWAP 1ADD, ADD, 0NOTEQUAL, LEFT, SWAP RIGHT, OVER LESSTHAN, DUP 1 <1ADD> 0 CHECKPREDICATE, SWAP PICK, 1 LSHIFT), gas 10000
//verif:bound result-lifetime lemma (VerifC06Seq): programs <op1> SWAP <op2> and <op1> TOALTSTACK <op2> (VerifC06SeqAlt) with op1, op2 each any of 10 unary opcodes (SHA256, SHA3, HASH160, INVERT, 1ADD, 1SUB, 2MUL, 2DIV, NOT, 0NOTEQUAL), two 2-byte items with arbitrary content at fixed windows [0:2:4] and [3:5:8] of one 8-byte buffer (spare capacity of the first overlaps the second), run with the real step(); sync.Pool modelled as handing back the object Put last (pool=reuse)
//verif:assume context callbacks: TxSigHash returns a fixed arbitrary 32-byte value, CheckOutput returns fixed arbitrary (ok, err) -- the same for both runs
//verif:assume hash functions and ed25519.Verify are uninterpreted functions of the byte values
//verif:outside MUL/DIV/MOD with the long item as the deeper (left) operand, and as right operand with fully arbitrary content (256-bit by 8-bit product/quotient is beyond the solver; right operand with the quick content pattern and single operand are covered); Verify-level SWAP PICK with fully arbitrary long content (the recovered runtime panic's Error() text is not encodable; the step lemma covers that exit through a recover wrapper); layouts spanning more than two caller buffers, items of 4..30 bytes and above 33 bytes, data stacks deeper than 4 in the step lemma; CHECKPREDICATE child programs outside the menu; Verify programs outside the menu (the step lemma is the general argument, Verify is the end-to-end cross-check); the trace writer (TraceOut != nil); inside the region of KF-C06-CAT-APPEND other causes of the same assertion failures are not distinguished (the region is exact for the step lemma and CHECKPREDICATE, and 'program contains CAT/CATPUSHDATA' at the Verify level)
//verif:override github.com/bytom/bytom/protocol/vm.Disassemble -> verifC06Disassemble
//verif:obligation fn=VerifC06Step args=0,15,1,1,3;16,31,1,1,3;32,47,1,1,3;48,63,1,1,3;64,79,1,1,3;80,95,1,1,3;96,111,1,1,3;112,127,1,1,3;128,143,1,1,3;144,159,1,1,3;160,175,1,1,3;176,191,1,1,3;192,207,1,1,3;208,223,1,1,3;224,239,1,1,3;240,255,1,1,3 loops=300 secs=900 idx=ite
//verif:obligation fn=VerifC06Step args=0,15,2,0,3;16,31,2,0,3;32,47,2,0,3;48,63,2,0,3;64,79,2,0,3;80,95,2,0,3;96,111,2,0,3;112,127,2,0,3;128,143,2,0,3;144,148,2,0,2;152,159,2,0,1;160,175,2,0,3;176,191,2,0,3;192,207,2,0,3;208,223,2,0,3;224,239,2,0,3;240,255,2,0,3 loops=300 secs=900 idx=ite validate=10
//verif:obligation fn=VerifC06Step args=96,111,3,0,2;112,127,3,0,2;128,143,3,0,2;192,207,3,0,2 loops=300 secs=900 idx=ite
//verif:obligation fn=VerifC06Step args=0,15,3,0,2;16,31,3,0,2;32,47,3,0,2;48,63,3,0,2;64,79,3,0,2;80,95,3,0,2;144,148,3,0,2;152,159,3,0,1;160,175,3,0,2;176,191,3,0,2;208,223,3,0,2;224,239,3,0,2;240,255,3,0,2 loops=300 idx=ite tier=thorough secs=3000
//verif:obligation fn=VerifC06Step args=0,15,2,1,3;16,31,2,1,3;32,47,2,1,3;48,63,2,1,3;64,79,2,1,3;80,95,2,1,3;96,111,2,1,3;112,127,2,1,3;128,143,2,1,3;144,148,2,1,2;152,159,2,1,1;160,175,2,1,3;176,191,2,1,3;192,207,2,1,3;208,223,2,1,3;224,239,2,1,3;240,255,2,1,3 loops=300 idx=ite tier=thorough secs=3000
//verif:obligation fn=VerifC06Step args=96,111,4,0,2;112,127,4,0,2;128,143,4,0,2 loops=300 idx=ite tier=thorough secs=3000
//verif:obligation fn=VerifC06Step args=96,111,3,1,3;112,127,3,1,3;128,143,3,1,3 loops=300 idx=ite tier=thorough secs=3000
//verif:obligation fn=VerifC06Step args=149,151,2,0,1 loops=300 secs=900 idx=ite timeout=120000
//verif:obligation fn=VerifC06Step args=149,151,3,0,1;149,151,2,1,1 loops=300 secs=3000 idx=ite timeout=120000 tier=thorough
//verif:obligation fn=VerifC06Seq args=0,3;4,7;8,11 pool=reuse secs=300 validate=10
//verif:obligation fn=VerifC06SeqAlt args=0,3;4,7;8,11 pool=reuse secs=300 validate=10
//verif:obligation fn=VerifC06Predicate args=2,2 idx=ite secs=900 validate=10
//verif:obligation fn=VerifC06Predicate args=3,3 idx=ite secs=3000 tier=thorough
//verif:obligation fn=VerifC06Verify args=0,8,3;1,8,3;2,8,3;3,8,3;4,8,3;5,8,3;6,8,3;7,8,3;8,8,3;9,8,3;10,8,3;11,8,3;12,8,3;13,8,3;14,8,3;15,8,3 secs=900 validate=10
//verif:obligation fn=VerifC06Wide args=112,127,1,0,32,1;128,143,1,0,32,1;144,148,1,0,32,1;149,151,1,0,32,1;152,159,1,0,32,1;160,175,1,0,32,1;192,207,1,0,32,1;112,127,2,1,32,1;128,143,2,1,32,1;144,148,2,1,32,1;149,151,2,1,32,1;152,159,2,1,32,1;160,175,2,1,32,1;192,207,2,1,32,1;112,127,2,0,32,1;128,143,2,0,32,1;144,148,2,0,32,1;152,159,2,0,32,1;160,175,2,0,32,1;192,207,2,0,32,1;160,175,3,0,32,1 idx=ite secs=900 timeout=60000 validate=10
//verif:obligation fn=VerifC06Wide args=112,127,3,0,32,1;128,143,3,0,32,1;144,148,3,0,32,1;152,159,3,0,32,1;192,207,3,0,32,1;112,127,3,1,32,1;128,143,3,1,32,1;144,148,3,1,32,1;152,159,3,1,32,1;160,175,3,1,32,1;192,207,3,1,32,1;112,127,3,2,32,1;128,143,3,2,32,1;144,148,3,2,32,1;149,151,3,2,32,1;152,159,3,2,32,1;160,175,3,2,32,1;192,207,3,2,32,1;193,193,5,0,32,1;193,193,5,1,32,1 idx=ite secs=3000 timeout=60000 tier=thorough
//verif:obligation fn=VerifC06Wide args=112,127,1,0,31,1;128,143,1,0,31,1;144,148,1,0,31,1;149,151,1,0,31,1;152,159,1,0,31,1;160,175,1,0,31,1;192,207,1,0,31,1;112,127,2,1,31,1;128,143,2,1,31,1;144,148,2,1,31,1;149,151,2,1,31,1;152,159,2,1,31,1;160,175,2,1,31,1;192,207,2,1,31,1;112,127,2,0,31,1;128,143,2,0,31,1;144,148,2,0,31,1;152,159,2,0,31,1;160,175,2,0,31,1;192,207,2,0,31,1;160,175,3,0,31,1 idx=ite secs=3000 timeout=60000 tier=thorough
//verif:obligation fn=VerifC06Wide args=112,127,1,0,33,1;128,143,1,0,33,1;144,148,1,0,33,1;149,151,1,0,33,1;152,159,1,0,33,1;160,175,1,0,33,1;192,207,1,0,33,1;112,127,2,1,33,1;128,143,2,1,33,1;144,148,2,1,33,1;149,151,2,1,33,1;152,159,2,1,33,1;160,175,2,1,33,1;192,207,2,1,33,1;112,127,2,0,33,1;128,143,2,0,33,1;144,148,2,0,33,1;152,159,2,0,33,1;160,175,2,0,33,1;192,207,2,0,33,1;160,175,3,0,33,1 idx=ite secs=3000 timeout=60000 tier=thorough
//verif:obligation fn=VerifC06Wide args=112,127,1,0,32,0;128,143,1,0,32,0;144,148,1,0,32,0;149,151,1,0,32,0;152,159,1,0,32,0;160,175,1,0,32,0;192,207,1,0,32,0;112,127,2,1,32,0;128,143,2,1,32,0;144,148,2,1,32,0;152,159,2,1,32,0;160,175,2,1,32,0;192,207,2,1,32,0;112,127,2,0,32,0;128,143,2,0,32,0;144,148,2,0,32,0;152,159,2,0,32,0;160,175,2,0,32,0;192,207,2,0,32,0 idx=ite secs=3000 timeout=60000 tier=thorough
//verif:obligation fn=VerifC06PredicateWide args=0,32,1;1,32,1;2,32,1 idx=ite secs=900 validate=10
//verif:obligation fn=VerifC06PredicateWide args=0,31,1;1,31,1;2,31,1;0,33,1;1,33,1;2,33,1;0,32,0;1,32,0;2,32,0 idx=ite secs=3000 tier=thorough
//verif:obligation fn=VerifC06VerifyWide args=0,32,1;1,32,1;2,32,1;3,32,1;4,32,1;5,32,1;6,32,1;7,32,1;8,32,1 secs=900 validate=10
//verif:obligation fn=VerifC06VerifyWide args=0,31,1;1,31,1;2,31,1;3,31,1;4,31,1;5,31,1;6,31,1;7,31,1;8,31,1;0,33,1;1,33,1;2,33,1;3,33,1;4,33,1;5,33,1;6,33,1;7,33,1;8,33,1;0,32,0;1,32,0;2,32,0;3,32,0;4,32,0;5,32,0;6,32,0;8,32,0 secs=3000 tier=thorough

import (
	"bytes"

	"github.com/bytom/bytom/encoding/blockchain"
	"github.com/bytom/bytom/errors"
)

// error texts are not the subject: Disassemble (used by wrapErr only) is cut for the solver
func verifC06Disassemble(prog []byte) (string, error) { return "", nil }

const verifC06BufLen = 8

// one stack item as an arbitrary window buf[o:o+l:o+l+s] of the shared buffer (offset, length
// and spare capacity symbolic), together with a fresh exact-capacity copy of its bytes
func verifC06Item(buf []byte, maxLen int) ([]byte, []byte) {
	o := verifInt("off")
	l := verifInt("len")
	sp := verifInt("spare")
	verifAssume(o >= 0 && l >= 0 && sp >= 0 && l <= maxLen && o <= len(buf)-maxLen && sp <= len(buf) && o+l+sp <= len(buf))
	r := make([]byte, maxLen)
	for i := 0; i < maxLen; i++ {
		r[i] = buf[o+i]
	}
	return buf[o : o+l : o+l+sp], r[:l:l]
}

func verifC06Copy(b []byte) []byte {
	r := make([]byte, len(b))
	copy(r, b)
	return r
}

func verifC06CopyStack(st [][]byte) [][]byte {
	var r [][]byte
	for _, it := range st {
		r = append(r, verifC06Copy(it))
	}
	return r
}

func verifC06StackEq(a [][]byte, b [][]byte) bool {
	if len(a) != len(b) {
		return false
	}
	eq := true
	for i := range a {
		eq = verifC06And(eq, bytes.Equal(a[i], b[i]))
	}
	return eq
}

func verifC06And(a bool, b bool) bool { return a && b }

type verifC06Ctx struct {
	ctx     *Context
	asset   []byte
	spent   []byte
	entry   []byte
	sighash []byte
	snap    [][]byte
}

func verifC06Context(code []byte) *verifC06Ctx {
	one := uint64(1)
	c := &verifC06Ctx{}
	ctx := &Context{VMVersion: 1, TxVersion: &one, Code: code}
	if verifBool("ctx.present") {
		h := verifU64("ctx.height")
		nr := verifU64("ctx.numResults")
		am := verifU64("ctx.amount")
		dp := verifU64("ctx.destPos")
		c.asset = verifBytesN("ctx.asset", 4)
		c.spent = verifBytesN("ctx.spent", 4)
		c.entry = verifBytesN("ctx.entry", 4)
		c.sighash = verifBytesN("ctx.sighash", 32)
		ctx.BlockHeight, ctx.NumResults, ctx.Amount, ctx.DestPos = &h, &nr, &am, &dp
		ctx.AssetID, ctx.SpentOutputID = &c.asset, &c.spent
		ctx.EntryID = c.entry
		sh := c.sighash
		ctx.TxSigHash = func() []byte { return sh }
		coErr := verifBool("ctx.checkoutput.err")
		coOK := verifBool("ctx.checkoutput.ok")
		ctx.CheckOutput = func(index uint64, amount uint64, assetID []byte, vmVersion uint64, code []byte, state [][]byte, expansion bool) (bool, error) {
			if coErr {
				return false, ErrBadValue
			}
			return coOK, nil
		}
	}
	c.ctx = ctx
	c.snap = [][]byte{verifC06Copy(c.asset), verifC06Copy(c.spent), verifC06Copy(c.entry), verifC06Copy(c.sighash)}
	return c
}

func (c *verifC06Ctx) unchanged() bool {
	return verifC06StackEq([][]byte{c.asset, c.spent, c.entry, c.sighash}, c.snap)
}

// one step the way Verify runs it: a panic inside an op function (e.g. the index panic of PICK with a
// depth operand in [2^63, 2^64), KF-C08-PICKROLL-TRUNC) is recovered and becomes ErrUnexpected, so that
// the memory assertions are also decided on that exit
func verifC06StepRecovered(vm *virtualMachine) (err error) {
	defer func() {
		if r := recover(); r != nil {
			err = ErrUnexpected
		}
	}()
	return vm.step()
}

// compares the outcome of the aliased run (A) with the independent run (B)
func verifC06Compare(vmA *virtualMachine, errA error, vmB *virtualMachine, errB error) bool {
	verifObserveBool("errA", errA != nil)
	verifObserveI64("runLimitA", vmA.runLimit)
	verifObserveU64("depthA", uint64(len(vmA.dataStack)))
	verifAssert(errors.Root(errA) == errors.Root(errB), "same-error-as-independent-copies")
	verifAssert(vmA.runLimit == vmB.runLimit, "same-runlimit-as-independent-copies")
	if errA == nil && errB == nil {
		verifAssert(vmA.pc == vmB.pc, "same-pc-as-independent-copies")
		verifAssert(verifC06StackEq(vmA.dataStack, vmB.dataStack), "same-data-stack-as-independent-copies")
		verifAssert(verifC06StackEq(vmA.altStack, vmB.altStack), "same-alt-stack-as-independent-copies")
		if len(vmA.dataStack) > 0 {
			verifObserveBytes("topA", vmA.dataStack[len(vmA.dataStack)-1])
		}
		return true
	}
	return false
}

// the append in opCat/opCatpushdata writes in place when the left operand has spare capacity
func verifC06CatRegion(op Op, st [][]byte) bool {
	n := len(st)
	if n < 2 {
		return false
	}
	a, b := st[n-2], st[n-1]
	if op == OP_CAT {
		return len(b) > 0 && len(a)+len(b) <= cap(a)
	}
	if op == OP_CATPUSHDATA {
		return len(a)+len(b)+1 <= cap(a)
	}
	return false
}

// one step of an arbitrary opcode in [opLo, opHi] from an arbitrary layout
func VerifC06Step(opLo int, opHi int, nData int, nAlt int, maxLen int) {
	op := verifU8("op")
	verifAssume(int(op) >= opLo && int(op) <= opHi && Op(op) != OP_CHECKPREDICATE)
	buf := verifBytesN("buf", verifC06BufLen)
	var data, alt, dataB, altB [][]byte
	for i := 0; i < nData; i++ {
		a, b := verifC06Item(buf, maxLen)
		data, dataB = append(data, a), append(dataB, b)
	}
	for i := 0; i < nAlt; i++ {
		a, b := verifC06Item(buf, maxLen)
		alt, altB = append(alt, a), append(altB, b)
	}
	prog := append([]byte{op}, verifBytesN("progdata", 5)...)
	c := verifC06Context(prog)
	r := verifI64("runLimit")
	verifAssume(r >= 0 && r <= 1<<15)
	exp := verifBool("expansionReserved")

	bufSnap := verifC06Copy(buf)
	progSnap := verifC06Copy(prog)
	vmB := &virtualMachine{context: c.ctx, program: verifC06Copy(prog), runLimit: r, expansionReserved: exp,
		dataStack: dataB, altStack: altB}
	vmA := &virtualMachine{context: c.ctx, program: prog, runLimit: r, expansionReserved: exp,
		dataStack: data, altStack: alt}

	verifKnown("KF-C06-CAT-APPEND", verifC06CatRegion(Op(op), data))

	errB := verifC06StepRecovered(vmB)
	errA := verifC06StepRecovered(vmA)

	verifAssert(bytes.Equal(buf, bufSnap), "caller-buffer-unchanged")
	verifAssert(bytes.Equal(prog, progSnap), "program-unchanged")
	verifAssert(c.unchanged(), "context-data-unchanged")
	verifAssert(len(trueBytes) == 1 && trueBytes[0] == 1, "true-constant-unchanged")
	if verifC06Compare(vmA, errA, vmB, errB) {
		verifReach("VerifC06Step:ok")
	} else {
		verifReach("VerifC06Step:error")
	}
	verifReach("VerifC06Step:end")
}

// child programs for CHECKPREDICATE; the last byte of entry 3 is arbitrary push data
var verifC06PredMenu = [][]byte{
	{},
	{byte(OP_CAT)},
	{byte(OP_DUP), byte(OP_CAT)},
	{byte(OP_DATA_1), 'X', byte(OP_CAT)},
	{byte(OP_SWAP), byte(OP_CAT)},
	{byte(OP_1), byte(OP_LEFT)},
	{byte(OP_TOALTSTACK)},
	{byte(OP_DROP)},
}

// in-place append inside the child VM: a is the left operand of the child's CAT
func verifC06PredRegion(menu int, child [][]byte) bool {
	n := len(child)
	switch menu {
	case 1:
		return verifC06CatRegion(OP_CAT, child)
	case 2:
		return n >= 1 && len(child[n-1]) > 0 && 2*len(child[n-1]) <= cap(child[n-1])
	case 3:
		return n >= 1 && len(child[n-1])+1 <= cap(child[n-1])
	case 4:
		return n >= 2 && len(child[n-2]) > 0 && len(child[n-1])+len(child[n-2]) <= cap(child[n-1])
	}
	return false
}

// CHECKPREDICATE from an arbitrary layout: the child VM inherits the parent's (aliased) items
func VerifC06Predicate(nData int, maxLen int) {
	buf := verifBytesN("buf", verifC06BufLen)
	var data, dataB [][]byte
	for i := 0; i < nData; i++ {
		a, b := verifC06Item(buf, maxLen)
		data, dataB = append(data, a), append(dataB, b)
	}
	menu := verifChoice("pred.menu", len(verifC06PredMenu))
	pred := verifC06Copy(verifC06PredMenu[menu])
	if menu == 3 {
		pred[1] = verifU8("pred.pushdata")
	}
	k := verifChoice("pred.n", nData+1) // items handed to the child; 0 = all
	nItem := []byte{}
	if k > 0 {
		nItem = []byte{byte(k)}
	}
	child := data
	if k > 0 {
		child = data[nData-k:]
	}
	verifKnown("KF-C06-CAT-APPEND", verifC06PredRegion(menu, child))

	data = append(data, nItem, pred, []byte{})
	dataB = append(dataB, verifC06Copy(nItem), verifC06Copy(pred), []byte{})
	prog := []byte{byte(OP_CHECKPREDICATE)}
	c := verifC06Context(prog)
	r := verifI64("runLimit")
	verifAssume(r >= 0 && r <= 1<<12)

	bufSnap := verifC06Copy(buf)
	predSnap := verifC06Copy(pred)
	vmB := &virtualMachine{context: c.ctx, program: verifC06Copy(prog), runLimit: r, expansionReserved: true, dataStack: dataB}
	vmA := &virtualMachine{context: c.ctx, program: prog, runLimit: r, expansionReserved: true, dataStack: data}

	errB := verifC06StepRecovered(vmB)
	errA := verifC06StepRecovered(vmA)

	verifAssert(bytes.Equal(buf, bufSnap), "caller-buffer-unchanged")
	verifAssert(bytes.Equal(pred, predSnap), "program-unchanged")
	verifAssert(len(trueBytes) == 1 && trueBytes[0] == 1, "true-constant-unchanged")
	if verifC06Compare(vmA, errA, vmB, errB) {
		verifReach("VerifC06Predicate:ok")
		if AsBool(vmA.dataStack[len(vmA.dataStack)-1]) {
			verifReach("VerifC06Predicate:child-accepted")
		}
	} else {
		verifReach("VerifC06Predicate:error")
	}
}

// programs for the end-to-end cross-check; 0xee marks a byte of arbitrary push data
var verifC06VerifyMenu = [][]byte{
	{},
	{byte(OP_CAT)},
	{byte(OP_SWAP), byte(OP_CAT)},
	{byte(OP_DATA_1), 0xee, byte(OP_CAT)},
	{byte(OP_SWAP), byte(OP_DATA_2), 0xee, 0xee, byte(OP_CAT), byte(OP_DROP)},
	{byte(OP_DUP), byte(OP_1), byte(OP_LEFT), byte(OP_DATA_1), 0xee, byte(OP_CAT), byte(OP_DROP)},
	{byte(OP_DUP), byte(OP_CAT)},
	{byte(OP_PROGRAM), byte(OP_DATA_1), 0xee, byte(OP_CAT)},
	{byte(OP_FROMALTSTACK), byte(OP_DATA_1), 0xee, byte(OP_CATPUSHDATA), byte(OP_DROP)},
	{byte(OP_1), byte(OP_RIGHT), byte(OP_SWAP), byte(OP_OVER), byte(OP_EQUAL)},
	{byte(OP_0), byte(OP_1), byte(OP_SUBSTR), byte(OP_INVERT), byte(OP_OR)},
	{byte(OP_DUP), byte(OP_INVERT), byte(OP_XOR), byte(OP_TOALTSTACK), byte(OP_SIZE), byte(OP_DROP)},
	{byte(OP_OVER), byte(OP_AND), byte(OP_TUCK), byte(OP_2DROP)},
	{byte(OP_1ADD), byte(OP_SWAP), byte(OP_ROT)},
	// state-updating programs: replace / extend the alt stack (the caller's StateData list must not change)
	{byte(OP_FROMALTSTACK), byte(OP_DROP), byte(OP_DATA_1), 0xee, byte(OP_TOALTSTACK), byte(OP_1)},
	{byte(OP_DATA_1), 0xee, byte(OP_TOALTSTACK), byte(OP_1)},
}

func verifC06MenuHasCat(p []byte) bool {
	for _, b := range p {
		if Op(b) == OP_CAT || Op(b) == OP_CATPUSHDATA {
			return true
		}
	}
	return false
}

// Verify on arguments as the transaction decoder produces them (sub-slices of one buffer)
// against Verify on independent copies
func VerifC06Verify(menu int, rawLen int, maxArg int) {
	// a well-formed varstr list: count, then (length, bytes) per argument; content arbitrary
	raw := verifBytesN("raw", rawLen)
	n := verifChoice("nargs", 4)
	raw[0] = byte(n)
	pos := 1
	for i := 0; i < n; i++ {
		l := verifChoice("arglen", maxArg+1)
		if pos >= rawLen {
			return
		}
		raw[pos] = byte(l)
		pos += 1 + l
	}
	if pos > rawLen {
		return
	}
	args, derr := blockchain.ReadVarstrList(blockchain.NewReader(raw))
	verifAssert(derr == nil && len(args) == n, "decoder-accepts-well-formed-list")
	verifReach("VerifC06Verify:decoded")
	progBuf := make([]byte, len(verifC06VerifyMenu[menu])+2) // the program with 2 bytes of spare capacity behind it
	copy(progBuf, verifC06VerifyMenu[menu])
	for i, b := range verifC06VerifyMenu[menu] {
		if b == 0xee {
			progBuf[i] = verifU8("pushdata")
		}
	}
	prog := progBuf[:len(verifC06VerifyMenu[menu])]
	stateBuf := verifBytesN("state", 3)
	// the caller's state-data list: two items in a list with one spare slot
	stateList := make([][]byte, 2, 3)
	stateList[0], stateList[1] = stateBuf[0:1], stateBuf[1:2]
	state := stateList

	rawSnap, progSnap, stateSnap := verifC06Copy(raw), verifC06Copy(progBuf), verifC06Copy(stateBuf)
	one := uint64(1)
	ctxB := &Context{VMVersion: 1, TxVersion: &one, Code: verifC06Copy(prog), Arguments: verifC06CopyStack(args), StateData: verifC06CopyStack(state)}
	ctxA := &Context{VMVersion: 1, TxVersion: &one, Code: prog, Arguments: args, StateData: state}

	verifKnown("KF-C06-CAT-APPEND", verifC06MenuHasCat(verifC06VerifyMenu[menu]))

	gasB, errB := Verify(ctxB, 10000)
	gasA, errA := Verify(ctxA, 10000)

	verifObserveI64("gasA", gasA)
	verifObserveBool("errA", errA != nil)
	verifAssert(bytes.Equal(raw, rawSnap), "verify-argument-buffer-unchanged")
	verifAssert(bytes.Equal(progBuf, progSnap), "verify-program-buffer-unchanged")
	verifAssert(bytes.Equal(stateBuf, stateSnap), "verify-state-buffer-unchanged")
	full := stateList[:3]
	verifAssert(len(full[0]) == 1 && len(full[1]) == 1 && full[2] == nil && bytes.Equal(full[0], stateSnap[0:1]) && bytes.Equal(full[1], stateSnap[1:2]), "verify-state-list-unchanged")
	verifAssert(gasA == gasB && errors.Root(errA) == errors.Root(errB), "verify-same-result-as-independent-copies")
	if errA == nil {
		verifReach("VerifC06Verify:accepted")
	} else {
		verifReach("VerifC06Verify:rejected")
	}
}

var verifC06SeqOps = []Op{OP_SHA256, OP_SHA3, OP_HASH160, OP_INVERT, OP_1ADD, OP_1SUB, OP_2MUL, OP_2DIV, OP_NOT, OP_0NOTEQUAL, OP_SHA256, OP_SHA3}

// result-lifetime lemma: the value an operation left on the stack is not changed by a later
// operation on ANOTHER item (program <op1> SWAP <op2>; op1's result sits below op2's operand).
// Run with pool=reuse, so memory an opcode takes from a sync.Pool and releases is handed to the
// next opcode that asks for it.
func VerifC06Seq(lo int, hi int) {
	i1 := lo + verifChoice("op1", hi-lo+1)
	i2 := verifChoice("op2", len(verifC06SeqOps))
	buf := verifBytesN("buf", verifC06BufLen)
	a, b := buf[0:2:4], buf[3:5:8]
	prog := []byte{byte(verifC06SeqOps[i1]), byte(OP_SWAP), byte(verifC06SeqOps[i2])}
	one := uint64(1)
	bufSnap := verifC06Copy(buf)
	vm := &virtualMachine{context: &Context{VMVersion: 1, TxVersion: &one, Code: prog}, program: prog, runLimit: 100000, dataStack: [][]byte{a, b}}
	if verifC06StepRecovered(vm) != nil {
		return
	}
	verifAssert(len(vm.dataStack) == 2, "seq-unary-op-keeps-depth")
	first := verifC06Copy(vm.dataStack[1])
	if verifC06StepRecovered(vm) != nil {
		verifAssert(false, "seq-swap-succeeds")
		return
	}
	verifAssert(bytes.Equal(vm.dataStack[0], first), "seq-swap-moves-the-result-unchanged")
	err := verifC06StepRecovered(vm)
	verifObserveBool("err2", err != nil)
	verifAssert(len(vm.dataStack) >= 1 && bytes.Equal(vm.dataStack[0], first), "earlier-result-unchanged-by-later-operation")
	verifAssert(bytes.Equal(buf, bufSnap), "seq-caller-buffer-unchanged")
	if err == nil {
		verifObserveBytes("second", vm.dataStack[1])
		verifReach("VerifC06Seq:ok")
	}
}

// the same lemma with op1's result parked on the alt stack: <op1> TOALTSTACK <op2>
func VerifC06SeqAlt(lo int, hi int) {
	i1 := lo + verifChoice("op1", hi-lo+1)
	i2 := verifChoice("op2", len(verifC06SeqOps))
	buf := verifBytesN("buf", verifC06BufLen)
	a, b := buf[0:2:4], buf[3:5:8]
	prog := []byte{byte(verifC06SeqOps[i1]), byte(OP_TOALTSTACK), byte(verifC06SeqOps[i2])}
	one := uint64(1)
	bufSnap := verifC06Copy(buf)
	vm := &virtualMachine{context: &Context{VMVersion: 1, TxVersion: &one, Code: prog}, program: prog, runLimit: 100000, dataStack: [][]byte{a, b}}
	if verifC06StepRecovered(vm) != nil {
		return
	}
	verifAssert(len(vm.dataStack) == 2, "seqalt-unary-op-keeps-depth")
	first := verifC06Copy(vm.dataStack[1])
	if verifC06StepRecovered(vm) != nil {
		verifAssert(false, "seqalt-toaltstack-succeeds")
		return
	}
	verifAssert(len(vm.altStack) == 1 && bytes.Equal(vm.altStack[0], first), "seqalt-toaltstack-moves-the-result-unchanged")
	err := verifC06StepRecovered(vm)
	verifObserveBool("err2", err != nil)
	verifAssert(len(vm.altStack) == 1 && bytes.Equal(vm.altStack[0], first), "earlier-result-on-alt-stack-unchanged-by-later-operation")
	verifAssert(bytes.Equal(buf, bufSnap), "seqalt-caller-buffer-unchanged")
	if err == nil {
		verifReach("VerifC06SeqAlt:ok")
	}
}

const verifC06BigLen = 36

// a long item: the window big[1:1+n] (n = 31, 32 or 33 bytes) of a second caller-owned buffer, with
// the spare capacity that reaches the end of that buffer. free == 0: all content arbitrary; free == k > 0:
// the k lowest and k highest bytes of the item (so the sign bit) and everything around it are arbitrary,
// the bytes in between are fixed to distinct non-zero values (keeps the number of result lengths small)
func verifC06WideItem(big []byte, n int, free int) ([]byte, []byte) {
	if free > 0 {
		for i := 1 + free; i < 1+n-free; i++ {
			big[i] = byte(0x10 + i)
		}
	}
	w := big[1 : 1+n]
	return w, verifC06Copy(w)
}

// the step lemma with ONE long item at stack position widePos (0 = bottom) among short ones:
// numeric conversions (AsBigInt/popBigInt) reject or accept it depending on length and sign bit;
// every exit, in particular the error exits, must leave the caller's memory and the other items alone
func VerifC06Wide(opLo int, opHi int, nData int, widePos int, wideLen int, free int) {
	op := verifU8("op")
	verifAssume(int(op) >= opLo && int(op) <= opHi && Op(op) != OP_CHECKPREDICATE)
	buf := verifBytesN("buf", verifC06BufLen)
	big := verifBytesN("big", verifC06BigLen)
	var data, dataB [][]byte
	for i := 0; i < nData; i++ {
		var a, b []byte
		if i == widePos {
			a, b = verifC06WideItem(big, wideLen, free)
		} else {
			a, b = verifC06Item(buf, 1)
		}
		data, dataB = append(data, a), append(dataB, b)
	}
	prog := append([]byte{op}, verifBytesN("progdata", 5)...)
	c := verifC06Context(prog)
	r := verifI64("runLimit")
	verifAssume(r >= 0 && r <= 1<<15)
	exp := verifBool("expansionReserved")

	bufSnap, bigSnap, progSnap := verifC06Copy(buf), verifC06Copy(big), verifC06Copy(prog)
	vmB := &virtualMachine{context: c.ctx, program: verifC06Copy(prog), runLimit: r, expansionReserved: exp, dataStack: dataB}
	vmA := &virtualMachine{context: c.ctx, program: prog, runLimit: r, expansionReserved: exp, dataStack: data}

	errB := verifC06StepRecovered(vmB)
	errA := verifC06StepRecovered(vmA)

	verifAssert(bytes.Equal(buf, bufSnap), "caller-buffer-unchanged")
	verifAssert(bytes.Equal(big, bigSnap), "caller-long-item-buffer-unchanged")
	verifAssert(bytes.Equal(prog, progSnap), "program-unchanged")
	verifAssert(c.unchanged(), "context-data-unchanged")
	if verifC06Compare(vmA, errA, vmB, errB) {
		verifReach("VerifC06Wide:ok")
	} else {
		verifReach("VerifC06Wide:error")
		if errors.Root(errA) == ErrRange {
			verifReach("VerifC06Wide:range-error")
		}
		if errors.Root(errA) == ErrBadValue {
			verifReach("VerifC06Wide:bad-value")
		}
	}
}

// child programs for the long-item CHECKPREDICATE check
var verifC06PredWideMenu = [][]byte{
	{},
	{byte(OP_1ADD)},
	{byte(OP_DUP), byte(OP_0), byte(OP_LEFT), byte(OP_DROP)},
	{byte(OP_1), byte(OP_SWAP), byte(OP_ADD)},
}

// CHECKPREDICATE with a long item as the limit (which = 0), as the item count (1) or as the item
// handed to the child VM (2)
func VerifC06PredicateWide(which int, wideLen int, free int) {
	big := verifBytesN("big", verifC06BigLen)
	w, wB := verifC06WideItem(big, wideLen, free)
	menu := verifChoice("pred.menu", len(verifC06PredWideMenu))
	pred := verifC06Copy(verifC06PredWideMenu[menu])
	short := verifBytesN("short", 3)
	var data, dataB [][]byte
	switch which {
	case 0:
		data = [][]byte{short[0:1], {}, pred, w}
		dataB = [][]byte{verifC06Copy(short[0:1]), {}, verifC06Copy(pred), wB}
	case 1:
		data = [][]byte{short[0:1], w, pred, {}}
		dataB = [][]byte{verifC06Copy(short[0:1]), wB, verifC06Copy(pred), {}}
	default:
		data = [][]byte{short[0:1], w, {1}, pred, {}}
		dataB = [][]byte{verifC06Copy(short[0:1]), wB, {1}, verifC06Copy(pred), {}}
	}
	prog := []byte{byte(OP_CHECKPREDICATE)}
	c := verifC06Context(prog)
	r := verifI64("runLimit")
	verifAssume(r >= 0 && r <= 1<<12)

	bigSnap, shortSnap, predSnap := verifC06Copy(big), verifC06Copy(short), verifC06Copy(pred)
	vmB := &virtualMachine{context: c.ctx, program: verifC06Copy(prog), runLimit: r, expansionReserved: true, dataStack: dataB}
	vmA := &virtualMachine{context: c.ctx, program: prog, runLimit: r, expansionReserved: true, dataStack: data}

	errB := verifC06StepRecovered(vmB)
	errA := verifC06StepRecovered(vmA)

	verifAssert(bytes.Equal(big, bigSnap), "caller-long-item-buffer-unchanged")
	verifAssert(bytes.Equal(short, shortSnap), "caller-buffer-unchanged")
	verifAssert(bytes.Equal(pred, predSnap), "program-unchanged")
	if verifC06Compare(vmA, errA, vmB, errB) {
		verifReach("VerifC06PredicateWide:ok")
	} else {
		verifReach("VerifC06PredicateWide:error")
	}
}

// programs for the end-to-end check with a long argument (argument 1 long, argument 2 one byte on top)
var verifC06VerifyWideMenu = [][]byte{
	{byte(OP_SWAP), byte(OP_1ADD)},
	{byte(OP_ADD)},
	{byte(OP_DROP), byte(OP_DUP), byte(OP_0NOTEQUAL), byte(OP_DROP)},
	{byte(OP_LEFT)},
	{byte(OP_SWAP), byte(OP_RIGHT)},
	{byte(OP_OVER), byte(OP_LESSTHAN)},
	{byte(OP_DROP), byte(OP_DUP), byte(OP_1), byte(OP_DATA_1), byte(OP_1ADD), byte(OP_0), byte(OP_CHECKPREDICATE), byte(OP_DROP)},
	{byte(OP_SWAP), byte(OP_PICK)},
	{byte(OP_DROP), byte(OP_DUP), byte(OP_1), byte(OP_LSHIFT), byte(OP_DROP)},
}

// Verify with a long first argument laid out by the real decoder, against independent copies
func VerifC06VerifyWide(menu int, wideLen int, free int) {
	raw := verifBytesN("raw", 1+1+wideLen+1+1+2)
	if free > 0 {
		for i := 2 + free; i < 2+wideLen-free; i++ {
			raw[i] = byte(0x10 + i)
		}
	}
	raw[0] = 2
	raw[1] = byte(wideLen)
	raw[2+wideLen] = 1
	args, derr := blockchain.ReadVarstrList(blockchain.NewReader(raw))
	verifAssert(derr == nil && len(args) == 2 && len(args[0]) == wideLen, "decoder-accepts-well-formed-list")
	prog := verifC06Copy(verifC06VerifyWideMenu[menu])
	rawSnap, progSnap := verifC06Copy(raw), verifC06Copy(prog)
	one := uint64(1)
	ctxB := &Context{VMVersion: 1, TxVersion: &one, Code: verifC06Copy(prog), Arguments: verifC06CopyStack(args)}
	ctxA := &Context{VMVersion: 1, TxVersion: &one, Code: prog, Arguments: args}

	gasB, errB := Verify(ctxB, 10000)
	gasA, errA := Verify(ctxA, 10000)

	verifObserveI64("gasA", gasA)
	verifObserveBool("errA", errA != nil)
	verifAssert(bytes.Equal(raw, rawSnap), "verify-argument-buffer-unchanged")
	verifAssert(bytes.Equal(prog, progSnap), "verify-program-buffer-unchanged")
	verifAssert(gasA == gasB && errors.Root(errA) == errors.Root(errB), "verify-same-result-as-independent-copies")
	if errA == nil {
		verifReach("VerifC06VerifyWide:accepted")
	} else {
		verifReach("VerifC06VerifyWide:rejected")
	}
}
