package vm

// C02 (opcode level): CHECKSIG and CHECKMULTISIG against an independent
// reference, from an arbitrary stack.
//
//   CHECKSIG      result = len(pk)==32 AND Verify(pk, msg, sig); error iff the
//                 message is not 32 bytes (given three operands and 1024 gas)
//   CHECKMULTISIG true  => there is an order-preserving injection of the m
//                          signatures into the n keys with Verify true
//                 all keys 32 bytes and such an injection exists => true
//                 m > n, or m == 0 with n > 0, or a message that is not 32
//                 bytes => error; a well-formed call with 1024*n gas succeeds;
//                 exactly n+m+3 operands are consumed, the rest is untouched
//
// Two worlds are checked (last harness argument):
//   world 0 "open":   ed25519.Verify is an arbitrary predicate of (key, msg,
//                     sig) for the solver; signature items are arbitrary bytes
//   world 1 "closed": signature items are honest signatures made in the
//                     harness with ed25519.Sign (arbitrary seed, arbitrary
//                     32-byte message; as made, cut to 63 bytes, or with one byte
//                     appended) or short junk, and Verify is true
//                     exactly on those triples. Every counterexample of this
//                     world replays natively with the real ed25519.

//verif:property C02
//verif:bound CHECKSIG: one arbitrary item below the three operands, key item 31..33 arbitrary bytes (closed world: or the public key of an arbitrary seed, unmodified, truncated to 31 bytes or with one arbitrary byte appended), message item 31..33 bytes, signature item 63..65 bytes (open world) / honest 64-byte signature (unmodified, truncated to 63 bytes or with one arbitrary byte appended) or 0..1 junk bytes (closed world), stack depth 2..4 (underflow included), runLimit any value in [0, 2^20]
//verif:bound CHECKMULTISIG: stack = [k key/sig-shaped operands][m item][n item] with m and n items arbitrary strings of <= 1 byte (values 0..255), shapes (keys, sigs) = (1,1) (2,1) (2,2) with every n, (3,2) with n in 3..4 quick; (3,2) with every n, (3,3) (4,2) with n in keys..keys+1 thorough, closed world also (5,2) with n in 5..6; key items 31..33 bytes, message 31..33 bytes, signatures as for CHECKSIG; runLimit in [0, 1024*(keys+2)-1] so that every n in 0..keys+1 is executed (n = keys+1 shifts every operand's role by one)
//verif:assume hash functions are not involved at this level; ed25519.Verify: open world = uninterpreted predicate (functional consistency only); closed world = override verifC02Verify (true exactly on the harness' honest (pub, msg, Sign(priv,msg)) triples; NewKeyFromSeed/Sign are uninterpreted for the solver with the axiom Verify(pub(seed), msg, Sign(seed||pub(seed), msg)))
//verif:assume verifC02And/verifC02Or are evaluated by the engine as a single term (same value as their Go bodies) so that the reference does not fork
//verif:outside open world beyond 4 keys and closed world beyond 5 keys at opcode level ((4,4), (5,3), (6,2) open and (5,3), (6,2) closed ran clean or hit the 3000 s budget without a finding but are too slow to register); cryptographic strength of ed25519 (unforgeability); m and n items longer than one byte (values above 255 need more than 255*1024 gas and more stack than any bound here)
//verif:override crypto/ed25519.Verify -> verifC02Verify
//verif:obligation fn=VerifC02CheckSig args=3,0;2,0;4,0 nooverride=verifC02Verify validate=32
//verif:obligation fn=VerifC02CheckSig args=3,1;4,1 validate=32
//verif:obligation fn=VerifC02CheckMultiSig args=1,1,0,0;2,1,0,0;2,2,0,0;3,2,3,0 nooverride=verifC02Verify secs=3000 timeout=120000
//verif:obligation fn=VerifC02CheckMultiSig args=1,1,0,1;2,1,0,1;2,2,0,1;3,2,3,1 validate=32 secs=3000 timeout=120000
//verif:obligation fn=VerifC02CheckMultiSig args=3,2,0,0;3,3,3,0;4,2,4,0 nooverride=verifC02Verify tier=thorough secs=3000 timeout=120000
//verif:obligation fn=VerifC02CheckMultiSig args=3,2,0,1;3,3,3,1;4,2,4,1;5,2,5,1 tier=thorough secs=3000 timeout=120000

import (
	"bytes"
	"crypto/ed25519"
)

type verifC02Triple struct{ pk, msg, sig []byte }

// honest signatures made on this path (closed world)
var verifC02Honest []verifC02Triple

func verifC02And(a, b bool) bool { return a && b }
func verifC02Or(a, b bool) bool  { return a || b }

// closed world: Verify is true exactly on the honest triples
func verifC02Verify(pk ed25519.PublicKey, msg, sig []byte) bool {
	r := false
	for _, t := range verifC02Honest {
		r = verifC02Or(r, verifC02And(bytes.Equal(pk, t.pk), verifC02And(bytes.Equal(msg, t.msg), bytes.Equal(sig, t.sig))))
	}
	return r
}

func verifC02Shaped(name string, lo, hi int) []byte {
	b := verifBytes(name, hi)
	verifAssume(len(b) >= lo)
	return b
}

// a signature-shaped stack item
func verifC02SigItem(world int) []byte {
	if world == 0 {
		return verifC02Shaped("sig", 63, 65)
	}
	if verifBool("sig.honest") {
		priv := ed25519.NewKeyFromSeed(verifBytesN("sig.seed", 32))
		msg := verifBytesN("sig.msg", 32)
		sig := ed25519.Sign(priv, msg)
		verifC02Honest = append(verifC02Honest, verifC02Triple{pk: priv[32:], msg: msg, sig: sig})
		// the real signature, the real signature truncated to 63 bytes, or the real
		// signature with one arbitrary byte appended (symbolic length, no fork): only
		// the unmodified one may verify
		return verifC02Modified(sig, "sig.tail", "sig.cut")
	}
	return verifBytes("sig.junk", 1)
}

// b, b without its last byte, or b with one arbitrary byte appended
func verifC02Modified(b []byte, tailName, cutName string) []byte {
	ext := append(append([]byte{}, b...), verifU8(tailName))
	cut := verifU8(cutName)
	verifAssume(cut <= 2)
	return ext[:len(b)-1+int(cut)]
}

// a key-shaped stack item. Closed world: the public key of an arbitrary seed (the
// solver may choose the seed of a signer, which the native replay reproduces) or
// arbitrary bytes
func verifC02KeyItem(world int) []byte {
	if world == 1 && verifBool("pk.derived") {
		priv := ed25519.NewKeyFromSeed(verifBytesN("pk.seed", 32))
		// the real key, truncated to 31 bytes, or with one arbitrary byte appended
		return verifC02Modified(priv[32:], "pk.tail", "pk.cut")
	}
	item := verifC02Shaped("pk", 31, 33)
	if world == 1 {
		// arbitrary key bytes are not a signer's public key in this world (that case is
		// the derived branch above; the open world has no such restriction)
		for _, t := range verifC02Honest {
			verifAssume(!bytes.Equal(item, t.pk))
		}
	}
	return item
}

func verifC02SmallInt(b []byte) int64 {
	if len(b) == 0 {
		return 0
	}
	return int64(b[0])
}

func verifC02IsBool(item []byte, v bool) bool {
	if v {
		return len(item) == 1 && item[0] == 1
	}
	return len(item) == 0
}

func VerifC02CheckSig(depth int, world int) {
	verifC02Honest = nil
	v := &virtualMachine{context: &Context{VMVersion: 1}}
	var below []byte
	if depth >= 4 {
		below = verifBytes("below", 2)
		v.dataStack = append(v.dataStack, below)
	}
	var sig, msg, pk []byte
	if depth >= 3 {
		sig = verifC02SigItem(world)
		v.dataStack = append(v.dataStack, sig)
	}
	msg = verifC02Shaped("msg", 31, 33)
	pk = verifC02KeyItem(world)
	v.dataStack = append(v.dataStack, msg, pk)
	r := verifI64("runLimit")
	verifAssume(r >= 0 && r <= 1<<20)
	v.runLimit = r
	v.program = []byte{byte(OP_CHECKSIG)}

	err := v.step()

	verifObserveBool("err", err != nil)
	verifObserveU64("depth-after", uint64(len(v.dataStack)))
	if depth < 3 {
		verifAssert(err != nil, "checksig-needs-three-operands")
		verifReach("VerifC02CheckSig:underflow")
		return
	}
	if len(msg) != 32 {
		verifAssert(err != nil, "checksig-message-must-be-32-bytes")
		verifReach("VerifC02CheckSig:badmsg")
		return
	}
	if r < 1024 {
		verifAssert(err != nil, "checksig-costs-1024")
		return
	}
	verifAssert(err == nil, "checksig-wellformed-call-succeeds")
	verifAssert(len(v.dataStack) == depth-2, "checksig-consumes-three-pushes-one")
	want := false
	if len(pk) == 32 {
		want = ed25519.Verify(ed25519.PublicKey(pk), msg, sig)
	}
	top := v.dataStack[len(v.dataStack)-1]
	verifObserveBytes("top", top)
	verifAssert(verifC02IsBool(top, want), "checksig-result-is-verify-of-key-msg-sig")
	if depth >= 4 {
		verifAssert(bytes.Equal(v.dataStack[0], below), "checksig-leaves-lower-stack")
	}
	if want {
		verifReach("VerifC02CheckSig:valid")
	} else {
		verifReach("VerifC02CheckSig:invalid")
	}
}

// exists a strictly increasing map of sigs[si:] into keys[ki:] with V true
func verifC02Exists(V [][]bool, si, ki int) bool {
	m := len(V)
	if si == m {
		return true
	}
	n := len(V[si])
	if n-ki < m-si {
		return false
	}
	// sig si on key ki, or key ki unused
	return verifC02Or(verifC02And(V[si][ki], verifC02Exists(V, si+1, ki+1)), verifC02Exists(V, si, ki+1))
}

func VerifC02CheckMultiSig(nKeys int, nSigs int, nLo int, world int) {
	verifC02Honest = nil
	v := &virtualMachine{context: &Context{VMVersion: 1}}
	// bottom: one unrelated item, then signature-shaped, message-shaped, key-shaped operands
	below := verifBytes("below", 2)
	st := [][]byte{below}
	for i := 0; i < nSigs; i++ {
		st = append(st, verifC02SigItem(world))
	}
	st = append(st, verifC02Shaped("msg", 31, 33))
	for i := 0; i < nKeys; i++ {
		st = append(st, verifC02KeyItem(world))
	}
	mItem := verifBytes("m", 1)
	nItem := verifBytes("n", 1)
	st = append(st, mItem, nItem)
	verifAssume(verifC02SmallInt(nItem) >= int64(nLo))
	v.dataStack = append([][]byte{}, st...)
	r := verifI64("runLimit")
	verifAssume(r >= 0 && r <= int64(1024*(nKeys+2)-1))
	v.runLimit = r
	v.program = []byte{byte(OP_CHECKMULTISIG)}

	err := v.step()

	verifObserveBool("err", err != nil)
	verifObserveU64("depth-after", uint64(len(v.dataStack)))

	// independent decoding of the operands from the saved stack
	n := verifC02SmallInt(nItem)
	m := verifC02SmallInt(mItem)
	avail := int64(len(st) - 2)
	if m > n || (n > 0 && m == 0) {
		verifAssert(err != nil, "multisig-bad-quorum-rejected")
		verifReach("VerifC02CheckMultiSig:badquorum")
		return
	}
	if n+1+m > avail {
		verifAssert(err != nil, "multisig-needs-all-operands")
		verifReach("VerifC02CheckMultiSig:underflow")
		return
	}
	// concrete n, m from here on (at most avail values each)
	ni, mi := -1, -1
	for k := 0; k <= int(avail); k++ {
		if n == int64(k) {
			ni = k
		}
		if m == int64(k) {
			mi = k
		}
	}
	top := len(st) - 3 // index of the first key popped
	keys := make([][]byte, ni)
	for j := 0; j < ni; j++ {
		keys[j] = st[top-j]
	}
	msg := st[top-ni]
	sigs := make([][]byte, mi)
	for i := 0; i < mi; i++ {
		sigs[i] = st[top-ni-1-i]
	}
	if len(msg) != 32 {
		verifAssert(err != nil, "multisig-message-must-be-32-bytes")
		verifReach("VerifC02CheckMultiSig:badmsg")
		return
	}
	if r < 1024*n {
		verifAssert(err != nil, "multisig-costs-1024-per-key")
		return
	}
	verifAssert(err == nil, "multisig-wellformed-call-succeeds")
	rest := len(st) - 2 - (ni + 1 + mi)
	verifAssert(len(v.dataStack) == rest+1, "multisig-consumes-its-operands-pushes-one")
	for i := 0; i < rest; i++ {
		verifAssert(bytes.Equal(v.dataStack[i], st[i]), "multisig-leaves-lower-stack")
	}
	res := v.dataStack[len(v.dataStack)-1]
	verifObserveBytes("top", res)
	isTrue := verifC02IsBool(res, true)
	verifAssert(verifC02Or(isTrue, verifC02IsBool(res, false)), "multisig-result-is-boolean")

	all32 := true
	V := make([][]bool, mi)
	for i := 0; i < mi; i++ {
		V[i] = make([]bool, ni)
	}
	for j := 0; j < ni; j++ {
		if len(keys[j]) != 32 {
			all32 = false
			continue // V[.][j] stays false: a malformed key verifies nothing
		}
		for i := 0; i < mi; i++ {
			V[i][j] = ed25519.Verify(ed25519.PublicKey(keys[j]), msg, sigs[i])
		}
	}
	ex := verifC02Exists(V, 0, 0)
	verifObserveBool("exists", ex)
	verifAssert(verifC02Or(!isTrue, ex), "multisig-true-needs-m-ordered-valid-signatures")
	if all32 {
		verifAssert(verifC02Or(!ex, isTrue), "multisig-m-ordered-valid-signatures-accepted")
	}
	if isTrue {
		verifReach("VerifC02CheckMultiSig:true")
	} else {
		verifReach("VerifC02CheckMultiSig:false")
	}
}
