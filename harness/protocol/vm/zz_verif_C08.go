package vm

// C08: every opcode against an independent reference semantics.
//
// One real vm.step() on a one-instruction program from an arbitrary stack is
// compared with a reference interpreter written below from the documented
// semantics: byte strings, numbers as little-endian byte strings handled
// byte by byte (no uint256, none of the VM's helpers), the cost table.
// Compared: error class; on success the whole data stack, the alt stack, the
// next pc and the remaining run limit (= gas charged).

//verif:property C08
//verif:bound one instruction at pc 0 of a one-instruction program; every opcode 0x00..0xff; run limit any value in [0, 2^20] ([0, 2^13] for CHECKMULTISIG), so running out of gas at every charge point is included
//verif:bound quick tier, items of symbolic length and arbitrary content: pushes/control/expansion opcodes with 0..1 items of 0..3 bytes and <= 6 bytes of instruction data (DATA_1..6, PUSHDATA1/2/4 incl. truncated programs, JUMP/JUMPIF); stack opcodes with 0..4 and 6 items of 0..3 bytes plus an optional alt item; PICK/ROLL additionally with operands of 0..9 and 31..33 bytes; splice and bitwise opcodes with 0..3 items of 0..3 bytes; 1ADD 1SUB 2MUL 2DIV NOT 0NOTEQUAL ADD SUB with operands of 0..4 bytes; MUL DIV MOD with operands of 0..1 bytes; RSHIFT with operands of 0..2 bytes; LSHIFT with a value of 0..1 bytes and a shift amount of 0..2 bytes that is below 16 or at least 240 (so 255, 256 and everything above are included); BOOLAND BOOLOR NUMEQUAL..MAX WITHIN with operands of 0..2 bytes; the number decoding of 31..33-byte operands (33 bytes rejected, top bit rejected) through PICK/ROLL; SHA256 SHA3 HASH160 CHECKSIG with items of 0..3 bytes (CHECKSIG message also exactly 32 bytes through the multisig shape); CHECKMULTISIG on the shapes 1-of-1, 1-of-2 (+1 extra item), 2-of-2 with arbitrary count operands, 31/32-byte keys and message; CHECKOUTPUT with numeric operands of 0..2 and 8..9 bytes; introspection opcodes with present/absent context fields; CHECKPREDICATE with 0..1 argument items, arbitrary count/limit operands of <= 2/3 bytes and a predicate from a menu of 12 programs of at most one instruction
//verif:bound thorough tier adds: stack opcodes with 5 and 8 items; MUL DIV MOD with 2-byte operands; CHECKPREDICATE with 2 argument items
//verif:assume SHA-256, SHA3-256, RIPEMD-160 are uninterpreted functions and ed25519.Verify an uninterpreted predicate for the solver: hash and signature opcodes are checked to apply exactly that function to exactly the popped operands (real functions in validation and native replay)
//verif:assume context callbacks: TxSigHash returns an arbitrary fixed 32-byte value; CheckOutput returns an arbitrary verdict or ErrBadValue and records its arguments, which are compared with the reference
//verif:assume the reference charges cost in the documented order (base cost first, operand-dependent cost next, memory refunds of popped operands at the end of the instruction for opcodes that defer them); after a failing instruction only the error class is compared (what a failed CHECKPREDICATE child leaves behind is compared through the parent's refund for the predicates of the menu)
//verif:assume instruction decoding failures are one error class (ErrShortProgram or checked.ErrOverflow); decoding itself is the subject of C09
//verif:outside arithmetic on numbers longer than the stated operand lengths (the byte-level reference handles them, but the 256-bit queries did not finish within the budget on the shared machine, so none is registered); LSHIFT amounts 16..239; items above 33 bytes, CATPUSHDATA with items above 75 bytes; MUL beyond 2-byte operands and DIV/MOD beyond 64-bit operands (uint256 long division); multi-instruction programs and jumps taken inside CHECKPREDICATE children; error message texts; Verify's prologue/epilogue (C07) and aliasing of stack items after CAT (C06)
//verif:obligation fn=VerifC08Op args=0,106,0,0,3;0,106,1,0,3;174,192,0,0,2;206,255,0,0,2 loops=1500 secs=3000
//verif:obligation fn=VerifC08Op args=107,125,0,0,3;107,125,1,0,3;107,125,2,0,3;107,125,4,0,3;107,125,6,0,2 loops=1500 secs=3000
//verif:obligation fn=VerifC08Op args=107,125,3,0,3 loops=1500 secs=3000 validate=16
//verif:obligation fn=VerifC08Op args=121,122,2,0,9;121,122,3,31,33 loops=1500 secs=3000
//verif:obligation fn=VerifC08Op args=126,138,0,0,3;126,138,1,0,3;126,138,3,0,3 loops=1500 secs=3000
//verif:obligation fn=VerifC08Op args=126,138,2,0,3 loops=1500 secs=3000 validate=16
//verif:obligation fn=VerifC08Op args=128,129,2,8,8;127,127,3,8,8 loops=1500 secs=3000
//verif:obligation fn=VerifC08Op args=139,146,0,0,4;139,146,1,0,4 loops=1500 secs=3000
//verif:obligation fn=VerifC08Op args=147,148,1,0,4 loops=1500 secs=3000
//verif:obligation fn=VerifC08Op args=147,148,2,0,4 loops=1500 secs=3000 validate=16
//verif:obligation fn=VerifC08Op args=149,151,1,0,2;149,151,2,0,1 loops=1500 secs=3000
//verif:obligation fn=VerifC08Op args=152,153,1,0,2;153,153,2,0,2;153,153,2,9,9 loops=1500 secs=3000
//verif:obligation fn=VerifC08Op args=154,165,1,0,2;154,165,2,0,2;165,165,3,0,2 loops=1500 secs=3000
//verif:obligation fn=VerifC08Op args=166,172,0,0,3;166,172,1,0,3;166,172,3,0,3 loops=1500 secs=3000
//verif:obligation fn=VerifC08Op args=194,205,0,0,3 loops=1500 secs=3000 validate=12
//verif:obligation fn=VerifC08Multisig args=1,1,2;0,2,2 loops=1500 secs=3000
//verif:obligation fn=VerifC08Multisig args=0,1,1 loops=1500 secs=3000 validate=12
//verif:obligation fn=VerifC08CheckOutput args=8,9 loops=1500 secs=3000
//verif:obligation fn=VerifC08CheckOutput args=0,2 loops=1500 secs=3000 validate=12
//verif:obligation fn=VerifC08Predicate args=1,2 loops=1500 secs=3000
//verif:obligation fn=VerifC08Predicate args=0,2 loops=1500 secs=3000 validate=12
//verif:obligation fn=VerifC08Lshift args=0;1 loops=1500 secs=3000 validate=12
//verif:obligation fn=VerifC08Op args=107,125,5,0,3;107,125,8,0,2;149,151,2,0,2 loops=1500 secs=6000 tier=thorough
//verif:obligation fn=VerifC08Predicate args=2,2 loops=1500 secs=6000 tier=thorough

import (
	"bytes"
	"crypto/ed25519"
	"crypto/sha256"

	"golang.org/x/crypto/sha3"

	"github.com/bytom/bytom/crypto"
	"github.com/bytom/bytom/errors"
	"github.com/bytom/bytom/math/checked"
)

// ---------------------------------------------------------------------------
// reference machine

type verifC08M struct {
	data   [][]byte
	alt    [][]byte
	gas    int64
	refund int64 // memory refunds / charges settled at the end of the instruction
	pc     uint32
	err    error
	parse  bool // the failure is an instruction decoding failure

	// CHECKOUTPUT: what the context callback must be asked, and what it answers
	coCalled                 bool
	coIndex, coAmount, coVer uint64
	coAsset, coCode          []byte
	coOK, coFail             bool

	mulX, mulY []byte // MUL operands as found on the stack
}

func (m *verifC08M) fail(e error) {
	if m.err == nil {
		m.err = e
	}
}

// charge n units now; exhausting the limit zeroes it
func (m *verifC08M) charge(n int64) bool {
	if m.err != nil {
		return false
	}
	if n > m.gas {
		m.gas = 0
		m.err = ErrRunLimitExceeded
		return false
	}
	m.gas -= n
	return true
}

func (m *verifC08M) depth() int { return len(m.data) }

// item k from the top (0 = top); caller checks the depth
func (m *verifC08M) at(k int) []byte { return m.data[len(m.data)-1-k] }

// pop with the memory refund settled at the end of the instruction
func (m *verifC08M) pop() ([]byte, bool) {
	if m.err != nil {
		return nil, false
	}
	if len(m.data) == 0 {
		m.err = ErrDataStackUnderflow
		return nil, false
	}
	b := m.data[len(m.data)-1]
	m.data = m.data[:len(m.data)-1]
	m.refund += 8 + int64(len(b))
	return b, true
}

// pop with immediate refund
func (m *verifC08M) popNow() ([]byte, bool) {
	b, ok := m.pop()
	if ok {
		m.refund -= 8 + int64(len(b))
		m.gas += 8 + int64(len(b))
	}
	return b, ok
}

// push with the memory charge settled at the end of the instruction
func (m *verifC08M) push(b []byte) {
	if m.err != nil {
		return
	}
	m.refund -= 8 + int64(len(b))
	m.data = append(m.data, b)
}

// push charged immediately
func (m *verifC08M) pushNow(b []byte) {
	if m.charge(8 + int64(len(b))) {
		m.data = append(m.data, b)
	}
}

func (m *verifC08M) pushBool(v bool) {
	if v {
		m.push([]byte{1})
	} else {
		m.push([]byte{})
	}
}

// end of instruction: settle deferred memory cost
func (m *verifC08M) settle() {
	if m.err != nil {
		return
	}
	m.charge(-m.refund)
	m.refund = 0
}

// ---------------------------------------------------------------------------
// reference numbers: 33 little-endian bytes (byte 32 holds carries only)

func verifC08Truth(b []byte) bool {
	var acc byte
	for _, x := range b {
		acc |= x
	}
	return acc != 0
}

func (m *verifC08M) popNum() ([]byte, bool) {
	b, ok := m.pop()
	if !ok {
		return nil, false
	}
	if len(b) > 32 {
		m.fail(ErrBadValue)
		return nil, false
	}
	n := make([]byte, 33)
	copy(n, b)
	if n[31] >= 0x80 {
		m.fail(ErrRange)
		return nil, false
	}
	return n, true
}

// number that must be a non-negative int64
func verifC08Int64(n []byte) (int64, bool) {
	var hi byte
	for i := 8; i < 33; i++ {
		hi |= n[i]
	}
	if hi != 0 || n[7] >= 0x80 {
		return 0, false
	}
	var v uint64
	for i := 7; i >= 0; i-- {
		v = v<<8 | uint64(n[i])
	}
	return int64(v), true
}

func (m *verifC08M) popInt64() (int64, bool) {
	n, ok := m.popNum()
	if !ok {
		return 0, false
	}
	v, ok := verifC08Int64(n)
	if !ok {
		m.fail(ErrBadValue)
		return 0, false
	}
	return v, true
}

// minimal little-endian encoding (zero is the empty string); the length is
// computed without branching: 1 for every position at or below the highest non-zero byte
func verifC08Enc(n []byte) []byte {
	var l int
	var above byte
	for i := 31; i >= 0; i-- {
		above |= n[i]
		l += int((uint16(above) + 255) >> 8)
	}
	r := make([]byte, l)
	copy(r, n[:l])
	return r
}

func verifC08Small(v uint64) []byte {
	n := make([]byte, 33)
	for i := 0; i < 8; i++ {
		n[i] = byte(v >> (8 * uint(i)))
	}
	return n
}

func verifC08Add(a, b []byte) []byte {
	r := make([]byte, 33)
	var c uint16
	for i := 0; i < 33; i++ {
		s := uint16(a[i]) + uint16(b[i]) + c
		r[i] = byte(s)
		c = s >> 8
	}
	return r
}

// a - b and the final borrow (1 iff a < b)
func verifC08Sub(a, b []byte) ([]byte, uint16) {
	r := make([]byte, 33)
	var c uint16
	for i := 0; i < 33; i++ {
		s := uint16(a[i]) - uint16(b[i]) - c
		r[i] = byte(s)
		c = (s >> 8) & 1
	}
	return r, c
}

func verifC08Less(a, b []byte) bool {
	_, c := verifC08Sub(a, b)
	return c == 1
}

func verifC08Same(a, b []byte) bool {
	var d byte
	for i := 0; i < 33; i++ {
		d |= a[i] ^ b[i]
	}
	return d == 0
}

func verifC08IsZero(a []byte) bool {
	var d byte
	for i := 0; i < 33; i++ {
		d |= a[i]
	}
	return d == 0
}

// result of arithmetic must stay below 2^255
func (m *verifC08M) pushNum(n []byte) {
	if n[31] >= 0x80 || n[32] != 0 {
		m.fail(ErrRange)
		return
	}
	m.push(verifC08Enc(n))
}

// ---------------------------------------------------------------------------
// which opcodes are defined (all others are expansion NOPs)

func verifC08Defined(op byte) bool {
	switch {
	case op <= 0x4e, op >= 0x51 && op <= 0x61, op == 0x63, op == 0x64, op == 0x69, op == 0x6a:
		return true
	case op >= 0x6b && op <= 0x89, op >= 0x8b && op <= 0x8e, op >= 0x91 && op <= 0xa5:
		return true
	case op == 0xa8, op >= 0xaa && op <= 0xae, op >= 0xc0 && op <= 0xc4, op == 0xc9, op == 0xca, op == 0xcb, op == 0xcd:
		return true
	}
	return false
}

// ---------------------------------------------------------------------------
// the reference step: program = one instruction at pc 0

func verifC08Ref(m *verifC08M, op byte, prog []byte, ctx *Context, expansionReserved bool) {
	n := uint64(len(prog))
	var data []byte
	ilen := uint64(1)
	switch {
	case op >= 0x01 && op <= 0x4b:
		ilen = 1 + uint64(op)
		if ilen > n {
			m.parse = true
			m.fail(ErrShortProgram)
			return
		}
		data = prog[1:ilen]
	case op == 0x4c:
		if n < 2 {
			m.parse = true
			m.fail(ErrShortProgram)
			return
		}
		ilen = 2 + uint64(prog[1])
		if ilen > n {
			m.parse = true
			m.fail(ErrShortProgram)
			return
		}
		data = prog[2:ilen]
	case op == 0x4d:
		if n < 3 {
			m.parse = true
			m.fail(ErrShortProgram)
			return
		}
		ilen = 3 + (uint64(prog[1]) | uint64(prog[2])<<8)
		if ilen > n {
			m.parse = true
			m.fail(ErrShortProgram)
			return
		}
		data = prog[3:ilen]
	case op == 0x4e:
		if n < 5 {
			m.parse = true
			m.fail(ErrShortProgram)
			return
		}
		ilen = 5 + (uint64(prog[1]) | uint64(prog[2])<<8 | uint64(prog[3])<<16 | uint64(prog[4])<<24)
		if ilen > n {
			m.parse = true
			m.fail(ErrShortProgram)
			return
		}
		data = prog[5:ilen]
	case op == 0x63 || op == 0x64:
		ilen = 5
		if ilen > n {
			m.parse = true
			m.fail(ErrShortProgram)
			return
		}
		data = prog[1:5]
	case op >= 0x51 && op <= 0x60:
		data = []byte{op - 0x50}
	}
	m.pc = uint32(ilen)

	if !verifC08Defined(op) {
		if expansionReserved {
			m.fail(ErrDisallowedOpcode)
			return
		}
		m.charge(1)
		return
	}

	switch {
	// ---- pushes, control
	case op == 0x00:
		m.charge(1)
		m.pushNow([]byte{})
	case op <= 0x4e || (op >= 0x51 && op <= 0x60):
		m.charge(1)
		d := make([]byte, len(data))
		copy(d, data)
		m.pushNow(d)
	case op == 0x61:
		m.charge(1)
	case op == 0x63:
		m.charge(1)
		m.pc = uint32(data[0]) | uint32(data[1])<<8 | uint32(data[2])<<16 | uint32(data[3])<<24
	case op == 0x64:
		m.charge(1)
		if p, ok := m.pop(); ok && verifC08Truth(p) {
			m.pc = uint32(data[0]) | uint32(data[1])<<8 | uint32(data[2])<<16 | uint32(data[3])<<24
		}
	case op == 0x69:
		m.charge(1)
		if p, ok := m.pop(); ok && !verifC08Truth(p) {
			m.fail(ErrVerifyFailed)
		}
	case op == 0x6a:
		m.charge(1)
		m.fail(ErrReturn)

	// ---- stack
	case op == 0x6b: // TOALTSTACK: moves, no memory accounting
		if m.charge(2) {
			if m.depth() < 1 {
				m.fail(ErrDataStackUnderflow)
				return
			}
			m.alt = append(m.alt, m.at(0))
			m.data = m.data[:len(m.data)-1]
		}
	case op == 0x6c: // FROMALTSTACK
		if m.charge(2) {
			if len(m.alt) < 1 {
				m.fail(ErrAltStackUnderflow)
				return
			}
			m.data = append(m.data, m.alt[len(m.alt)-1])
			m.alt = m.alt[:len(m.alt)-1]
		}
	case op == 0x6d: // 2DROP
		m.charge(2)
		m.popNow()
		m.popNow()
	case op == 0x6e, op == 0x6f, op == 0x76: // 2DUP 3DUP DUP
		k := 1
		if op == 0x6e {
			k = 2
		} else if op == 0x6f {
			k = 3
		}
		if m.charge(int64(k)) {
			if m.depth() < k {
				m.fail(ErrDataStackUnderflow)
				return
			}
			for i := 0; i < k; i++ {
				m.pushNow(m.at(k - 1))
			}
		}
	case op == 0x70: // 2OVER
		if m.charge(2) {
			if m.depth() < 4 {
				m.fail(ErrDataStackUnderflow)
				return
			}
			m.pushNow(m.at(3))
			m.pushNow(m.at(3))
		}
	case op == 0x71: // 2ROT: a b c d e f -> c d e f a b
		if m.charge(2) {
			d := m.depth()
			if d < 6 {
				m.fail(ErrDataStackUnderflow)
				return
			}
			s := append([][]byte{}, m.data[:d-6]...)
			s = append(s, m.data[d-4], m.data[d-3], m.data[d-2], m.data[d-1], m.data[d-6], m.data[d-5])
			m.data = s
		}
	case op == 0x72: // 2SWAP: a b c d -> c d a b
		if m.charge(2) {
			d := m.depth()
			if d < 4 {
				m.fail(ErrDataStackUnderflow)
				return
			}
			s := append([][]byte{}, m.data[:d-4]...)
			s = append(s, m.data[d-2], m.data[d-1], m.data[d-4], m.data[d-3])
			m.data = s
		}
	case op == 0x73: // IFDUP
		if m.charge(1) {
			if m.depth() < 1 {
				m.fail(ErrDataStackUnderflow)
				return
			}
			if verifC08Truth(m.at(0)) {
				m.pushNow(m.at(0))
			}
		}
	case op == 0x74: // DEPTH
		m.charge(1)
		m.pushNow(verifC08Enc(verifC08Small(uint64(m.depth()))))
	case op == 0x75: // DROP
		m.charge(1)
		m.popNow()
	case op == 0x77: // NIP: a b -> b
		if m.charge(1) {
			d := m.depth()
			if d < 2 {
				m.fail(ErrDataStackUnderflow)
				return
			}
			m.gas += 8 + int64(len(m.data[d-2]))
			s := append([][]byte{}, m.data[:d-2]...)
			m.data = append(s, m.data[d-1])
		}
	case op == 0x78: // OVER
		if m.charge(1) {
			if m.depth() < 2 {
				m.fail(ErrDataStackUnderflow)
				return
			}
			m.pushNow(m.at(1))
		}
	case op == 0x79, op == 0x7a: // PICK ROLL
		m.charge(2)
		if m.err != nil {
			return
		}
		if m.depth() < 1 {
			m.fail(ErrDataStackUnderflow)
			return
		}
		nb := m.at(0)
		m.popNow()
		if len(nb) > 32 {
			m.fail(ErrBadValue)
			return
		}
		num := make([]byte, 33)
		copy(num, nb)
		if num[31] >= 0x80 {
			m.fail(ErrRange)
			return
		}
		k, ok := verifC08Int64(num)
		// the count k+1 must be an int64 too
		if !ok || k == 1<<63-1 {
			m.fail(ErrBadValue)
			return
		}
		d := m.depth()
		if k >= int64(d) {
			m.fail(ErrDataStackUnderflow)
			return
		}
		it := m.data[d-1-int(k)]
		if op == 0x79 {
			m.pushNow(it)
		} else {
			s := append([][]byte{}, m.data[:d-1-int(k)]...)
			s = append(s, m.data[d-int(k):]...)
			m.data = append(s, it)
		}
	case op == 0x7b: // ROT: a b c -> b c a
		if m.charge(2) {
			d := m.depth()
			if d < 3 {
				m.fail(ErrDataStackUnderflow)
				return
			}
			s := append([][]byte{}, m.data[:d-3]...)
			m.data = append(s, m.data[d-2], m.data[d-1], m.data[d-3])
		}
	case op == 0x7c: // SWAP
		if m.charge(1) {
			d := m.depth()
			if d < 2 {
				m.fail(ErrDataStackUnderflow)
				return
			}
			s := append([][]byte{}, m.data[:d-2]...)
			m.data = append(s, m.data[d-1], m.data[d-2])
		}
	case op == 0x7d: // TUCK: a b -> b a b
		if m.charge(1) {
			d := m.depth()
			if d < 2 {
				m.fail(ErrDataStackUnderflow)
				return
			}
			a, b := m.data[d-2], m.data[d-1]
			if m.charge(8 + int64(len(b))) {
				s := append([][]byte{}, m.data[:d-2]...)
				m.data = append(s, b, a, b)
			}
		}

	// ---- splice
	case op == 0x7e, op == 0x89: // CAT, CATPUSHDATA
		m.charge(4)
		b, _ := m.pop()
		a, ok := m.pop()
		if !ok {
			return
		}
		l := int64(len(a)) + int64(len(b))
		if !m.charge(l) {
			return
		}
		m.refund += l
		var r []byte
		r = append(r, a...)
		if op == 0x89 {
			switch {
			case len(b) == 0:
				r = append(r, 0x00)
			case len(b) <= 75:
				r = append(r, byte(len(b)))
			case len(b) <= 255:
				r = append(r, 0x4c, byte(len(b)))
			default:
				r = append(r, 0x4d, byte(len(b)), byte(len(b)>>8))
			}
		}
		r = append(r, b...)
		m.push(r)
	case op == 0x7f: // SUBSTR: str offset size
		m.charge(4)
		size, ok := m.popInt64()
		if !ok || !m.charge(size) {
			return
		}
		m.refund += size
		off, ok := m.popInt64()
		if !ok {
			return
		}
		str, ok := m.pop()
		if !ok {
			return
		}
		if uint64(off)+uint64(size) > uint64(len(str)) {
			m.fail(ErrBadValue)
			return
		}
		m.push(str[off : off+size])
	case op == 0x80, op == 0x81: // LEFT RIGHT
		m.charge(4)
		size, ok := m.popInt64()
		if !ok || !m.charge(size) {
			return
		}
		m.refund += size
		str, ok := m.pop()
		if !ok {
			return
		}
		if size > int64(len(str)) {
			m.fail(ErrBadValue)
			return
		}
		if op == 0x80 {
			m.push(str[:size])
		} else {
			m.push(str[int64(len(str))-size:])
		}
	case op == 0x82: // SIZE
		if m.charge(1) {
			if m.depth() < 1 {
				m.fail(ErrDataStackUnderflow)
				return
			}
			m.push(verifC08Enc(verifC08Small(uint64(len(m.at(0))))))
		}

	// ---- bitwise
	case op == 0x83: // INVERT
		if m.charge(1) {
			if m.depth() < 1 {
				m.fail(ErrDataStackUnderflow)
				return
			}
			t := m.at(0)
			if m.charge(int64(len(t))) {
				r := make([]byte, len(t))
				for i := range t {
					r[i] = 0xff ^ t[i]
				}
				m.data[len(m.data)-1] = r
			}
		}
	case op >= 0x84 && op <= 0x88: // AND OR XOR EQUAL EQUALVERIFY
		m.charge(1)
		b, _ := m.pop()
		a, ok := m.pop()
		if !ok {
			return
		}
		short, long := a, b
		if len(short) > len(long) {
			short, long = b, a
		}
		switch op {
		case 0x84:
			if m.charge(int64(len(short))) {
				r := make([]byte, len(short))
				for i := range short {
					r[i] = a[i] & b[i]
				}
				m.push(r)
			}
		case 0x85, 0x86:
			if m.charge(int64(len(long))) {
				r := make([]byte, len(long))
				copy(r, long)
				for i := range short {
					if op == 0x85 {
						r[i] = a[i] | b[i]
					} else {
						r[i] = a[i] ^ b[i]
					}
				}
				m.push(r)
			}
		default:
			if m.charge(int64(len(short))) {
				same := len(a) == len(b)
				if same {
					var d byte
					for i := range a {
						d |= a[i] ^ b[i]
					}
					same = d == 0
				}
				if op == 0x87 {
					m.pushBool(same)
				} else if !same {
					m.fail(ErrVerifyFailed)
				}
			}
		}

	// ---- numeric, one operand
	case op == 0x8b, op == 0x8c, op == 0x8d, op == 0x8e, op == 0x91, op == 0x92:
		m.charge(2)
		x, ok := m.popNum()
		if !ok {
			return
		}
		switch op {
		case 0x8b:
			m.pushNum(verifC08Add(x, verifC08Small(1)))
		case 0x8c:
			r, borrow := verifC08Sub(x, verifC08Small(1))
			if borrow != 0 {
				m.fail(ErrRange)
				return
			}
			m.pushNum(r)
		case 0x8d:
			m.pushNum(verifC08Add(x, x))
		case 0x8e:
			r := make([]byte, 33)
			for i := 0; i < 32; i++ {
				r[i] = x[i]>>1 | x[i+1]<<7
			}
			m.pushNum(r)
		case 0x91:
			m.pushBool(verifC08IsZero(x))
		case 0x92:
			m.pushBool(!verifC08IsZero(x))
		}

	// ---- numeric, two operands
	case op == 0x93, op == 0x94, op >= 0x9c && op <= 0xa4:
		m.charge(2)
		y, _ := m.popNum()
		x, ok := m.popNum()
		if !ok {
			return
		}
		lt, eq := verifC08Less(x, y), verifC08Same(x, y)
		switch op {
		case 0x93:
			m.pushNum(verifC08Add(x, y))
		case 0x94:
			if lt {
				m.fail(ErrRange)
				return
			}
			r, _ := verifC08Sub(x, y)
			m.pushNum(r)
		case 0x9c:
			m.pushBool(eq)
		case 0x9d:
			if !eq {
				m.fail(ErrVerifyFailed)
			}
		case 0x9e:
			m.pushBool(!eq)
		case 0x9f:
			m.pushBool(lt)
		case 0xa0:
			m.pushBool(!lt && !eq)
		case 0xa1:
			m.pushBool(lt || eq)
		case 0xa2:
			m.pushBool(!lt)
		case 0xa3:
			if lt {
				m.pushNum(x)
			} else {
				m.pushNum(y)
			}
		case 0xa4:
			if lt {
				m.pushNum(y)
			} else {
				m.pushNum(x)
			}
		}
	case op == 0xa5: // WITHIN: x min max
		m.charge(4)
		max, _ := m.popNum()
		min, _ := m.popNum()
		x, ok := m.popNum()
		if !ok {
			return
		}
		m.pushBool(!verifC08Less(x, min) && verifC08Less(x, max))
	case op == 0x9a, op == 0x9b: // BOOLAND BOOLOR
		m.charge(2)
		b, _ := m.pop()
		a, ok := m.pop()
		if !ok {
			return
		}
		if op == 0x9a {
			m.pushBool(verifC08Truth(a) && verifC08Truth(b))
		} else {
			m.pushBool(verifC08Truth(a) || verifC08Truth(b))
		}
	case op == 0x95: // MUL
		m.charge(8)
		if m.depth() >= 2 {
			m.mulY, m.mulX = m.at(0), m.at(1)
		}
		y, _ := m.popNum()
		x, ok := m.popNum()
		if !ok {
			return
		}
		if len(m.mulX) <= 4 && len(m.mulY) <= 4 {
			// short operands: the product fits a machine word
			var xv, yv uint64
			for i := 3; i >= 0; i-- {
				xv = xv<<8 | uint64(x[i])
				yv = yv<<8 | uint64(y[i])
			}
			m.pushNum(verifC08Small(xv * yv))
		} else {
			// schoolbook product, 66 columns
			col := make([]uint32, 67)
			for i := 0; i < 33; i++ {
				for j := 0; j < 33; j++ {
					col[i+j] += uint32(x[i]) * uint32(y[j])
				}
			}
			r := make([]byte, 33)
			var c uint32
			var over uint32
			for i := 0; i < 67; i++ {
				s := col[i] + c
				if i < 32 {
					r[i] = byte(s)
				} else {
					over |= s & 0xff
				}
				c = s >> 8
			}
			if over != 0 {
				m.fail(ErrRange)
				return
			}
			m.pushNum(r)
		}
	case op == 0x96, op == 0x97: // DIV MOD
		m.charge(8)
		y, _ := m.popNum()
		x, ok := m.popNum()
		if !ok {
			return
		}
		if verifC08IsZero(y) {
			m.fail(ErrDivZero)
			return
		}
		// this reference covers DIV/MOD operands below 2^64 only
		var wide byte
		for i := 8; i < 33; i++ {
			wide |= x[i] | y[i]
		}
		verifAssume(wide == 0)
		var xv, yv uint64
		for i := 7; i >= 0; i-- {
			xv = xv<<8 | uint64(x[i])
			yv = yv<<8 | uint64(y[i])
		}
		if op == 0x96 {
			m.pushNum(verifC08Small(xv / yv))
		} else {
			m.pushNum(verifC08Small(xv % yv))
		}
	case op == 0x98, op == 0x99: // LSHIFT RSHIFT
		m.charge(8)
		y, _ := m.popNum()
		x, ok := m.popNum()
		if !ok {
			return
		}
		var hi byte
		for i := 1; i < 33; i++ {
			hi |= y[i]
		}
		r := make([]byte, 33)
		if hi == 0 {
			copy(r, x[:32])
			// barrel shifter on 32 bytes; bits leaving the 256-bit word are dropped
			for k := uint(0); k < 8; k++ {
				mask := byte(0) - (y[0]>>k)&1
				sh := make([]byte, 33)
				if k < 3 {
					for i := 0; i < 32; i++ {
						if op == 0x98 {
							var lo byte
							if i > 0 {
								lo = r[i-1] >> (8 - (1 << k))
							}
							sh[i] = r[i]<<(1<<k) | lo
						} else {
							sh[i] = r[i]>>(1<<k) | r[i+1]<<(8-(1<<k))
						}
					}
				} else {
					by := 1 << (k - 3)
					for i := 0; i < 32; i++ {
						if op == 0x98 {
							if i-by >= 0 {
								sh[i] = r[i-by]
							}
						} else if i+by < 32 {
							sh[i] = r[i+by]
						}
					}
				}
				for i := 0; i < 32; i++ {
					r[i] = sh[i]&mask | r[i]&^mask
				}
			}
		}
		m.pushNum(r)

	// ---- hashes and signatures
	case op == 0xa8, op == 0xaa, op == 0xab:
		x, ok := m.popNow()
		if !ok {
			return
		}
		cost := int64(len(x))
		if op == 0xab {
			cost += 64
		} else if cost < 64 {
			cost = 64
		}
		if !m.charge(cost) {
			return
		}
		switch op {
		case 0xa8:
			h := sha256.Sum256(x)
			m.pushNow(h[:])
		case 0xaa:
			h := sha3.Sum256(x)
			m.pushNow(h[:])
		default:
			m.pushNow(crypto.Ripemd160(x))
		}
	case op == 0xac: // CHECKSIG: sig msg pubkey
		m.charge(1024)
		pub, _ := m.pop()
		msg, _ := m.pop()
		sig, ok := m.pop()
		if !ok {
			return
		}
		if len(msg) != 32 {
			m.fail(ErrBadValue)
			return
		}
		m.pushBool(len(pub) == 32 && ed25519.Verify(ed25519.PublicKey(pub), msg, sig))
	case op == 0xae: // TXSIGHASH
		if m.charge(256) {
			if ctx.TxSigHash == nil {
				m.fail(ErrContext)
				return
			}
			m.pushNow(ctx.TxSigHash())
		}

	// ---- introspection
	case op == 0xc2:
		if m.charge(1) {
			if ctx.AssetID == nil {
				m.fail(ErrContext)
				return
			}
			m.push(*ctx.AssetID)
		}
	case op == 0xc3, op == 0xc9, op == 0xcd:
		if m.charge(1) {
			p := ctx.Amount
			if op == 0xc9 {
				p = ctx.DestPos
			} else if op == 0xcd {
				p = ctx.BlockHeight
			}
			if p == nil {
				m.fail(ErrContext)
				return
			}
			m.push(verifC08Enc(verifC08Small(*p)))
		}
	case op == 0xc4:
		m.charge(1)
		m.push(ctx.Code)
	case op == 0xca:
		m.charge(1)
		m.push(ctx.EntryID)
	case op == 0xcb:
		if m.charge(1) {
			if ctx.SpentOutputID == nil {
				m.fail(ErrContext)
				return
			}
			m.push(*ctx.SpentOutputID)
		}
	case op == 0xad: // CHECKMULTISIG: sig.. msg pubkey.. nsigs npubkeys
		npub, ok := m.popInt64()
		if !ok {
			return
		}
		if npub > (1<<63-1)/1024 {
			m.fail(ErrBadValue)
			return
		}
		if !m.charge(npub * 1024) {
			return
		}
		nsig, ok := m.popInt64()
		if !ok {
			return
		}
		if nsig > npub || (npub > 0 && nsig == 0) {
			m.fail(ErrBadValue)
			return
		}
		var pubs, sigs [][]byte
		for i := int64(0); i < npub; i++ {
			p, ok := m.pop()
			if !ok {
				return
			}
			pubs = append(pubs, p)
		}
		msg, ok := m.pop()
		if !ok {
			return
		}
		if len(msg) != 32 {
			m.fail(ErrBadValue)
			return
		}
		for i := int64(0); i < nsig; i++ {
			g, ok := m.pop()
			if !ok {
				return
			}
			sigs = append(sigs, g)
		}
		wellFormed := true
		for _, p := range pubs {
			if len(p) != 32 {
				wellFormed = false
			}
		}
		if !wellFormed {
			m.pushBool(false)
		} else {
			// signatures must match keys in order; each key is used at most once
			matched := 0
			for _, p := range pubs {
				if matched < len(sigs) && ed25519.Verify(ed25519.PublicKey(p), msg, sigs[matched]) {
					matched++
				}
			}
			m.pushBool(matched == len(sigs))
		}
	case op == 0xc1: // CHECKOUTPUT: index amount assetid vmversion code
		m.charge(16)
		code, _ := m.pop()
		ver, _ := m.popNum()
		asset, _ := m.pop()
		amount, _ := m.popNum()
		if m.err != nil {
			return
		}
		var hi byte
		for i := 8; i < 33; i++ {
			hi |= amount[i]
		}
		if hi != 0 {
			m.fail(ErrBadValue)
			return
		}
		index, ok := m.popNum()
		if !ok {
			return
		}
		hi = 0
		for i := 8; i < 33; i++ {
			hi |= index[i] | ver[i]
		}
		if hi != 0 {
			// index and version are 64-bit quantities as well
			m.fail(ErrBadValue)
			return
		}
		if ctx.CheckOutput == nil {
			m.fail(ErrContext)
			return
		}
		m.coCalled = true
		m.coCode, m.coAsset = code, asset
		for i := 7; i >= 0; i-- {
			m.coIndex = m.coIndex<<8 | uint64(index[i])
			m.coAmount = m.coAmount<<8 | uint64(amount[i])
			m.coVer = m.coVer<<8 | uint64(ver[i])
		}
		if m.coFail {
			m.fail(ErrBadValue)
			return
		}
		m.pushBool(m.coOK)
	case op == 0xc0: // CHECKPREDICATE: args.. n predicate limit
		m.charge(256)
		m.refund += 256 - 64
		limit, _ := m.popInt64()
		pred, _ := m.pop()
		cnt, ok := m.popInt64()
		if !ok {
			return
		}
		l := int64(m.depth())
		if cnt == 0 {
			cnt = l
		}
		if cnt > l {
			m.fail(ErrDataStackUnderflow)
			return
		}
		if limit == 0 {
			limit = m.gas
		}
		if !m.charge(limit) {
			return
		}
		child := &verifC08M{gas: limit}
		child.data = append(child.data, m.data[l-cnt:]...)
		m.data = m.data[:l-cnt]
		// the harness bounds the predicate to at most one (non-jumping) instruction
		if len(pred) > 0 {
			verifC08Ref(child, pred[0], pred, ctx, false)
		}
		// whatever the child leaves (also when it failed) is refunded
		m.refund += child.gas
		for _, it := range child.data {
			m.refund += 8 + int64(len(it))
		}
		for _, it := range child.alt {
			m.refund += 8 + int64(len(it))
		}
		m.pushBool(child.err == nil && len(child.data) > 0 && verifC08Truth(child.data[len(child.data)-1]))
	default:
		verifAssume(false)
	}
	m.settle()
}

// ---------------------------------------------------------------------------
// harness

// some byte at index >= from is non-zero
func verifC08AnyFrom(b []byte, from int) bool {
	var acc byte
	for i := from; i < len(b); i++ {
		acc |= b[i]
	}
	return acc != 0
}

func verifC08Item(lo, hi int) []byte {
	b := verifBytes("item", hi)
	verifAssume(len(b) >= lo)
	return b
}

func verifC08Context(symbolic bool) *Context {
	one := uint64(1)
	ctx := &Context{VMVersion: 1, TxVersion: &one}
	if !symbolic {
		return ctx
	}
	ctx.Code = verifBytes("ctx.code", 3)
	ctx.EntryID = verifBytes("ctx.entry", 3)
	if verifBool("ctx.present") {
		h := verifU64("ctx.height")
		am := verifU64("ctx.amount")
		dp := verifU64("ctx.destPos")
		asset := verifBytes("ctx.asset", 3)
		spent := verifBytes("ctx.spent", 3)
		ctx.BlockHeight, ctx.Amount, ctx.DestPos = &h, &am, &dp
		ctx.AssetID, ctx.SpentOutputID = &asset, &spent
		sh := verifBytesN("ctx.sighash", 32)
		ctx.TxSigHash = func() []byte { return sh }
	}
	return ctx
}

func verifC08AssertSameStack(a, b [][]byte, alt bool) {
	if alt {
		verifAssert(len(a) == len(b), "alt-stack-matches-reference")
	} else {
		verifAssert(len(a) == len(b), "data-stack-matches-reference")
	}
	for i := range a {
		if alt {
			verifAssert(bytes.Equal(a[i], b[i]), "alt-stack-matches-reference")
		} else {
			verifAssert(bytes.Equal(a[i], b[i]), "data-stack-matches-reference")
		}
	}
}

func verifC08ErrClass(err error, m *verifC08M) bool {
	root := errors.Root(err)
	if m.parse {
		return root == ErrShortProgram || root == checked.ErrOverflow
	}
	return root == m.err
}

func verifC08Cost(st [][]byte) int64 {
	var c int64
	for _, it := range st {
		c += 8 + int64(len(it))
	}
	return c
}

// run the reference, then the real step, and compare; 0 = both succeed, 1 = reference fails
func verifC08Check(op byte, vm *virtualMachine, m *verifC08M, ctx *Context, nData int) int {
	status := 2
	var got verifC08M
	if op == 0xc1 && verifBool("ctx.hasCheckOutput") {
		m.coOK, m.coFail = verifBool("checkoutput.ok"), verifBool("checkoutput.err")
		ctx.CheckOutput = func(index uint64, amount uint64, assetID []byte, vmVersion uint64, code []byte, state [][]byte, expansion bool) (bool, error) {
			got.coCalled = true
			got.coIndex, got.coAmount, got.coVer, got.coAsset, got.coCode = index, amount, vmVersion, assetID, code
			verifAssert(expansion == vm.expansionReserved, "checkoutput-arguments-match-reference")
			verifC08AssertSameStack(state, m.alt, true)
			if m.coFail {
				return false, ErrBadValue
			}
			return m.coOK, nil
		}
	}
	if (op == 0x79 || op == 0x7a) && nData > 0 {
		// PICK / ROLL read only the low 64 bits of the depth operand
		top := vm.dataStack[nData-1]
		verifKnown("KF-C08-PICKROLL-TRUNC", verifC08AnyFrom(top, 8) || (op == 0x79 && len(top) >= 8 && top[7] >= 0x80))
	}
	if op == 0xc1 && nData >= 5 {
		// CHECKOUTPUT reads only the low 64 bits of index and vmversion
		hiIndex, hiVersion := verifC08AnyFrom(vm.dataStack[nData-5], 8), verifC08AnyFrom(vm.dataStack[nData-2], 8)
		verifKnown("KF-C08-CHECKOUTPUT-TRUNC", hiIndex || hiVersion)
	}

	verifC08Ref(m, op, vm.program, ctx, vm.expansionReserved)
	err := vm.step()

	verifObserveBool("err", err != nil)
	verifObserveBool("referr", m.err != nil)
	verifAssert(verifC08ErrClass(err, m), "error-class-matches-reference")
	if err == nil && m.err == nil {
		verifObserveI64("runLimit", vm.runLimit)
		verifC08AssertSameStack(vm.dataStack, m.data, false)
		verifC08AssertSameStack(vm.altStack, m.alt, true)
		verifAssert(vm.runLimit == m.gas, "gas-charged-matches-reference")
		verifAssert(vm.pc == m.pc, "next-pc-matches-reference")
		status = 0
	}
	if got.coCalled || m.coCalled {
		verifAssert(got.coCalled && m.coCalled, "checkoutput-arguments-match-reference")
		verifAssert(got.coIndex == m.coIndex && got.coAmount == m.coAmount && got.coVer == m.coVer, "checkoutput-arguments-match-reference")
		verifAssert(bytes.Equal(got.coAsset, m.coAsset) && bytes.Equal(got.coCode, m.coCode), "checkoutput-arguments-match-reference")
	}
	if m.err != nil {
		status = 1
	}
	return status
}

// one step of opcode op in [opLo, opHi] on a stack of nData items (+ optional alt item)
func VerifC08Op(opLo int, opHi int, nData int, loLen int, hiLen int) {
	op := byte(opLo + verifChoice("op", opHi-opLo+1))
	ctx := verifC08Context(op >= 0xae)
	vm := &virtualMachine{context: ctx}
	vm.expansionReserved = verifBool("expansionReserved")
	m := &verifC08M{}
	for i := 0; i < nData; i++ {
		it := verifC08Item(loLen, hiLen)
		vm.dataStack = append(vm.dataStack, it)
		m.data = append(m.data, it)
	}
	if (op == 0x6b || op == 0x6c || op == 0xc1) && verifBool("hasAlt") {
		it := verifBytes("alt", hiLen)
		vm.altStack = append(vm.altStack, it)
		m.alt = append(m.alt, it)
	}
	r := verifI64("runLimit")
	if op == 0xad {
		verifAssume(r >= 0 && r <= 1<<13) // at most 8 public keys
	} else {
		verifAssume(r >= 0 && r <= 1<<20)
	}
	vm.runLimit, m.gas = r, r
	vm.program = []byte{op}
	if op <= 0x4e || op == 0x63 || op == 0x64 {
		vm.program = append(vm.program, verifBytes("progdata", 6)...)
	}

	st := verifC08Check(op, vm, m, ctx, nData)
	if st == 0 {
		verifReach("VerifC08Op:ok")
	}
	if st == 1 {
		verifReach("VerifC08Op:error")
	}
	verifReach("VerifC08Op:end")
}

// CHECKPREDICATE with a predicate of at most one instruction
func VerifC08Predicate(nData int, hiLen int) {
	menu := [][]byte{{}, {0x51}, {0x00}, {0x6a}, {0x75}, {0x76}, {0x87}, {0x93}, {0x69}, {0x74}, {0x7c}, {0x6b}}
	pred := menu[verifChoice("predicate", len(menu))]
	ctx := verifC08Context(false)
	vm := &virtualMachine{context: ctx}
	vm.expansionReserved = verifBool("expansionReserved")
	m := &verifC08M{}
	for i := 0; i < nData; i++ {
		it := verifC08Item(0, hiLen)
		vm.dataStack = append(vm.dataStack, it)
		m.data = append(m.data, it)
	}
	cnt, limit := verifBytes("count", 2), verifBytes("limit", 3)
	vm.dataStack = append(vm.dataStack, cnt, pred, limit)
	m.data = append(m.data, cnt, pred, limit)
	r := verifI64("runLimit")
	verifAssume(r >= 0 && r <= 1<<20)
	vm.runLimit, m.gas = r, r
	vm.program = []byte{0xc0}
	st := verifC08Check(0xc0, vm, m, ctx, nData+3)
	if st == 0 {
		verifObserveBytes("result", vm.dataStack[len(vm.dataStack)-1])
		if len(vm.dataStack[len(vm.dataStack)-1]) == 1 {
			verifReach("VerifC08Predicate:true")
		} else {
			verifReach("VerifC08Predicate:false")
		}
	}
	if st == 1 {
		verifReach("VerifC08Predicate:error")
	}
	verifReach("VerifC08Predicate:end")
}

// CHECKMULTISIG on a stack shaped  extra.. sig*ns msg pubkey*np nsigs npubkeys
// (the two counts are arbitrary numbers, so they need not agree with the shape)
func VerifC08Multisig(extra int, ns int, np int) {
	ctx := verifC08Context(false)
	vm := &virtualMachine{context: ctx}
	m := &verifC08M{}
	var st [][]byte
	for i := 0; i < extra; i++ {
		st = append(st, verifBytes("extra", 2))
	}
	for i := 0; i < ns; i++ {
		st = append(st, verifBytesN("sig", 2))
	}
	if verifBool("msg.short") {
		st = append(st, verifBytesN("msg", 31))
	} else {
		st = append(st, verifBytesN("msg", 32))
	}
	for i := 0; i < np; i++ {
		if verifBool("pubkey.short") {
			st = append(st, verifBytesN("pubkey", 31))
		} else {
			st = append(st, verifBytesN("pubkey", 32))
		}
	}
	st = append(st, verifBytes("nsigs", 2), verifBytes("npubkeys", 2))
	vm.dataStack = append(vm.dataStack, st...)
	m.data = append(m.data, st...)
	r := verifI64("runLimit")
	verifAssume(r >= 0 && r <= 1<<13)
	vm.runLimit, m.gas = r, r
	vm.program = []byte{0xad}
	status := verifC08Check(0xad, vm, m, ctx, len(st))
	if status == 0 {
		if len(vm.dataStack[len(vm.dataStack)-1]) == 1 {
			verifReach("VerifC08Multisig:true")
		} else {
			verifReach("VerifC08Multisig:false")
		}
	}
	if status == 1 {
		verifReach("VerifC08Multisig:error")
	}
	verifReach("VerifC08Multisig:end")
}

// CHECKOUTPUT on  index amount assetid vmversion code ; the three numbers have lo..hi bytes
func VerifC08CheckOutput(lo int, hi int) {
	ctx := verifC08Context(false)
	vm := &virtualMachine{context: ctx}
	vm.expansionReserved = verifBool("expansionReserved")
	m := &verifC08M{}
	st := [][]byte{verifC08Item(lo, hi), verifC08Item(lo, hi), verifBytes("asset", 2), verifC08Item(lo, hi), verifBytes("code", 2)}
	vm.dataStack = append(vm.dataStack, st...)
	m.data = append(m.data, st...)
	if verifBool("hasAlt") {
		it := verifBytes("alt", 2)
		vm.altStack = append(vm.altStack, it)
		m.alt = append(m.alt, it)
	}
	r := verifI64("runLimit")
	verifAssume(r >= 0 && r <= 1<<20)
	vm.runLimit, m.gas = r, r
	vm.program = []byte{0xc1}
	status := verifC08Check(0xc1, vm, m, ctx, len(st))
	if status == 0 {
		verifReach("VerifC08CheckOutput:ok")
	}
	if status == 1 {
		verifReach("VerifC08CheckOutput:error")
	}
	verifReach("VerifC08CheckOutput:end")
}

// LSHIFT with both operands present: value of 0..1 bytes, shift amount of 0..2 bytes
// inside a window (0: below 16, 1: 240 and above, which includes everything >= 256)
func VerifC08Lshift(window int) {
	ctx := verifC08Context(false)
	vm := &virtualMachine{context: ctx}
	m := &verifC08M{}
	x, y := verifBytes("x", 1), verifBytes("y", 2)
	var amount uint16
	for i := range y {
		amount |= uint16(y[i]) << (8 * uint(i))
	}
	if window == 0 {
		verifAssume(amount < 16)
	} else {
		verifAssume(amount >= 240)
	}
	vm.dataStack = append(vm.dataStack, x, y)
	m.data = append(m.data, x, y)
	r := verifI64("runLimit")
	verifAssume(r >= 0 && r <= 1<<20)
	vm.runLimit, m.gas = r, r
	vm.program = []byte{0x98}
	status := verifC08Check(0x98, vm, m, ctx, 2)
	if status == 0 {
		verifObserveBytes("result", vm.dataStack[0])
		verifReach("VerifC08Lshift:ok")
	}
	if status == 1 {
		verifReach("VerifC08Lshift:error")
	}
	verifReach("VerifC08Lshift:end")
}
