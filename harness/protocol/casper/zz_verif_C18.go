package casper

// C18: step lemma for the two slashing conditions. An arbitrary checkpoint
// tree carrying arbitrary earlier votes of one validator, one arbitrary new
// vote of that validator: whenever the real verifyVerification accepts it, the
// new vote forms no slashable pair with any earlier vote (same target height
// with a different target; span strictly inside / strictly surrounding).
// The node's own votes (myVerification) are only returned after this same
// verifyVerification accepted them, so the lemma covers produced votes too;
// myVerification itself is not executed (see outside).

//verif:property C18
//verif:bound tree of exactly N checkpoints (N = 3, 4 quick; 5 thorough), every tree shape (parent of node i arbitrary among nodes 0..i-1), root epoch arbitrary below 2^32, heights = epoch*100 (mainnet BlocksOfEpoch); every non-root checkpoint carries 2 sup links (1 in the 5-node thorough obligations) whose source height is an arbitrary epoch boundary below the checkpoint and whose signature slot for the validator is empty or 1..2 arbitrary bytes; validator order = obligation argument (0, 9); the new vote targets any non-root node of the tree from an arbitrary source epoch (source hash one of two fixed hashes) and carries the genuine signature of the validator key
//verif:assume the store describes the same checkpoints as the in-memory tree: GetCheckpointsByHeight(h) returns exactly the tree nodes of height h (same objects), GetCheckpoint finds tree nodes by hash (harness mock of state.Store)
//verif:assume every checkpoint that carries a vote of the validator is still in the in-memory tree (votes on branches pruned by finalisation are invisible to verifySpanHeight; not covered)
//verif:assume stored sup links have SourceHeight = 100*k below the height of the checkpoint holding them (established by verification.valid for every link added through addVerificationToCheckpoint)
//verif:assume signature validity is an uninterpreted predicate of (key, message, signature) for the solver (XPub.Verify), so both outcomes of the signature check are explored; the native replay and the validation runs use real ed25519 on the genuine signature
//verif:outside myVerification itself (reads the node key file through config.CommonConfig.PrivateKey and signs with real ed25519; it returns a vote only if the verifyVerification decided here accepts it); the schedules of block / message arrival that drive these calls (ApplyBlock, AuthVerification, the event dispatcher, rollback channel); persistence; two votes for the SAME target from different sources (not part of the property statement, accepted by the code)
//verif:obligation fn=VerifC18Accept args=3,0,2;4,0,2;4,9,2 validate=12 mode=int
//verif:obligation fn=VerifC18Accept args=5,0,1;5,9,1 tier=thorough secs=3000 mode=int

import (
	"encoding/hex"
	"errors"

	"github.com/bytom/bytom/database/storage"
	"github.com/bytom/bytom/protocol/bc"
	"github.com/bytom/bytom/protocol/bc/types"
	"github.com/bytom/bytom/protocol/state"
)

var errVerifC18NotFound = errors.New("verif: not found")

// key pair generated with chainkd.NewXPrv from a fixed seed; verifC18Sigs[t-1][j]
// is its genuine signature (made natively with verification.Sign) on the link
// from source hash choice j to tree node t.
const verifC18PubKey = "707cac687bbcaaed342a81448b7209fbaaab2b0a1f93a5d95cb6f879cc9c36525dc8e9c9f58773d24fc938fae890fdda3f86782653d8c3bc36f51cf08c00fb7b"

var verifC18SourceHashes = [2]bc.Hash{{V0: 1, V1: 0xc18}, {V0: 0x77, V2: 0x51}}

var verifC18Sigs = [4][2]string{
	{"f4dfbf3f244d11f43bdcd4518c49ee32945229f7bde2dad8c5345816f8bd93f31c22999b179cbf990fe0d563a8d00fc13e4e695c448b632128de3a9f27c32c03", "e42ef5971614e21e0e84291a06ab134c995fe4d8eec35996a38ac51a6a40cae4404cb7ff638359e857d1f2728be31f3a6f99308e0f3eb0efcbb2f836223f8c01"},
	{"3cf57c713b2ce984c322d4d3285567b68b84cb39c200e24723fe8df241cfda8875b29106f1b980a9caa5e90f2c56deb8cade0d3da0d94c038548003b41061202", "c64012e0c84bf030ef61ea59e899ca74254a7a3ebfd0d26b62ee32f4ef9a9be6e12ce9844ace3528157e977e52d2c4b16cbb9d91c0b9969f575a68e254918408"},
	{"1c3c66a025ca2475944ee8e2aa3d988fcf2164633f166e9f629d51687e75ce828c92098ecd7788ba31141934770cffd23833303f548a71ec5b4663c11b58d70c", "cbc5ebd1748f13e61254113c236c8ed78c6261f72f4af387f213805045430d3d16ea4116d5e04e65291bde5f5370235d30e71bbdb80c8bbb94357a1d759b790c"},
	{"ddf31e6abdacf5123d508ade17b6d8da595ab3b7c23673cbdfef1748511d4bd7106d75d2f704527788a7294a42b215f1ea8783f03e3afd004af8f49beddb3907", "d103774933704c9ceb2ebc2c2b2a41f3911306a50d1f817644718b48bbb1a2fab161f570edef5dcb838b298ab5e8b9b10a7e3d70168389ba98d4ff99e5decc08"},
}

type verifC18Store struct {
	cps []*state.Checkpoint
}

func (s *verifC18Store) GetCheckpointsByHeight(h uint64) ([]*state.Checkpoint, error) {
	var out []*state.Checkpoint
	for _, c := range s.cps {
		if c.Height == h {
			out = append(out, c)
		}
	}
	return out, nil
}
func (s *verifC18Store) GetCheckpoint(hash *bc.Hash) (*state.Checkpoint, error) {
	for _, c := range s.cps {
		if c.Hash == *hash {
			return c, nil
		}
	}
	return nil, errVerifC18NotFound
}
func (s *verifC18Store) SaveCheckpoints([]*state.Checkpoint) error { return nil }
func (s *verifC18Store) CheckpointsFromNode(uint64, *bc.Hash) ([]*state.Checkpoint, error) {
	return nil, nil
}
func (s *verifC18Store) BlockExist(*bc.Hash) bool                { return false }
func (s *verifC18Store) GetBlock(*bc.Hash) (*types.Block, error) { return nil, errVerifC18NotFound }
func (s *verifC18Store) GetBlockHeader(*bc.Hash) (*types.BlockHeader, error) {
	return nil, errVerifC18NotFound
}
func (s *verifC18Store) GetStoreStatus() *state.BlockStoreState                   { return nil }
func (s *verifC18Store) GetTransactionsUtxo(*state.UtxoViewpoint, []*bc.Tx) error { return nil }
func (s *verifC18Store) GetUtxo(*bc.Hash) (*storage.UtxoEntry, error)             { return nil, nil }
func (s *verifC18Store) GetMainChainHash(uint64) (*bc.Hash, error)                { return nil, nil }
func (s *verifC18Store) GetContract([32]byte) ([]byte, error)                     { return nil, nil }
func (s *verifC18Store) SaveBlock(*types.Block) error                             { return nil }
func (s *verifC18Store) SaveBlockHeader(*types.BlockHeader) error                 { return nil }
func (s *verifC18Store) SaveChainStatus(*types.BlockHeader, []*types.BlockHeader, *state.UtxoViewpoint, *state.ContractViewpoint, uint64, *bc.Hash) error {
	return nil
}

// verifC18World builds a Casper over an arbitrary tree of n checkpoints with
// arbitrary earlier votes of validator slot `order`.
func verifC18World(n int, order int, links int) (*Casper, []*treeNode, uint64) {
	e0 := verifU64("rootEpoch")
	verifAssume(e0 < 1<<32)
	nodes := make([]*treeNode, n)
	depth := make([]uint64, n)
	store := &verifC18Store{}
	for i := 0; i < n; i++ {
		cp := &state.Checkpoint{Hash: bc.Hash{V0: uint64(i + 1), V1: 0xc18}, Status: state.Unjustified}
		nodes[i] = &treeNode{Checkpoint: cp}
		if i == 0 {
			cp.Height = e0 * 100
			cp.Status = state.Finalized
		} else {
			p := 0
			if i > 1 {
				p = verifChoice("parent", i)
			}
			depth[i] = depth[p] + 1
			cp.Height = (e0 + depth[i]) * 100
			cp.Parent = nodes[p].Checkpoint
			cp.ParentHash = nodes[p].Hash
			nodes[p].children = append(nodes[p].children, nodes[i])
			for j := 0; j < links; j++ {
				k := verifU64("linkSourceEpoch")
				verifAssume(k < e0+depth[i])
				sl := &types.SupLink{SourceHeight: k * 100, SourceHash: bc.Hash{V0: uint64(i + 1), V1: uint64(j + 1), V2: 0x50}}
				sl.Signatures[order] = verifBytes("oldSig", 2)
				cp.SupLinks = append(cp.SupLinks, sl)
			}
		}
		store.cps = append(store.cps, cp)
	}
	return &Casper{store: store, tree: nodes[0]}, nodes, e0
}

func VerifC18Accept(n int, order int, links int) {
	c, nodes, _ := verifC18World(n, order, links)
	t := 1
	if n > 2 {
		t = 1 + verifChoice("target", n-1)
	}
	ks := verifU64("voteSourceEpoch")
	verifAssume(ks < 1<<33)
	sh := verifChoice("voteSourceHash", 2)
	sig, herr := hex.DecodeString(verifC18Sigs[t-1][sh])
	if herr != nil {
		panic(herr)
	}
	v := &verification{
		SourceHash:   verifC18SourceHashes[sh],
		TargetHash:   nodes[t].Hash,
		SourceHeight: ks * 100,
		TargetHeight: nodes[t].Height,
		Signature:    sig,
		PubKey:       verifC18PubKey,
		order:        order,
	}
	err := c.verifyVerification(v)
	verifObserveBool("accepted", err == nil)
	if err != nil {
		verifReach("VerifC18Accept:rejected")
		if err == errSameHeightInVerification {
			verifReach("VerifC18Accept:rejected-same-height")
		}
		if err == errSpanHeightInVerification {
			verifReach("VerifC18Accept:rejected-span")
		}
		return
	}
	verifReach("VerifC18Accept:accepted")
	for i := 1; i < n; i++ {
		cp := nodes[i].Checkpoint
		for _, sl := range cp.SupLinks {
			if len(sl.Signatures[order]) == 0 {
				continue
			}
			verifReach("VerifC18Accept:accepted-with-earlier-vote")
			if cp.Height == v.TargetHeight {
				verifAssert(cp.Hash == v.TargetHash, "no-two-targets-at-one-height")
			}
			if cp.Height > v.TargetHeight {
				verifAssert(sl.SourceHeight >= v.SourceHeight, "new-vote-not-strictly-inside-earlier-vote")
			}
			if cp.Height < v.TargetHeight {
				verifAssert(sl.SourceHeight <= v.SourceHeight, "new-vote-not-strictly-surrounding-earlier-vote")
			}
		}
	}
}
