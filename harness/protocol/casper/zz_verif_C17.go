package casper

// C17 (ii) + (iii).
// (ii)  VerifC17SupLink: a block-carried sup link with arbitrary (forged)
//       signature bytes in all ten slots goes through the real
//       validVerificationsFromSupLink: only slots of effective validators of
//       the TARGET'S PARENT epoch (also for a skip link whose source epoch has
//       another validator set) whose signature verifies over the documented
//       digest sha3(source hash || target hash) become verifications, and
//       every genuine such signature does.
// (iii) VerifC17Step: one verification message from an arbitrary sender for an
//       arbitrary source/target applied to an arbitrary checkpoint state with
//       the real convertVerification + authVerification (the body of
//       AuthVerification): the target becomes justified only with a
//       supermajority of distinct validator slots, from a justified source; a
//       source becomes finalized only through its direct child.

//verif:property C17
//verif:bound SupLink: n = 1..3 effective validators (quick), 4..6 (thorough); each validator slot (< n) of the carried link independently empty, the validator's genuine signature, or 64 arbitrary (forged) bytes; every unused slot (>= n) empty or 1 arbitrary byte; link source height arbitrary
//verif:bound Federation: the Step state with sources A and R only, in which the target's parent epoch has NO tally reaching MinValidatorVoteNum (tallies 0, 1 and MinValidatorVoteNum-1), so its effective validators are the federation; federation size f = 1, 4 (quick), 2, 3 (thorough); all occupancy patterns of the f federation slots, senders = the f federation members, key 9, a non-member
//verif:assume Federation: consensus.ActiveNetParams.FederationXpubs is set by the harness to a test federation of f keys with known private keys (keys 0..f-1; the mainnet federation keys have no known private keys for genuine signatures); mainnet parameters otherwise
//verif:bound Step: n = 1..3 validators (quick), 4..6 (thorough); tree R -> {A -> T, B}; source any of R (grandparent), A (direct parent), B (fork sibling), X (stored checkpoint below the root, not in the tree); statuses of A, B, T, X arbitrary (T also Growing), R justified or finalized; existing link source->T with arbitrary occupancy of the n validator slots; sender = any of the n validators (genuine signature or 64 arbitrary bytes) or a non-validator key (64 arbitrary bytes)
//verif:bound validator sets differ per epoch: the target's parent epoch has keys 0..n-1 (Order i = key i); every other checkpoint (source R of the skip link R->T, fork B, X below the root) has key 9 (Order 0) and keys n-1..1 in reverse ranking; Step senders: the n validators of the target's parent epoch, a key that is a validator nowhere, and key 9 (validator of the other epochs only); SupLink: link from the direct parent A or skip link from R
//verif:assume the embedded "genuine" signatures are the keys' real signatures over sha3-256(source hash || target hash) built in the harness independently of verification.encodeMessage (verifAssume on the harness' own digest + XPub.Verify; checked with real ed25519 in native and validation runs)
//verif:assume validators of an epoch = keys with distinct vote tallies above MinValidatorVoteNum (mainnet); signature slots of orders >= n are empty in checkpoint links (VerifC17SupLink decides that only effective-validator slots are ever written)
//verif:assume signature validity (XPub.Verify) is an uninterpreted predicate of (key, message, signature) for the solver; sha3 is an uninterpreted collision-free function; the native replay runs the real functions
//verif:assume the store finds the checkpoints of the state by hash and by height (harness mock of state.Store), block headers exist for saveVerificationToHeader, the message queue accepts every post
//verif:outside persistence across restart (database/store_checkpoint.go loadCheckpointsFromIter merges header sup links through LevelDB + JSON); AuthVerification's verification cache for unknown targets and tryRollback (channels); ApplyBlock's transaction processing
//verif:obligation fn=VerifC17SupLink args=1;2;3 validate=12 mode=int
//verif:obligation fn=VerifC17SupLink args=4;5;6 tier=thorough mode=int secs=3000
//verif:obligation fn=VerifC17Step args=1;2;3 validate=12 mode=int
//verif:obligation fn=VerifC17Step args=4;5;6 tier=thorough mode=int secs=3000
//verif:obligation fn=VerifC17Federation args=1;4 validate=12 mode=int
//verif:obligation fn=VerifC17Federation args=2;3 tier=thorough mode=int secs=3000

import (
	"encoding/binary"
	"encoding/hex"
	"errors"

	"golang.org/x/crypto/sha3"

	"github.com/bytom/bytom/consensus"
	"github.com/bytom/bytom/crypto/ed25519/chainkd"
	"github.com/bytom/bytom/database/storage"
	"github.com/bytom/bytom/protocol/bc"
	"github.com/bytom/bytom/protocol/bc/types"
	"github.com/bytom/bytom/protocol/state"
)

var errVerifC17NotFound = errors.New("verif: not found")

// eleven key pairs generated with chainkd.NewXPrv from fixed seeds (the last
// one is never a validator); verifC17Sigs[k][j] is the genuine signature of
// key k (made natively with verification.Sign) on the link from source choice
// j (A, R, B, X) to T.
var verifC17Keys = []string{
	"707cac687bbcaaed342a81448b7209fbaaab2b0a1f93a5d95cb6f879cc9c36525dc8e9c9f58773d24fc938fae890fdda3f86782653d8c3bc36f51cf08c00fb7b",
	"7796c762b93ab913051dea261cd1c78ee4d0eb8990a54712bdfa40482c24e30acade1a03ab12bf82cd28d30e12415d6516bde9b15e28236118a6140da41d51d1",
	"f47ae6e83b67d14b5cbe1515af8bfc9a97b09e232e87716710fa5375bdda2c59aa87d87a25367305da7b7cd8551749c84e44f309c2899377e873e3492825e166",
	"94b96fc2c3205d87f381d8982ad40e1ca4728caf031cc3c8d69900fad93f1ed83a0d93986c582892acdef1e5bd75c99151b04735efbf60082dcc64a3d47399c6",
	"e42d163c066b891fbfdb491d3151d0c3259663c1327d3165aaff2c96fe2a40fdaa0120e5715ce6c819ca7bfb0d7920b7306068de0ed0f2f18c706c88090f96ce",
	"d544ea6d65f365be4e98a7834756bc63ef3a6053a292a787c0352db6f1a4e4adc15328a60b90cfd195737be44bd56c59309200014e5202eb1a2f077ebdb4bd45",
	"e202c72abab415d9ee77899eca052989cb56e4b92e1bb3a590a39fa8a2e3f3d498a56a32428c568d7eaeeb42ea28d6917e3c0361c2cdb6a5cd9a294057830403",
	"29810afa11fb223f71e603d1a4bc594107b0d484c91412f7740a010ece3374663b6d8b7c81bff43c141112662f40693786a6450ed25948c26638120ba1cc81c3",
	"deb05905169f9db698c6098dc70e3883019184d885c2fe91a0a97e24b32ac74724b9ee733fed315f436b97e5b1dfcae9dcfc5479d53f7c00b95432c2e34b8b4b",
	"8430c2e594cba71987ff440960c06026e9609bcdd000a1310cfaf6ca742612419e33a8edf29d17e4a5aa367875faaab47d4906b4c2959e1c61df41135ae10e5c",
	"072d70e6121b1be0695ed57738a38dbcc64606ddb846c3b215376ed03bcdd93623cfa67dde125ddfcf5ca5be7925bba9b812f132119941756c4112a6981d5915",
}

var verifC17Sigs = [10][4]string{
	{"3a6ea77c49ce0708c882430ec73c4b3963ee2740027a3c8bb28b2a0ac9b3dd26072e6caaf8e64a4bf468062433759ab79cc6961b38793d10a51a177581be2b00", "88ea3e0e287d50c13e8fc1954f2d65829f8a9a48c439b5157561ae2b680f0282b1244ece241826afb3e9c8468d3cc727c638af063ade38c3c2a5fb23c77f1006", "bf67cd964e929551b491bef855aa0943817a8f66b02137ce8850950c6f117b5315cf9d0ed0c90c334faea7a13462fea94b6ce779b505b6c80dde7f8dfd427b08", "90ad826da30922c9ec9759625a74d3bd3d5cffb2bee937af57199881a14e9e27ba6cd948208788026c247e90d76b5ddd3aaf327ac8d485632103c939e946ac04"},
	{"e1b7785d4cbcac22c4b6ca00b1226fdac1fb8ce619c75bc391bd5219af87856512164a7c2b625f4fe6f383d82844903a22b9f880e157708327425d2c7f768207", "eb9ecf983dfced01406655ad5b00d57b93da3b85d9b7c64257080c26ac49224c2353660d93524bb46962632e471988fabe735e7caf730122a5f17be078b2d700", "54296c5e58d14a7145b2ab0c99ef88e6257d4db8f7143a175fc3ca1fc95cf95f28fdf7da1bbffdbaf1d4421c64dbe5e1fcff552a3ba2173c5b80e01e1fa9950a", "b8231f67b8f77b88099039422f36220219bf7a41bc87d00b9fa0b9de956e702bfe467a1a2866141efcf12db4457898ae321acba539a7c91aef7aba260367ea0b"},
	{"2c5a8897bd95db34be9642fdc06918220d67b3ee3b0455df04091ea39716ef5930f69b5fb149acff2e6fe82566c499f64178178ee49db75a47e5c08dc5829401", "fe42ec396e57c5d8222034aa04df9c01fb1707b34c64018e5fc3df2c73144ccd75a1aacf12d8ffbe6f53e7f4718a68d1e305dfb809fa25ff313367210c737503", "d8f93c94d94655ecd945a690f3636924ed213ce49b50b1c96227d689271f7d69090c4976e20fef2ee67a54b4cad02c5ebbcb4f2a59ef2eab9b48410401ec3b0e", "000e14ee5a503f09c9bc5e83adef8f81450b1f035a85adc4e75a5186a7c2d119681d9eeb5cb1f7c2756de177571f6b32110b8c25300e8c5a849106c41276c600"},
	{"042784af384f326dded3a852124dfa292c335f5f612e7d8f386974e0d511a3deaac03acd1995ea9dcfdf2562ddf4e0adf2eb4237dd776c057b172adbee83b305", "3c5a219c00fc5912e985212c1c5adfce775a9aeb42c2cf2fe4e26f08528f3ee4d1c4af602dd3255b3c3e99f68398c88f0ff8a985276c526b5d6307cbf43fb40f", "0fa3f72e49fd0ac743f2b127ae3556a5e72f689c858b3d3933d0ea836494f7d08ea8ba22d70d9835e3198a05c3aff81a0ca4676e089408f2b461a758851a7f0a", "489b3d444fd18b393e20e677edca7be56bab905c2f2c87b465ce42d6036fc038ab8504a7fdbb8afc209259748490b0ffe0ea48730ec7aa2a1414636f34f3d80d"},
	{"b4f7a9fbda985e9c7c711e231f5bcda2587e26cf8c55836420c835eaecb5e92e06baeb2c49d62d5908fbee5d039225a05fa10493cb2c94b935cb3033dfd7dc0c", "3010b98a97fa7182a8abe32fe4e3a269b46364eec8bae2f34d0db0b65de3d962a01b4c76f4036dc6bfc12358f0acd3d0e15090aa873c0d6a01974a0b1f7fd908", "ab5b7be438e3264ea16b76ced55b79265c3a7afb2eb348c92e5bfdcd591b6c6765c2142b7a144a44470462e627a8a3a106128812728f74810bf609a2453a710e", "88130d9cd04a7ff7c7180e2cea2759919735b7b52fc120c4456546fcd17bf50571586cd16b7c071369372243b8604100a6ed38c683c6f7e92551dc5f1bef3108"},
	{"f50c2350d1ff2cf8c0566187b30d091bdbc0f4ad15f6d757e16ef6b57b6ea7eb993357aeb1b094b27ac41f13f60c21ffb7e668aa286b8fcd629e64d30ac69f0e", "93bd168a8403c8fc62894a0c669db64ea87c589eec05ed3cd9663f15a31cd2d3195f492cd6db9dd17ce7bd175d0bf8b0ee9078df29195d7fc23b8e67fe365c09", "d604e35b9a75472a7bc70ff15815b894ae037b38e6b7c0c395b192138b3deaa10e1b846cc8c5b56a4ac9e7e13154f4e8a08b59c5119cee1abde09e590cedb905", "cbfd69ce4ae0714a91e6972245fcaf965448814446b0f2534bd401277eb8a5a7cb3631383b8b5e8c811a80ccfbc8486309e1720395d9e04d8f96f40ffc3c8c0f"},
	{"6bb9eba5d928a1699c4b4dbbe549988701cd3865f29351ea3bf18f13939179090c92493ff2226d4846392af4adbc4fe4e044a44400f56f7d2f2ccb2984a6a007", "63f8eba50457df82fd70cfde1e1a2a2e3b34b0ed09b4db066799c8c387ecbd8d501ec163493817ef420270c09c1d89a5dba253ca425f45a72ec3755d9e534a0f", "5c34e604fa58f191308c32c461aa75e6f1cf743f3cac899752e0152c907234b51c12590f559a58bb5c2b9d8f0ab2378aa92fc76ae72e52c85cd2876a27bb960b", "ce284e84efd9395df8e49f96184d0a23afe9f892f6c48b9033978986f2d31e0d88e7b2e69acbd2a34c8849df109a7f690699a27ba326db62dcd2924518c2a605"},
	{"6cf1e389d82082606c1bb1da287ea0d327b45f3ff4ebe5c3a92693feb5510e3c2cce5fc586c24dfe2cc56ae7660231e095bb97debb153696b86da7251b379809", "b86c83a3f23805919f5e55613ce9ab7026569efcb1b4f9d074ea0602a02bdeb4ef4e7c7966a466beac31032f05b8540dbfdf85538ec84b983719d38b70e95f0f", "56af2cec298c65767065f0a92c2764910a04db2661461cbcc73d8085e16dd09a1eafe9e9fcb3a42bfa30de79b966bb6de4f1b295bcc63e77a3ae8823a40b0402", "18da31e516766b3ae4298652f8fc1f2501e0519681c269a7442c49b0e649cc2fd9dc41ac6373b2e19cb81a3bc0ef46e032cf5007989331868dedb26b6947d305"},
	{"db8039448cc6be9347ac03a581afcf65af5557f9b9b162f395cc2b96f716984f8b608a8a4629d9d2000dbaf3689c5ed2c264ec856463ece7e65376b5f229700f", "da806829714a476116bcac7397143bad23dfdddd83e3382a8f9e7458bb260642cd88bb399a402242abede530f3a692eab94a0e183f90538c6a451f2b0c360d0d", "451c8bdde02813b19f5f51a98726f6d0d582bdd914dd1c9f6081d4cfdd19237e8426325b47b34efd2a665bdd5400282869afd53f9f55f5068474d24e4c97ee0f", "a90ed5892edb638fce20130d1d7d6a72fff9d3836488322cee6276ec37c5ec1721470d409169ea96c773fdb3ec20770749e6cb8fad2a60f80503f1167f3f1c09"},
	{"d2868c1e422371419cea3780e66b1f25360b19d3fd0e5e1a0ffbb635b37d33c09dfafe6e12093b9c275faf4c69b3e57b520bb506d79163a82b406e78876d9d0b", "9aa57f34a14ebb0fffa1c14208d3eadb022ec00fbd697ade993f314a22254b00a9f48e74b7a97ae7c1fb24293a06725dd6991be1b208608d14c310a98303110a", "2a4bc962e2bb730c2da2eb07926854be6968c73f286cca92f442df1bbbf8e37991f47b1e271babaf4f1ff111746d15ffe6356cb4d7f9b5e2596e03194022a70d", "0050540c0dc29e04fd66c904091fe967d36b90cf18abf47afc34d283dc1fe5d2a14f4c689b9c0ba2a81adc81c35dadf675a7568ceed4d7ba9a9affc8c6c6cd0f"},
}

func verifC17Genuine(k, j int) []byte {
	b, err := hex.DecodeString(verifC17Sigs[k][j])
	if err != nil {
		panic(err)
	}
	return b
}

type verifC17Store struct {
	cps []*state.Checkpoint
}

func (s *verifC17Store) GetCheckpointsByHeight(h uint64) ([]*state.Checkpoint, error) {
	var out []*state.Checkpoint
	for _, c := range s.cps {
		if c.Height == h {
			out = append(out, c)
		}
	}
	return out, nil
}
func (s *verifC17Store) GetCheckpoint(hash *bc.Hash) (*state.Checkpoint, error) {
	for _, c := range s.cps {
		if c.Hash == *hash {
			return c, nil
		}
	}
	return nil, errVerifC17NotFound
}
func (s *verifC17Store) SaveCheckpoints([]*state.Checkpoint) error { return nil }
func (s *verifC17Store) CheckpointsFromNode(uint64, *bc.Hash) ([]*state.Checkpoint, error) {
	return nil, nil
}
func (s *verifC17Store) BlockExist(*bc.Hash) bool                { return false }
func (s *verifC17Store) GetBlock(*bc.Hash) (*types.Block, error) { return nil, errVerifC17NotFound }
func (s *verifC17Store) GetBlockHeader(*bc.Hash) (*types.BlockHeader, error) {
	return &types.BlockHeader{}, nil
}
func (s *verifC17Store) GetStoreStatus() *state.BlockStoreState                   { return nil }
func (s *verifC17Store) GetTransactionsUtxo(*state.UtxoViewpoint, []*bc.Tx) error { return nil }
func (s *verifC17Store) GetUtxo(*bc.Hash) (*storage.UtxoEntry, error)             { return nil, nil }
func (s *verifC17Store) GetMainChainHash(uint64) (*bc.Hash, error)                { return nil, nil }
func (s *verifC17Store) GetContract([32]byte) ([]byte, error)                     { return nil, nil }
func (s *verifC17Store) SaveBlock(*types.Block) error                             { return nil }
func (s *verifC17Store) SaveBlockHeader(*types.BlockHeader) error                 { return nil }
func (s *verifC17Store) SaveChainStatus(*types.BlockHeader, []*types.BlockHeader, *state.UtxoViewpoint, *state.ContractViewpoint, uint64, *bc.Hash) error {
	return nil
}

type verifC17Queue struct{ posted int }

func (q *verifC17Queue) Post(interface{}) error { q.posted++; return nil }

// verifC17Votes: the validator set of the TARGET'S PARENT epoch: keys 0..n-1,
// Order i = key i.
func verifC17Votes(n int) map[string]uint64 {
	votes := map[string]uint64{}
	for i := 0; i < n; i++ {
		votes[verifC17Keys[i]] = consensus.ActiveNetParams.MinValidatorVoteNum + uint64(100-i)
	}
	// a key below the threshold is never a validator
	votes[verifC17Keys[10]] = consensus.ActiveNetParams.MinValidatorVoteNum - 1
	return votes
}

// verifC17OldVotes: the validator set of every OTHER epoch (the source of a
// skip link, the fork sibling, the checkpoint below the root). It differs from
// the target's parent epoch: key 9 is a validator only here (Order 0), key 0 is
// not a validator here, and the shared keys 1..n-1 have the reverse ranking
// (key n-1 has Order 1, ..., key 1 has Order n-1).
func verifC17OldVotes(n int) map[string]uint64 {
	votes := map[string]uint64{}
	votes[verifC17Keys[9]] = consensus.ActiveNetParams.MinValidatorVoteNum + 200
	for i := 1; i < n; i++ {
		votes[verifC17Keys[i]] = consensus.ActiveNetParams.MinValidatorVoteNum + uint64(100+i)
	}
	return votes
}

// verifC17Valid decides, independently of verification.encodeMessage /
// verifySignature, whether sig is key's signature over the documented digest
// sha3-256(source hash || target hash) (each hash = V0..V3 big endian).
func verifC17Valid(key string, source, target bc.Hash, sig []byte) bool {
	var buf [64]byte
	for i, w := range []uint64{source.V0, source.V1, source.V2, source.V3, target.V0, target.V1, target.V2, target.V3} {
		binary.BigEndian.PutUint64(buf[8*i:], w)
	}
	digest := sha3.Sum256(buf[:])
	raw, err := hex.DecodeString(key)
	if err != nil || len(raw) != 64 {
		return false
	}
	var xpub chainkd.XPub
	copy(xpub[:], raw)
	return xpub.Verify(digest[:], sig)
}

func verifC17Status(name string, lo, hi state.CheckpointStatus) state.CheckpointStatus {
	s := verifU8(name)
	verifAssume(s >= uint8(lo) && s <= uint8(hi))
	return state.CheckpointStatus(s)
}

// ---------------------------------------------------------------------------
// (ii) block-carried sup link

func VerifC17SupLink(n int) {
	e0 := verifU64("rootEpoch")
	verifAssume(e0 < 1<<32)
	R := &state.Checkpoint{Height: e0 * 100, Hash: bc.Hash{V0: 1, V1: 0xc17}, Status: state.Justified, Votes: verifC17OldVotes(n)}
	A := &state.Checkpoint{Height: (e0 + 1) * 100, Hash: bc.Hash{V0: 2, V1: 0xc17}, ParentHash: R.Hash, Parent: R, Status: state.Justified, Votes: verifC17Votes(n)}
	tgt := &state.Checkpoint{Height: (e0 + 2) * 100, Hash: bc.Hash{V0: 4, V1: 0xc17}, ParentHash: A.Hash, Parent: A, Status: state.Unjustified, Votes: verifC17OldVotes(n)}
	nA := &treeNode{Checkpoint: A, children: []*treeNode{{Checkpoint: tgt}}}
	root := &treeNode{Checkpoint: R, children: []*treeNode{nA}}
	c := &Casper{store: &verifC17Store{cps: []*state.Checkpoint{R, A, tgt}}, tree: root, msgQueue: &verifC17Queue{}}

	// the link comes from the direct parent A (sigs column 0) or is a skip link
	// from R (column 1), whose epoch has a different validator set
	srcIdx := verifChoice("source", 2)
	src := A
	if srcIdx == 1 {
		src = R
	}
	link := &types.SupLink{SourceHeight: verifU64("linkSourceHeight"), SourceHash: src.Hash}
	var genuine [consensus.MaxNumOfValidators]bool
	for i := 0; i < consensus.MaxNumOfValidators; i++ {
		if i >= n {
			link.Signatures[i] = verifBytes("junk", 1) // unused slot: empty or one arbitrary byte
			continue
		}
		switch verifChoice("slotKind", 3) {
		case 1:
			// the real signature of the validator with Order i in the target's parent epoch
			link.Signatures[i] = verifC17Genuine(i, srcIdx)
			genuine[i] = true
			// it is genuine over the documented digest (real ed25519 in native / concrete runs)
			verifAssume(verifC17Valid(verifC17Keys[i], src.Hash, tgt.Hash, link.Signatures[i]))
		case 2:
			link.Signatures[i] = verifBytesN("forged", 64)
		}
	}

	vs, err := c.validVerificationsFromSupLink(tgt, link)
	verifObserveBool("err", err != nil)
	verifObserveI64("count", int64(len(vs)))
	if link.SourceHeight != src.Height {
		verifAssert(err != nil && len(vs) == 0, "wrong-source-height-counts-nothing")
		verifReach("VerifC17SupLink:wrong-source-height")
		return
	}
	verifAssert(err == nil, "well-formed-link-is-processed")
	var seen [consensus.MaxNumOfValidators]bool
	for _, v := range vs {
		verifAssert(v.order >= 0 && v.order < n, "only-effective-validator-slots-count")
		if v.order < 0 || v.order >= consensus.MaxNumOfValidators {
			return
		}
		verifAssert(!seen[v.order], "each-validator-counts-once")
		seen[v.order] = true
		verifAssert(len(link.Signatures[v.order]) != 0, "empty-slot-never-counts")
		verifAssert(v.order < len(verifC17Keys) && v.PubKey == verifC17Keys[v.order], "slot-belongs-to-the-validator-key")
		verifAssert(v.SourceHash == src.Hash && v.TargetHash == tgt.Hash && v.SourceHeight == src.Height && v.TargetHeight == tgt.Height, "verification-is-for-this-link")
		// the very signature carried in the slot is that key's signature over
		// sha3(source hash || target hash), decided independently of encodeMessage
		verifAssert(verifC17Valid(verifC17Keys[v.order], src.Hash, tgt.Hash, link.Signatures[v.order]), "invalid-signature-never-counts")
		verifReach("VerifC17SupLink:some-slot-counts")
	}
	// every genuine signature of an effective validator of the target's parent epoch counts
	for i := 0; i < n; i++ {
		if genuine[i] {
			verifAssert(seen[i], "genuine-signature-of-effective-validator-counts")
			verifReach("VerifC17SupLink:genuine-counts")
		}
	}
	if len(vs) == 0 {
		verifReach("VerifC17SupLink:nothing-counts")
	}
}

// ---------------------------------------------------------------------------
// (iii) one verification message against an arbitrary state

func VerifC17Step(n int) { verifC17Step(n, false, 4) }

// VerifC17Federation: the same step in the bootstrap state where nobody in the
// target's parent epoch reaches MinValidatorVoteNum, so that
// EffectiveValidators() falls back to the federation: a test federation of f
// keys (keys 0..f-1, Order = index) is installed in consensus.ActiveNetParams.
// The target may only be justified by more than 2/3 of the FEDERATION members
// (3 of 4; one or two of four do not suffice). Sources: A (direct parent) and R.
func VerifC17Federation(f int) { verifC17Step(f, true, 2) }

func verifC17Step(n int, federation bool, nSrc int) {
	if federation {
		var fed []chainkd.XPub
		for i := 0; i < n; i++ {
			raw, err := hex.DecodeString(verifC17Keys[i])
			if err != nil {
				panic(err)
			}
			var x chainkd.XPub
			copy(x[:], raw)
			fed = append(fed, x)
		}
		consensus.ActiveNetParams.FederationXpubs = fed
	}
	e0 := verifU64("rootEpoch")
	verifAssume(e0 >= 1 && e0 < 1<<32)
	mk := func(i uint64, epoch uint64, parent *state.Checkpoint) *state.Checkpoint {
		// only A (the target's parent) carries the validator set that counts for T
		cp := &state.Checkpoint{Height: epoch * 100, Hash: bc.Hash{V0: i, V1: 0xc17}, Parent: parent, Votes: verifC17OldVotes(n)}
		if i == 2 {
			cp.Votes = verifC17Votes(n)
			if federation {
				// nobody qualifies in the target's parent epoch: every tally is below MinValidatorVoteNum
				cp.Votes = map[string]uint64{
					verifC17Keys[10]: consensus.ActiveNetParams.MinValidatorVoteNum - 1,
					verifC17Keys[9]:  1,
					verifC17Keys[0]:  0,
				}
			}
		}
		if parent != nil {
			cp.ParentHash = parent.Hash
		}
		return cp
	}
	R := mk(1, e0, nil)
	A := mk(2, e0+1, R)
	B := mk(3, e0+1, R)
	T := mk(4, e0+2, A)
	X := mk(5, e0-1, nil) // stored, below the root, not in the tree
	X.ParentHash = bc.Hash{V0: 99}
	R.ParentHash = X.Hash
	R.Status = verifC17Status("statusR", state.Justified, state.Finalized)
	A.Status = verifC17Status("statusA", state.Unjustified, state.Justified)
	B.Status = verifC17Status("statusB", state.Unjustified, state.Justified)
	T.Status = verifC17Status("statusT", state.Growing, state.Justified)
	X.Status = verifC17Status("statusX", state.Unjustified, state.Finalized)
	nT := &treeNode{Checkpoint: T}
	nA := &treeNode{Checkpoint: A, children: []*treeNode{nT}}
	nB := &treeNode{Checkpoint: B}
	nR := &treeNode{Checkpoint: R, children: []*treeNode{nA, nB}}
	all := []*state.Checkpoint{R, A, B, T, X}
	q := &verifC17Queue{}
	c := &Casper{store: &verifC17Store{cps: all}, tree: nR, msgQueue: q}

	srcs := []*state.Checkpoint{A, R, B, X}
	srcIdx := verifChoice("source", nSrc)
	S := srcs[srcIdx]

	// earlier valid votes of the link S -> T (slots of effective validators only)
	old := &types.SupLink{SourceHeight: S.Height, SourceHash: S.Hash}
	for i := 0; i < n; i++ {
		old.Signatures[i] = verifBytes("oldSig", 1)
	}
	T.SupLinks = []*types.SupLink{old}

	// sender < n: validator of the target's parent epoch (Order = sender);
	// n: a key that is a validator nowhere; n+1: key 9, a validator of the other
	// epochs (source of the skip link, fork, below root) but NOT of the target's parent epoch
	sender := verifChoice("sender", n+2)
	key := verifC17Keys[10]
	keyIdx := 10
	if sender < n {
		keyIdx = sender
	} else if sender == n+1 {
		keyIdx = 9
	}
	key = verifC17Keys[keyIdx]
	var sig []byte
	genuine := false
	if keyIdx < 10 && verifChoice("sigKind", 2) == 0 {
		sig = verifC17Genuine(keyIdx, srcIdx) // the sender's real signature on S -> T
		genuine = true
		// it is genuine over the documented digest (real ed25519 in native / concrete runs)
		verifAssume(verifC17Valid(key, S.Hash, T.Hash, sig))
	} else {
		sig = verifBytesN("forged", 64)
	}
	msg := &ValidCasperSignMsg{SourceHash: S.Hash, TargetHash: T.Hash, Signature: sig, PubKey: key}

	var before [5]state.CheckpointStatus
	for i, cp := range all {
		before[i] = cp.Status
	}
	var occupied [consensus.MaxNumOfValidators]bool
	for i := range occupied {
		occupied[i] = len(old.Signatures[i]) != 0
	}

	// the body of AuthVerification for a target that is in the tree
	err := verifC17Auth(c, nT, msg)
	verifObserveBool("err", err != nil)
	verifObserveU64("statusT", uint64(T.Status))
	verifObserveU64("statusS", uint64(S.Status))

	verifAssert(len(T.SupLinks) == 1 && T.SupLinks[0] == old, "one-link-per-source")
	count := 0
	for i := 0; i < consensus.MaxNumOfValidators; i++ {
		now := len(old.Signatures[i]) != 0
		if now {
			count++
		}
		if now != occupied[i] {
			// only a validator of the TARGET'S PARENT epoch fills a slot, and only its own
			verifAssert(err == nil && sender < n && i == sender, "only-the-senders-own-slot-is-filled")
			// ... with its signature over sha3(source hash || target hash), decided independently of encodeMessage
			verifAssert(verifC17Valid(key, S.Hash, T.Hash, old.Signatures[i]), "invalid-signature-never-counts")
			verifReach("VerifC17Step:vote-recorded")
		}
	}
	if sender == n {
		verifAssert(err != nil, "non-validator-is-rejected")
		verifReach("VerifC17Step:non-validator")
	}
	if sender == n+1 {
		verifAssert(err == errPubKeyIsNotValidator, "validator-of-another-epoch-is-rejected")
		verifReach("VerifC17Step:other-epoch-validator")
	}
	if sender < n {
		// a validator of the target's parent epoch is admitted whatever the source's epoch
		// says; the only possible refusal is a signature that does not verify
		verifAssert(err == nil || err == errVerifySignature, "validator-of-target-parent-epoch-is-admitted")
		if genuine {
			verifAssert(err == nil, "genuine-vote-is-accepted")
			verifAssert(len(old.Signatures[sender]) != 0, "genuine-vote-is-recorded")
			verifReach("VerifC17Step:genuine-accepted")
		}
	}

	for i, cp := range all {
		if cp.Status == before[i] {
			continue
		}
		if cp == T {
			verifAssert(T.Status == state.Justified && before[i] == state.Unjustified, "only-unjustified-becomes-justified")
			verifAssert(3*count > 2*n, "justified-needs-supermajority")
			if federation {
				verifReach("VerifC17Federation:target-justified")
			}
			verifKnown("KF-C17-UNJUSTIFIED-SOURCE", before[verifC17Index(all, S)] == state.Unjustified)
			sb := before[verifC17Index(all, S)]
			verifAssert(sb == state.Justified || sb == state.Finalized, "justified-needs-justified-source")
			verifReach("VerifC17Step:target-justified")
		} else {
			verifAssert(cp == S && cp.Status == state.Finalized, "only-the-source-can-be-finalized")
			verifAssert(T.ParentHash == cp.Hash && T.Parent == cp, "finalized-only-through-direct-child")
			verifAssert(T.Status == state.Justified && before[3] == state.Unjustified, "finalized-only-when-child-just-justified")
			verifReach("VerifC17Step:source-finalized")
		}
	}
	if err != nil {
		verifReach("VerifC17Step:rejected")
	}
}

func verifC17Index(all []*state.Checkpoint, x *state.Checkpoint) int {
	for i, cp := range all {
		if cp == x {
			return i
		}
	}
	return 0
}

func verifC17Auth(c *Casper, targetNode *treeNode, msg *ValidCasperSignMsg) error {
	source, err := c.store.GetCheckpoint(&msg.SourceHash)
	if err != nil {
		return err
	}
	v, err := convertVerification(source, targetNode.Checkpoint, msg)
	if err != nil {
		return err
	}
	if targetNode.ContainsVerification(v.order, &v.SourceHash) {
		return nil
	}
	return c.authVerification(v, targetNode.Checkpoint)
}
