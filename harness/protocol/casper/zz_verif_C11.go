package casper

// C11 (fork choice): treeNode.bestNode / Casper.bestChain over every
// checkpoint tree shape with arbitrary heights, statuses and hashes, against
// the rule of the property: highest justified checkpoint, then greatest
// height, then largest hash.

//verif:property C11
//verif:bound fork choice: every rooted checkpoint tree with 1..4 nodes (quick) / 5 nodes (thorough), every child order, arbitrary heights increasing from parent to child, arbitrary status per node, hashes arbitrary in their first two bytes and last byte (zero between; equal hashes included); the lemma VerifC11HashOrder covers the text order of two arbitrary 256-bit hashes
//verif:assume a child checkpoint is higher than its parent (a checkpoint starts at its parent's height and Increase adds at least one block before the tree is consulted)
//verif:assume only the root may be Finalized (setFinalized makes the finalized node the root); the root counts as justified (bestChain passes the root height as the initial justified height)
//verif:assume Hash.String is proto.CompactTextString, which for a message implementing encoding.TextMarshaler returns MarshalText (golang/protobuf 1.4.3 text_encode.go); the real MarshalText runs; validated against the native String in validation and replay
//verif:outside how statuses and heights evolve (Casper.ApplyBlock / AuthVerification: C16, C17), makeTree, persistence of checkpoints
//verif:obligation fn=VerifC11BestNode args=1;2;3;4 loops=5000 validate=12
//verif:obligation fn=VerifC11BestNode args=5 loops=5000 tier=thorough secs=3000 paths=2000000
//verif:obligation fn=VerifC11HashOrder args=1;2;4 loops=5000 validate=12 timeout=300000

import (
	"github.com/bytom/bytom/protocol/bc"
	"github.com/bytom/bytom/protocol/state"
)

// verifC11HashLE: a <= b as 256-bit big-endian numbers
func verifC11HashLE(a, b bc.Hash) bool {
	if a.V0 != b.V0 {
		return a.V0 < b.V0
	}
	if a.V1 != b.V1 {
		return a.V1 < b.V1
	}
	if a.V2 != b.V2 {
		return a.V2 < b.V2
	}
	return a.V3 <= b.V3
}

func VerifC11BestNode(n int) {
	nodes := make([]*treeNode, n)
	parent := make([]int, n)
	for i := 0; i < n; i++ {
		st := verifU8("status")
		cp := &state.Checkpoint{
			Height: verifU64("height"),
			Hash:   bc.Hash{V0: uint64(verifU16("hashTop")) << 48, V3: uint64(verifU8("hashLow"))},
			Status: state.CheckpointStatus(st),
		}
		nodes[i] = &treeNode{Checkpoint: cp}
		if i == 0 {
			verifAssume(st <= uint8(state.Finalized))
			continue
		}
		verifAssume(st <= uint8(state.Justified))
		p := verifChoice("parent", i)
		parent[i] = p
		verifAssume(cp.Height > nodes[p].Height)
		cp.Parent = nodes[p].Checkpoint
		cp.ParentHash = nodes[p].Hash
		nodes[p].children = append(nodes[p].children, nodes[i])
	}
	root := nodes[0]
	c := &Casper{tree: root}

	bestHash := c.bestChain()
	best, bestJustified := root.bestNode(root.Height)

	// reference: height of the highest justified checkpoint on the path root..i
	justified := make([]uint64, n)
	justified[0] = root.Height
	for i := 1; i < n; i++ {
		justified[i] = justified[parent[i]]
		if nodes[i].Status == state.Justified {
			justified[i] = nodes[i].Height
		}
	}
	bi := -1
	for i := range nodes {
		if nodes[i] == best {
			bi = i
		}
	}
	verifAssert(bi >= 0, "best-is-a-tree-node")
	if bi < 0 {
		return
	}
	verifObserveI64("best", int64(bi))
	verifObserveU64("justified", bestJustified)
	verifAssert(bestHash == best.Hash, "bestchain-is-hash-of-best-node")
	verifAssert(bestJustified == justified[bi], "reported-justified-height-is-that-of-best")
	for i := range nodes {
		if i == bi {
			continue
		}
		if justified[i] != justified[bi] {
			verifAssert(justified[i] < justified[bi], "no-node-with-higher-justified-checkpoint")
		} else if nodes[i].Height != best.Height {
			verifAssert(nodes[i].Height < best.Height, "no-higher-node-among-equally-justified")
		} else {
			// text order, as bestNode compares; VerifC11HashOrder proves it is the numeric order
			verifAssert(nodes[i].Hash.String() <= best.Hash.String(), "no-larger-hash-among-equal-height")
		}
	}
	if bi == 0 {
		verifReach("VerifC11BestNode:root-is-best")
	} else if n > 1 {
		verifReach("VerifC11BestNode:descendant-is-best")
	}
}

// lemma: the text order bestNode uses is the numeric order of the hash
func VerifC11HashOrder(limbs int) {
	var a, b bc.Hash
	a.V0, b.V0 = verifU64("a0"), verifU64("b0")
	if limbs > 1 {
		a.V1, b.V1 = verifU64("a1"), verifU64("b1")
	}
	if limbs > 2 {
		a.V2, b.V2 = verifU64("a2"), verifU64("b2")
		a.V3, b.V3 = verifU64("a3"), verifU64("b3")
	}
	textGreater := a.String() > b.String()
	verifObserveBool("textGreater", textGreater)
	verifAssert(textGreater == !verifC11HashLE(a, b), "text-order-is-numeric-order")
	verifReach("VerifC11HashOrder:end")
}
