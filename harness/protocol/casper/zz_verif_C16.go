package casper

// C16 (kernel only): one justification / finalisation step on an arbitrary
// checkpoint tree. The real addVerificationToCheckpoint (-> setJustified ->
// setFinalized) is run with one more vote on an arbitrary link of an arbitrary
// tree; afterwards the last finalized checkpoint (the tree root) has only moved
// to a descendant of itself, exactly one chain of finalized checkpoints exists
// in the tree, and (VerifC16Best) on every such tree the tip chosen by the real bestChain is
// a node of the tree, i.e. the best chain contains the last finalized checkpoint.

//verif:property C16
//verif:bound Best: tree of exactly N checkpoints (1..4 quick, 5 thorough), every shape, statuses as below, root epoch arbitrary
//verif:bound Step: tree of exactly N checkpoints (N = 3 with 1 or 3 validators, 4 with 1 validator quick; 4 with 3, 5 with 1 thorough), every shape (parent of node i arbitrary among 0..i-1), root epoch arbitrary below 2^32, root justified or finalized, every other node unjustified or justified; n validators (argument: 1 or 3); the vote: any validator slot, target any non-root node, source any tree node or a stored checkpoint X outside the tree; the link source->target already carries an arbitrary subset of the n validator slots
//verif:assume tree invariant of the real engine: only the root of the in-memory tree can be Finalized (setFinalized re-roots the tree), hashes of distinct checkpoints are distinct, ParentHash/Parent/children describe the same tree, checkpoint heights are epoch boundaries by depth
//verif:assume the store finds every checkpoint of the state by hash (harness mock of state.Store)
//verif:outside accountable safety as a protocol theorem (two conflicting finalized checkpoints need 1/3 slashable validators: a statement over interleavings with Byzantine validators, not a step of this code); tryRollback / Chain.tryReorganize (channels, goroutines, the block store), so "no reorganisation removes a finalized block" is only decided at the level of bestChain's choice; growing checkpoints; ApplyBlock
//verif:obligation fn=VerifC16Step args=3,1;3,3;4,1 validate=12
//verif:obligation fn=VerifC16Step args=4,3;5,1 tier=thorough secs=3000
//verif:obligation fn=VerifC16Best args=1;2;3;4 validate=12
//verif:obligation fn=VerifC16Best args=5 tier=thorough secs=3000

import (
	"errors"

	"github.com/bytom/bytom/consensus"
	"github.com/bytom/bytom/database/storage"
	"github.com/bytom/bytom/protocol/bc"
	"github.com/bytom/bytom/protocol/bc/types"
	"github.com/bytom/bytom/protocol/state"
)

var errVerifC16NotFound = errors.New("verif: not found")

var verifC16Keys = []string{
	"707cac687bbcaaed342a81448b7209fbaaab2b0a1f93a5d95cb6f879cc9c36525dc8e9c9f58773d24fc938fae890fdda3f0d0a3d1f1b4d0f5f3c1a1e6b0c2d4e",
	"7796c762b93ab913051dea261cd1c78ee4d0eb8990a54712bdfa40482c24e30acade1a03ab12bf82cd28d30e12415d65161f2e3d4c5b6a79880716253443526f",
	"f47ae6e83b67d14b5cbe1515af8bfc9a97b09e232e87716710fa5375bdda2c59aa87d87a25367305da7b7cd8551749c84e5d6c7b8a99a8b7c6d5e4f3021120ff",
	"94b96fc2c3205d87f381d8982ad40e1ca4728caf031cc3c8d69900fad93f1ed83a0d93986c582892acdef1e5bd75c991510f1e2d3c4b5a69788796a5b4c3d2e1",
}

type verifC16Store struct {
	cps []*state.Checkpoint
}

func (s *verifC16Store) GetCheckpointsByHeight(h uint64) ([]*state.Checkpoint, error) {
	var out []*state.Checkpoint
	for _, c := range s.cps {
		if c.Height == h {
			out = append(out, c)
		}
	}
	return out, nil
}
func (s *verifC16Store) GetCheckpoint(hash *bc.Hash) (*state.Checkpoint, error) {
	for _, c := range s.cps {
		if c.Hash == *hash {
			return c, nil
		}
	}
	return nil, errVerifC16NotFound
}
func (s *verifC16Store) SaveCheckpoints([]*state.Checkpoint) error { return nil }
func (s *verifC16Store) CheckpointsFromNode(uint64, *bc.Hash) ([]*state.Checkpoint, error) {
	return nil, nil
}
func (s *verifC16Store) BlockExist(*bc.Hash) bool                { return false }
func (s *verifC16Store) GetBlock(*bc.Hash) (*types.Block, error) { return nil, errVerifC16NotFound }
func (s *verifC16Store) GetBlockHeader(*bc.Hash) (*types.BlockHeader, error) {
	return &types.BlockHeader{}, nil
}
func (s *verifC16Store) GetStoreStatus() *state.BlockStoreState                   { return nil }
func (s *verifC16Store) GetTransactionsUtxo(*state.UtxoViewpoint, []*bc.Tx) error { return nil }
func (s *verifC16Store) GetUtxo(*bc.Hash) (*storage.UtxoEntry, error)             { return nil, nil }
func (s *verifC16Store) GetMainChainHash(uint64) (*bc.Hash, error)                { return nil, nil }
func (s *verifC16Store) GetContract([32]byte) ([]byte, error)                     { return nil, nil }
func (s *verifC16Store) SaveBlock(*types.Block) error                             { return nil }
func (s *verifC16Store) SaveBlockHeader(*types.BlockHeader) error                 { return nil }
func (s *verifC16Store) SaveChainStatus(*types.BlockHeader, []*types.BlockHeader, *state.UtxoViewpoint, *state.ContractViewpoint, uint64, *bc.Hash) error {
	return nil
}

func verifC16Votes(n int) map[string]uint64 {
	votes := map[string]uint64{}
	for i := 0; i < n; i++ {
		votes[verifC16Keys[i]] = consensus.ActiveNetParams.MinValidatorVoteNum + uint64(100-i)
	}
	return votes
}

// verifC16InTree reports whether cp is a node of the tree below root (walks
// the children lists of the harness' own node table, not the code under test).
func verifC16InTree(root *treeNode, cp *state.Checkpoint) bool {
	if root.Checkpoint == cp {
		return true
	}
	for _, ch := range root.children {
		if verifC16InTree(ch, cp) {
			return true
		}
	}
	return false
}

func VerifC16Step(nNodes int, nVal int) {
	e0 := verifU64("rootEpoch")
	verifAssume(e0 >= 1 && e0 < 1<<32)
	nodes := make([]*treeNode, nNodes)
	depth := make([]uint64, nNodes)
	parentIdx := make([]int, nNodes)
	var all []*state.Checkpoint
	for i := 0; i < nNodes; i++ {
		cp := &state.Checkpoint{Hash: bc.Hash{V0: uint64(i + 1), V1: 0xc16}, Votes: verifC16Votes(nVal)}
		nodes[i] = &treeNode{Checkpoint: cp}
		st := verifU8("status")
		if i == 0 {
			verifAssume(st == uint8(state.Justified) || st == uint8(state.Finalized))
			parentIdx[i] = -1
		} else {
			verifAssume(st == uint8(state.Unjustified) || st == uint8(state.Justified))
			p := 0
			if i > 1 {
				p = verifChoice("parent", i)
			}
			parentIdx[i] = p
			depth[i] = depth[p] + 1
			cp.Parent = nodes[p].Checkpoint
			cp.ParentHash = nodes[p].Hash
			nodes[p].children = append(nodes[p].children, nodes[i])
		}
		cp.Status = state.CheckpointStatus(st)
		cp.Height = (e0 + depth[i]) * 100
		all = append(all, cp)
	}
	// a stored checkpoint that is not in the tree (below the root / on a pruned fork)
	X := &state.Checkpoint{Hash: bc.Hash{V0: 99, V1: 0xc16}, Height: (e0 - 1) * 100, Votes: verifC16Votes(nVal)}
	X.Status = state.CheckpointStatus(verifU8("statusX"))
	verifAssume(X.Status >= state.Unjustified && X.Status <= state.Finalized)
	nodes[0].ParentHash = X.Hash
	store := &verifC16Store{cps: append(append([]*state.Checkpoint{}, all...), X)}
	c := &Casper{store: store, tree: nodes[0]}

	t := 1
	if nNodes > 2 {
		t = 1 + verifChoice("target", nNodes-1)
	}
	T := nodes[t].Checkpoint
	si := verifChoice("source", nNodes+1)
	S := X
	if si < nNodes {
		S = nodes[si].Checkpoint
	}
	link := &types.SupLink{SourceHeight: S.Height, SourceHash: S.Hash}
	for i := 0; i < nVal; i++ {
		link.Signatures[i] = verifBytes("oldSig", 1)
	}
	T.SupLinks = []*types.SupLink{link}
	order := 0
	if nVal > 1 {
		order = verifChoice("order", nVal)
	}
	v := &verification{SourceHash: S.Hash, TargetHash: T.Hash, SourceHeight: S.Height, TargetHeight: T.Height,
		Signature: verifBytesN("sig", 2), PubKey: verifC16Keys[order], order: order}

	oldRoot := nodes[0]
	var before []state.CheckpointStatus
	for _, cp := range all {
		before = append(before, cp.Status)
	}
	beforeX := X.Status

	_, err := c.addVerificationToCheckpoint(T, v)
	verifAssert(err == nil, "step-succeeds")

	// locate the new root among the nodes of the old tree
	newIdx := -1
	for i := range nodes {
		if c.tree == nodes[i] {
			newIdx = i
		}
	}
	verifObserveI64("newRoot", int64(newIdx))
	verifAssert(newIdx >= 0, "last-finalized-moves-only-to-a-descendant")
	if newIdx < 0 {
		return
	}
	if c.tree != oldRoot {
		verifReach("VerifC16Step:root-moved")
		verifAssert(c.tree.Status == state.Finalized, "new-root-is-finalized")
		verifAssert(c.tree.Checkpoint.Parent == nil, "new-root-is-detached-from-its-ancestors")
		verifAssert(newIdx == parentIdx[t], "root-moves-only-to-the-parent-of-the-justified-target")
		verifAssert(T.Status == state.Justified, "root-moves-only-when-its-child-was-just-justified")
		verifAssert(before[t] == state.Unjustified, "root-moves-only-when-its-child-was-just-justified")
	} else {
		verifReach("VerifC16Step:root-kept")
	}
	// finalized checkpoints: a finalized status is never reverted, only the new
	// root can become finalized, and inside the new tree only the root is
	// finalized (fin(s) = s/3 is 1 exactly for Finalized = 3: branch-free)
	for i, cp := range all {
		bf, af := uint8(before[i])/3, uint8(cp.Status)/3
		verifAssert(bf <= af, "finalized-is-never-reverted")
		if nodes[i] != c.tree {
			verifAssert(af <= bf, "only-the-new-root-becomes-finalized")
			if verifC16InTree(c.tree, cp) {
				verifAssert(af == 0, "one-finalized-chain-in-the-tree")
			}
		}
	}
	verifAssert(X.Status == beforeX, "checkpoint-outside-the-tree-is-untouched")
}

// VerifC16Best: the real fork choice on an arbitrary tree. The best chain tip
// is a node of the tree (so the chain root..tip contains the last finalized
// checkpoint) and no other node lies on a branch with a higher justified
// checkpoint, or on an equally justified branch at a greater height.
func VerifC16Best(nNodes int) {
	e0 := verifU64("rootEpoch")
	verifAssume(e0 < 1<<32)
	nodes := make([]*treeNode, nNodes)
	depth := make([]uint64, nNodes)
	parentIdx := make([]int, nNodes)
	for i := 0; i < nNodes; i++ {
		cp := &state.Checkpoint{Hash: bc.Hash{V0: uint64(i + 1), V1: 0xc16}}
		nodes[i] = &treeNode{Checkpoint: cp}
		st := verifU8("status")
		if i == 0 {
			verifAssume(st == uint8(state.Justified) || st == uint8(state.Finalized))
			parentIdx[i] = -1
		} else {
			verifAssume(st == uint8(state.Unjustified) || st == uint8(state.Justified))
			p := 0
			if i > 1 {
				p = verifChoice("parent", i)
			}
			parentIdx[i] = p
			depth[i] = depth[p] + 1
			cp.Parent = nodes[p].Checkpoint
			cp.ParentHash = nodes[p].Hash
			nodes[p].children = append(nodes[p].children, nodes[i])
		}
		cp.Status = state.CheckpointStatus(st)
		cp.Height = (e0 + depth[i]) * 100
	}
	c := &Casper{tree: nodes[0]}
	best := c.bestChain()
	bi := -1
	for i := range nodes {
		if nodes[i].Hash == best {
			bi = i
		}
	}
	verifObserveI64("best", int64(bi))
	verifAssert(bi >= 0, "best-chain-contains-last-finalized")
	if bi < 0 {
		return
	}
	// height of the last justified checkpoint on the path root..i (the root counts as justified)
	lastJ := make([]uint64, nNodes)
	for i := 0; i < nNodes; i++ {
		if i == 0 || nodes[i].Status == state.Justified {
			lastJ[i] = nodes[i].Height
		} else {
			lastJ[i] = lastJ[parentIdx[i]]
		}
	}
	for i := 0; i < nNodes; i++ {
		verifAssert(lastJ[i] <= lastJ[bi], "best-chain-follows-the-highest-justified-checkpoint")
		if lastJ[i] == lastJ[bi] {
			verifAssert(nodes[i].Height <= nodes[bi].Height, "best-chain-is-the-longest-among-equally-justified")
		}
	}
	if bi == 0 {
		verifReach("VerifC16Best:root-is-best")
	} else {
		verifReach("VerifC16Best:descendant-is-best")
	}
}
