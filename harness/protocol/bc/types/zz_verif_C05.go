package types

// C05: every decoder fed an arbitrary buffer returns an error or a value; no
// un-recovered panic; allocation at most proportional to the input length.

//verif:property C05
//verif:bound arbitrary buffers of <= N bytes: units N=10 (quick) / 14 (thorough); whole transaction 10 / 13; block header and block 12 / 14 (32-byte hash fields make complete headers longer than that: see the HeaderTail harness, which starts after the previous-block hash)
//verif:bound allocation: no single make/append of more than 65536 elements, and total bytes allocated <= 64 KiB + 4096 * len(input)
//verif:assume SHA3 in MapTx is an uninterpreted function (it cannot panic or allocate proportionally to anything but its input)
//verif:outside go-wire (amino) reflection-based message framing; the RPC JSON layer
//verif:obligation fn=VerifC05Varint args=11 validate=20
//verif:obligation fn=VerifC05Varstr args=8 validate=20
//verif:obligation fn=VerifC05VarstrList args=8 validate=20
//verif:obligation fn=VerifC05TxInput args=10 validate=30
//verif:obligation fn=VerifC05TxOutput args=10 validate=30
//verif:obligation fn=VerifC05TxData args=10 validate=30 secs=900
//verif:obligation fn=VerifC05SupLinks args=10 validate=20
//verif:obligation fn=VerifC05BlockHeader args=12 validate=20
//verif:obligation fn=VerifC05HeaderTail args=10 validate=30
//verif:obligation fn=VerifC05Block args=10 validate=20
//verif:obligation fn=VerifC05TxText args=6 validate=20
//verif:obligation fn=VerifC05TxInput args=14 tier=thorough secs=3000
//verif:obligation fn=VerifC05TxOutput args=14 tier=thorough secs=3000
//verif:obligation fn=VerifC05TxData args=13 tier=thorough secs=3000
//verif:obligation fn=VerifC05SupLinks args=14 tier=thorough secs=3000
//verif:obligation fn=VerifC05HeaderTail args=14 tier=thorough secs=3000
//verif:obligation fn=VerifC05Block args=14 tier=thorough secs=3000
//verif:obligation fn=VerifC05TxText args=10 tier=thorough secs=3000

import (
	"github.com/bytom/bytom/encoding/blockchain"
)

func verifC05AllocOK(n int) bool {
	return verifAllocBytes() <= 64*1024+4096*uint64(n)
}

func VerifC05Varint(maxLen int) {
	buf := verifBytes("buf", maxLen)
	r := blockchain.NewReader(buf)
	v, err := blockchain.ReadVarint63(r)
	verifObserveBool("err", err != nil)
	verifObserveU64("v", v)
	verifAssert(err != nil || v <= 1<<63-1, "varint63-in-range")
	verifAssert(r.Len() <= len(buf), "reader-inside-buffer")
	r2 := blockchain.NewReader(buf)
	v2, err2 := blockchain.ReadVarint31(r2)
	verifObserveBool("err31", err2 != nil)
	verifAssert(err2 != nil || v2 <= 1<<31-1, "varint31-in-range")
	verifAssert(err2 != nil || (err == nil && uint64(v2) == v), "varint31-agrees-with-varint63")
	verifReach("VerifC05Varint:end")
}

func VerifC05Varstr(maxLen int) {
	buf := verifBytes("buf", maxLen)
	r := blockchain.NewReader(buf)
	s, err := blockchain.ReadVarstr31(r)
	verifObserveBool("err", err != nil)
	verifObserveBytes("s", s)
	verifAssert(err != nil || len(s)+r.Len() < len(buf)+1, "string-inside-buffer")
	verifAssert(verifC05AllocOK(len(buf)), "alloc-bound")
	verifReach("VerifC05Varstr:end")
}

func VerifC05VarstrList(maxLen int) {
	buf := verifBytes("buf", maxLen)
	r := blockchain.NewReader(buf)
	l, err := blockchain.ReadVarstrList(r)
	verifObserveBool("err", err != nil)
	verifObserveI64("n", int64(len(l)))
	verifAssert(len(l) <= len(buf), "list-not-longer-than-input")
	verifAssert(verifC05AllocOK(len(buf)), "alloc-bound")
	verifReach("VerifC05VarstrList:end")
}

func VerifC05TxInput(maxLen int) {
	buf := verifBytes("buf", maxLen)
	ti := new(TxInput)
	err := ti.readFrom(blockchain.NewReader(buf))
	verifObserveBool("err", err != nil)
	verifAssert(verifC05AllocOK(len(buf)), "alloc-bound")
	if err == nil {
		verifObserveU64("assetVersion", ti.AssetVersion)
		verifReach("VerifC05TxInput:decoded")
	}
	verifReach("VerifC05TxInput:end")
}

func VerifC05TxOutput(maxLen int) {
	buf := verifBytes("buf", maxLen)
	to := new(TxOutput)
	err := to.readFrom(blockchain.NewReader(buf))
	verifObserveBool("err", err != nil)
	verifAssert(verifC05AllocOK(len(buf)), "alloc-bound")
	if err == nil {
		verifReach("VerifC05TxOutput:decoded")
	}
	verifReach("VerifC05TxOutput:end")
}

// the binary half of Tx.UnmarshalText: TxData.readFrom followed by MapTx
func VerifC05TxData(maxLen int) {
	buf := verifBytes("buf", maxLen)
	tx := new(Tx)
	r := blockchain.NewReader(buf)
	err := tx.TxData.readFrom(r)
	verifObserveBool("err", err != nil)
	if err == nil && r.Len() == 0 {
		verifObserveI64("inputs", int64(len(tx.Inputs)))
		verifObserveI64("outputs", int64(len(tx.Outputs)))
		tx.Tx = MapTx(&tx.TxData)
		verifAssert(tx.Tx != nil, "mapped")
		verifReach("VerifC05TxData:decoded")
	}
	verifAssert(verifC05AllocOK(len(buf)), "alloc-bound")
	verifReach("VerifC05TxData:end")
}

func VerifC05SupLinks(maxLen int) {
	buf := verifBytes("buf", maxLen)
	var s SupLinks
	err := s.readFrom(blockchain.NewReader(buf))
	verifObserveBool("err", err != nil)
	verifAssert(verifC05AllocOK(len(buf)), "alloc-bound")
	verifAssert(err != nil || len(s) <= len(buf), "suplinks-not-longer-than-input")
	verifReach("VerifC05SupLinks:end")
}

func VerifC05BlockHeader(maxLen int) {
	buf := verifBytes("buf", maxLen)
	bh := new(BlockHeader)
	_, err := bh.readFrom(blockchain.NewReader(buf))
	verifObserveBool("err", err != nil)
	verifAssert(verifC05AllocOK(len(buf)), "alloc-bound")
	verifReach("VerifC05BlockHeader:end")
}

// a complete header: the fixed prefix (serflag, version, height, previous
// hash, timestamp, the two 32-byte commitment roots) is supplied concretely so
// that the arbitrary bytes cover the witness and suplink sections
func VerifC05HeaderTail(maxLen int) {
	tail := verifBytes("tail", maxLen)
	buf := append([]byte{SerBlockHeader, 1, 5}, make([]byte, 32)...)
	buf = append(buf, 7)                   // timestamp
	buf = append(buf, 64)                  // commitment: 64 bytes (two roots)
	buf = append(buf, make([]byte, 64)...) //
	buf = append(buf, tail...)
	bh := new(BlockHeader)
	_, err := bh.readFrom(blockchain.NewReader(buf))
	verifObserveBool("err", err != nil)
	verifAssert(verifAllocBytes() <= 64*1024+4096*uint64(len(buf)), "alloc-bound")
	if err == nil {
		verifObserveI64("suplinks", int64(len(bh.SupLinks)))
		_ = bh.Hash()
		verifReach("VerifC05HeaderTail:decoded")
	}
	verifReach("VerifC05HeaderTail:end")
}

func VerifC05Block(maxLen int) {
	tail := verifBytes("tail", maxLen)
	// a well-formed empty header followed by arbitrary bytes for the transaction section
	buf := append([]byte{SerBlockFull, 1, 5}, make([]byte, 32)...)
	buf = append(buf, 7)                  // timestamp
	buf = append(buf, 64)                 // commitment: 64 bytes (two roots)
	buf = append(buf, make([]byte, 64)...) //
	buf = append(buf, 1, 0)               // witness: empty signature
	buf = append(buf, 1, 0)               // suplinks: none
	buf = append(buf, tail...)
	b := new(Block)
	err := b.readFrom(blockchain.NewReader(buf))
	verifObserveBool("err", err != nil)
	if err == nil {
		verifObserveI64("txs", int64(len(b.Transactions)))
		verifReach("VerifC05Block:decoded")
	}
	verifAssert(verifAllocBytes() <= 64*1024+4096*uint64(len(buf)), "alloc-bound")
	verifReach("VerifC05Block:end")
}

// the text (hex) form, as peers and the RPC layer supply it
func VerifC05TxText(maxLen int) {
	text := verifBytes("text", maxLen)
	tx := new(Tx)
	err := tx.UnmarshalText(text)
	verifObserveBool("err", err != nil)
	verifAssert(verifC05AllocOK(len(text)), "alloc-bound")
	verifReach("VerifC05TxText:end")
}
