package types

// C03: the transaction ID (MapTx -> EntryID of the tx header) and the block
// hash (BlockHeader.Hash -> mapBlockHeader -> EntryID) commit to every
// consensus field and to nothing else.  Two values that differ in exactly one
// field are mapped by the real code; hashes are uninterpreted and
// collision-free, so "ID1 != ID2" is decided by which bytes reach the hash.
// The list of fields comes from the property statement, not from the code.

//verif:property C03
//verif:bound every field of the list below (veto control program and state data: smallest sizes in the quick tier -- program 0..1 bytes, state [] vs [x] and [x] vs [y] --, the full sizes in the thorough tier) on transactions of 1 input (spend, issuance, veto or coinbase) x 1 output (original or vote; retirement when the program starts with OP_FAIL); thorough tier: one field per entry type also on 2 inputs x 2 outputs where the input / output under test is placed first or second next to an arbitrary spend input / original output; order: swap of two inputs (2x1) or two outputs (1x2); every integer field is an arbitrary 64-bit value, hashes/asset ids arbitrary 256-bit values
//verif:bound the field under test: byte strings of 0..2 arbitrary bytes, state data / argument lists that are empty, one item of 0..2 bytes or two items of 1 byte; all other byte strings have a fixed length of 1 byte (2 for programs) with arbitrary content, state data 1 item
//verif:bound block headers: all five hashed fields arbitrary; witness 0..2 bytes, 0..1 sup links with signatures of 0..1 bytes; transaction lists of 1..4 arbitrary ids
//verif:bound cross-type pairs: output 0 original vs vote (same asset/amount/program/VM version) and input spend vs veto (same prevout fields), vote key of exactly 0, 1 or 2 arbitrary bytes, the two state-data lists independent, each 0..2 items of 0..1 bytes (quick) / 0..2 bytes (thorough; inputs only with a 1-byte key); the program of the output does not start with OP_FAIL
//verif:bound nil against empty: every variable-length byte field of every input/output kind (and the state-data list / its item) nil in one transaction and empty non-nil in the other -> same ID; neighbouring fields: control program, vote key and state data of output 0, each independently nil, empty non-nil or 1 arbitrary byte on both sides (state data: nil list, one empty item, one 1-byte item), all 81 (original) / 729 (vote) combinations, outputs that differ as values get different ids
//verif:assume SHA3-256 is an uninterpreted function without collisions
//verif:assume a transaction has at least one output (validation rejects a version-1 header without results: ErrEmptyResults); without outputs the ID does not depend on the inputs at all
//verif:outside CommitmentSuffix / SpendCommitmentSuffix bytes and inputs of unknown asset versions (not mapped to entries); shapes with more than 2 inputs or outputs
//verif:obligation fn=VerifC03TxField args=0,0,0;0,0,1;0,0,62 maps=lazy timeout=600000 secs=3600 validate=10
//verif:obligation fn=VerifC03TxField args=0,0,10;0,0,11;0,0,12;0,0,13;0,0,14;0,0,15;0,0,16;0,0,60;0,0,61 maps=lazy timeout=600000 secs=3600 validate=10
//verif:obligation fn=VerifC03TxField args=1,0,20;1,0,21;1,0,22;1,0,23;1,0,24;1,0,60;1,0,61 maps=lazy timeout=600000 secs=3600
//verif:obligation fn=VerifC03TxField args=2,0,10;2,0,11;2,0,12;2,0,13;2,0,15;2,0,17;2,0,60;2,0,61 maps=lazy timeout=600000 secs=3600
//verif:obligation fn=VerifC03TxFieldSmall args=2,0,14;2,0,16 maps=lazy timeout=600000 secs=3600 validate=10
//verif:obligation fn=VerifC03TxField args=2,0,14;2,0,16 tier=thorough maps=lazy timeout=600000 secs=6000
//verif:obligation fn=VerifC03CrossType args=0,0,0;0,1,0;0,2,0;1,0,0;1,1,0;1,2,0 maps=lazy timeout=600000 secs=3600 validate=10
//verif:obligation fn=VerifC03CrossType args=0,0,1;0,1,1;0,2,1;1,1,1 tier=thorough maps=lazy timeout=600000 secs=6000
//verif:obligation fn=VerifC03NilEmpty args=0,0;1,1;2,1;3,0 maps=lazy timeout=600000 secs=3600 validate=10
//verif:obligation fn=VerifC03Adjacent args=0,0,0;0,0,1;0,0,2;0,1,0;0,1,1;0,1,2;0,2,0;0,2,1;0,2,2 maps=lazy timeout=600000 secs=3600 validate=10
//verif:obligation fn=VerifC03Adjacent args=1,0,0;1,0,1;1,0,2;1,1,0;1,1,1;1,1,2;1,2,0;1,2,1;1,2,2 maps=lazy timeout=600000 secs=3600
//verif:obligation fn=VerifC03TxField args=3,0,30;3,0,61 maps=lazy timeout=600000 secs=3600
//verif:obligation fn=VerifC03TxField args=0,0,40;0,0,41;0,0,42;0,0,43;0,0,44 maps=lazy timeout=600000 secs=3600
//verif:obligation fn=VerifC03TxField args=0,1,40;0,1,41;0,1,42;0,1,43;0,1,44;0,1,45 maps=lazy timeout=600000 secs=3600
//verif:obligation fn=VerifC03TxField22 args=0,0,13;0,0,41;1,1,21;2,1,17;3,0,30;0,0,60 tier=thorough maps=lazy timeout=600000 secs=6000
//verif:obligation fn=VerifC03TxOrder args=0,0;0,1;0,2;0,3;1,0;1,1 maps=lazy timeout=600000 secs=3600 validate=10
//verif:obligation fn=VerifC03Header args=0;1;2;3;4;5;6 validate=10 timeout=600000 secs=3600
//verif:obligation fn=VerifC03BlockTxID args=1;2;3;4 validate=10 timeout=600000 secs=3600

import (
	"bytes"

	"github.com/bytom/bytom/protocol/bc"
)

const (
	verifC03Spend    = 0
	verifC03Issuance = 1
	verifC03Veto     = 2
	verifC03Coinbase = 3
)

// field numbers (the property statement's list of consensus and witness data)
const (
	verifC03FVersion   = 0
	verifC03FTimeRange = 1

	verifC03FSourceID  = 10
	verifC03FSourcePos = 11
	verifC03FAsset     = 12
	verifC03FAmount    = 13
	verifC03FProgram   = 14
	verifC03FVMVersion = 15
	verifC03FStateData = 16
	verifC03FVote      = 17

	verifC03FNonce        = 20
	verifC03FIssAmount    = 21
	verifC03FIssProgram   = 22
	verifC03FIssVMVersion = 23
	verifC03FAssetDef     = 24

	verifC03FArbitrary = 30

	verifC03FOutAsset     = 40
	verifC03FOutAmount    = 41
	verifC03FOutProgram   = 42
	verifC03FOutVMVersion = 43
	verifC03FOutStateData = 44
	verifC03FOutVote      = 45

	verifC03FArguments      = 60
	verifC03FWitnessSuffix  = 61
	verifC03FSerializedSize = 62
)

type verifC03In struct {
	kind      int
	sourceID  bc.Hash
	sourcePos uint64
	asset     bc.AssetID
	amount    uint64
	program   []byte
	vmVersion uint64
	stateData [][]byte
	vote      []byte
	nonce     []byte
	assetDef  []byte
	arbitrary []byte
	args      [][]byte
	witSuffix []byte
}

type verifC03Out struct {
	kind      int // 0 original, 1 vote
	asset     bc.AssetID
	amount    uint64
	program   []byte
	vmVersion uint64
	stateData [][]byte
	vote      []byte
}

func verifC03Hash(name string) bc.Hash {
	return bc.Hash{V0: verifU64(name), V1: verifU64(name), V2: verifU64(name), V3: verifU64(name)}
}

func verifC03Asset(name string) bc.AssetID {
	return bc.AssetID{V0: verifU64(name), V1: verifU64(name), V2: verifU64(name), V3: verifU64(name)}
}

// byte string that is not under test: fixed length n (free == 0) or 0..2 bytes
func verifC03Fixed(name string, n int, free int) []byte {
	if free != 0 {
		return verifBytes(name, 2)
	}
	return verifBytesN(name, n)
}

func verifC03NewIn(kind int, free int) verifC03In {
	in := verifC03In{kind: kind}
	switch kind {
	case verifC03Spend, verifC03Veto:
		in.sourceID = verifC03Hash("sourceID")
		in.sourcePos = verifU64("sourcePos")
		in.asset = verifC03Asset("asset")
		in.amount = verifU64("amount")
		in.program = verifC03Fixed("program", 2, free)
		in.vmVersion = verifU64("vmVersion")
		in.stateData = [][]byte{verifC03Fixed("state", 1, free)}
		if kind == verifC03Veto {
			in.vote = verifC03Fixed("vote", 1, free)
		}
		in.args = [][]byte{verifC03Fixed("arg", 1, free)}
	case verifC03Issuance:
		in.nonce = verifC03Fixed("nonce", 1, free)
		in.amount = verifU64("amount")
		in.program = verifC03Fixed("issuanceProgram", 2, free)
		in.vmVersion = verifU64("vmVersion")
		in.assetDef = verifC03Fixed("assetDef", 1, free)
		in.args = [][]byte{verifC03Fixed("arg", 1, free)}
	case verifC03Coinbase:
		in.arbitrary = verifC03Fixed("arbitrary", 1, free)
	}
	return in
}

func (in *verifC03In) txInput() *TxInput {
	t := &TxInput{AssetVersion: 1, WitnessSuffix: in.witSuffix}
	switch in.kind {
	case verifC03Spend, verifC03Veto:
		asset := in.asset
		sc := SpendCommitment{
			AssetAmount:    bc.AssetAmount{AssetId: &asset, Amount: in.amount},
			SourceID:       in.sourceID,
			SourcePosition: in.sourcePos,
			VMVersion:      in.vmVersion,
			ControlProgram: in.program,
			StateData:      in.stateData,
		}
		if in.kind == verifC03Spend {
			t.TypedInput = &SpendInput{SpendCommitment: sc, Arguments: in.args}
		} else {
			t.TypedInput = &VetoInput{SpendCommitment: sc, Arguments: in.args, Vote: in.vote}
		}
	case verifC03Issuance:
		t.TypedInput = &IssuanceInput{
			Nonce:           in.nonce,
			Amount:          in.amount,
			AssetDefinition: in.assetDef,
			VMVersion:       in.vmVersion,
			IssuanceProgram: in.program,
			Arguments:       in.args,
		}
	case verifC03Coinbase:
		t.TypedInput = &CoinbaseInput{Arbitrary: in.arbitrary}
	}
	return t
}

func verifC03NewOut(kind int, free int) verifC03Out {
	out := verifC03Out{kind: kind}
	out.asset = verifC03Asset("outAsset")
	out.amount = verifU64("outAmount")
	out.program = verifC03Fixed("outProgram", 2, free)
	out.vmVersion = verifU64("outVMVersion")
	out.stateData = [][]byte{verifC03Fixed("outState", 1, free)}
	if kind == 1 {
		out.vote = verifC03Fixed("outVote", 1, free)
	}
	return out
}

func (out *verifC03Out) txOutput() *TxOutput {
	asset := out.asset
	t := &TxOutput{
		AssetVersion: 1,
		OutputCommitment: OutputCommitment{
			AssetAmount:    bc.AssetAmount{AssetId: &asset, Amount: out.amount},
			VMVersion:      out.vmVersion,
			ControlProgram: out.program,
			StateData:      out.stateData,
		},
	}
	if out.kind == 1 {
		t.TypedOutput = &VoteOutput{Vote: out.vote}
	} else {
		t.TypedOutput = &originalTxOutput{}
	}
	return t
}

// an arbitrary 256-bit value that differs from h in (at least) one chosen 64-bit word;
// the four choices together cover every value different from h
func verifC03OtherHash(name string, h bc.Hash) bc.Hash {
	o := verifC03Hash(name)
	switch verifChoice(name+"Word", 4) {
	case 0:
		verifAssume(o.V0 != h.V0)
	case 1:
		verifAssume(o.V1 != h.V1)
	case 2:
		verifAssume(o.V2 != h.V2)
	default:
		verifAssume(o.V3 != h.V3)
	}
	return o
}

// two arbitrary byte strings of 0..max bytes that differ
func verifC03TwoBytes(name string, max int) ([]byte, []byte) {
	a := verifBytes(name, max)
	b := verifBytes(name+"'", max)
	verifAssume(!bytes.Equal(a, b))
	return a, b
}

// two arbitrary lists: empty, one item of 0..2 bytes, or two items of 1 byte each; differ: they are assumed to differ
func verifC03TwoLists(name string, differ bool, max int) ([][]byte, [][]byte) {
	if max == 1 {
		// smallest distinguishing cases: [] vs [x], and [x] vs [y] with x != y
		l2 := [][]byte{verifBytesN(name+"'", 1)}
		if verifChoice(name+"Len", 2) == 0 {
			return nil, l2
		}
		l1 := [][]byte{verifBytesN(name, 1)}
		if differ {
			verifAssume(!bytes.Equal(l1[0], l2[0]))
		}
		return l1, l2
	}
	n1 := verifChoice(name+"Len", 3)
	n2 := verifChoice(name+"Len'", 3)
	var l1, l2 [][]byte
	for i := 0; i < n1; i++ {
		if n1 == 1 {
			l1 = append(l1, verifBytes(name, 2))
		} else {
			l1 = append(l1, verifBytesN(name, 1))
		}
	}
	for i := 0; i < n2; i++ {
		if n2 == 1 {
			l2 = append(l2, verifBytes(name+"'", 2))
		} else {
			l2 = append(l2, verifBytesN(name+"'", 1))
		}
	}
	if differ && n1 == n2 {
		verifAssume(n1 > 0)
		k := verifChoice(name+"DiffAt", n1)
		verifAssume(!bytes.Equal(l1[k], l2[k]))
	}
	return l1, l2
}

func verifC03TwoU64(name string) (uint64, uint64) {
	a := verifU64(name)
	b := verifU64(name + "'")
	verifAssume(a != b)
	return a, b
}

func verifC03Unspendable(p []byte) bool {
	return len(p) > 0 && p[0] == 0x6a // vm.OP_FAIL
}

// VerifC03TxField: transactions tx1, tx2 of one input and one output, identical
// except for one field of the input (kind inKind), of the output (kind
// outKind) or of the transaction itself.
func VerifC03TxField(inKind int, outKind int, field int) {
	verifC03TxField(inKind, outKind, field, 2, 0, 1)
}

// the smallest distinguishing sizes: byte string under test 0..1 bytes, lists [] vs [x] and [x] vs [y]
func VerifC03TxFieldSmall(inKind int, outKind int, field int) {
	verifC03TxField(inKind, outKind, field, 1, 0, 1)
}

// the same with 2 inputs x 2 outputs: the input / output under test stands
// first or second next to an arbitrary spend input / original output
func VerifC03TxField22(inKind int, outKind int, field int) {
	verifC03TxField(inKind, outKind, field, 2, 0, 2)
}

// thorough variant of the 2x2 shape: longer strings under test, all other strings of symbolic length too
func VerifC03TxFieldFree(inKind int, outKind int, field int) {
	verifC03TxField(inKind, outKind, field, 3, 1, 2)
}

func verifC03TxField(inKind int, outKind int, field int, max int, free int, width int) {
	version1, timeRange1, size1 := verifU64("version"), verifU64("timeRange"), verifU64("serializedSize")
	version2, timeRange2, size2 := version1, timeRange1, size1

	in1 := verifC03NewIn(inKind, free)
	out1 := verifC03NewOut(outKind, free)
	in2, out2 := in1, out1
	witness := false
	retired := false // the output under test is a retirement in both transactions

	switch field {
	case verifC03FVersion:
		version1, version2 = verifC03TwoU64("version")
	case verifC03FTimeRange:
		timeRange1, timeRange2 = verifC03TwoU64("timeRange")
	case verifC03FSerializedSize:
		size2 = verifU64("serializedSize'")
		witness = true

	case verifC03FSourceID:
		in2.sourceID = verifC03OtherHash("sourceID'", in1.sourceID)
	case verifC03FSourcePos:
		in1.sourcePos, in2.sourcePos = verifC03TwoU64("sourcePos")
	case verifC03FAsset:
		in2.asset = bc.AssetID(verifC03OtherHash("asset'", bc.Hash(in1.asset)))
	case verifC03FAmount, verifC03FIssAmount:
		in1.amount, in2.amount = verifC03TwoU64("amount")
	case verifC03FProgram, verifC03FIssProgram:
		in1.program, in2.program = verifC03TwoBytes("program", max)
	case verifC03FVMVersion, verifC03FIssVMVersion:
		in1.vmVersion, in2.vmVersion = verifC03TwoU64("vmVersion")
	case verifC03FStateData:
		in1.stateData, in2.stateData = verifC03TwoLists("state", true, max)
	case verifC03FVote:
		in1.vote, in2.vote = verifC03TwoBytes("vote", max)
	case verifC03FNonce:
		in1.nonce, in2.nonce = verifC03TwoBytes("nonce", max)
	case verifC03FAssetDef:
		in1.assetDef, in2.assetDef = verifC03TwoBytes("assetDef", max)
	case verifC03FArbitrary:
		in1.arbitrary, in2.arbitrary = verifC03TwoBytes("arbitrary", max)

	case verifC03FOutAsset:
		out2.asset = bc.AssetID(verifC03OtherHash("outAsset'", bc.Hash(out1.asset)))
	case verifC03FOutAmount:
		out1.amount, out2.amount = verifC03TwoU64("outAmount")
	case verifC03FOutProgram:
		out1.program, out2.program = verifC03TwoBytes("outProgram", max)
	case verifC03FOutVMVersion:
		out1.vmVersion, out2.vmVersion = verifC03TwoU64("outVMVersion")
	case verifC03FOutStateData:
		out1.stateData, out2.stateData = verifC03TwoLists("outState", true, max)
	case verifC03FOutVote:
		out1.vote, out2.vote = verifC03TwoBytes("outVote", max)

	case verifC03FArguments:
		in1.args, in2.args = verifC03TwoLists("arg", false, max)
		witness = true
	case verifC03FWitnessSuffix:
		in1.witSuffix = verifBytes("witnessSuffix", max)
		in2.witSuffix = verifBytes("witnessSuffix'", max)
		witness = true
	default:
		panic("verif: unknown field")
	}
	if field >= verifC03FOutProgram && field <= verifC03FOutVote {
		if verifC03Unspendable(out1.program) {
			if verifC03Unspendable(out2.program) {
				retired = true
			}
		}
	}

	var ins1, ins2 []*TxInput
	var outs1, outs2 []*TxOutput
	if width == 1 {
		ins1, ins2 = []*TxInput{in1.txInput()}, []*TxInput{in2.txInput()}
		outs1, outs2 = []*TxOutput{out1.txOutput()}, []*TxOutput{out2.txOutput()}
	} else {
		// the input / output under test comes first or second
		other := verifC03NewIn(verifC03Spend, free)
		otherOut := verifC03NewOut(0, free)
		if verifChoice("inputPosition", 2) == 0 {
			ins1 = []*TxInput{in1.txInput(), other.txInput()}
			ins2 = []*TxInput{in2.txInput(), other.txInput()}
		} else {
			ins1 = []*TxInput{other.txInput(), in1.txInput()}
			ins2 = []*TxInput{other.txInput(), in2.txInput()}
		}
		if verifChoice("outputPosition", 2) == 0 {
			outs1 = []*TxOutput{out1.txOutput(), otherOut.txOutput()}
			outs2 = []*TxOutput{out2.txOutput(), otherOut.txOutput()}
		} else {
			outs1 = []*TxOutput{otherOut.txOutput(), out1.txOutput()}
			outs2 = []*TxOutput{otherOut.txOutput(), out2.txOutput()}
		}
	}

	tx1 := MapTx(&TxData{Version: version1, SerializedSize: size1, TimeRange: timeRange1, Inputs: ins1, Outputs: outs1})
	tx2 := MapTx(&TxData{Version: version2, SerializedSize: size2, TimeRange: timeRange2, Inputs: ins2, Outputs: outs2})
	verifObserveU64("id1", tx1.ID.V0)
	verifObserveU64("id2", tx2.ID.V0)
	verifObserveBool("sameID", tx1.ID == tx2.ID)

	if witness {
		verifAssert(tx1.ID == tx2.ID, "witness-data-does-not-change-id")
		verifReach("VerifC03TxField:witness")
	} else {
		// KF: a retirement entry (output whose program starts with OP_FAIL) hashes only its value source
		verifKnown("KF-C03-RETIREMENT", retired)
		verifAssert(tx1.ID != tx2.ID, "consensus-field-changes-id")
		verifReach("VerifC03TxField:consensus")
	}
}

// VerifC03TxOrder: swapping two different inputs (what=0..3: two spends with
// control programs of 2 and 1 bytes / a spend and an issuance / a spend and a
// veto / a spend and a coinbase) or two different outputs (what=0: originals
// with programs of 2 and 1 bytes; 1: an original and a vote output) changes the ID.
func VerifC03TxOrder(side int, what int) {
	retired := false
	a := verifC03NewIn(verifC03Spend, 0)
	x := verifC03NewOut(0, 0)
	var ins1, ins2 []*TxInput
	var outs1, outs2 []*TxOutput
	if side == 0 {
		var b verifC03In
		switch what {
		case 0:
			// a second spend with a control program of a different length (so the two inputs differ)
			b = verifC03NewIn(verifC03Spend, 0)
			b.program = verifBytesN("shortProgram", 1)
		case 1:
			b = verifC03NewIn(verifC03Issuance, 0)
		case 2:
			b = verifC03NewIn(verifC03Veto, 0)
		case 3:
			b = verifC03NewIn(verifC03Coinbase, 0)
		}
		ins1 = []*TxInput{a.txInput(), b.txInput()}
		ins2 = []*TxInput{b.txInput(), a.txInput()}
		outs1 = []*TxOutput{x.txOutput()}
		outs2 = []*TxOutput{x.txOutput()}
	} else {
		y := verifC03NewOut(what, 0)
		if what == 0 {
			// a second original output with a control program of a different length
			y.program = verifBytesN("shortOutProgram", 1)
		}
		// KF: two retirements differ only in their value source; with equal asset and amount the swap is invisible
		if verifC03Unspendable(x.program) {
			if verifC03Unspendable(y.program) {
				retired = true
			}
		}
		ins1 = []*TxInput{a.txInput()}
		ins2 = []*TxInput{a.txInput()}
		outs1 = []*TxOutput{x.txOutput(), y.txOutput()}
		outs2 = []*TxOutput{y.txOutput(), x.txOutput()}
	}
	version, timeRange := verifU64("version"), verifU64("timeRange")
	tx1 := MapTx(&TxData{Version: version, TimeRange: timeRange, Inputs: ins1, Outputs: outs1})
	tx2 := MapTx(&TxData{Version: version, TimeRange: timeRange, Inputs: ins2, Outputs: outs2})
	verifObserveU64("id1", tx1.ID.V0)
	verifObserveU64("id2", tx2.ID.V0)
	verifKnown("KF-C03-RETIREMENT", retired)
	verifAssert(tx1.ID != tx2.ID, "order-changes-id")
	verifReach("VerifC03TxOrder:end")
}

// VerifC03Header: field 0..4 = version, height, previous block hash,
// timestamp, transactions merkle root (must change the hash); 5 = block
// witness, 6 = sup links (must not).
func VerifC03Header(field int) {
	h1 := BlockHeader{
		Version:           verifU64("version"),
		Height:            verifU64("height"),
		PreviousBlockHash: verifC03Hash("prev"),
		Timestamp:         verifU64("timestamp"),
		BlockCommitment:   BlockCommitment{TransactionsMerkleRoot: verifC03Hash("root")},
		BlockWitness:      BlockWitness(verifBytes("witness", 2)),
	}
	if verifChoice("supLinks", 2) == 1 {
		sl := &SupLink{SourceHeight: verifU64("slHeight"), SourceHash: verifC03Hash("slHash")}
		sl.Signatures[0] = verifBytes("sig", 1)
		h1.SupLinks = SupLinks{sl}
	}
	h2 := h1
	switch field {
	case 0:
		h1.Version, h2.Version = verifC03TwoU64("version")
	case 1:
		h1.Height, h2.Height = verifC03TwoU64("height")
	case 2:
		h2.PreviousBlockHash = verifC03OtherHash("prev'", h1.PreviousBlockHash)
	case 3:
		h1.Timestamp, h2.Timestamp = verifC03TwoU64("timestamp")
	case 4:
		h2.TransactionsMerkleRoot = verifC03OtherHash("root'", h1.TransactionsMerkleRoot)
	case 5:
		h2.BlockWitness = BlockWitness(verifBytes("witness'", 2))
	case 6:
		h2.SupLinks = nil
		if verifChoice("supLinks'", 2) == 1 {
			sl := &SupLink{SourceHeight: verifU64("slHeight'"), SourceHash: verifC03Hash("slHash'")}
			sl.Signatures[1] = verifBytes("sig'", 1)
			h2.SupLinks = SupLinks{sl}
		}
	}
	id1, id2 := h1.Hash(), h2.Hash()
	verifObserveU64("hash1", id1.V0)
	verifObserveU64("hash2", id2.V0)
	if field >= 5 {
		verifAssert(id1 == id2, "signature-and-suplinks-do-not-change-block-hash")
		verifReach("VerifC03Header:witness")
	} else {
		verifAssert(id1 != id2, "header-field-changes-block-hash")
		verifReach("VerifC03Header:consensus")
	}
}

// VerifC03BlockTxID: a block of n transactions; one transaction ID replaced by
// a different one changes the merkle root and with it the block hash.
func VerifC03BlockTxID(n int) {
	var txs1, txs2 []*bc.Tx
	k := verifChoice("changedTx", n)
	for i := 0; i < n; i++ {
		id := verifC03Hash("txID")
		txs1 = append(txs1, &bc.Tx{ID: id})
		if i == k {
			id2 := verifC03OtherHash("txID'", id)
			txs2 = append(txs2, &bc.Tx{ID: id2})
		} else {
			txs2 = append(txs2, &bc.Tx{ID: id})
		}
	}
	root1, err1 := TxMerkleRoot(txs1)
	root2, err2 := TxMerkleRoot(txs2)
	verifAssert(err1 == nil && err2 == nil, "roots-computed")
	verifAssert(root1 != root2, "tx-id-changes-merkle-root")
	h1 := BlockHeader{Version: verifU64("version"), Height: verifU64("height"), PreviousBlockHash: verifC03Hash("prev"), Timestamp: verifU64("timestamp")}
	h2 := h1
	h1.TransactionsMerkleRoot = root1
	h2.TransactionsMerkleRoot = root2
	id1, id2 := h1.Hash(), h2.Hash()
	verifObserveU64("hash1", id1.V0)
	verifObserveU64("hash2", id2.V0)
	verifAssert(id1 != id2, "tx-id-changes-block-hash")
	verifReach("VerifC03BlockTxID:end")
}

// VerifC03CrossType: two transactions identical except for the TYPE of one
// entry. side 0: output 0 is an original output in tx1 and a vote output in
// tx2 (same asset, amount, program, VM version); side 1: the input is a spend
// in tx1 and a veto in tx2 (same prevout fields). The vote key (klen arbitrary
// bytes) and the two state-data lists are chosen independently, so the check
// covers every crafted pair whose hashed bodies would coincide if the two entry
// types shared a hash domain (e.g. original state [[00]] against vote key [01]
// with empty state: both bodies end in 01 01 00).
// wide 0: both state lists 0..2 items of 0..1 bytes; wide 1: 0..2 items of 0..2 bytes.
func VerifC03CrossType(side int, klen int, wide int) {
	n1max, n2max, ilen := 3, 3, 1
	if wide != 0 {
		ilen = 2
	}
	var s1, s2 [][]byte
	n1 := verifChoice("stateLen", n1max)
	n2 := verifChoice("stateLen'", n2max)
	for i := 0; i < n1; i++ {
		s1 = append(s1, verifBytes("state", ilen))
	}
	for i := 0; i < n2; i++ {
		s2 = append(s2, verifBytes("state'", ilen))
	}
	key := verifBytesN("voteKey", klen)

	in := verifC03NewIn(verifC03Spend, 0)
	out := verifC03NewOut(0, 0)
	// an output starting with OP_FAIL is a retirement whatever its type (KF-C03-RETIREMENT): not the subject here
	verifAssume(out.program[0] != 0x6a)
	in2, out2 := in, out
	if side == 0 {
		out.stateData = s1
		out2.kind, out2.vote, out2.stateData = 1, key, s2
	} else {
		in.stateData = s1
		in2.kind, in2.vote, in2.stateData = verifC03Veto, key, s2
	}
	version, timeRange := verifU64("version"), verifU64("timeRange")
	tx1 := MapTx(&TxData{Version: version, TimeRange: timeRange, Inputs: []*TxInput{in.txInput()}, Outputs: []*TxOutput{out.txOutput()}})
	tx2 := MapTx(&TxData{Version: version, TimeRange: timeRange, Inputs: []*TxInput{in2.txInput()}, Outputs: []*TxOutput{out2.txOutput()}})
	verifObserveU64("id1", tx1.ID.V0)
	verifObserveU64("id2", tx2.ID.V0)
	if side == 0 {
		verifObserveBool("sameOutputID", *tx1.ResultIds[0] == *tx2.ResultIds[0])
		verifAssert(tx1.ID != tx2.ID, "output-type-changes-id")
		verifAssert(*tx1.ResultIds[0] != *tx2.ResultIds[0], "output-type-changes-output-id")
		verifReach("VerifC03CrossType:outputs")
	} else {
		verifObserveBool("sameSpentOutputID", tx1.SpentOutputIDs[0] == tx2.SpentOutputIDs[0])
		verifAssert(tx1.SpentOutputIDs[0] != tx2.SpentOutputIDs[0], "input-type-changes-spent-output-id")
		verifAssert(tx1.ID != tx2.ID, "input-type-changes-id")
		verifReach("VerifC03CrossType:inputs")
	}
}

// ---------------------------------------------------------------------------
// nil against empty byte strings, and neighbouring variable-length fields

// a byte string by option: 0 = nil, 1 = empty but non-nil, 2 = one arbitrary byte
func verifC03Opt(name string, opt int) []byte {
	switch opt {
	case 0:
		return nil
	case 1:
		return []byte{}
	}
	return verifBytesN(name, 1)
}

// a state-data list by option: 0 = nil list, 1 = one empty item, 2 = one item of one arbitrary byte
func verifC03OptList(name string, opt int) [][]byte {
	switch opt {
	case 0:
		return nil
	case 1:
		return [][]byte{{}}
	}
	return [][]byte{verifBytesN(name, 1)}
}

// VerifC03NilEmpty: one variable-length field is nil in tx1 and empty but
// non-nil in tx2 (for lists also: nil list against empty list, nil item against
// empty item); the wire form cannot tell them apart, so the ID must not either.
// Every byte field of the input kind / output kind in turn.
func VerifC03NilEmpty(inKind int, outKind int) {
	in1 := verifC03NewIn(inKind, 0)
	out1 := verifC03NewOut(outKind, 0)
	in2, out2 := in1, out1
	spendLike := inKind == verifC03Spend || inKind == verifC03Veto
	switch verifChoice("field", 11) {
	case 0:
		verifAssume(inKind != verifC03Coinbase)
		in1.program, in2.program = nil, []byte{}
	case 1:
		verifAssume(spendLike)
		in1.stateData, in2.stateData = nil, [][]byte{}
	case 2:
		verifAssume(spendLike)
		in1.stateData, in2.stateData = [][]byte{nil}, [][]byte{{}}
	case 3:
		verifAssume(inKind == verifC03Veto)
		in1.vote, in2.vote = nil, []byte{}
	case 4:
		verifAssume(inKind == verifC03Issuance)
		in1.nonce, in2.nonce = nil, []byte{}
	case 5:
		verifAssume(inKind == verifC03Issuance)
		in1.assetDef, in2.assetDef = nil, []byte{}
	case 6:
		verifAssume(inKind == verifC03Coinbase)
		in1.arbitrary, in2.arbitrary = nil, []byte{}
	case 7:
		out1.program, out2.program = nil, []byte{}
	case 8:
		out1.stateData, out2.stateData = nil, [][]byte{}
	case 9:
		out1.stateData, out2.stateData = [][]byte{nil}, [][]byte{{}}
	default:
		verifAssume(outKind == 1)
		out1.vote, out2.vote = nil, []byte{}
	}
	version, timeRange := verifU64("version"), verifU64("timeRange")
	tx1 := MapTx(&TxData{Version: version, TimeRange: timeRange, Inputs: []*TxInput{in1.txInput()}, Outputs: []*TxOutput{out1.txOutput()}})
	tx2 := MapTx(&TxData{Version: version, TimeRange: timeRange, Inputs: []*TxInput{in2.txInput()}, Outputs: []*TxOutput{out2.txOutput()}})
	verifObserveU64("id1", tx1.ID.V0)
	verifObserveU64("id2", tx2.ID.V0)
	verifAssert(tx1.ID == tx2.ID, "nil-and-empty-field-same-id")
	verifReach("VerifC03NilEmpty:end")
}

// VerifC03Adjacent: two transactions identical except for the neighbouring
// variable-length fields of output 0 -- control program, vote key (vote
// outputs) and state data -- each of which is, independently on both sides,
// nil, empty non-nil or one arbitrary byte (state data: nil list, one empty
// item, one 1-byte item). Whenever the two outputs differ as VALUES (nil and
// empty being the same value) their ids and the tx IDs differ; this includes
// program nil + state [[x]] against program [y] + no state, and program nil +
// vote K against program K + vote nil. pa, pb: the program option of each side.
func VerifC03Adjacent(outKind int, pa int, pb int) {
	in := verifC03NewIn(verifC03Spend, 0)
	a := verifC03NewOut(outKind, 0)
	b := a
	va, vb := 0, 0
	if outKind == 1 {
		va, vb = verifChoice("voteOpt", 3), verifChoice("voteOpt'", 3)
	}
	sa, sb := verifChoice("stateOpt", 3), verifChoice("stateOpt'", 3)
	a.program, b.program = verifC03Opt("outProgram", pa), verifC03Opt("outProgram'", pb)
	a.vote, b.vote = verifC03Opt("outVote", va), verifC03Opt("outVote'", vb)
	a.stateData, b.stateData = verifC03OptList("outState", sa), verifC03OptList("outState'", sb)
	if len(a.program) > 0 {
		verifAssume(a.program[0] != 0x6a) // not a retirement (KF-C03-RETIREMENT)
	}
	if len(b.program) > 0 {
		verifAssume(b.program[0] != 0x6a)
	}
	// the two outputs differ as values: some length differs, or one of the bytes present on both sides differs
	sameShape := len(a.program) == len(b.program) && len(a.vote) == len(b.vote) && len(a.stateData) == len(b.stateData)
	if sameShape && len(a.stateData) == 1 {
		sameShape = len(a.stateData[0]) == len(b.stateData[0])
	}
	if sameShape {
		var xs, ys []byte
		xs, ys = append(xs, a.program...), append(ys, b.program...)
		xs, ys = append(xs, a.vote...), append(ys, b.vote...)
		if len(a.stateData) == 1 {
			xs, ys = append(xs, a.stateData[0]...), append(ys, b.stateData[0]...)
		}
		verifAssume(len(xs) > 0)
		k := verifChoice("differsAt", len(xs))
		verifAssume(xs[k] != ys[k])
	}
	version, timeRange := verifU64("version"), verifU64("timeRange")
	tx1 := MapTx(&TxData{Version: version, TimeRange: timeRange, Inputs: []*TxInput{in.txInput()}, Outputs: []*TxOutput{a.txOutput()}})
	tx2 := MapTx(&TxData{Version: version, TimeRange: timeRange, Inputs: []*TxInput{in.txInput()}, Outputs: []*TxOutput{b.txOutput()}})
	verifObserveU64("id1", tx1.ID.V0)
	verifObserveU64("id2", tx2.ID.V0)
	verifAssert(tx1.ID != tx2.ID, "different-output-values-different-id")
	verifAssert(*tx1.ResultIds[0] != *tx2.ResultIds[0], "different-output-values-different-output-id")
	verifReach("VerifC03Adjacent:end")
}
