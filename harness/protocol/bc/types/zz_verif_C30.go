package types

// C30: Merkle inclusion proofs. The real GetTxMerkleTreeProof /
// ValidateTxMerkleTreeProof / TxMerkleRoot (with buildMerkleTree,
// getMerkleTreeProof, getMerkleRootByProof, container/list, set.v0) run on a
// list of n arbitrary transaction ids and a chosen subset of it.

//verif:property C30
//verif:bound lists of n = 0..4 arbitrary 256-bit transaction ids with every subset (one obligation per (n, subset mask)); thorough: n = 5 and 6 with a sample of 7 subsets; tampering: every single proof hash replaced by an arbitrary different hash, every single flag replaced by an arbitrary different byte, one related id replaced by an arbitrary id outside the list, an arbitrary different root
//verif:assume SHA3-256 is an uninterpreted function without collisions (leaf and interior node hashes)
//verif:assume the ids of a transaction list are pairwise distinct (a block cannot hold the same transaction twice) and the related ids are given in list order, as the callers (api.GetMerkleBlock and the SPV peer) derive them by filtering the block's transactions
//verif:assume bc.Hash.String (protobuf text form, reflection) is an injective function of the hash (solver: the 32 raw bytes as a string; native replay: the real method)
//verif:outside lists of 7..64 ids (and most subsets for 5..6); proofs forged from scratch (arbitrary hash and flag lists not derived from an honest proof by one replacement); duplicate ids in the list
//verif:override (*github.com/bytom/bytom/protocol/bc.Hash).String -> verifC30HashString
//verif:obligation fn=VerifC30Proof args=0,0;1,0;1,1;2,0;2,1;2,2;2,3;3,0;3,1;3,2;3,3;3,4;3,5;3,6;3,7 validate=10 timeout=600000 secs=3600
//verif:obligation fn=VerifC30Proof args=4,0;4,1;4,2;4,3;4,4;4,5;4,6;4,7;4,8;4,9;4,10;4,11;4,12;4,13;4,14;4,15 timeout=600000 secs=3600
//verif:obligation fn=VerifC30Twice args=2,2;3,2;3,5 validate=10 timeout=600000 secs=3600
//verif:obligation fn=VerifC30Proof args=5,1;5,16;5,21;5,31;6,9;6,32;6,63 tier=thorough timeout=600000 secs=6000

import (
	"github.com/bytom/bytom/protocol/bc"
)

func verifC30HashString(h *bc.Hash) string {
	return string(h.Bytes())
}

func verifC30Hash(name string) bc.Hash {
	return bc.Hash{V0: verifU64(name), V1: verifU64(name), V2: verifU64(name), V3: verifU64(name)}
}

func verifC30Tx(id bc.Hash) *Tx {
	return &Tx{Tx: &bc.Tx{ID: id}}
}

func verifC30CopyHashes(hs []*bc.Hash) []*bc.Hash {
	out := make([]*bc.Hash, len(hs))
	for i, h := range hs {
		c := *h
		out[i] = &c
	}
	return out
}

func VerifC30Proof(n int, mask int) {
	ids := make([]bc.Hash, n)
	for i := 0; i < n; i++ {
		ids[i] = verifC30Hash("id")
		for j := 0; j < i; j++ {
			verifAssume(ids[i] != ids[j])
		}
	}
	var txs, related []*Tx
	var bcTxs []*bc.Tx
	var relatedIDs []*bc.Hash
	for i := 0; i < n; i++ {
		tx := verifC30Tx(ids[i])
		txs = append(txs, tx)
		bcTxs = append(bcTxs, tx.Tx)
		if mask&(1<<uint(i)) != 0 {
			related = append(related, tx)
			id := ids[i]
			relatedIDs = append(relatedIDs, &id)
		}
	}

	root, err := TxMerkleRoot(bcTxs)
	verifAssert(err == nil, "root-computed")
	hashes, flags := GetTxMerkleTreeProof(txs, related)
	verifObserveI64("proofHashes", int64(len(hashes)))
	verifObserveI64("proofFlags", int64(len(flags)))
	verifObserveU64("rootV0", root.V0)

	// completeness
	ok := ValidateTxMerkleTreeProof(verifC30CopyHashes(hashes), flags, relatedIDs, root)
	verifObserveBool("valid", ok)
	verifAssert(ok, "honest-proof-validates")
	verifReach("VerifC30Proof:honest")
	verifAssert(len(flags) >= len(hashes), "one-flag-per-hash-at-least")

	// exactly one of the four tamperings per path
	section := verifChoice("section", 4)

	// a different root
	if section == 0 {
		other := verifC30Hash("otherRoot")
		verifAssume(other != root)
		verifAssert(!ValidateTxMerkleTreeProof(verifC30CopyHashes(hashes), flags, relatedIDs, other), "different-root-rejected")
		verifReach("VerifC30Proof:different-root")
	}

	// one related id replaced by an id that is not in the list
	if section == 1 && len(relatedIDs) > 0 {
		k := verifChoice("foreignAt", len(relatedIDs))
		foreign := verifC30Hash("foreign")
		for i := 0; i < n; i++ {
			verifAssume(foreign != ids[i])
		}
		rel2 := verifC30CopyHashes(relatedIDs)
		rel2[k] = &foreign
		verifAssert(!ValidateTxMerkleTreeProof(verifC30CopyHashes(hashes), flags, rel2, root), "foreign-id-rejected")
		verifReach("VerifC30Proof:foreign")
	}

	// one proof hash replaced
	if section == 2 && len(hashes) > 0 {
		k := verifChoice("tamperHashAt", len(hashes))
		h2 := verifC30CopyHashes(hashes)
		bad := verifC30Hash("badHash")
		verifAssume(bad != *hashes[k])
		h2[k] = &bad
		verifAssert(!ValidateTxMerkleTreeProof(h2, flags, relatedIDs, root), "tampered-hash-rejected")
		verifReach("VerifC30Proof:tampered-hash")
	}

	// one flag replaced
	if section == 3 && len(flags) > 0 {
		k := verifChoice("tamperFlagAt", len(flags))
		f2 := append([]uint8{}, flags...)
		bad := verifU8("badFlag")
		verifAssume(bad != flags[k])
		f2[k] = bad
		verifAssert(!ValidateTxMerkleTreeProof(verifC30CopyHashes(hashes), f2, relatedIDs, root), "tampered-flag-rejected")
		verifReach("VerifC30Proof:tampered-flag")
	}
}

// Two proofs in a row for two different lists of the same length that share
// their first transaction: the second proof must validate against the second
// list's root (proof generation must not depend on an earlier call).
func VerifC30Twice(n int, mask int) {
	build := func(tag string, first bc.Hash) ([]*Tx, []*Tx, []*bc.Tx, []*bc.Hash) {
		ids := make([]bc.Hash, n)
		ids[0] = first
		for i := 1; i < n; i++ {
			ids[i] = verifC30Hash(tag)
		}
		for i := 0; i < n; i++ {
			for j := 0; j < i; j++ {
				verifAssume(ids[i] != ids[j])
			}
		}
		var txs, related []*Tx
		var bcTxs []*bc.Tx
		var relatedIDs []*bc.Hash
		for i := 0; i < n; i++ {
			tx := verifC30Tx(ids[i])
			txs = append(txs, tx)
			bcTxs = append(bcTxs, tx.Tx)
			if mask&(1<<uint(i)) != 0 {
				related = append(related, tx)
				id := ids[i]
				relatedIDs = append(relatedIDs, &id)
			}
		}
		return txs, related, bcTxs, relatedIDs
	}
	first := verifC30Hash("first")
	txsA, relA, _, _ := build("a", first)
	GetTxMerkleTreeProof(txsA, relA)
	txsB, relB, bcB, relIDsB := build("b", first)
	rootB, err := TxMerkleRoot(bcB)
	verifAssert(err == nil, "root-computed")
	hashes, flags := GetTxMerkleTreeProof(txsB, relB)
	ok := ValidateTxMerkleTreeProof(verifC30CopyHashes(hashes), flags, relIDsB, rootB)
	verifObserveBool("valid", ok)
	verifAssert(ok, "second-proof-validates-against-its-own-root")
	verifReach("VerifC30Twice:end")
}
