package types

// C17 (i): the supermajority count. SupLink.IsMajority on a link whose ten
// signature slots have arbitrary (symbolic) lengths, against the arithmetic
// definition "more than two thirds of the n effective validators signed".

//verif:property C17
//verif:bound IsMajority: validator-set size n arbitrary in 1..10, every one of the first n signature slots empty or 1..3 arbitrary bytes (all 2^10 occupancy patterns), slots of orders >= n empty
//verif:assume IsMajority: slots with order >= n are empty (they are only ever written through verifications of effective validators, whose order is < n; that is what VerifC17SupLink in protocol/casper decides)
//verif:obligation fn=VerifC17Majority args=1;2;3;4;5;6;7;8;9;10 validate=20
//verif:obligation fn=VerifC17AddSupLink args=1;2 validate=20

import (
	"bytes"

	"github.com/bytom/bytom/consensus"
	"github.com/bytom/bytom/protocol/bc"
)

func VerifC17Majority(n int) {
	s := &SupLink{SourceHeight: verifU64("srcHeight")}
	signed := 0
	for i := 0; i < consensus.MaxNumOfValidators; i++ {
		if i < n {
			s.Signatures[i] = verifBytes("sig", 3) // length 0..3: an empty slice is "no signature"
		}
		if len(s.Signatures[i]) != 0 {
			signed++
		}
	}
	got := s.IsMajority(n)
	verifObserveBool("majority", got)
	verifObserveI64("signed", int64(signed))
	// more than two thirds: 3*signed > 2*n
	verifAssert(got == (3*signed > 2*n), "majority-iff-more-than-two-thirds")
	if got {
		verifReach("VerifC17Majority:majority")
	} else {
		verifReach("VerifC17Majority:no-majority")
	}
}

// Votes are counted per SOURCE CHECKPOINT (hash): adding a signature for the
// link from source B never lands in, nor changes, the sup link of a different
// source A - also when A and B have the same height (two checkpoints of a fork).
func VerifC17AddSupLink(nExisting int) {
	var links SupLinks
	hashes := make([]bc.Hash, nExisting)
	heights := make([]uint64, nExisting)
	for i := 0; i < nExisting; i++ {
		hashes[i] = bc.Hash{V0: verifU64("src.v0"), V1: uint64(i + 1)}
		heights[i] = verifU64("src.height")
		links.AddSupLink(heights[i], hashes[i], []byte{byte(0x10 + i)}, 0)
	}
	verifAssert(len(links) == nExisting, "one-sup-link-per-distinct-source")
	newHash := bc.Hash{V0: verifU64("new.v0"), V1: verifU64("new.v1")}
	newHeight := verifU64("new.height")
	order := verifChoice("order", consensus.MaxNumOfValidators)
	known := -1
	for i := range hashes {
		if hashes[i] == newHash {
			known = i
		}
	}
	links.AddSupLink(newHeight, newHash, []byte{0xee}, order)
	verifObserveI64("links", int64(len(links)))
	if known < 0 {
		verifAssert(len(links) == nExisting+1, "vote-for-a-new-source-opens-a-new-sup-link")
		last := links[len(links)-1]
		verifAssert(last.SourceHash == newHash && last.SourceHeight == newHeight && bytes.Equal(last.Signatures[order], []byte{0xee}), "new-sup-link-records-source-and-signature")
		verifReach("VerifC17AddSupLink:new-source")
	} else {
		verifAssert(len(links) == nExisting, "vote-for-a-known-source-extends-its-sup-link")
		verifAssert(bytes.Equal(links[known].Signatures[order], []byte{0xee}), "signature-lands-in-the-source-sup-link")
	}
	for i := 0; i < nExisting; i++ {
		if i == known {
			continue
		}
		verifAssert(links[i].SourceHash == hashes[i] && links[i].SourceHeight == heights[i], "other-sup-links-keep-their-source")
		for j := 1; j < consensus.MaxNumOfValidators; j++ {
			verifAssert(len(links[i].Signatures[j]) == 0, "other-sup-links-gain-no-signature")
		}
		verifAssert(bytes.Equal(links[i].Signatures[0], []byte{byte(0x10 + i)}), "other-sup-links-keep-their-signatures")
	}
	verifReach("VerifC17AddSupLink:end")
}
