package types

// C17 (i): the supermajority count. SupLink.IsMajority on a link whose ten
// signature slots have arbitrary (symbolic) lengths, against the arithmetic
// definition "more than two thirds of the n effective validators signed".

//verif:property C17
//verif:bound IsMajority: validator-set size n arbitrary in 1..10, every one of the first n signature slots empty or 1..3 arbitrary bytes (all 2^10 occupancy patterns), slots of orders >= n empty
//verif:assume IsMajority: slots with order >= n are empty (they are only ever written through verifications of effective validators, whose order is < n; that is what VerifC17SupLink in protocol/casper decides)
//verif:obligation fn=VerifC17Majority args=1;2;3;4;5;6;7;8;9;10 validate=20

import "github.com/bytom/bytom/consensus"

func VerifC17Majority(n int) {
	s := &SupLink{SourceHeight: verifU64("srcHeight")}
	signed := 0
	for i := 0; i < consensus.MaxNumOfValidators; i++ {
		if i < n {
			s.Signatures[i] = verifBytes("sig", 3) // length 0..3: an empty slice is "no signature"
		}
		if len(s.Signatures[i]) != 0 {
			signed++
		}
	}
	got := s.IsMajority(n)
	verifObserveBool("majority", got)
	verifObserveI64("signed", int64(signed))
	// more than two thirds: 3*signed > 2*n
	verifAssert(got == (3*signed > 2*n), "majority-iff-more-than-two-thirds")
	if got {
		verifReach("VerifC17Majority:majority")
	} else {
		verifReach("VerifC17Majority:no-majority")
	}
}
