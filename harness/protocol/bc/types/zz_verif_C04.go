package types

// C04: decode(encode(v)) == v for transactions, block headers and blocks built
// from arbitrary field contents, through the real WriteTo/readFrom and
// MarshalText/UnmarshalText code (varint/varstr/extensible-string codecs,
// bytes.Buffer, errors.Writer, encoding/hex all executed symbolically).

//verif:property C04
//verif:bound varints: every value below 2^63 (and below 2^31 for the 31-bit form)
//verif:bound transactions of 1 input (spend, issuance, veto, coinbase) x 1 output (original, vote): one field at a time ("focus", every field in turn) is wide -- an integer anywhere in 0..2^63-1, a byte string of 0..2 arbitrary bytes, a state-data / argument list of 0..2 items of 0..2 bytes -- while all other integers are arbitrary below 128 and all other byte strings / list items have the fixed length fill (0 = nil, or 1 arbitrary byte; fill 0 for issuance and veto inputs only in the thorough tier); hashes and asset ids arbitrary; this includes the three suffix fields of an input and the suffix of an output
//verif:bound block headers with 0..2 sup links (signature slots: the focus slot 0..2 bytes, the others fill bytes), witness 0..2 bytes; blocks of 0..1 transactions (thorough: 2) (spend x original, narrow fields) in the three serialisation forms
//verif:bound text form: MarshalText/UnmarshalText of a 1x1 transaction, a header with one sup link and a block with one transaction, fields narrow (fill = 1), hashes and asset ids fixed constants; the block forms run with sync.Pool handing back the object Put last (pool=reuse), once directly and once with an unrelated longer block serialisation between decoding and comparing/re-encoding; the transaction and header forms run a second time the same way (pool=reuse, unrelated serialisation in between)
//verif:assume well-formed means: every integer field is below 2^63 (the writer rejects larger ones), asset version 1 and VM version 1 (the decoder rejects others), an issuance input carries the asset id computed from its own definition (as NewIssuanceInput does)
//verif:assume SHA3-256 is an uninterpreted function without collisions (asset id of an issuance input, transaction ID)
//verif:assume equality of values is modulo nil == empty for byte strings and lists (the decoders return nil for length 0)
//verif:outside the JSON forms of the RPC layer (encoding/json reflection); wider shapes (more inputs/outputs, several wide fields at once)
//verif:obligation fn=VerifC04Varint args=0 validate=20
//verif:obligation fn=VerifC04Tx args=0,0,0,0;0,0,0,1;0,0,1,0;0,0,1,1;1,1,1,0;1,1,1,1;2,0,1,0;2,0,1,1;3,1,0,0;3,1,0,1;3,1,1,0;3,1,1,1 maps=lazy timeout=600000 secs=3600 validate=10
//verif:obligation fn=VerifC04Tx args=1,1,0,0;1,1,0,1;2,0,0,0;2,0,0,1 tier=thorough maps=lazy timeout=600000 secs=6000
//verif:obligation fn=VerifC04Header args=0,0;1,0;1,1;2,1 timeout=600000 secs=3600 validate=10
//verif:obligation fn=VerifC04Block args=0,1;1,1;1,2;1,3 maps=lazy timeout=600000 secs=3600 validate=10
//verif:obligation fn=VerifC04Block args=2,3 tier=thorough maps=lazy timeout=600000 secs=6000
//verif:obligation fn=VerifC04Text args=0;1 maps=lazy idx=ite timeout=600000 secs=3600 validate=10
//verif:obligation fn=VerifC04Text args=2;3;4;5 maps=lazy idx=ite pool=reuse timeout=600000 secs=3600

import (
	"bytes"

	"github.com/bytom/bytom/encoding/blockchain"
	"github.com/bytom/bytom/protocol/bc"
)

func VerifC04Varint(_ int) {
	v := verifU64("v")
	verifAssume(v < 1<<63)
	var buf bytes.Buffer
	n, err := blockchain.WriteVarint63(&buf, v)
	verifAssert(err == nil, "varint63-written")
	verifAssert(n == buf.Len(), "varint63-length-reported")
	verifObserveI64("n", int64(n))
	r := blockchain.NewReader(buf.Bytes())
	v2, err := blockchain.ReadVarint63(r)
	verifAssert(err == nil && v2 == v, "varint63-round-trip")
	verifAssert(r.Len() == 0, "varint63-consumed")

	w := verifU64("w")
	verifAssume(w < 1<<31)
	var buf2 bytes.Buffer
	_, err = blockchain.WriteVarint31(&buf2, w)
	verifAssert(err == nil, "varint31-written")
	r2 := blockchain.NewReader(buf2.Bytes())
	w2, err := blockchain.ReadVarint31(r2)
	verifAssert(err == nil && uint64(w2) == w && r2.Len() == 0, "varint31-round-trip")
	verifReach("VerifC04Varint:end")
}

// field generator: the focus-th field drawn is wide, the others narrow
type verifC04Gen struct {
	n, focus, fill int
	hashes         int
	fixedHashes    bool // hashes and asset ids are constants (text harness: keeps the hex layer small)
}

func (g *verifC04Gen) hash(name string) bc.Hash {
	if g.fixedHashes {
		g.hashes++
		return bc.Hash{V0: uint64(g.hashes), V1: 0x0102030405060708, V2: 0xfffefdfcfbfaf9f8, V3: 0x8000000000000001}
	}
	return verifC04Hash(name)
}

func (g *verifC04Gen) wide() bool {
	g.n++
	return g.n-1 == g.focus
}

func (g *verifC04Gen) u63(name string) uint64 {
	v := verifU64(name)
	if g.wide() {
		verifAssume(v < 1<<63)
	} else {
		verifAssume(v < 128)
	}
	return v
}

func (g *verifC04Gen) bytes(name string) []byte {
	if g.wide() {
		return verifBytes(name, 2)
	}
	if g.fill == 0 {
		return nil
	}
	return verifBytesN(name, g.fill)
}

func (g *verifC04Gen) list(name string) [][]byte {
	if g.wide() {
		n := verifChoice(name+"Len", 3)
		var l [][]byte
		for i := 0; i < n; i++ {
			l = append(l, verifBytes(name, 2))
		}
		return l
	}
	if g.fill == 0 {
		return nil
	}
	return [][]byte{verifBytesN(name, g.fill)}
}

func verifC04Hash(name string) bc.Hash {
	return bc.Hash{V0: verifU64(name), V1: verifU64(name), V2: verifU64(name), V3: verifU64(name)}
}

func verifC04Input(g *verifC04Gen, kind int) *TxInput {
	var in *TxInput
	switch kind {
	case 0:
		in = NewSpendInput(g.list("arg"), g.hash("sourceID"), bc.AssetID(g.hash("asset")), g.u63("amount"), g.u63("sourcePos"), g.bytes("program"), g.list("state"))
		in.TypedInput.(*SpendInput).SpendCommitmentSuffix = g.bytes("spendCommitmentSuffix")
	case 1:
		in = NewIssuanceInput(g.bytes("nonce"), g.u63("amount"), g.bytes("issuanceProgram"), g.list("arg"), g.bytes("assetDef"))
	case 2:
		in = NewVetoInput(g.list("arg"), g.hash("sourceID"), bc.AssetID(g.hash("asset")), g.u63("amount"), g.u63("sourcePos"), g.bytes("program"), g.bytes("vote"), g.list("state"))
		in.TypedInput.(*VetoInput).VetoCommitmentSuffix = g.bytes("vetoCommitmentSuffix")
	default:
		in = NewCoinbaseInput(g.bytes("arbitrary"))
	}
	in.CommitmentSuffix = g.bytes("inputCommitmentSuffix")
	in.WitnessSuffix = g.bytes("inputWitnessSuffix")
	return in
}

func verifC04Output(g *verifC04Gen, kind int) *TxOutput {
	var out *TxOutput
	if kind == 0 {
		out = NewOriginalTxOutput(bc.AssetID(g.hash("outAsset")), g.u63("outAmount"), g.bytes("outProgram"), g.list("outState"))
	} else {
		out = NewVoteOutput(bc.AssetID(g.hash("outAsset")), g.u63("outAmount"), g.bytes("outProgram"), g.bytes("outVote"), g.list("outState"))
	}
	out.CommitmentSuffix = g.bytes("outputCommitmentSuffix")
	return out
}

func verifC04ListEq(a, b [][]byte) bool {
	if len(a) != len(b) {
		return false
	}
	for i := range a {
		if !bytes.Equal(a[i], b[i]) {
			return false
		}
	}
	return true
}

func verifC04SpendEq(a, b *SpendCommitment) bool {
	return *a.AssetId == *b.AssetId && a.Amount == b.Amount && a.SourceID == b.SourceID && a.SourcePosition == b.SourcePosition &&
		a.VMVersion == b.VMVersion && bytes.Equal(a.ControlProgram, b.ControlProgram) && verifC04ListEq(a.StateData, b.StateData)
}

// field-wise comparison of an input with its decoded copy; the labels name the part that differs
func verifC04CompareInputs(a, b *TxInput) {
	verifAssert(a.AssetVersion == b.AssetVersion, "input-asset-version-equal")
	verifAssert(bytes.Equal(a.CommitmentSuffix, b.CommitmentSuffix), "input-commitment-suffix-equal")
	verifAssert(bytes.Equal(a.WitnessSuffix, b.WitnessSuffix), "input-witness-suffix-equal")
	verifAssert(b.TypedInput != nil && a.InputType() == b.InputType(), "input-type-equal")
	switch x := a.TypedInput.(type) {
	case *SpendInput:
		y := b.TypedInput.(*SpendInput)
		verifAssert(verifC04SpendEq(&x.SpendCommitment, &y.SpendCommitment), "spend-commitment-equal")
		verifAssert(verifC04ListEq(x.Arguments, y.Arguments), "arguments-equal")
		verifKnown("KF-C04-SPENDSUFFIX", len(x.SpendCommitmentSuffix) > 0)
		verifAssert(bytes.Equal(x.SpendCommitmentSuffix, y.SpendCommitmentSuffix), "spend-commitment-suffix-equal")
	case *VetoInput:
		y := b.TypedInput.(*VetoInput)
		verifAssert(verifC04SpendEq(&x.SpendCommitment, &y.SpendCommitment), "spend-commitment-equal")
		verifAssert(verifC04ListEq(x.Arguments, y.Arguments), "arguments-equal")
		verifAssert(bytes.Equal(x.Vote, y.Vote), "veto-vote-equal")
		verifKnown("KF-C04-SPENDSUFFIX", len(x.VetoCommitmentSuffix) > 0)
		verifAssert(bytes.Equal(x.VetoCommitmentSuffix, y.VetoCommitmentSuffix), "spend-commitment-suffix-equal")
	case *IssuanceInput:
		y := b.TypedInput.(*IssuanceInput)
		verifAssert(bytes.Equal(x.Nonce, y.Nonce) && x.Amount == y.Amount && x.VMVersion == y.VMVersion, "issuance-commitment-equal")
		verifAssert(bytes.Equal(x.AssetDefinition, y.AssetDefinition) && bytes.Equal(x.IssuanceProgram, y.IssuanceProgram), "issuance-definition-equal")
		verifAssert(x.AssetID() == y.AssetID(), "issuance-asset-id-equal")
		verifAssert(verifC04ListEq(x.Arguments, y.Arguments), "arguments-equal")
	case *CoinbaseInput:
		y := b.TypedInput.(*CoinbaseInput)
		verifAssert(bytes.Equal(x.Arbitrary, y.Arbitrary), "coinbase-arbitrary-equal")
	}
}

func verifC04CompareOutputs(a, b *TxOutput) {
	verifAssert(a.AssetVersion == b.AssetVersion, "output-asset-version-equal")
	verifAssert(b.TypedOutput != nil && a.OutputType() == b.OutputType(), "output-type-equal")
	verifAssert(*a.AssetId == *b.AssetId && a.Amount == b.Amount && a.VMVersion == b.VMVersion, "output-value-equal")
	verifAssert(bytes.Equal(a.ControlProgram, b.ControlProgram), "output-program-equal")
	verifAssert(verifC04ListEq(a.StateData, b.StateData), "output-state-data-equal")
	verifAssert(bytes.Equal(a.CommitmentSuffix, b.CommitmentSuffix), "output-commitment-suffix-equal")
	if x, ok := a.TypedOutput.(*VoteOutput); ok {
		verifAssert(bytes.Equal(x.Vote, b.TypedOutput.(*VoteOutput).Vote), "output-vote-equal")
	}
}

func verifC04CompareTx(a, b *TxData) {
	verifAssert(a.Version == b.Version && a.TimeRange == b.TimeRange, "tx-header-fields-equal")
	verifAssert(len(a.Inputs) == len(b.Inputs) && len(a.Outputs) == len(b.Outputs), "tx-shape-equal")
	for i := range a.Inputs {
		verifC04CompareInputs(a.Inputs[i], b.Inputs[i])
	}
	for i := range a.Outputs {
		verifC04CompareOutputs(a.Outputs[i], b.Outputs[i])
	}
}

// VerifC04Tx: binary round trip of a 1x1 transaction; every field in turn is the wide one
// (part 0: the wide field is one of the first 8 drawn, part 1: one of the rest)
func VerifC04Tx(inKind int, outKind int, fill int, part int) {
	slots := 16
	g := &verifC04Gen{focus: 8*part + verifChoice("focus", slots/2), fill: fill}
	tx := TxData{Version: g.u63("version"), TimeRange: g.u63("timeRange")}
	tx.Inputs = []*TxInput{verifC04Input(g, inKind)}
	tx.Outputs = []*TxOutput{verifC04Output(g, outKind)}
	verifAssert(g.n <= slots, "harness-slot-count")
	verifAssume(g.focus < g.n)

	var buf bytes.Buffer
	n, err := tx.WriteTo(&buf)
	verifAssert(err == nil, "tx-written")
	enc := buf.Bytes()
	verifAssert(int(n) == len(enc), "tx-written-length-reported")
	verifObserveBytes("encoded", enc)

	var dec TxData
	r := blockchain.NewReader(append([]byte{}, enc...))
	err = dec.readFrom(r)
	verifObserveBool("decodeErr", err != nil)
	verifAssert(err == nil, "tx-decodes")
	verifAssert(r.Len() == 0, "tx-decoding-consumes-everything")
	verifAssert(dec.SerializedSize == uint64(len(enc)), "serialized-size-recorded")
	verifC04CompareTx(&tx, &dec)
	verifReach("VerifC04Tx:decoded")

	var buf2 bytes.Buffer
	_, err = dec.WriteTo(&buf2)
	verifAssert(err == nil, "tx-rewritten")
	verifKnown("KF-C04-SPENDSUFFIX", verifC04HasSpendSuffix(&tx))
	verifAssert(bytes.Equal(buf2.Bytes(), enc), "tx-re-encodes-identically")

	id1, id2 := MapTx(&tx).ID, MapTx(&dec).ID
	verifObserveU64("id", id1.V0)
	verifAssert(id1 == id2, "tx-id-preserved")
	verifReach("VerifC04Tx:end")
}

func verifC04HasSpendSuffix(tx *TxData) bool {
	for _, in := range tx.Inputs {
		switch x := in.TypedInput.(type) {
		case *SpendInput:
			if len(x.SpendCommitmentSuffix) > 0 {
				return true
			}
		case *VetoInput:
			if len(x.VetoCommitmentSuffix) > 0 {
				return true
			}
		}
	}
	return false
}

func verifC04HeaderGen(g *verifC04Gen, nSup int) BlockHeader {
	bh := BlockHeader{
		Version:           g.u63("version"),
		Height:            g.u63("height"),
		PreviousBlockHash: g.hash("prev"),
		Timestamp:         g.u63("timestamp"),
		BlockCommitment:   BlockCommitment{TransactionsMerkleRoot: g.hash("root")},
		BlockWitness:      BlockWitness(g.bytes("witness")),
	}
	for i := 0; i < nSup; i++ {
		sl := &SupLink{SourceHeight: g.u63("slHeight"), SourceHash: g.hash("slHash")}
		sl.Signatures[0] = g.bytes("sig")
		sl.Signatures[9] = g.bytes("sig")
		bh.SupLinks = append(bh.SupLinks, sl)
	}
	return bh
}

func verifC04CompareHeaders(a, b *BlockHeader) {
	verifAssert(a.Version == b.Version && a.Height == b.Height && a.Timestamp == b.Timestamp, "header-integers-equal")
	verifAssert(a.PreviousBlockHash == b.PreviousBlockHash && a.TransactionsMerkleRoot == b.TransactionsMerkleRoot, "header-hashes-equal")
	verifAssert(bytes.Equal(a.BlockWitness, b.BlockWitness), "header-witness-equal")
	verifAssert(len(a.SupLinks) == len(b.SupLinks), "header-suplink-count-equal")
	for i := range a.SupLinks {
		x, y := a.SupLinks[i], b.SupLinks[i]
		verifAssert(x.SourceHeight == y.SourceHeight && x.SourceHash == y.SourceHash, "suplink-source-equal")
		for k := range x.Signatures {
			verifAssert(bytes.Equal(x.Signatures[k], y.Signatures[k]), "suplink-signature-equal")
		}
	}
	verifAssert(a.Hash() == b.Hash(), "header-hash-preserved")
}

// VerifC04Header: binary round trip of a block header with nSup sup links
func VerifC04Header(nSup int, fill int) {
	slots := 4 + 3*nSup
	g := &verifC04Gen{focus: verifChoice("focus", slots), fill: fill}
	bh := verifC04HeaderGen(g, nSup)
	verifAssert(g.n == slots, "harness-slot-count")

	var buf bytes.Buffer
	n, err := bh.WriteTo(&buf)
	verifAssert(err == nil, "header-written")
	enc := buf.Bytes()
	verifAssert(int(n) == len(enc), "header-written-length-reported")
	verifObserveBytes("encoded", enc)

	var dec BlockHeader
	r := blockchain.NewReader(append([]byte{}, enc...))
	serflag, err := dec.readFrom(r)
	verifAssert(err == nil && serflag == SerBlockHeader, "header-decodes")
	verifAssert(r.Len() == 0, "header-decoding-consumes-everything")
	verifC04CompareHeaders(&bh, &dec)

	var buf2 bytes.Buffer
	_, err = dec.WriteTo(&buf2)
	verifAssert(err == nil && bytes.Equal(buf2.Bytes(), enc), "header-re-encodes-identically")
	verifReach("VerifC04Header:end")
}

// a spend x original transaction with narrow fields and no spend-commitment suffix (see KF-C04-SPENDSUFFIX)
func verifC04SimpleTx(g *verifC04Gen) *Tx {
	in := verifC04Input(g, 0)
	in.TypedInput.(*SpendInput).SpendCommitmentSuffix = nil
	return NewTx(TxData{
		Version:   g.u63("version"),
		TimeRange: g.u63("timeRange"),
		Inputs:    []*TxInput{in},
		Outputs:   []*TxOutput{verifC04Output(g, 0)},
	})
}

// VerifC04Block: a block of nTx transactions in the serialisation form serflag
// (1 header only, 2 transactions only, 3 full)
func VerifC04Block(nTx int, serflag int) {
	g := &verifC04Gen{focus: -1, fill: 1}
	b := &Block{BlockHeader: verifC04HeaderGen(g, 1)}
	for i := 0; i < nTx; i++ {
		b.Transactions = append(b.Transactions, verifC04SimpleTx(g))
	}
	var buf bytes.Buffer
	if serflag == SerBlockFull {
		n, err := b.WriteTo(&buf)
		verifAssert(err == nil && int(n) == buf.Len(), "block-written")
	} else {
		err := b.writeTo(&buf, uint8(serflag))
		verifAssert(err == nil, "block-written")
	}
	enc := buf.Bytes()
	verifObserveBytes("encoded", enc)

	dec := &Block{}
	r := blockchain.NewReader(append([]byte{}, enc...))
	err := dec.readFrom(r)
	verifAssert(err == nil, "block-decodes")
	verifAssert(r.Len() == 0, "block-decoding-consumes-everything")
	if serflag != SerBlockTransactions {
		verifC04CompareHeaders(&b.BlockHeader, &dec.BlockHeader)
	}
	if serflag != SerBlockHeader {
		verifAssert(len(dec.Transactions) == nTx, "block-transaction-count-equal")
		for i := range b.Transactions {
			verifC04CompareTx(&b.Transactions[i].TxData, &dec.Transactions[i].TxData)
			verifAssert(dec.Transactions[i].Tx != nil && dec.Transactions[i].ID == b.Transactions[i].ID, "block-transaction-id-preserved")
		}
	} else {
		verifAssert(len(dec.Transactions) == 0, "header-form-carries-no-transactions")
	}
	var buf2 bytes.Buffer
	err = dec.writeTo(&buf2, uint8(serflag))
	verifAssert(err == nil && bytes.Equal(buf2.Bytes(), enc), "block-re-encodes-identically")
	verifReach("VerifC04Block:end")
}

// VerifC04Text: the hex text forms (what = 0 transaction, 1 block header, 2 block, 3 block with an
// unrelated block serialisation between decoding and comparing/re-encoding)
func VerifC04Text(what int) {
	g := &verifC04Gen{focus: -1, fill: 1, fixedHashes: true}
	switch what {
	case 0:
		tx := verifC04SimpleTx(g)
		text, err := tx.MarshalText()
		verifAssert(err == nil, "tx-text-written")
		verifObserveBytes("text", text)
		dec := new(Tx)
		err = dec.UnmarshalText(text)
		verifAssert(err == nil, "tx-text-decodes")
		verifAssert(dec.SerializedSize*2 == uint64(len(text)), "serialized-size-recorded")
		verifC04CompareTx(&tx.TxData, &dec.TxData)
		verifAssert(dec.Tx != nil && dec.ID == tx.ID, "tx-id-preserved")
		text2, err := dec.MarshalText()
		verifAssert(err == nil && bytes.Equal(text, text2), "tx-text-re-encodes-identically")
	case 1:
		bh := verifC04HeaderGen(g, 1)
		text, err := bh.MarshalText()
		verifAssert(err == nil, "header-text-written")
		verifObserveBytes("text", text)
		dec := new(BlockHeader)
		err = dec.UnmarshalText(text)
		verifAssert(err == nil, "header-text-decodes")
		verifC04CompareHeaders(&bh, dec)
		text2, err := dec.MarshalText()
		verifAssert(err == nil && bytes.Equal(text, text2), "header-text-re-encodes-identically")
	case 4, 5:
		// transaction (4) / header (5) text decoded, then an unrelated longer serialisation, then compared
		filler := make([]byte, 160)
		for i := range filler {
			filler[i] = 0xaa
		}
		other := &Block{BlockHeader: BlockHeader{Version: 0x2a2a2a2a2a2a, Height: 0x2a2a2a2a2a2a, Timestamp: 0x2a2a2a2a2a2a},
			Transactions: []*Tx{NewTx(TxData{Version: 0x2a2a, Inputs: []*TxInput{NewCoinbaseInput(filler)}})}}
		if what == 4 {
			tx := verifC04SimpleTx(g)
			text, err := tx.MarshalText()
			verifAssert(err == nil, "tx-text-written")
			dec := new(Tx)
			err = dec.UnmarshalText(text)
			verifAssert(err == nil, "tx-text-decodes")
			otherText, err := other.MarshalText()
			verifAssert(err == nil && len(otherText) > len(text), "unrelated-block-text-written")
			otherTx, err := other.Transactions[0].MarshalText()
			verifAssert(err == nil && len(otherTx) > len(text), "unrelated-tx-text-written")
			verifC04CompareTx(&tx.TxData, &dec.TxData)
			text2, err := dec.MarshalText()
			verifAssert(err == nil && bytes.Equal(text, text2), "tx-text-re-encodes-identically")
		} else {
			bh := verifC04HeaderGen(g, 1)
			text, err := bh.MarshalText()
			verifAssert(err == nil, "header-text-written")
			dec := new(BlockHeader)
			err = dec.UnmarshalText(text)
			verifAssert(err == nil, "header-text-decodes")
			otherText, err := other.MarshalText()
			verifAssert(err == nil && len(otherText) > len(text), "unrelated-block-text-written")
			verifC04CompareHeaders(&bh, dec)
			text2, err := dec.MarshalText()
			verifAssert(err == nil && bytes.Equal(text, text2), "header-text-re-encodes-identically")
		}
		verifReach("VerifC04Text:after-unrelated-serialisation-tx-header")
	default:
		b := &Block{BlockHeader: verifC04HeaderGen(g, 0), Transactions: []*Tx{verifC04SimpleTx(g)}}
		text, err := b.MarshalText()
		verifAssert(err == nil, "block-text-written")
		verifObserveBytes("text", text)
		dec := new(Block)
		err = dec.UnmarshalText(text)
		verifAssert(err == nil, "block-text-decodes")
		verifC04CompareHeaders(&b.BlockHeader, &dec.BlockHeader)
		verifAssert(len(dec.Transactions) == 1, "block-transaction-count-equal")
		verifC04CompareTx(&b.Transactions[0].TxData, &dec.Transactions[0].TxData)
		verifAssert(dec.Transactions[0].ID == b.Transactions[0].ID, "block-transaction-id-preserved")
		if what == 3 {
			// an unrelated serialisation between decoding and using the decoded block: a constant block
			// whose encoding is longer than the first one and differs from it everywhere (0xaa filler)
			filler := make([]byte, 160)
			for i := range filler {
				filler[i] = 0xaa
			}
			other := &Block{BlockHeader: BlockHeader{Version: 0x2a2a2a2a2a2a, Height: 0x2a2a2a2a2a2a, Timestamp: 0x2a2a2a2a2a2a},
				Transactions: []*Tx{NewTx(TxData{Version: 0x2a2a, Inputs: []*TxInput{NewCoinbaseInput(filler)}})}}
			otherText, err := other.MarshalText()
			verifAssert(err == nil && len(otherText) > len(text), "unrelated-block-text-written")
			verifC04CompareHeaders(&b.BlockHeader, &dec.BlockHeader)
			verifC04CompareTx(&b.Transactions[0].TxData, &dec.Transactions[0].TxData)
			verifReach("VerifC04Text:after-unrelated-serialisation")
		}
		text2, err := dec.MarshalText()
		verifAssert(err == nil && bytes.Equal(text, text2), "block-text-re-encodes-identically")
	}
	verifReach("VerifC04Text:end")
}
