package protocol

// C12: out-of-order block delivery. (i) every operation of the orphan manager
// from an arbitrary small manager state satisfying its index invariant;
// (ii) Chain.saveSubBlock (the recursive connection of waiting orphans) over
// arbitrary small orphan trees hanging below an arriving block.

//verif:property C12
//verif:bound (i) manager states of exactly n orphans (n = 0..3 quick, 4 thorough) whose parents are any of 2 unknown blocks or any earlier orphan (chains, siblings, mixtures; list order = every order up to renaming of blocks), arbitrary expiration instants below 2^32 s, one operation: Add (fresh / duplicate / at the size limit), Delete, Get, GetPrevOrphans, BlockExist on an orphan hash, a parent hash or an arbitrary unknown hash, orphanExpire at an arbitrary instant
//verif:bound the size limit numOrphanBlockLimit (256 in production) is set to the number of orphans of the state in the at-the-limit obligations so that deleteLRU is reached with <= 4 orphans
//verif:assume BlockHeader.Hash is injective on the blocks of the state (solver: stub built from height and timestamp, which differ; native replay and validation vectors: the real SHA3 hash)
//verif:assume time.Now returns an arbitrary instant below 2^33 s (stub for the solver; the real clock in the native replay)
//verif:outside the expiry goroutine (orphanExpireWorker, ticker) and locking: operations are executed sequentially, as under o.mtx
//verif:override (*github.com/bytom/bytom/protocol/bc/types.BlockHeader).Hash -> verifC12HeaderHash
//verif:override time.Now -> verifC12Now
//verif:bound (ii) an arriving block P and n waiting orphans (n = 1..4 quick, 5 thorough) forming every ordered forest: the parent of each orphan is P, an unknown block or an earlier orphan (siblings, chains, grandchildren, unrelated orphans); every block's saveBlock verdict (success/failure) arbitrary but fixed per block; plus P with n = 3..5 (thorough 6) sibling orphans only
//verif:assume Chain.saveBlock is cut to its only effect on the orphan manager, mirroring its last two lines: on success OrphanManage.Delete(hash of the block) and nil, on failure an error and no effect; the same cut is compiled into the native replay (nativecut). Validation, Casper and store effects of saveBlock are outside
//verif:override (*github.com/bytom/bytom/protocol.Chain).saveBlock -> verifC12SaveBlock
//verif:nativecut block.go saveBlock -> verifC12SaveBlock
//verif:outside whole-node delivery through ProcessBlock/blockProcessor (channel + goroutine), tryReorganize and the store: the orphan bookkeeping and the recursive connection are decided, not the validity of the connected chain
//verif:bound (iii) Chain.processBlock (the synchronous body behind ProcessBlock): every block tree of n = 2..4 (quick) / 5 (thorough) valid blocks above a connected genesis (each block's parent is the genesis or an earlier block: chains, forks, >= 3 siblings) delivered in every order, each block once
//verif:assume (iii) the store is an in-memory mock whose GetBlockHeader knows exactly the genesis and the blocks saved so far; the cut saveBlock mirrors the real one at its two ends: error when the parent header is not in the store, otherwise the block is recorded in the store (c.store.SaveBlock) and removed from the orphan manager; every block is valid
//verif:assume (iii) (*casper.Casper).BestChain is cut to "hash of the highest block in the store at the moment of the call, the earliest-numbered block on ties"; Chain.tryReorganize is cut to record its argument and move c.bestBlockHeader to that block (what setState does); both cuts are also compiled into the native replay (nativecut; the casper one through a hook variable)
//verif:override (*github.com/bytom/bytom/protocol/casper.Casper).BestChain -> verifC12BestChain
//verif:nativecut casper/casper.go BestChain -> verifC12BestChain
//verif:override (*github.com/bytom/bytom/protocol.Chain).tryReorganize -> verifC12TryReorganize
//verif:nativecut block.go tryReorganize -> verifC12TryReorganize
//verif:obligation fn=VerifC12Deliver args=2;3;4 validate=12
//verif:obligation fn=VerifC12Deliver args=5 tier=thorough secs=1700
//verif:obligation fn=VerifC12Sub args=1,0;2,0;3,0;3,1;4,1 validate=12
//verif:obligation fn=VerifC12Sub args=4,0;5,1 loops=400 secs=900
//verif:obligation fn=VerifC12Sub args=5,0;6,1 tier=thorough secs=1700
//verif:obligation fn=VerifC12Op args=0,0;2,0;3,0;2,1;2,2;0,3;2,3;3,3;0,4;3,4;0,5;2,5;2,6 validate=12
//verif:obligation fn=VerifC12Op args=1,0;1,1;3,1;1,2;3,2;1,3;1,4;2,4;1,5;3,5;0,6;1,6;3,6;4,0;4,1;4,2;4,3;4,4;4,5;4,6 tier=thorough secs=1500

import (
	"errors"
	"time"

	"github.com/bytom/bytom/database/storage"
	"github.com/bytom/bytom/protocol/bc"
	"github.com/bytom/bytom/protocol/bc/types"
	"github.com/bytom/bytom/protocol/casper"
	"github.com/bytom/bytom/protocol/state"
)

func verifC12HeaderHash(bh *types.BlockHeader) bc.Hash {
	return bc.Hash{V0: bh.Height, V1: bh.Timestamp, V2: 0x5a5a}
}

func verifC12Now() time.Time {
	s := verifU64("now")
	verifAssume(s < 1<<33)
	return time.Unix(int64(s), 0)
}

type verifC12State struct {
	om      *OrphanManage
	blocks  []*types.Block
	hashes  []bc.Hash
	parents []bc.Hash
	exp     []uint64
	present []bool
}

func verifC12Outside(p int) bc.Hash { return bc.Hash{V0: uint64(p), V2: 0x1111} }

func verifC12Block(i int, parent bc.Hash) *types.Block {
	return &types.Block{BlockHeader: types.BlockHeader{Version: 1, Height: uint64(100 + i), Timestamp: uint64(7000 + i), PreviousBlockHash: parent}}
}

// verifC12Build returns an arbitrary manager state of n orphans that satisfies
// the index invariant (the state any sequence of Add/Delete can produce).
func verifC12Build(n int) *verifC12State {
	st := &verifC12State{}
	orphan := map[bc.Hash]*OrphanBlock{}
	prev := map[bc.Hash][]*bc.Hash{}
	for i := 0; i < n; i++ {
		pk := verifChoice("parent", 2+i)
		var parent bc.Hash
		if pk < 2 {
			parent = verifC12Outside(pk)
		} else {
			parent = st.hashes[pk-2]
		}
		e := verifU64("exp")
		verifAssume(e < 1<<32)
		b := verifC12Block(i, parent)
		h := b.Hash()
		orphan[h] = &OrphanBlock{Block: b, expiration: time.Unix(int64(e), 0)}
		hp := new(bc.Hash)
		*hp = h
		prev[parent] = append(prev[parent], hp)
		st.blocks = append(st.blocks, b)
		st.hashes = append(st.hashes, h)
		st.parents = append(st.parents, parent)
		st.exp = append(st.exp, e)
		st.present = append(st.present, true)
	}
	st.om = NewOrphanManageWithData(orphan, prev)
	return st
}

// verifC12Query: an orphan's hash, a parent hash, or an arbitrary unknown hash;
// idx is the orphan index or -1.
func verifC12Query(st *verifC12State, name string) (h bc.Hash, idx int) {
	n := len(st.hashes)
	k := verifChoice(name, n+4)
	if k < n {
		return st.hashes[k], k
	}
	if k < n+3 {
		return verifC12Outside(k - n), -1
	}
	return bc.Hash{V0: verifU64(name + ".v0"), V1: verifU64(name + ".v1"), V2: 0x7777, V3: verifU64(name + ".v3")}, -1
}

// verifC12Inv asserts that the manager holds exactly the orphans marked
// present, each with its own block, and that the parent index lists exactly
// them: every present orphan once under its parent, nothing else, no empty list.
func verifC12Inv(st *verifC12State) {
	om := st.om
	cnt := 0
	for i, h := range st.hashes {
		ob, ok := om.orphan[h]
		if !st.present[i] {
			verifAssert(!ok, "removed-orphan-is-gone")
			continue
		}
		cnt++
		verifAssert(ok && ob != nil && ob.Block == st.blocks[i], "kept-orphan-keeps-its-block")
		occ := 0
		for _, p := range om.prevOrphans[st.parents[i]] {
			if p != nil && *p == h {
				occ++
			}
		}
		verifAssert(occ == 1, "orphan-indexed-once-under-its-parent")
	}
	verifAssert(len(om.orphan) == cnt, "no-extra-orphans")
	for parent, lst := range om.prevOrphans {
		verifAssert(len(lst) > 0, "no-empty-index-list")
		for _, p := range lst {
			verifAssert(p != nil, "no-dangling-index-entry")
			found := false
			for i, h := range st.hashes {
				if st.present[i] && *p == h && st.parents[i] == parent {
					found = true
				}
			}
			verifAssert(found, "no-dangling-index-entry")
		}
	}
}

// op: 0 Add fresh, 1 Add duplicate, 2 Add at the size limit (deleteLRU),
// 3 Delete, 4 read-only queries, 5 Get of a hash that is not an orphan, 6 orphanExpire
func VerifC12Op(n int, op int) {
	old := numOrphanBlockLimit
	defer func() { numOrphanBlockLimit = old }()
	numOrphanBlockLimit = 256
	st := verifC12Build(n)
	om := st.om
	switch op {
	case 0, 2:
		if op == 2 {
			numOrphanBlockLimit = n
		}
		pk := verifChoice("newparent", 3+n)
		var parent bc.Hash
		if pk < 3 {
			parent = verifC12Outside(pk) // 2 is a parent nobody waits for yet
		} else {
			parent = st.hashes[pk-3]
		}
		b := verifC12Block(n, parent)
		om.Add(b)
		h := b.Hash()
		if op == 2 {
			// exactly one orphan, with the earliest expiration, made room
			gone := -1
			ngone := 0
			for i := range st.hashes {
				if !om.BlockExist(&st.hashes[i]) {
					gone = i
					ngone++
				}
			}
			verifAssert(ngone == 1, "limit-evicts-exactly-one")
			verifObserveI64("evicted", int64(ngone))
			if ngone == 1 {
				for i := range st.hashes {
					verifAssert(st.exp[gone] <= st.exp[i], "limit-evicts-earliest-expiration")
				}
				st.present[gone] = false
			}
			verifReach("VerifC12Op:evicted")
		}
		st.blocks = append(st.blocks, b)
		st.hashes = append(st.hashes, h)
		st.parents = append(st.parents, parent)
		st.present = append(st.present, true)
		verifAssert(om.BlockExist(&h), "added-block-exists")
		got, ok := om.Get(&h)
		verifAssert(ok && got == b, "added-block-returned")
		verifInv12(st)
		verifReach("VerifC12Op:added")
	case 1:
		k := verifChoice("dup", n)
		om.Add(st.blocks[k])
		verifInv12(st)
		verifReach("VerifC12Op:duplicate")
	case 3:
		h, idx := verifC12Query(st, "q")
		om.Delete(&h)
		if idx >= 0 {
			st.present[idx] = false
			verifReach("VerifC12Op:deleted")
		} else {
			verifReach("VerifC12Op:delete-unknown")
		}
		verifAssert(!om.BlockExist(&h), "deleted-block-is-gone")
		verifInv12(st)
	case 4:
		h, idx := verifC12Query(st, "q")
		verifAssert(om.BlockExist(&h) == (idx >= 0), "exist-iff-orphan")
		lst, ok := om.GetPrevOrphans(&h)
		want := 0
		for i := range st.hashes {
			if st.parents[i] == h {
				want++
				occ := 0
				for _, p := range lst {
					if *p == st.hashes[i] {
						occ++
					}
				}
				verifAssert(occ == 1, "children-list-has-each-child-once")
			}
		}
		verifAssert(ok == (want > 0) && len(lst) == want, "children-list-exact")
		verifObserveI64("children", int64(len(lst)))
		if idx >= 0 {
			b, ok := om.Get(&h)
			verifAssert(ok && b == st.blocks[idx], "get-returns-the-orphan")
			verifReach("VerifC12Op:get-present")
		}
		if want > 1 {
			verifReach("VerifC12Op:siblings")
		}
		verifInv12(st)
	case 5:
		h, idx := verifC12Query(st, "q")
		verifAssume(idx < 0)
		verifReach("VerifC12Op:get-unknown")
		verifKnown("KF-C12-GET-NIL", true)
		b, ok := om.Get(&h)
		verifAssert(!ok && b == nil, "get-unknown-reports-absent")
	case 6:
		now := verifU64("expireAt")
		verifAssume(now < 1<<33)
		om.orphanExpire(time.Unix(int64(now), 0))
		k := 0
		for i := range st.hashes {
			// an orphan expiring exactly now may go or stay (policy, not part of C12)
			if st.exp[i] < now || (st.exp[i] == now && !om.BlockExist(&st.hashes[i])) {
				st.present[i] = false
				k++
			}
		}
		verifObserveI64("expired", int64(k))
		verifInv12(st)
		if k > 0 {
			verifReach("VerifC12Op:expired")
		}
		if k < n {
			verifReach("VerifC12Op:kept")
		}
	}
	verifObserveI64("left", int64(len(om.orphan)))
}

func verifInv12(st *verifC12State) { verifC12Inv(st) }

// ---------------------------------------------------------------------------
// (ii) saveSubBlock

var errVerifC12Save = errors.New("verif: saveBlock failed")

type verifC12Env struct {
	st       *verifC12State
	fail     []bool
	attempts []int
	early    bool // a block was handed to saveBlock before its parent was saved
	saved    map[bc.Hash]bool

	// (iii)
	store  *verifC12Store
	blocks []*types.Block
	saves  int
	reorgs []bc.Hash
}

var verifC12Cur *verifC12Env

// verifC12SaveBlock is the declared cut of Chain.saveBlock (see //verif:assume).
func verifC12SaveBlock(c *Chain, block *types.Block) error {
	env := verifC12Cur
	if env.store != nil {
		// (iii): the two ends of the real saveBlock around validation
		if _, err := c.store.GetBlockHeader(&block.PreviousBlockHash); err != nil {
			return err
		}
		h := block.Hash()
		env.store.headers[h] = &block.BlockHeader
		env.saves++
		c.orphanManage.Delete(&h)
		return nil
	}
	for i, b := range env.st.blocks {
		if b == block {
			env.attempts[i]++
			if !env.saved[block.PreviousBlockHash] {
				env.early = true
			}
			if env.fail[i] {
				return errVerifC12Save
			}
		}
	}
	blockHash := block.Hash()
	env.saved[blockHash] = true
	c.orphanManage.Delete(&blockHash)
	return nil
}

// shape 0: arbitrary ordered forest; shape 1: n siblings waiting for P
func VerifC12Sub(n int, shape int) {
	top := verifC12Block(50, verifC12Outside(9))
	topHash := top.Hash()
	st := &verifC12State{}
	orphan := map[bc.Hash]*OrphanBlock{}
	prev := map[bc.Hash][]*bc.Hash{}
	env := &verifC12Env{st: st, saved: map[bc.Hash]bool{topHash: true}}
	parentIdx := []int{} // -1 = P, -2 = unknown block, else orphan index
	for i := 0; i < n; i++ {
		pk := 0
		if shape == 0 {
			pk = verifChoice("parent", 2+i)
		}
		var parent bc.Hash
		switch {
		case pk == 0:
			parent = topHash
			parentIdx = append(parentIdx, -1)
		case pk == 1:
			parent = verifC12Outside(1)
			parentIdx = append(parentIdx, -2)
		default:
			parent = st.hashes[pk-2]
			parentIdx = append(parentIdx, pk-2)
		}
		b := verifC12Block(i, parent)
		h := b.Hash()
		orphan[h] = &OrphanBlock{Block: b, expiration: time.Unix(int64(1000+i), 0)}
		hp := new(bc.Hash)
		*hp = h
		prev[parent] = append(prev[parent], hp)
		st.blocks = append(st.blocks, b)
		st.hashes = append(st.hashes, h)
		st.parents = append(st.parents, parent)
		st.present = append(st.present, true)
		env.fail = append(env.fail, verifBool("fail"))
		env.attempts = append(env.attempts, 0)
	}
	st.om = NewOrphanManageWithData(orphan, prev)
	verifC12Cur = env
	c := &Chain{orphanManage: st.om}

	// known finding: a block with >= 3 waiting children of which one that is
	// followed by at least two more in the list is connected successfully
	region := false
	for x := -1; x < n; x++ {
		after := 0
		for i := n - 1; i >= 0; i-- {
			if parentIdx[i] != x {
				continue
			}
			if after >= 2 && !env.fail[i] {
				region = true
			}
			after++
		}
	}
	verifKnown("KF-C12-SIBLING-SKIP", region)

	c.saveSubBlock(top)

	// what in-order delivery would have done
	ready := make([]bool, n)
	for i := 0; i < n; i++ {
		switch {
		case parentIdx[i] == -1:
			ready[i] = true
		case parentIdx[i] >= 0:
			ready[i] = ready[parentIdx[i]] && !env.fail[parentIdx[i]]
		}
	}
	connected := 0
	for i := 0; i < n; i++ {
		verifObserveI64("attempts", int64(env.attempts[i]))
		if ready[i] {
			verifAssert(env.attempts[i] >= 1, "orphan-with-known-parent-is-processed")
			verifAssert(env.attempts[i] <= 1, "orphan-processed-at-most-once")
			if !env.fail[i] {
				st.present[i] = false
				connected++
			}
		} else {
			verifAssert(env.attempts[i] == 0, "orphan-with-unknown-parent-is-kept")
		}
	}
	verifAssert(!env.early, "parent-connected-before-child")
	verifC12Inv(st)
	verifObserveI64("left", int64(len(st.om.orphan)))
	if connected >= 2 {
		verifReach("VerifC12Sub:connected-two-or-more")
	}
	if connected < n {
		verifReach("VerifC12Sub:some-left")
	}
	verifReach("VerifC12Sub:end")
}

// ---------------------------------------------------------------------------
// (iii) processBlock: every delivery order of small block trees

var errVerifC12NoHeader = errors.New("verif: header not in store")

type verifC12Store struct {
	headers map[bc.Hash]*types.BlockHeader
}

func (s *verifC12Store) GetBlockHeader(h *bc.Hash) (*types.BlockHeader, error) {
	if bh, ok := s.headers[*h]; ok {
		return bh, nil
	}
	return nil, errVerifC12NoHeader
}
func (s *verifC12Store) BlockExist(h *bc.Hash) bool                      { _, ok := s.headers[*h]; return ok }
func (s *verifC12Store) GetBlock(*bc.Hash) (*types.Block, error)         { panic("verif: not reached") }
func (s *verifC12Store) GetStoreStatus() *state.BlockStoreState          { panic("verif: not reached") }
func (s *verifC12Store) GetUtxo(*bc.Hash) (*storage.UtxoEntry, error)    { panic("verif: not reached") }
func (s *verifC12Store) GetMainChainHash(uint64) (*bc.Hash, error)       { panic("verif: not reached") }
func (s *verifC12Store) GetContract(hash [32]byte) ([]byte, error)       { panic("verif: not reached") }
func (s *verifC12Store) GetCheckpoint(*bc.Hash) (*state.Checkpoint, error) { panic("verif: not reached") }
func (s *verifC12Store) GetTransactionsUtxo(*state.UtxoViewpoint, []*bc.Tx) error {
	panic("verif: not reached")
}
func (s *verifC12Store) CheckpointsFromNode(uint64, *bc.Hash) ([]*state.Checkpoint, error) {
	panic("verif: not reached")
}
func (s *verifC12Store) GetCheckpointsByHeight(uint64) ([]*state.Checkpoint, error) {
	panic("verif: not reached")
}
func (s *verifC12Store) SaveCheckpoints([]*state.Checkpoint) error { panic("verif: not reached") }
func (s *verifC12Store) SaveBlock(*types.Block) error              { panic("verif: not reached") }
func (s *verifC12Store) SaveBlockHeader(*types.BlockHeader) error  { panic("verif: not reached") }
func (s *verifC12Store) SaveChainStatus(*types.BlockHeader, []*types.BlockHeader, *state.UtxoViewpoint, *state.ContractViewpoint, uint64, *bc.Hash) error {
	panic("verif: not reached")
}

// verifC12Best: the highest block among those marked, earliest-numbered on
// ties; -1 = genesis.
func verifC12Best(blocks []*types.Block, in func(i int) bool) int {
	best := -1
	var h uint64
	for i, b := range blocks {
		if in(i) && b.Height > h {
			best, h = i, b.Height
		}
	}
	return best
}

// declared cut of (*casper.Casper).BestChain
func verifC12BestChain(cs *casper.Casper) bc.Hash {
	env := verifC12Cur
	best := verifC12Best(env.blocks, func(i int) bool {
		_, ok := env.store.headers[env.blocks[i].Hash()]
		return ok
	})
	if best < 0 {
		return env.blocks[0].PreviousBlockHash // genesis (block 0 always sits on it)
	}
	return env.blocks[best].Hash()
}

// declared cut of Chain.tryReorganize
func verifC12TryReorganize(c *Chain, bestHash bc.Hash) error {
	env := verifC12Cur
	env.reorgs = append(env.reorgs, bestHash)
	bh, err := c.store.GetBlockHeader(&bestHash)
	if err != nil {
		return err
	}
	c.bestBlockHeader = bh
	return nil
}

func VerifC12Deliver(n int) {
	genesis := &types.Block{BlockHeader: types.BlockHeader{Version: 1, Height: 0, Timestamp: 6000}}
	gh := genesis.Hash()
	store := &verifC12Store{headers: map[bc.Hash]*types.BlockHeader{gh: &genesis.BlockHeader}}
	env := &verifC12Env{store: store}
	verifC12Cur = env
	// the tree: block 0 on the genesis, block i on the genesis or an earlier block
	parentIdx := make([]int, n)
	hashes := make([]bc.Hash, n)
	for i := 0; i < n; i++ {
		parentIdx[i] = -1
		ph, height := gh, uint64(1)
		if i > 0 {
			parentIdx[i] = verifChoice("parent", i+1) - 1
			if parentIdx[i] >= 0 {
				ph, height = hashes[parentIdx[i]], env.blocks[parentIdx[i]].Height+1
			}
		}
		b := &types.Block{BlockHeader: types.BlockHeader{Version: 1, Height: height, Timestamp: uint64(7000 + i), PreviousBlockHash: ph}}
		env.blocks = append(env.blocks, b)
		hashes[i] = b.Hash()
	}
	c := &Chain{orphanManage: NewOrphanManageWithData(map[bc.Hash]*OrphanBlock{}, map[bc.Hash][]*bc.Hash{}), store: store, bestBlockHeader: &genesis.BlockHeader}

	delivered := make([]bool, n)
	connected := make([]bool, n) // what in-order delivery of the delivered set gives
	for step := 0; step < n; step++ {
		// next block: the k-th not yet delivered one
		k := verifChoice("next", n-step)
		cur := -1
		for i := 0; i < n; i++ {
			if !delivered[i] {
				if k == 0 {
					cur = i
					break
				}
				k--
			}
		}
		parentConnected := parentIdx[cur] < 0 || connected[parentIdx[cur]]
		nre := len(env.reorgs)
		isOrphan, err := c.processBlock(env.blocks[cur])
		verifObserveBool("isOrphan", isOrphan)
		verifAssert(err == nil, "valid-block-accepted")
		verifAssert(isOrphan == !parentConnected, "parked-iff-parent-not-connected")
		delivered[cur] = true
		for i := 0; i < n; i++ { // indices are topological
			connected[i] = delivered[i] && (parentIdx[i] < 0 || connected[parentIdx[i]])
		}
		for i := 0; i < n; i++ {
			_, inStore := store.headers[hashes[i]]
			verifAssert(inStore == connected[i], "connected-iff-all-ancestors-delivered")
			verifAssert(c.orphanManage.BlockExist(&hashes[i]) == (delivered[i] && !connected[i]), "waiting-iff-delivered-and-not-connected")
		}
		if parentConnected {
			verifAssert(len(env.reorgs) == nre+1, "reorganisation-step-runs-once")
			best := verifC12Best(env.blocks, func(i int) bool { return connected[i] })
			if len(env.reorgs) == nre+1 {
				verifAssert(env.reorgs[nre] == hashes[best], "reorganisation-sees-released-orphans")
				verifAssert(c.bestBlockHeader == &env.blocks[best].BlockHeader, "best-block-follows")
			}
		} else {
			verifAssert(len(env.reorgs) == nre, "no-reorganisation-for-parked-block")
			verifReach("VerifC12Deliver:parked")
		}
	}
	verifAssert(env.saves == n, "every-block-saved-exactly-once")
	verifObserveI64("saves", int64(env.saves))
	verifObserveI64("reorgs", int64(len(env.reorgs)))
	if len(env.reorgs) < n {
		verifReach("VerifC12Deliver:released-orphans")
	}
	verifReach("VerifC12Deliver:end")
}
