package protocol

// C22: mempool bookkeeping. One real TxPool operation from an arbitrary pool
// state satisfying the bookkeeping invariant (the four statements of the
// property, written over the pool's own maps), for small transaction DAGs
// built with the real types.NewTx/MapTx.

//verif:property C22
//verif:bound transaction DAGs of 3 transactions from a menu of 5 shapes: chain, two-parent orphan with a child, diamond, double edge (both outputs of one parent spent by one child), competing children (two transactions spend the same output); every transaction has 1..2 inputs and 2 original outputs placed around an output that is not an OriginalOutput: layouts o-o-retirement, retirement-o-o, o-vote-o, o-o (transaction i of shape s uses layout (s+i) mod 4). Quick: four shapes for processTransaction, the two-parent shape for RemoveTransaction, competing children for ExpireOrphan; thorough: every shape for every operation, and 4 transactions for RemoveTransaction on the two-parent shape
//verif:bound pre-state: every transaction independently absent / pooled / orphaned; every external input and the outputs of every absent transaction independently confirmed in the store or not; orphan expiration instants arbitrary below 2^32 s; every orphan indexed under at least one missing input; each further missing input that is an output of a transaction of the DAG arbitrarily indexed or not (an input that was available when the orphan arrived and went missing later is not indexed - so an orphan may spend an output whose index bucket holds only other orphans); arbitrarily indexed under inputs that the store has confirmed meanwhile; all such states that satisfy the invariant
//verif:bound one operation: processTransaction of an absent transaction or of one that is currently an orphan (re-submission), RemoveTransaction of any transaction of the DAG or of an unknown hash, ExpireOrphan at an arbitrary instant
//verif:assume the store is a consistent in-memory mock: GetTransactionsUtxo puts an unspent entry into the view exactly for the confirmed outputs; it does not change during an operation
//verif:assume RemoveTransaction(tx) is only called for transactions of a block that has just been attached (protocol/block.go reorganizeChain, after setState): the mock store then holds the outputs of tx as confirmed
//verif:assume the pool limits (maxNewTxNum 10000, maxOrphanNum 2000) are not reached
//verif:assume time.Now returns an arbitrary instant below 2^33 s; event.Dispatcher.Post has no effect on the pool (stubs for the solver; the real clock and a real dispatcher without subscribers in the native replay)
//verif:outside Chain.ValidateTx (validation, dust filter, error cache), double spends between pooled transactions, the expiry goroutine and locking (operations run sequentially as under tp.mtx), spending of vote outputs (veto inputs)
//verif:override time.Now -> verifC22Now
//verif:override (*github.com/bytom/bytom/event.Dispatcher).Post -> verifC22Post
//verif:obligation fn=VerifC22Step args=0,3,0;1,3,0;2,3,0;4,3,0;1,3,1;4,3,2 validate=12 secs=1700
//verif:obligation fn=VerifC22Step args=3,3,0;0,3,1;2,3,1;3,3,1;4,3,1;0,3,2;1,3,2;2,3,2;3,3,2;1,4,1 tier=thorough secs=1700

import (
	"time"

	"github.com/bytom/bytom/consensus"
	"github.com/bytom/bytom/database/storage"
	"github.com/bytom/bytom/event"
	"github.com/bytom/bytom/protocol/bc"
	"github.com/bytom/bytom/protocol/bc/types"
	"github.com/bytom/bytom/protocol/state"
)

func verifC22Now() time.Time {
	s := verifU64("now")
	verifAssume(s < 1<<33)
	return time.Unix(int64(s), 0)
}

func verifC22Post(d *event.Dispatcher, ev interface{}) error { return nil }

// ---- mock store: only GetTransactionsUtxo is reached
type verifC22Store struct {
	confirmed map[bc.Hash]bool
}

func (s *verifC22Store) GetTransactionsUtxo(view *state.UtxoViewpoint, txs []*bc.Tx) error {
	for _, tx := range txs {
		for _, id := range tx.SpentOutputIDs {
			if s.confirmed[id] {
				view.Entries[id] = storage.NewUtxoEntry(storage.NormalUTXOType, 1, false)
			}
		}
	}
	return nil
}
func (s *verifC22Store) BlockExist(*bc.Hash) bool                             { panic("verif: not reached") }
func (s *verifC22Store) GetBlock(*bc.Hash) (*types.Block, error)              { panic("verif: not reached") }
func (s *verifC22Store) GetBlockHeader(*bc.Hash) (*types.BlockHeader, error)  { panic("verif: not reached") }
func (s *verifC22Store) GetStoreStatus() *state.BlockStoreState               { panic("verif: not reached") }
func (s *verifC22Store) GetUtxo(*bc.Hash) (*storage.UtxoEntry, error)         { panic("verif: not reached") }
func (s *verifC22Store) GetMainChainHash(uint64) (*bc.Hash, error)            { panic("verif: not reached") }
func (s *verifC22Store) GetContract(hash [32]byte) ([]byte, error)            { panic("verif: not reached") }
func (s *verifC22Store) GetCheckpoint(*bc.Hash) (*state.Checkpoint, error)    { panic("verif: not reached") }
func (s *verifC22Store) CheckpointsFromNode(uint64, *bc.Hash) ([]*state.Checkpoint, error) {
	panic("verif: not reached")
}
func (s *verifC22Store) GetCheckpointsByHeight(uint64) ([]*state.Checkpoint, error) {
	panic("verif: not reached")
}
func (s *verifC22Store) SaveCheckpoints([]*state.Checkpoint) error   { panic("verif: not reached") }
func (s *verifC22Store) SaveBlock(*types.Block) error                { panic("verif: not reached") }
func (s *verifC22Store) SaveBlockHeader(*types.BlockHeader) error    { panic("verif: not reached") }
func (s *verifC22Store) SaveChainStatus(*types.BlockHeader, []*types.BlockHeader, *state.UtxoViewpoint, *state.ContractViewpoint, uint64, *bc.Hash) error {
	panic("verif: not reached")
}

// ---- transaction DAGs. An input reference is -1 (an external output of its
// own) or 2*j+k = output k of transaction j.
var verifC22Shapes = [][][]int{
	{{-1}, {0}, {2}, {4, -1}},    // chain T0 -> T1 -> T2 -> T3 (T3 also spends an external output)
	{{-1}, {-1}, {0, 2}, {4}},    // two-parent orphan T2 (parents T0, T1) with child T3
	{{-1}, {0}, {1, -1}, {2, 4}}, // diamond T0 -> {T1, T2} -> T3
	{{-1}, {0, 1}, {2, -1}, {3}}, // double edge: both outputs of T0 spent by T1
	{{-1}, {0, -1}, {0}, {2, 4}}, // competing children: T1 and T2 both spend output 0 of T0
}

// Output layouts: where the two original outputs (o) sit relative to an output
// that is not an OriginalOutput (r = retirement, v = vote). Transaction i of
// shape s uses layout (s+i) mod 4, so every shape mixes positions.
// 0: o o r   1: r o o   2: o v o   3: o o
func verifC22Outputs(i, layout int) (outs []*types.TxOutput, origPos []int) {
	o0 := types.NewOriginalTxOutput(*consensus.BTMAssetID, uint64(100+10*i), verifC22Prog(i, 0), nil)
	o1 := types.NewOriginalTxOutput(*consensus.BTMAssetID, uint64(100+10*i+1), verifC22Prog(i, 1), nil)
	r := types.NewOriginalTxOutput(*consensus.BTMAssetID, 7, []byte{0x6a}, nil) // unspendable program: retirement entry
	v := types.NewVoteOutput(*consensus.BTMAssetID, 9, []byte{0x51, 0x52}, []byte{0xaa, 0xbb}, nil)
	switch layout {
	case 0:
		return []*types.TxOutput{o0, o1, r}, []int{0, 1}
	case 1:
		return []*types.TxOutput{r, o0, o1}, []int{1, 2}
	case 2:
		return []*types.TxOutput{o0, v, o1}, []int{0, 2}
	}
	return []*types.TxOutput{o0, o1}, []int{0, 1}
}

type verifC22World struct {
	txs      []*types.Tx
	origPos  [][]int                 // position in ResultIds of original output k of transaction j
	late     map[[2]bc.Hash]*orphanTx // (orphan id, input): missing now, was available when the orphan arrived
	inputs   [][]int
	external []bc.Hash // spent ids that no transaction of the DAG produces
	store    *verifC22Store
	tp       *TxPool
}

func verifC22Prog(i, k int) []byte { return []byte{0x51, byte(i), byte(k)} }

func verifC22Build(shape, n int) *verifC22World {
	w := &verifC22World{store: &verifC22Store{confirmed: map[bc.Hash]bool{}}, late: map[[2]bc.Hash]*orphanTx{}}
	for i := 0; i < n; i++ {
		refs := verifC22Shapes[shape][i]
		var ins []*types.TxInput
		var want []*bc.Hash
		for x, r := range refs {
			if r < 0 {
				ins = append(ins, types.NewSpendInput(nil, bc.Hash{V0: uint64(1000 + 10*i + x)}, *consensus.BTMAssetID, uint64(900+10*i+x), 0, []byte{0x51}, nil))
				want = append(want, nil)
				continue
			}
			j, k := r/2, r%2
			p := w.txs[j]
			pos := w.origPos[j][k]
			out, err := p.OriginalOutput(*p.ResultIds[pos])
			if err != nil {
				panic("verif: harness DAG wiring")
			}
			ins = append(ins, types.NewSpendInput(nil, *out.Source.Ref, *consensus.BTMAssetID, uint64(100+10*j+k), uint64(pos), verifC22Prog(j, k), nil))
			want = append(want, p.ResultIds[pos])
		}
		outs, origPos := verifC22Outputs(i, (shape+i)%4)
		w.origPos = append(w.origPos, origPos)
		tx := types.NewTx(types.TxData{Version: 1, SerializedSize: uint64(200 + i), Inputs: ins, Outputs: outs})
		for x, id := range want {
			if id == nil {
				w.external = append(w.external, tx.SpentOutputIDs[x])
			} else if tx.SpentOutputIDs[x] != *id {
				panic("verif: harness DAG wiring")
			}
		}
		w.txs = append(w.txs, tx)
		w.inputs = append(w.inputs, refs)
	}
	return w
}

func (w *verifC22World) waits(tp *TxPool, s bc.Hash) bool {
	return !w.store.confirmed[s] && tp.utxo[s] == nil
}

// verifC22Inv: the four statements of C22 over the pool's own maps.
func verifC22Inv(w *verifC22World) {
	tp := w.tp
	// (1) the output index lists exactly the original outputs of pooled transactions
	for id, tx := range tp.utxo {
		d, ok := tp.pool[tx.ID]
		verifAssert(ok && d.Tx == tx, "indexed-output-belongs-to-pooled-tx")
		found := false
		for _, r := range tx.ResultIds {
			if *r == id {
				found = true
			}
		}
		verifAssert(found, "indexed-output-is-an-output-of-its-tx")
	}
	for id, d := range tp.pool {
		verifAssert(d != nil && d.Tx != nil && d.Tx.ID == id, "pool-keyed-by-tx-id")
		for _, r := range d.Tx.ResultIds {
			if _, err := d.Tx.OriginalOutput(*r); err == nil {
				verifAssert(tp.utxo[*r] == d.Tx, "pooled-output-is-indexed")
			}
		}
		// (3) never both pooled and orphaned
		_, both := tp.orphans[id]
		verifAssert(!both, "not-both-pooled-and-orphaned")
	}
	// (2) every orphan is indexed under each output it still waits for
	for id, o := range tp.orphans {
		verifAssert(o != nil && o.TxDesc != nil && o.Tx.ID == id, "orphans-keyed-by-tx-id")
		waiting := false
		for _, s := range o.Tx.SpentOutputIDs {
			if w.waits(tp, s) {
				waiting = true
				if w.late[[2]bc.Hash{id, s}] == o {
					continue // same orphan record as before the step; the input went missing after its arrival
				}
				e := tp.orphansByPrev[s][id]
				verifAssert(e != nil && e.Tx == o.Tx, "orphan-indexed-under-each-missing-output")
			}
		}
		// (4) promoted as soon as every parent is available
		verifAssert(waiting, "orphan-with-all-parents-available-is-promoted")
	}
	// (2) no dangling index entries
	for s, m := range tp.orphansByPrev {
		verifAssert(len(m) > 0, "no-empty-orphan-index-entry")
		for id, o := range m {
			// the entry must refer to a transaction that is still an orphan (after a
			// re-submission the record under a confirmed input may be the older one)
			cur := tp.orphans[id]
			verifAssert(o != nil && cur != nil && cur.Tx == o.Tx && o.Tx.ID == id, "no-dangling-orphan-index-entry")
			spends := false
			if o != nil {
				for _, x := range o.Tx.SpentOutputIDs {
					if x == s {
						spends = true
					}
				}
			}
			verifAssert(spends, "orphan-indexed-only-under-its-inputs")
		}
	}
}

// verifC22State builds an arbitrary pool state over the DAG that satisfies the
// invariant. status: 0 absent, 1 pooled, 2 orphan.
func verifC22State(w *verifC22World) []int {
	n := len(w.txs)
	tp := &TxPool{
		store:           w.store,
		pool:            map[bc.Hash]*TxDesc{},
		utxo:            map[bc.Hash]*types.Tx{},
		orphans:         map[bc.Hash]*orphanTx{},
		orphansByPrev:   map[bc.Hash]map[bc.Hash]*orphanTx{},
		eventDispatcher: event.NewDispatcher(),
	}
	w.tp = tp
	status := make([]int, n)
	for _, e := range w.external {
		if verifBool("extConfirmed") {
			w.store.confirmed[e] = true
		}
	}
	for i, tx := range w.txs {
		status[i] = verifChoice("status", 3)
		switch status[i] {
		case 0:
			// mined earlier or never seen
			if verifBool("mined") {
				for _, r := range tx.ResultIds {
					w.store.confirmed[*r] = true
				}
			}
		case 1:
			tp.pool[tx.ID] = &TxDesc{Tx: tx, Weight: tx.SerializedSize, Height: 5, Fee: 1}
			for _, r := range tx.ResultIds {
				if _, err := tx.OriginalOutput(*r); err == nil {
					tp.utxo[*r] = tx
				}
			}
		}
	}
	for i, tx := range w.txs {
		if status[i] != 2 {
			continue
		}
		e := verifU64("orphanExp")
		verifAssume(e < 1<<32)
		o := &orphanTx{TxDesc: &TxDesc{Tx: tx, Weight: tx.SerializedSize, Height: 5, Fee: 1}, expiration: time.Unix(int64(e), 0)}
		tp.orphans[tx.ID] = o
		waiting := false
		for x, s := range tx.SpentOutputIDs {
			idx := false
			if w.waits(tp, s) {
				// an orphan is indexed under the inputs that were missing when it
				// arrived; an input that became missing later (its creator left the
				// pool without the output becoming spendable) is not indexed
				if w.inputs[i][x] >= 0 && verifBool("lateMissing") {
					w.late[[2]bc.Hash{tx.ID, s}] = o
				} else {
					waiting = true
					idx = true
				}
			} else if w.store.confirmed[s] {
				// still indexed under an input that a block confirmed meanwhile
				idx = verifBool("staleIndex")
			}
			if idx {
				if tp.orphansByPrev[s] == nil {
					tp.orphansByPrev[s] = map[bc.Hash]*orphanTx{}
				}
				tp.orphansByPrev[s][tx.ID] = o
			}
		}
		verifAssume(waiting) // orphaned by (and indexed under) at least one input that was missing on arrival
	}
	return status
}

// op: 0 processTransaction, 1 RemoveTransaction, 2 ExpireOrphan
// verifC22Indexed: for transaction i and its input x, is there an index entry
// orphansByPrev[input][id of i]?
func verifC22Indexed(w *verifC22World) [][]bool {
	var out [][]bool
	for _, t := range w.txs {
		var row []bool
		for _, s := range t.SpentOutputIDs {
			_, ok := w.tp.orphansByPrev[s][t.ID]
			row = append(row, ok)
		}
		out = append(out, row)
	}
	return out
}

// verifC22IndexFrame: the index entries of the transactions marked keep are
// exactly those of before; the others have none left.
func verifC22IndexFrame(w *verifC22World, before [][]bool, keep []bool) {
	after := verifC22Indexed(w)
	for i := range w.txs {
		for x := range after[i] {
			if keep[i] {
				verifAssert(after[i][x] == before[i][x], "index-entries-of-other-orphans-untouched")
			} else {
				verifAssert(!after[i][x], "removed-orphan-leaves-no-index-entry")
			}
		}
	}
}

func VerifC22Step(shape, n, op int) {
	w := verifC22Build(shape, n)
	status := verifC22State(w)
	tp := w.tp
	indexed := verifC22Indexed(w)
	keep := make([]bool, n)
	for i := range keep {
		keep[i] = true
	}
	for i, t := range w.txs {
		for x, s := range t.SpentOutputIDs {
			if status[i] == 2 && !indexed[i][x] && len(tp.orphansByPrev[s]) == 1 {
				// an orphan spends an output whose index bucket holds only another orphan
				verifReach("VerifC22Step:foreign-single-bucket")
			}
		}
	}
	switch op {
	case 0:
		k := verifChoice("submit", n)
		verifAssume(status[k] != 1)
		tx := w.txs[k]
		missing := 0
		for x, s := range tx.SpentOutputIDs {
			dup := false
			for _, y := range tx.SpentOutputIDs[:x] {
				if y == s {
					dup = true
				}
			}
			if !dup && w.waits(tp, s) {
				missing++
			}
		}
		// known finding: checkOrphanUtxos returns the LAST spent id once per missing
		// input; wrong as soon as an input other than the last one is missing
		last := tx.SpentOutputIDs[len(tx.SpentOutputIDs)-1]
		wrongIndex := false
		for _, s := range tx.SpentOutputIDs {
			if s != last && w.waits(tp, s) {
				wrongIndex = true
			}
		}
		verifKnown("KF-C22-LOOPVAR", wrongIndex)
		isOrphan, err := tp.processTransaction(tx, 7, 3)
		verifObserveBool("isOrphan", isOrphan)
		verifAssert(err == nil, "submission-accepted")
		verifAssert(isOrphan == (missing > 0), "orphan-iff-some-input-missing")
		_, pooled := tp.pool[tx.ID]
		_, orphaned := tp.orphans[tx.ID]
		verifAssert(pooled == !isOrphan && orphaned == isOrphan, "submitted-tx-is-pooled-or-orphaned")
		verifC22Inv(w)
		if isOrphan {
			verifReach("VerifC22Step:became-orphan")
		} else {
			verifReach("VerifC22Step:pooled")
			promoted := 0
			for i, t := range w.txs {
				if _, ok := tp.pool[t.ID]; ok && status[i] == 2 && i != k {
					promoted++
				}
			}
			verifObserveI64("promoted", int64(promoted))
			if promoted >= 1 {
				verifReach("VerifC22Step:promoted-orphan")
			}
			if promoted >= 2 {
				verifReach("VerifC22Step:promoted-chain")
			}
		}
	case 1:
		k := verifChoice("remove", n+1)
		var h bc.Hash
		if k < n {
			h = w.txs[k].ID
		} else {
			h = bc.Hash{V0: verifU64("unknown.v0"), V1: 0x7777}
		}
		tp.RemoveTransaction(&h)
		if k < n && status[k] == 1 {
			for _, r := range w.txs[k].ResultIds {
				w.store.confirmed[*r] = true
			}
			verifReach("VerifC22Step:removed")
		}
		_, still := tp.pool[h]
		verifAssert(!still, "removed-tx-not-pooled")
		for i, t := range w.txs {
			if i != k {
				_, ok := tp.pool[t.ID]
				verifAssert(ok == (status[i] == 1), "other-pooled-txs-untouched")
			}
			_, ok := tp.orphans[t.ID]
			verifAssert(ok == (status[i] == 2), "orphans-untouched-by-removal")
		}
		verifC22IndexFrame(w, indexed, keep)
		verifC22Inv(w)
	case 2:
		now := verifU64("expireAt")
		verifAssume(now < 1<<33)
		exp := make([]bool, n)
		for i, t := range w.txs {
			if status[i] == 2 {
				exp[i] = tp.orphans[t.ID].expiration.Before(time.Unix(int64(now), 0))
			}
		}
		tp.ExpireOrphan(time.Unix(int64(now), 0))
		k := 0
		for i, t := range w.txs {
			_, ok := tp.orphans[t.ID]
			verifAssert(ok == (status[i] == 2 && !exp[i]), "exactly-expired-orphans-removed")
			_, p := tp.pool[t.ID]
			verifAssert(p == (status[i] == 1), "pool-untouched-by-expiry")
			if exp[i] {
				k++
				keep[i] = false
			}
		}
		verifObserveI64("expired", int64(k))
		verifC22IndexFrame(w, indexed, keep)
		verifC22Inv(w)
		if k > 0 {
			verifReach("VerifC22Step:expired")
		}
	}
	verifObserveI64("pool", int64(len(tp.pool)))
	verifObserveI64("orphans", int64(len(tp.orphans)))
	verifObserveI64("utxo", int64(len(tp.utxo)))
}
