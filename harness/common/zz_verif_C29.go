package common

// C29: address and text encodings.

//verif:property C29
//verif:bound base32 (standard alphabet, padding): every byte string of 0..7 bytes
//verif:bound ConvertBits 8->5->8: every byte string of 1, 5 and 20 bytes
//verif:bound address round trip: P2WPKH (20-byte) and P2WSH (32-byte) programs on mainnet, testnet and solonet in which the last byte is arbitrary (quick; thorough: the last 2 bytes, or the first byte) and the other bytes follow the fixed pattern 11+37*i; decoding under the two other networks' parameters must fail
//verif:bound single-character corruption: such a mainnet P2WPKH address (42 characters), one position replaced by any other ASCII byte; quick: positions 0..2 (prefix, separator) and 30..41 (end of data, checksum); thorough adds positions 18..29
//verif:bound arbitrary input: DecodeAddress and Bech32Decode on every string of 9 ASCII bytes (quick), 10 (thorough)
//verif:assume strings.ToLower / ToUpper / LastIndexByte / (*strings.Builder).String are modelled by engine intrinsics that are exact on ASCII strings (standard library, not code under test); inputs are therefore restricted to bytes below 0x80
//verif:outside programs with more arbitrary bytes: the bech32 checksum is an XOR network, with all 160 program bits symbolic the round-trip query was undecided after 380 s in z3 4.8, z3 5.1 and cvc5; corruption of positions 3..17 (same reason); two or more changed characters
//verif:outside wallet/mnemonic (SHA-256, big.Int, 2048-word list), base32 stream encoder/decoder and inputs above 7 bytes, non-ASCII strings, strings longer than 10 bytes in the no-panic claim
//verif:obligation fn=VerifC29Base32 args=0;1;2;3;4;5;6;7 validate=12
//verif:obligation fn=VerifC29ConvertBits args=1;5;20 validate=12
//verif:obligation fn=VerifC29Address args=20,0,1,19;32,0,1,31;20,1,1,19;32,2,1,31;20,2,1,19 idx=ite solver=z3-bv timeout=120000 validate=12
//verif:obligation fn=VerifC29Address args=20,0,1,0;32,0,1,0;32,1,2,30;20,2,2,18 idx=ite solver=z3-bv timeout=900000 tier=thorough secs=1700
//verif:obligation fn=VerifC29Corrupt args=20,0,0,2;20,0,30,33;20,0,34,37;20,0,38,41 idx=ite solver=z3-bv timeout=120000 validate=12
//verif:obligation fn=VerifC29Corrupt args=20,0,18,21;20,0,22,25;20,0,26,29 idx=ite solver=z3-bv timeout=900000 tier=thorough secs=1700
//verif:obligation fn=VerifC29DecodeAny args=9,0 idx=ite solver=z3-bv timeout=120000 validate=12
//verif:obligation fn=VerifC29DecodeAny args=10,1 idx=ite solver=z3-bv timeout=120000 tier=thorough secs=1700 loops=100000

import (
	"bytes"

	"github.com/bytom/bytom/common/bech32"
	"github.com/bytom/bytom/consensus"
	"github.com/bytom/bytom/encoding/base32"
)

func verifC29Params(i int) *consensus.Params {
	switch i {
	case 0:
		return &consensus.MainNetParams
	case 1:
		return &consensus.TestNetParams
	}
	return &consensus.SoloNetParams
}

// VerifC29Base32: Encode then Decode of n arbitrary bytes (standard alphabet, padding).
func VerifC29Base32(n int) {
	src := verifBytesN("src", n)
	enc := base32.StdEncoding
	buf := make([]byte, enc.EncodedLen(n))
	enc.Encode(buf, src)
	verifObserveBytes("enc", buf)
	dec := make([]byte, enc.DecodedLen(len(buf)))
	m, err := enc.Decode(dec, buf)
	verifAssert(err == nil, "base32-decode-accepts-encoding")
	verifAssert(m == n, "base32-roundtrip-length")
	verifAssert(bytes.Equal(dec[:m], src), "base32-roundtrip")
	verifReach("VerifC29Base32:end")
}

// VerifC29ConvertBits: 8 -> 5 (padded) -> 8 (unpadded) is the identity on n bytes.
func VerifC29ConvertBits(n int) {
	src := verifBytesN("src", n)
	five, err := bech32.ConvertBits(src, 8, 5, true)
	verifAssert(err == nil, "convertbits-8to5-succeeds")
	verifAssert(len(five) == (n*8+4)/5, "convertbits-8to5-length")
	for _, g := range five {
		verifAssert(g < 32, "convertbits-groups-are-5-bit")
	}
	back, err := bech32.ConvertBits(five, 5, 8, false)
	verifAssert(err == nil, "convertbits-5to8-succeeds")
	verifAssert(bytes.Equal(back, src), "convertbits-roundtrip")
	verifReach("VerifC29ConvertBits:end")
}

// verifC29Prog: a size-byte program whose bytes off .. off+nsym-1 are arbitrary and
// whose other bytes follow a fixed non-repeating pattern.
func verifC29Prog(size, nsym, off int) []byte {
	prog := make([]byte, size)
	for i := range prog {
		prog[i] = byte(i*37 + 11)
	}
	copy(prog[off:], verifBytesN("prog", nsym))
	return prog
}

func verifC29New(prog []byte, param *consensus.Params) (Address, error) {
	if len(prog) == 20 {
		return NewAddressWitnessPubKeyHash(prog, param)
	}
	return NewAddressWitnessScriptHash(prog, param)
}

// VerifC29Address: program -> address -> program on network net; rejected on the others.
func VerifC29Address(size int, net int, nsym int, off int) {
	prog := verifC29Prog(size, nsym, off)
	param := verifC29Params(net)
	addr, err := verifC29New(prog, param)
	verifAssert(err == nil, "address-constructed")
	s := addr.EncodeAddress()
	verifObserveBytes("addr", []byte(s))
	verifAssert(s != "", "address-encodes")
	verifAssert(len(s) == 3+1+(size*8+4)/5+6, "address-length")
	got, err := DecodeAddress(s, param)
	verifAssert(err == nil, "address-decodes-on-its-network")
	if err != nil {
		return
	}
	verifAssert(bytes.Equal(got.ScriptAddress(), prog), "address-roundtrip-program")
	verifAssert(got.IsForNet(param), "address-decodes-on-its-network")
	if size == 20 {
		_, ok := got.(*AddressWitnessPubKeyHash)
		verifAssert(ok, "address-roundtrip-kind")
	} else {
		_, ok := got.(*AddressWitnessScriptHash)
		verifAssert(ok, "address-roundtrip-kind")
	}
	for other := 0; other < 3; other++ {
		if other != net {
			_, err := DecodeAddress(s, verifC29Params(other))
			verifAssert(err != nil, "address-rejected-on-other-network")
		}
	}
	verifReach("VerifC29Address:end")
}

// VerifC29Corrupt: one character (position posLo..posHi) of a valid address replaced by any other ASCII byte.
func VerifC29Corrupt(size int, net int, posLo int, posHi int) {
	prog := verifC29Prog(size, 1, size-1)
	param := verifC29Params(net)
	addr, _ := verifC29New(prog, param)
	s := addr.EncodeAddress()
	if s == "" {
		return
	}
	b := []byte(s)
	pos := posLo + verifChoice("pos", posHi-posLo+1)
	c := verifU8("char")
	verifAssume(c < 0x80 && c != b[pos])
	b[pos] = c
	bad := string(b)
	verifObserveBytes("bad", b)
	_, err := DecodeAddress(bad, param)
	verifAssert(err != nil, "single-character-change-rejected")
	verifReach("VerifC29Corrupt:end")
}

// VerifC29DecodeAny: arbitrary ASCII strings never panic the decoders.
func VerifC29DecodeAny(n int, net int) {
	raw := verifBytesN("s", n)
	for _, ch := range raw {
		verifAssume(ch < 0x80)
	}
	s := string(raw)
	a, err := DecodeAddress(s, verifC29Params(net))
	verifObserveBool("err", err != nil)
	if err == nil {
		verifAssert(a != nil, "decoded-address-non-nil")
		verifAssert(a.IsForNet(verifC29Params(net)), "decoded-address-on-requested-network")
		verifAssert(len(a.ScriptAddress()) == 20 || len(a.ScriptAddress()) == 32, "decoded-program-length")
	} else {
		verifReach("VerifC29DecodeAny:rejected")
	}
	_, data, err2 := bech32.Bech32Decode(s)
	verifObserveBool("err2", err2 != nil)
	if err2 == nil {
		for _, d := range data {
			verifAssert(d < 32, "bech32-decoded-groups-are-5-bit")
		}
	}
	verifReach("VerifC29DecodeAny:end")
}
