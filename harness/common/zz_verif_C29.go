package common

// C29: address and text encodings.

//verif:property C29
//verif:obligation fn=VerifC29Base32 args=0;1;2;3;4;5;6;7 validate=12
//verif:obligation fn=VerifC29ConvertBits args=1;5;20 validate=12
//verif:obligation fn=VerifC29Address args=20,0,1,0;32,1,1,31;20,2,1,19 idx=ite solver=z3-bv timeout=60000 validate=12
//verif:obligation fn=VerifC29Address args=20,0,2,0;20,0,3,8;20,0,4,16;32,0,2,15 idx=ite solver=z3-bv timeout=300000 tier=thorough secs=1700
//verif:obligation fn=VerifC29Corrupt args=20,0,1,7 idx=ite solver=z3-bv timeout=60000 validate=12
//verif:obligation fn=VerifC29DecodeAny args=9,0 idx=ite solver=z3-bv timeout=60000 validate=12

import (
	"bytes"

	"github.com/bytom/bytom/common/bech32"
	"github.com/bytom/bytom/consensus"
	"github.com/bytom/bytom/encoding/base32"
)

func verifC29Params(i int) *consensus.Params {
	switch i {
	case 0:
		return &consensus.MainNetParams
	case 1:
		return &consensus.TestNetParams
	}
	return &consensus.SoloNetParams
}

// VerifC29Base32: Encode then Decode of n arbitrary bytes (standard alphabet, padding).
func VerifC29Base32(n int) {
	src := verifBytesN("src", n)
	enc := base32.StdEncoding
	buf := make([]byte, enc.EncodedLen(n))
	enc.Encode(buf, src)
	verifObserveBytes("enc", buf)
	dec := make([]byte, enc.DecodedLen(len(buf)))
	m, err := enc.Decode(dec, buf)
	verifAssert(err == nil, "base32-decode-accepts-encoding")
	verifAssert(m == n, "base32-roundtrip-length")
	verifAssert(bytes.Equal(dec[:m], src), "base32-roundtrip")
	verifReach("VerifC29Base32:end")
}

// VerifC29ConvertBits: 8 -> 5 (padded) -> 8 (unpadded) is the identity on n bytes.
func VerifC29ConvertBits(n int) {
	src := verifBytesN("src", n)
	five, err := bech32.ConvertBits(src, 8, 5, true)
	verifAssert(err == nil, "convertbits-8to5-succeeds")
	verifAssert(len(five) == (n*8+4)/5, "convertbits-8to5-length")
	for _, g := range five {
		verifAssert(g < 32, "convertbits-groups-are-5-bit")
	}
	back, err := bech32.ConvertBits(five, 5, 8, false)
	verifAssert(err == nil, "convertbits-5to8-succeeds")
	verifAssert(bytes.Equal(back, src), "convertbits-roundtrip")
	verifReach("VerifC29ConvertBits:end")
}

// verifC29Prog: a size-byte program whose bytes off .. off+nsym-1 are arbitrary and
// whose other bytes follow a fixed non-repeating pattern.
func verifC29Prog(size, nsym, off int) []byte {
	prog := make([]byte, size)
	for i := range prog {
		prog[i] = byte(i*37 + 11)
	}
	copy(prog[off:], verifBytesN("prog", nsym))
	return prog
}

func verifC29New(prog []byte, param *consensus.Params) (Address, error) {
	if len(prog) == 20 {
		return NewAddressWitnessPubKeyHash(prog, param)
	}
	return NewAddressWitnessScriptHash(prog, param)
}

// VerifC29Address: program -> address -> program on network net; rejected on the others.
func VerifC29Address(size int, net int, nsym int, off int) {
	prog := verifC29Prog(size, nsym, off)
	param := verifC29Params(net)
	addr, err := verifC29New(prog, param)
	verifAssert(err == nil, "address-constructed")
	s := addr.EncodeAddress()
	verifObserveBytes("addr", []byte(s))
	verifAssert(s != "", "address-encodes")
	verifAssert(len(s) == 3+1+(size*8+4)/5+6, "address-length")
	got, err := DecodeAddress(s, param)
	verifAssert(err == nil, "address-decodes-on-its-network")
	if err != nil {
		return
	}
	verifAssert(bytes.Equal(got.ScriptAddress(), prog), "address-roundtrip-program")
	verifAssert(got.IsForNet(param), "address-decodes-on-its-network")
	if size == 20 {
		_, ok := got.(*AddressWitnessPubKeyHash)
		verifAssert(ok, "address-roundtrip-kind")
	} else {
		_, ok := got.(*AddressWitnessScriptHash)
		verifAssert(ok, "address-roundtrip-kind")
	}
	for other := 0; other < 3; other++ {
		if other != net {
			_, err := DecodeAddress(s, verifC29Params(other))
			verifAssert(err != nil, "address-rejected-on-other-network")
		}
	}
	verifReach("VerifC29Address:end")
}

// VerifC29Corrupt: one character of a valid address (any position) replaced by any other byte.
func VerifC29Corrupt(size int, net int, nsym int, off int) {
	prog := verifC29Prog(size, nsym, off)
	param := verifC29Params(net)
	addr, _ := verifC29New(prog, param)
	s := addr.EncodeAddress()
	if s == "" {
		return
	}
	b := []byte(s)
	pos := verifChoice("pos", len(b))
	c := verifU8("char")
	verifAssume(c != b[pos])
	b[pos] = c
	bad := string(b)
	verifObserveBytes("bad", b)
	_, err := DecodeAddress(bad, param)
	verifAssert(err != nil, "single-character-change-rejected")
	if pos >= 3 {
		verifReach("VerifC29Corrupt:data-part")
	}
	verifReach("VerifC29Corrupt:end")
}

// VerifC29DecodeAny: arbitrary ASCII strings never panic the decoders.
func VerifC29DecodeAny(n int, net int) {
	raw := verifBytesN("s", n)
	for _, ch := range raw {
		verifAssume(ch < 0x80)
	}
	s := string(raw)
	a, err := DecodeAddress(s, verifC29Params(net))
	verifObserveBool("err", err != nil)
	if err == nil {
		verifAssert(a != nil, "decoded-address-non-nil")
		verifAssert(a.IsForNet(verifC29Params(net)), "decoded-address-on-requested-network")
		verifAssert(len(a.ScriptAddress()) == 20 || len(a.ScriptAddress()) == 32, "decoded-program-length")
	} else {
		verifReach("VerifC29DecodeAny:rejected")
	}
	_, data, err2 := bech32.Bech32Decode(s)
	verifObserveBool("err2", err2 != nil)
	if err2 == nil {
		for _, d := range data {
			verifAssert(d < 32, "bech32-decoded-groups-are-5-bit")
		}
	}
	verifReach("VerifC29DecodeAny:end")
}
