package chainmgr

// C05 (network messages): decodeMessage on an arbitrary byte string, up to its
// call into go-wire.

//verif:property C05
//verif:assume go-wire's ReadBinary is a stub for the solver (returns the zero message of the requested type, consumes nothing, sets no error); the amino layer itself is outside the claim; the native replay links the real go-wire
//verif:override github.com/tendermint/go-wire.ReadBinary -> verifC05ReadBinaryStub
//verif:obligation fn=VerifC05DecodeChainMessage args=6 validate=10

import "io"

func verifC05ReadBinaryStub(o interface{}, r io.Reader, lmt int, n *int, err *error) interface{} {
	return o
}

func VerifC05DecodeChainMessage(maxLen int) {
	bz := verifBytes("msg", maxLen)
	verifKnown("KF-C05-EMPTYMSG", len(bz) == 0)
	t, _, err := decodeMessage(bz)
	verifObserveBool("err", err != nil)
	verifAssert(len(bz) == 0 || t == bz[0], "type-byte")
	verifReach("VerifC05DecodeChainMessage:end")
}
