package chainmgr

// C33: header / block sync responses over a mock Chain with a main chain of
// symbolic length and side-chain headers; locator entries, stop hash, skip
// and maxNum arbitrary.

//verif:property C33
//verif:bound main chain of exactly 1..6 headers, locator <= 2 entries, maxNum 1..6 (quick) / chain up to 10 headers, locator <= 3 entries, maxNum 1..12 (thorough); 2 side headers at arbitrary heights; each locator entry and the stop hash is a main-chain, side-chain or unknown hash, skip any uint64
//verif:assume the Chain answers consistently: GetHeaderByHeight(h) is the main-chain header at h, InMainChain(x) iff x is one of them (mock in the harness; real header hashes in the native replay)
//verif:assume BlockHeader.Hash is injective on the headers of the mock chain (solver: stub hash built from height and timestamp; native replay: the real hash)
//verif:assume maxNum >= 1 (callers pass the constants 1000 and 64)
//verif:outside the p2p message wrappers and peer.SendHeaders
//verif:override (*github.com/bytom/bytom/protocol/bc/types.BlockHeader).Hash -> verifStubHeaderHash
//verif:obligation fn=VerifC33LocateHeaders args=1,6,2;2,6,2;3,6,2;4,6,2;5,6,2;6,6,2 loops=400 validate=12
//verif:obligation fn=VerifC33LocateHeaders args=3,12,3;5,12,3;7,12,3;8,12,2;9,12,2;10,12,2 tier=thorough loops=800 secs=3000
//verif:obligation fn=VerifC33LocateBlocks args=2;5 loops=400 validate=12
//verif:assume handler level (VerifC33Handle): Peer.SendHeaders / Peer.SendBlocks are cut (they need a live connection): the stub records what would be sent and reports success; the same cut is applied to the native replay (nativecut)
//verif:override (*github.com/bytom/bytom/netsync/peers.Peer).SendHeaders -> verifC33SendHeaders
//verif:nativecut ../peers/peer.go SendHeaders -> verifC33SendHeaders
//verif:override (*github.com/bytom/bytom/netsync/peers.Peer).SendBlocks -> verifC33SendBlocks
//verif:nativecut ../peers/peer.go SendBlocks -> verifC33SendBlocks
//verif:obligation fn=VerifC33Handle args=3,0;3,1 loops=400 validate=12

import (
	"errors"

	msgs "github.com/bytom/bytom/netsync/messages"
	"github.com/bytom/bytom/netsync/peers"
	"github.com/bytom/bytom/protocol/bc"
	"github.com/bytom/bytom/protocol/bc/types"
)

var errVerifNotFound = errors.New("verif: not found")

func verifStubHeaderHash(bh *types.BlockHeader) bc.Hash {
	return bc.Hash{V0: bh.Height, V1: bh.Timestamp, V2: 0x5a5a}
}

type verifChain struct {
	main   []*types.BlockHeader
	side   []*types.BlockHeader
	blocks int
}

func (c *verifChain) BestBlockHeader() *types.BlockHeader { return c.main[len(c.main)-1] }
func (c *verifChain) LastJustifiedHeader() (*types.BlockHeader, error) {
	return c.main[0], nil
}
func (c *verifChain) BestBlockHeight() uint64 { return uint64(len(c.main) - 1) }
func (c *verifChain) GetBlockByHash(h *bc.Hash) (*types.Block, error) {
	hdr, err := c.GetHeaderByHash(h)
	if err != nil {
		return nil, err
	}
	c.blocks++
	return &types.Block{BlockHeader: *hdr}, nil
}
func (c *verifChain) GetBlockByHeight(h uint64) (*types.Block, error) {
	hdr, err := c.GetHeaderByHeight(h)
	if err != nil {
		return nil, err
	}
	return &types.Block{BlockHeader: *hdr}, nil
}
func (c *verifChain) GetHeaderByHash(h *bc.Hash) (*types.BlockHeader, error) {
	for _, x := range c.main {
		if x.Hash() == *h {
			return x, nil
		}
	}
	for _, x := range c.side {
		if x.Hash() == *h {
			return x, nil
		}
	}
	return nil, errVerifNotFound
}
func (c *verifChain) GetHeaderByHeight(h uint64) (*types.BlockHeader, error) {
	if h < uint64(len(c.main)) {
		return c.main[h], nil
	}
	return nil, errVerifNotFound
}
func (c *verifChain) InMainChain(h bc.Hash) bool {
	for _, x := range c.main {
		if x.Hash() == h {
			return true
		}
	}
	return false
}
func (c *verifChain) ProcessBlock(*types.Block) (bool, error) { return false, nil }
func (c *verifChain) ValidateTx(*types.Tx) (bool, error)      { return false, nil }

func verifC33Chain(n int) *verifChain {
	c := &verifChain{}
	for i := 0; i < n; i++ {
		c.main = append(c.main, &types.BlockHeader{Version: 1, Height: uint64(i), Timestamp: uint64(1000 + i)})
	}
	for j := 0; j < 2; j++ {
		h := verifU64("sideHeight")
		verifAssume(h >= 1 && h <= uint64(n))
		c.side = append(c.side, &types.BlockHeader{Version: 1, Height: h, Timestamp: uint64(2000 + j)})
	}
	return c
}

// verifC33Hash returns an arbitrary hash: of a main-chain header, of a
// side-chain header, or unknown; kind/height are reported for the oracle.
func verifC33Hash(c *verifChain, name string) (h bc.Hash, kind int, height uint64) {
	kind = verifChoice(name+".kind", 3)
	switch kind {
	case 0:
		i := verifU64(name + ".idx")
		verifAssume(i < uint64(len(c.main)))
		return c.main[i].Hash(), 0, i
	case 1:
		j := verifChoice(name+".side", 2)
		return c.side[j].Hash(), 1, c.side[j].Height
	}
	return bc.Hash{V0: verifU64(name + ".v0"), V1: verifU64(name + ".v1"), V2: 0x7777}, 2, 0
}

func VerifC33LocateHeaders(maxMain int, maxMaxNum int, maxLoc int) {
	c := verifC33Chain(maxMain)
	bk := &blockKeeper{chain: c}

	nLoc := verifChoice("nLoc", maxLoc+1)
	var locator []*bc.Hash
	wantStart := uint64(0) // genesis unless a main-chain locator entry exists
	found := false
	sorted := true
	prevMain := uint64(0)
	havePrev := false
	for i := 0; i < nLoc; i++ {
		h, kind, height := verifC33Hash(c, "loc")
		hh := h
		locator = append(locator, &hh)
		if kind == 0 {
			if !found {
				found = true
				wantStart = height
			}
			if havePrev && height > prevMain {
				sorted = false
			}
			prevMain, havePrev = height, true
		}
	}
	stop, stopKind, stopHeight := verifC33Hash(c, "stop")
	skip := verifU64("skip")
	maxNum := verifU64("maxNum")
	verifAssume(maxNum >= 1 && maxNum <= uint64(maxMaxNum))
	verifKnown("KF-C33-SKIPWRAP", skip >= 0xffffffffffffffff-uint64(maxMain))

	headers, err := bk.locateHeaders(locator, &stop, skip, maxNum)
	verifObserveI64("n", int64(len(headers)))
	verifObserveBool("err", err != nil)
	for _, h := range headers {
		verifObserveU64("h", h.Height)
	}

	verifAssert(uint64(len(headers)) <= maxNum, "at-most-maxnum")
	for i, h := range headers {
		verifAssert(h != nil, "non-nil-item")
		verifAssert(h.Height < uint64(len(c.main)) && c.main[h.Height] == h, "item-on-main-chain")
		if i > 0 {
			verifAssert(headers[i-1].Height < h.Height, "heights-strictly-increase")
		}
	}
	if len(headers) > 0 {
		verifAssert(headers[0].Height == wantStart, "starts-at-first-main-chain-locator-or-genesis")
		if sorted {
			// with a locator in protocol order (newest first) that entry is the highest one
			for _, l := range locator {
				for _, m := range c.main {
					if m.Hash() == *l {
						verifAssert(m.Height <= headers[0].Height, "starts-at-highest-main-chain-locator")
					}
				}
			}
		}
		verifAssert(stopKind == 0, "nonempty-only-for-main-chain-stop")
		verifAssert(headers[len(headers)-1].Height <= stopHeight, "does-not-pass-stop")
		verifReach("VerifC33LocateHeaders:nonempty")
	}
	if err == nil && stopKind == 0 && stopHeight >= wantStart {
		verifAssert(len(headers) >= 1, "valid-request-answered")
	}
	if len(headers) >= 2 {
		verifReach("VerifC33LocateHeaders:two-or-more")
	}
	verifReach("VerifC33LocateHeaders:end")
}

func VerifC33LocateBlocks(maxMain int) {
	c := verifC33Chain(maxMain)
	bk := &blockKeeper{chain: c}
	nLoc := verifChoice("nLoc", 3)
	var locator []*bc.Hash
	wantStart := uint64(0)
	found := false
	for i := 0; i < nLoc; i++ {
		h, kind, height := verifC33Hash(c, "loc")
		hh := h
		locator = append(locator, &hh)
		if kind == 0 && !found {
			found = true
			wantStart = height
		}
	}
	stop, stopKind, stopHeight := verifC33Hash(c, "stop")
	timeoutAfter := verifInt("timeoutAfter")
	calls := 0
	blocks, err := bk.locateBlocks(locator, &stop, func() bool { calls++; return calls > timeoutAfter })
	verifObserveI64("n", int64(len(blocks)))
	verifObserveBool("err", err != nil)
	verifAssert(uint64(len(blocks)) <= maxNumOfBlocksPerMsg, "at-most-maxnum")
	for i, b := range blocks {
		verifAssert(b != nil, "non-nil-item")
		verifAssert(b.Height < uint64(len(c.main)) && c.main[b.Height].Timestamp == b.Timestamp, "item-on-main-chain")
		if i > 0 {
			verifAssert(blocks[i-1].Height < b.Height, "heights-strictly-increase")
		}
	}
	if len(blocks) > 0 {
		verifAssert(blocks[0].Height == wantStart, "starts-at-first-main-chain-locator-or-genesis")
		verifAssert(stopKind == 0 && blocks[len(blocks)-1].Height <= stopHeight, "does-not-pass-stop")
		verifReach("VerifC33LocateBlocks:nonempty")
	}
	verifReach("VerifC33LocateBlocks:end")
}

// ---------------------------------------------------------------------------
// handler level: handleGetHeadersMsg / handleGetBlocksMsg on an arbitrary
// request (locator of 0..2 entries, stop hash, skip) never panic, and what they
// hand to the peer is what locateHeaders / locateBlocks produced.

var verifC33SentHeaders, verifC33SentBlocks int

func verifC33SendHeaders(p *peers.Peer, headers []*types.BlockHeader) (bool, error) {
	verifC33SentHeaders = len(headers)
	return true, nil
}

func verifC33SendBlocks(p *peers.Peer, blocks []*types.Block) (bool, error) {
	verifC33SentBlocks = len(blocks)
	return true, nil
}

func VerifC33Handle(maxMain int, which int) {
	c := verifC33Chain(maxMain)
	m := &Manager{chain: c, blockKeeper: &blockKeeper{chain: c}}
	nLoc := verifChoice("nLoc", 3)
	var locator []*bc.Hash
	for i := 0; i < nLoc; i++ {
		h, _, _ := verifC33Hash(c, "loc")
		hh := h
		locator = append(locator, &hh)
	}
	stop, _, _ := verifC33Hash(c, "stop")
	verifC33SentHeaders, verifC33SentBlocks = -1, -1
	peer := &peers.Peer{}
	if which == 0 {
		skip := verifU64("skip")
		m.handleGetHeadersMsg(peer, msgs.NewGetHeadersMessage(locator, &stop, skip))
		verifObserveI64("sentHeaders", int64(verifC33SentHeaders))
		verifAssert(verifC33SentHeaders != 0 && verifC33SentHeaders <= int(maxNumOfHeadersPerMsg), "handler-sends-a-nonempty-bounded-answer-or-nothing")
	} else {
		m.handleGetBlocksMsg(peer, msgs.NewGetBlocksMessage(locator, &stop))
		verifObserveI64("sentBlocks", int64(verifC33SentBlocks))
		verifAssert(verifC33SentBlocks != 0 && verifC33SentBlocks <= int(maxNumOfBlocksPerMsg), "handler-sends-a-nonempty-bounded-answer-or-nothing")
	}
	verifReach("VerifC33Handle:end")
}
