package consensusmgr

// C05 (network messages): consensus decodeMessage on an arbitrary byte string.

//verif:property C05
//verif:override github.com/tendermint/go-wire.ReadBinary -> verifC05ReadBinaryStub
//verif:obligation fn=VerifC05DecodeConsensusMessage args=6 validate=10

import "io"

func verifC05ReadBinaryStub(o interface{}, r io.Reader, lmt int, n *int, err *error) interface{} {
	return o
}

func VerifC05DecodeConsensusMessage(maxLen int) {
	bz := verifBytes("msg", maxLen)
	verifKnown("KF-C05-EMPTYMSG", len(bz) == 0)
	t, _, err := decodeMessage(bz)
	verifObserveBool("err", err != nil)
	verifAssert(len(bz) == 0 || t == bz[0], "type-byte")
	verifReach("VerifC05DecodeConsensusMessage:end")
}
