package messages

// C05 (network messages): the accessors that turn the raw payload of a peer
// message into headers / blocks / transactions, on arbitrary payload bytes.

//verif:property C05
//verif:bound message accessors: HeadersMessage.GetHeaders / BlocksMessage.GetBlocks with 1..2 raw items of <= 6 arbitrary bytes each, BlockMessage.GetBlock / MineBlockMessage.GetMineBlock / TransactionMessage.GetTransaction / TransactionsMessage.GetTransactions with <= 6 arbitrary bytes (text layer; the binary decoders behind it are covered by the bc/types harness on longer buffers)
//verif:assume encoding/json.Unmarshal is a contract stub for the solver: a JSON string literal without escape sequences is handed to the target's UnmarshalText, every other input is a syntax error (escaped strings, surrounding whitespace and non-string JSON values are outside the claim); the native replay links the real encoding/json
//verif:override encoding/json.Unmarshal -> verifC05JSONUnmarshal
//verif:obligation fn=VerifC05GetHeaders args=1,6;2,3 validate=10
//verif:obligation fn=VerifC05GetBlocks args=1,6;2,3 validate=10
//verif:obligation fn=VerifC05GetOne args=0,6;1,6;2,6;3,6 validate=10

import (
	"encoding"
	"errors"
)

var errVerifC05JSON = errors.New("verif: json syntax error")

func verifC05JSONUnmarshal(data []byte, v interface{}) error {
	if len(data) < 2 || data[0] != '"' || data[len(data)-1] != '"' {
		return errVerifC05JSON
	}
	inner := data[1 : len(data)-1]
	for _, c := range inner {
		if c == '"' || c == '\\' || c < 0x20 {
			return errVerifC05JSON
		}
	}
	u, ok := v.(encoding.TextUnmarshaler)
	if !ok {
		return errVerifC05JSON
	}
	return u.UnmarshalText(inner)
}

func verifC05AllocOK(n int) bool {
	return verifAllocBytes() <= 64*1024+4096*uint64(n)
}

func verifC05Raw(n int, maxLen int) ([][]byte, int) {
	var raw [][]byte
	total := 0
	for i := 0; i < n; i++ {
		b := verifBytes("raw", maxLen)
		raw = append(raw, b)
		total += len(b)
	}
	return raw, total
}

func VerifC05GetHeaders(n int, maxLen int) {
	raw, total := verifC05Raw(n, maxLen)
	m := &HeadersMessage{RawHeaders: raw}
	hs, err := m.GetHeaders()
	verifObserveBool("err", err != nil)
	verifAssert(err != nil || len(hs) == n, "one-header-per-raw-item")
	verifAssert(verifC05AllocOK(total), "alloc-bound")
	verifReach("VerifC05GetHeaders:end")
}

func VerifC05GetBlocks(n int, maxLen int) {
	raw, total := verifC05Raw(n, maxLen)
	m := &BlocksMessage{RawBlocks: raw}
	bs, err := m.GetBlocks()
	verifObserveBool("err", err != nil)
	verifAssert(err != nil || len(bs) == n, "one-block-per-raw-item")
	verifAssert(verifC05AllocOK(total), "alloc-bound")
	verifReach("VerifC05GetBlocks:end")
}

func VerifC05GetOne(kind int, maxLen int) {
	raw := verifBytes("raw", maxLen)
	var err error
	switch kind {
	case 0:
		_, err = (&BlockMessage{RawBlock: raw}).GetBlock()
	case 1:
		_, err = (&MineBlockMessage{RawBlock: raw}).GetMineBlock()
	case 2:
		_, err = (&TransactionMessage{RawTx: raw}).GetTransaction()
	case 3:
		var txs interface{}
		txs, err = (&TransactionsMessage{RawTxs: [][]byte{raw, raw}}).GetTransactions()
		_ = txs
	}
	verifObserveBool("err", err != nil)
	verifAssert(verifC05AllocOK(2*len(raw)), "alloc-bound")
	verifReach("VerifC05GetOne:end")
}
