package authn

// C36: RPC access control. The real Authenticate / tokenAuthn /
// cachedTokenAuthnCheck / localhostAuthn and the real CredentialStore.Check
// and Delete run over a map-backed dbm.DB; the oracle is the set of issued
// (id, secret) pairs, their liveness, and the instants at which the store was
// really consulted successfully (observed as reads of the mock DB).

//verif:property C36
//verif:bound token history (VerifC36Token): one issued token (thorough: optionally a second one) with id and secret of 1..2 characters each; history = warming request (user/password lengths fixed per obligation: quick 10 combinations of 0..2, thorough all 36), time d1, optionally token 0 deleted or deleted and re-issued under the same id with another secret, time d2, an intermediate request with the warming credentials, time d3, optionally token 0 deleted, time d4, final request with or without credentials, user and password of 0..2 (thorough also 0..3 for the four matching-length combinations) characters each; d1..d4 whole seconds, any value 0..65535 each; all requests from a non-loopback address
//verif:bound request classes (VerifC36Paths): every URL path of exactly n bytes for n = 0..21 (quick) / 0..26 (thorough), five remote addresses (IPv4 loopback, IPv6 loopback, private IPv4, empty, no port), with or without Basic credentials of 1 character each against one issued token
//verif:assume characters of ids, secrets, users and passwords are lower-case letters or digits (Create enforces [\w-]+ for ids and produces hex secrets; no ':' so that the Basic-auth split is unambiguous)
//verif:assume authentication is enabled (disable=false) and loopbackOn has its compiled-in value true
//verif:assume the paths /dashboard, /dashboard/..., /equity, /equity/... serve static assets and are exempt from authentication by design (comment in Authenticate); the check asserts that nothing else is exempt
//verif:assume clock: for the solver time.Now is a harness clock (whole seconds) that verifC36Pass advances; in the native replay time.Now is the real clock and verifC36Pass instead moves the lastLookup of every cache entry into the past by the same amount (equivalent for a cache that only compares now with lastLookup+5min); a request exactly 300 s after an earlier request (the boundary instant of a cache entry written then) is excluded because the real clock advances between two reads
//verif:assume encoding/json.Unmarshal of a stored token record returns the Token that was marshalled into it (solver: record looked up by buffer identity; native replay: the real JSON decoder on the real record)
//verif:assume Request.SetBasicAuth / BasicAuth round-trip user and password (solver: kept in a harness variable; native replay: the real header encoder and parser); context.WithValue is cut for the solver
//verif:outside HTTP header and base64 parsing, IP address text parsing (net.ParseIP is replaced for the solver by a table of the three host strings used and IP.IsLoopback by a copy that does not read the package variable net.IPv6loopback; SplitHostPort is the real code), CredentialStore.Create (crypto/rand, regexp, JSON encoding), LevelDB, concurrent requests (tokenMu)
//verif:override time.Now -> verifC36Now
//verif:override github.com/bytom/bytom/net/http/authn.verifC36Pass -> verifC36PassStub
//verif:override encoding/json.Unmarshal -> verifC36Unmarshal
//verif:override (*net/http.Request).SetBasicAuth -> verifC36SetBasicAuth
//verif:override (*net/http.Request).BasicAuth -> verifC36BasicAuth
//verif:override context.WithValue -> verifC36WithValue
//verif:override net.ParseIP -> verifC36ParseIP
//verif:override (net.IP).IsLoopback -> verifC36IsLoopback
//verif:obligation fn=VerifC36Token args=1,1,1,1,2,0;2,1,2,1,2,0;1,2,1,2,2,0;2,2,2,2,2,0 secs=3000 validate=12 timeout=120000
//verif:obligation fn=VerifC36Token args=1,1,0,1,2,0;1,1,1,0,2,0;1,1,2,0,2,0;1,2,2,1,2,0;2,1,1,2,2,0;1,1,0,0,2,0 secs=3000 timeout=120000
//verif:obligation fn=VerifC36Token args=1,1,0,2,2,0;1,1,1,2,2,0;1,1,2,1,2,0;1,1,2,2,2,0;1,2,0,0,2,0;1,2,0,1,2,0;1,2,0,2,2,0;1,2,1,0,2,0;1,2,1,1,2,0;1,2,2,0,2,0;1,2,2,2,2,0;2,1,0,0,2,0;2,1,0,1,2,0;2,1,0,2,2,0;2,1,1,0,2,0;2,1,1,1,2,0;2,1,2,0,2,0;2,1,2,2,2,0;2,2,0,0,2,0;2,2,0,1,2,0;2,2,0,2,2,0;2,2,1,0,2,0;2,2,1,1,2,0;2,2,1,2,2,0;2,2,2,0,2,0;2,2,2,1,2,0;1,1,1,1,3,1;1,2,1,2,3,1;2,1,2,1,3,1;2,2,2,2,3,1 tier=thorough secs=3000 paths=4000000 timeout=120000
//verif:obligation fn=VerifC36Paths args=0;1;2;3;4;5;6;7;8;9;10;11;12;13;14;15;16;17;18;19;20;21 validate=10
//verif:obligation fn=VerifC36Paths args=22;23;24;25;26 tier=thorough

import (
	"context"
	"net"
	"net/http"
	"net/url"
	"time"

	"github.com/bytom/bytom/accesstoken"
	dbm "github.com/bytom/bytom/database/leveldb"
)

// ---------------------------------------------------------------------------
// environment

type verifC36DB struct {
	m    map[string][]byte
	gets int // number of reads: how often the credential store was really consulted
}

func (d *verifC36DB) Get(k []byte) []byte         { d.gets++; return d.m[string(k)] }
func (d *verifC36DB) Set(k []byte, v []byte)      { d.m[string(k)] = v }
func (d *verifC36DB) SetSync(k []byte, v []byte)  { d.m[string(k)] = v }
func (d *verifC36DB) Delete(k []byte)             { delete(d.m, string(k)) }
func (d *verifC36DB) DeleteSync(k []byte)         { delete(d.m, string(k)) }
func (d *verifC36DB) Close()                      {}
func (d *verifC36DB) NewBatch() dbm.Batch         { return nil }
func (d *verifC36DB) Iterator() dbm.Iterator      { return nil }
func (d *verifC36DB) Print()                      {}
func (d *verifC36DB) Stats() map[string]string    { return nil }
func (d *verifC36DB) IteratorPrefix([]byte) dbm.Iterator { return nil }
func (d *verifC36DB) IteratorPrefixWithStart(Prefix, start []byte, isReverse bool) dbm.Iterator {
	return nil
}

type verifC36Record struct {
	data []byte
	tok  accesstoken.Token
}

var verifC36Records []verifC36Record

type verifC36Cred struct {
	user, pw string
	ok       bool
}

var verifC36Auth verifC36Cred

var verifC36Clock int64

func verifC36Now() time.Time { return time.Unix(1600000000+verifC36Clock, 0) }

func verifC36Unmarshal(data []byte, v interface{}) error {
	for i := range verifC36Records {
		r := &verifC36Records[i]
		if len(data) > 0 && len(r.data) == len(data) && &r.data[0] == &data[0] {
			*(v.(*accesstoken.Token)) = r.tok
			return nil
		}
	}
	return ErrInvalidToken
}

func verifC36SetBasicAuth(r *http.Request, user, pw string) {
	verifC36Auth = verifC36Cred{user, pw, true}
}

func verifC36BasicAuth(r *http.Request) (string, string, bool) {
	return verifC36Auth.user, verifC36Auth.pw, verifC36Auth.ok
}

// the three host strings of the address menu (solver only; the native replay
// runs the real parser)
func verifC36ParseIP(s string) net.IP {
	switch s {
	case "127.0.0.1":
		return net.IP{0, 0, 0, 0, 0, 0, 0, 0, 0, 0, 0xff, 0xff, 127, 0, 0, 1}
	case "192.168.1.20":
		return net.IP{0, 0, 0, 0, 0, 0, 0, 0, 0, 0, 0xff, 0xff, 192, 168, 1, 20}
	case "::1":
		return net.IP{0, 0, 0, 0, 0, 0, 0, 0, 0, 0, 0, 0, 0, 0, 0, 1}
	}
	return nil
}

// same decision as net.IP.IsLoopback without reading the package variable
// net.IPv6loopback (the engine does not run package net's initialiser)
func verifC36IsLoopback(ip net.IP) bool {
	if ip4 := ip.To4(); ip4 != nil {
		return ip4[0] == 127
	}
	return ip.Equal(net.IP{0, 0, 0, 0, 0, 0, 0, 0, 0, 0, 0, 0, 0, 0, 0, 1})
}

func verifC36WithValue(parent context.Context, key, val interface{}) context.Context {
	return parent
}

// issue stores the record Create would store for (id, secret).
func verifC36Issue(db *verifC36DB, id, secret string) {
	tok := accesstoken.Token{ID: id, Token: id + ":" + secret, Type: "client", Created: time.Time{}}
	data := []byte(`{"id":"` + id + `","token":"` + id + `:` + secret + `","type":"client","created_at":"2020-01-01T00:00:00Z"}`)
	verifC36Records = append(verifC36Records, verifC36Record{data, tok})
	db.Set([]byte(id), data)
}

var verifC36AlnumTab = func() (t [256]bool) {
	for c := '0'; c <= '9'; c++ {
		t[c] = true
	}
	for c := 'a'; c <= 'z'; c++ {
		t[c] = true
	}
	return
}()

// verifC36Str returns an arbitrary alphanumeric string of exactly n bytes.
func verifC36Str(name string, n int) string {
	b := verifBytesN(name, n)
	for _, c := range b {
		verifAssume(verifC36AlnumTab[c]) // table lookup: no fork
	}
	return string(b)
}

func verifC36HasPrefix(s, p string) bool { return len(s) >= len(p) && s[:len(p)] == p }

func verifC36Request(path, addr string, c verifC36Cred) *http.Request {
	verifC36Auth = verifC36Cred{}
	req := &http.Request{Method: "POST", URL: &url.URL{Path: path}, Header: http.Header{}, RemoteAddr: addr}
	if c.ok {
		req.SetBasicAuth(c.user, c.pw)
	}
	return req
}

// solver: d seconds pass on the harness clock
func verifC36PassStub(a *API, d int64) { verifC36Clock += d }

// native replay: d seconds pass = every cache entry moves d seconds into the past
func verifC36Pass(a *API, d int64) {
	for k, v := range a.tokenMap {
		a.tokenMap[k] = tokenResult{lastLookup: v.lastLookup.Add(-time.Duration(d) * time.Second)}
	}
}

type verifC36Token struct {
	id, secret string
	live       bool
}

// verifC36Checked: at harness time `at` the credential store was really
// consulted (DB read observed) for (user, pw) and that pair was live.
type verifC36Checked struct {
	user, pw string
	at       int64
}

type verifC36Hist struct {
	api     *API
	db      *verifC36DB
	toks    []*verifC36Token
	now     int64 // seconds since the start of the history
	checked []verifC36Checked
	reqAt   []int64 // instants of the requests so far
}

func (h *verifC36Hist) pairLive(u, p string) bool {
	for _, t := range h.toks {
		if t.live && u == t.id && p == t.secret {
			return true
		}
	}
	return false
}

// withinWindow: the pair passed a real store check less than 300 s ago.
func (h *verifC36Hist) withinWindow(u, p string) bool {
	for _, c := range h.checked {
		if c.user == u && c.pw == p && h.now-c.at < 300 {
			return true
		}
	}
	return false
}

// notAtBoundary excludes a request exactly 300 s after any earlier request
// (the only instants at which a cache entry can have been written): there the
// real clock, which advances between two reads, decides differently.
func (h *verifC36Hist) notAtBoundary() {
	for _, t := range h.reqAt {
		verifAssume(h.now-t != 300)
	}
	h.reqAt = append(h.reqAt, h.now)
}

func (h *verifC36Hist) pass(name string) {
	d := int64(verifU16(name)) // 0..65535 s: narrow variables keep the window arithmetic easy for the solver
	verifC36Pass(h.api, d)
	h.now += d
}

// request sends a non-loopback request and records whether the store was
// consulted successfully.
func (h *verifC36Hist) request(c verifC36Cred) bool {
	h.notAtBoundary()
	before := h.db.gets
	_, err := h.api.Authenticate(verifC36Request("/create-account", "192.168.1.20:52011", c))
	if c.ok && h.db.gets > before && h.pairLive(c.user, c.pw) {
		h.checked = append(h.checked, verifC36Checked{c.user, c.pw, h.now})
	}
	return err == nil
}

// ---------------------------------------------------------------------------
// token / cache histories:
//   warm request, time, [delete | delete+re-issue], time, intermediate request
//   with the warm credentials, time, [delete], time, final request

func VerifC36Token(idLen int, secLen int, u1Len int, p1Len int, maxReq int, second int) {
	verifC36Records = nil
	verifC36Clock = 0
	db := &verifC36DB{m: map[string][]byte{}}
	store := accesstoken.NewStore(db)
	h := &verifC36Hist{api: NewAPI(store, false), db: db}

	h.toks = []*verifC36Token{
		{id: verifC36Str("id0", idLen), secret: verifC36Str("secret0", secLen), live: true},
	}
	if second != 0 && verifBool("second.token") {
		t1 := &verifC36Token{id: verifC36Str("id1", 1), secret: verifC36Str("secret1", 1), live: true}
		verifAssume(t1.id != h.toks[0].id)
		h.toks = append(h.toks, t1)
	}
	for _, t := range h.toks {
		verifC36Issue(db, t.id, t.secret)
	}

	// warming request: arbitrary credentials
	u1 := verifC36Str("user1", u1Len)
	p1 := verifC36Str("pw1", p1Len)
	warm := verifC36Cred{u1, p1, true}
	ok1 := h.request(warm)
	verifObserveBool("first.admitted", ok1)
	verifAssert(!ok1 || h.pairLive(u1, p1), "admitted-only-with-issued-pair")
	if ok1 {
		verifReach("VerifC36Token:warm-admitted")
	}

	h.pass("age1")
	switch verifChoice("event", 3) {
	case 1:
		store.Delete(h.toks[0].id)
		h.toks[0].live = false
	case 2:
		store.Delete(h.toks[0].id)
		h.toks[0].live = false
		nt := &verifC36Token{id: h.toks[0].id, secret: verifC36Str("secret0b", secLen), live: true}
		verifAssume(nt.secret != h.toks[0].secret)
		verifC36Issue(db, nt.id, nt.secret)
		h.toks = append(h.toks, nt)
	}
	h.pass("age2")

	// intermediate request with the warm credentials: a cache hit must not
	// extend the window, which counts from the last successful store check
	okM := h.request(warm)
	verifObserveBool("mid.admitted", okM)
	liveM := h.pairLive(u1, p1)
	verifAssert(!okM || liveM || h.withinWindow(u1, p1), "intermediate-admitted-only-live-or-within-window")
	if okM && !liveM {
		verifReach("VerifC36Token:intermediate-admitted-from-cache-after-delete")
	}

	h.pass("age3")
	if verifBool("late.delete") && h.toks[0].live {
		store.Delete(h.toks[0].id)
		h.toks[0].live = false
	}
	h.pass("age4")

	// final request
	hasAuth := verifBool("final.hasauth")
	u2 := verifC36Str("user2", verifChoice("user2.len", maxReq+1))
	p2 := verifC36Str("pw2", verifChoice("pw2.len", maxReq+1))
	ok2 := h.request(verifC36Cred{u2, p2, hasAuth})
	verifObserveBool("final.admitted", ok2)

	live2 := hasAuth && h.pairLive(u2, p2)
	entitled := live2 || (hasAuth && h.withinWindow(u2, p2))
	ambiguous := hasAuth && ok1 && u1+p1 == u2+p2 && u1 != u2
	verifKnown("KF-C36-CACHEKEY", ambiguous)
	verifAssert(!ok2 || entitled, "admitted-only-with-issued-pair-live-or-within-window")
	if ok2 {
		verifReach("VerifC36Token:final-admitted")
		if !live2 {
			verifReach("VerifC36Token:admitted-from-cache-after-delete")
		}
	} else {
		verifReach("VerifC36Token:final-refused")
		if ok1 && u1 == u2 && p1 == p2 && hasAuth {
			verifReach("VerifC36Token:refused-after-expiry")
			if okM && !liveM {
				// used from the cache after deletion, then refused: the hit did not renew the entry
				verifReach("VerifC36Token:refused-although-used-in-between")
			}
		}
	}
}

// ---------------------------------------------------------------------------
// request classes

func VerifC36Paths(pathLen int) {
	verifC36Records = nil
	verifC36Clock = 0
	db := &verifC36DB{m: map[string][]byte{}}
	store := accesstoken.NewStore(db)
	api := NewAPI(store, false)
	verifC36Issue(db, "k", "7")

	path := string(verifBytesN("path", pathLen))
	var addr string
	local := false
	switch verifChoice("addr", 5) {
	case 0:
		addr, local = "127.0.0.1:52011", true
	case 1:
		addr, local = "[::1]:52011", true
	case 2:
		addr = "192.168.1.20:52011"
	case 3:
		addr = ""
	case 4:
		addr = "127.0.0.1" // no port: SplitHostPort fails, treated as remote
	}
	hasAuth := verifBool("hasauth")
	u := verifC36Str("user", 1)
	p := verifC36Str("pw", 1)
	_, err := api.Authenticate(verifC36Request(path, addr, verifC36Cred{u, p, hasAuth}))
	admitted := err == nil
	verifObserveBool("admitted", admitted)

	exempt := path == "/dashboard" || verifC36HasPrefix(path, "/dashboard/") || path == "/equity" || verifC36HasPrefix(path, "/equity/")
	sensitive := path == "/backup-wallet" || path == "/restore-wallet" || path == "/list-access-tokens"
	entitled := hasAuth && u == "k" && p == "7"
	if !local {
		verifAssert(!(sensitive && admitted), "sensitive-endpoints-refused-for-non-local")
		verifAssert(!admitted || exempt || entitled, "non-local-admitted-only-with-issued-pair")
		if admitted {
			verifReach("VerifC36Paths:remote-admitted")
		} else {
			verifReach("VerifC36Paths:remote-refused")
		}
	} else {
		verifReach("VerifC36Paths:local")
	}
}
