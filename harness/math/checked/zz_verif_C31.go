package checked

// C31: every checked operation returns (exact result, true) when the exact
// result fits the type and (_, false) otherwise.  References are written
// independently of the guards under test: 64-bit ones through the exact
// 128-bit product / carry of math/bits, 32-bit ones through exact int64
// arithmetic, shifts through shift-back.

//verif:property C31
//verif:bound all operands: full 32/64-bit ranges (no value bound)
//verif:outside NewUInt256 (decimal parsing through math/big)
//verif:assume shift amounts outside [0,width) are outside the operation's domain: failure is the required answer there (also for a == 0)
//verif:obligation fn=VerifC31AddInt64 mode=int validate=24
//verif:obligation fn=VerifC31SubInt64 mode=int validate=24
//verif:obligation fn=VerifC31MulInt64 mode=int validate=24
//verif:obligation fn=VerifC31DivInt64 mode=int validate=24
//verif:obligation fn=VerifC31ModInt64 mode=int validate=24
//verif:obligation fn=VerifC31NegateInt64 mode=int validate=8
//verif:obligation fn=VerifC31LshiftInt64 mode=bv validate=24
//verif:obligation fn=VerifC31AddInt32 mode=int validate=24
//verif:obligation fn=VerifC31SubInt32 mode=int validate=24
//verif:obligation fn=VerifC31MulInt32 mode=int validate=24
//verif:obligation fn=VerifC31DivInt32 mode=int validate=24
//verif:obligation fn=VerifC31ModInt32 mode=int validate=24
//verif:obligation fn=VerifC31NegateInt32 mode=int validate=8
//verif:obligation fn=VerifC31LshiftInt32 mode=bv validate=24
//verif:obligation fn=VerifC31AddUint64 mode=int validate=24
//verif:obligation fn=VerifC31SubUint64 mode=int validate=24
//verif:obligation fn=VerifC31MulUint64 mode=int validate=24
//verif:obligation fn=VerifC31DivUint64 mode=int validate=24
//verif:obligation fn=VerifC31ModUint64 mode=int validate=24
//verif:obligation fn=VerifC31LshiftUint64 mode=bv validate=24
//verif:obligation fn=VerifC31AddUint32 mode=int validate=24
//verif:obligation fn=VerifC31SubUint32 mode=int validate=24
//verif:obligation fn=VerifC31MulUint32 mode=int validate=24
//verif:obligation fn=VerifC31DivUint32 mode=int validate=24
//verif:obligation fn=VerifC31ModUint32 mode=int validate=24
//verif:obligation fn=VerifC31LshiftUint32 mode=bv validate=24

import (
	"math"
	"math/bits"
)

func verifC31absU(a int64) uint64 {
	if a < 0 {
		return uint64(-a) // wraps to 2^63 for MinInt64, which is |MinInt64|
	}
	return uint64(a)
}

// exact signed product through the 128-bit unsigned product of magnitudes
func verifC31refMulI64(a, b int64) (int64, bool) {
	neg := (a < 0) != (b < 0)
	hi, lo := bits.Mul64(verifC31absU(a), verifC31absU(b))
	if hi != 0 {
		return 0, false
	}
	if neg {
		if lo > 1<<63 {
			return 0, false
		}
		return -int64(lo), true
	}
	if lo > math.MaxInt64 {
		return 0, false
	}
	return int64(lo), true
}

func verifC31fits32(x int64) bool { return x >= math.MinInt32 && x <= math.MaxInt32 }

func VerifC31AddInt64() {
	a, b := verifI64("a"), verifI64("b")
	got, ok := AddInt64(a, b)
	verifObserveI64("got", got)
	verifObserveBool("ok", ok)
	s := a + b
	fits := !((a >= 0 && b >= 0 && s < 0) || (a < 0 && b < 0 && s >= 0))
	verifAssert(ok == fits, "ok-iff-fits")
	verifAssert(!ok || got == s, "exact-value")
	verifReach("VerifC31AddInt64:end")
}

func VerifC31SubInt64() {
	a, b := verifI64("a"), verifI64("b")
	got, ok := SubInt64(a, b)
	verifObserveI64("got", got)
	verifObserveBool("ok", ok)
	d := a - b
	fits := !((a >= 0 && b < 0 && d < 0) || (a < 0 && b >= 0 && d >= 0))
	verifAssert(ok == fits, "ok-iff-fits")
	verifAssert(!ok || got == d, "exact-value")
	verifReach("VerifC31SubInt64:end")
}

func VerifC31MulInt64() {
	a, b := verifI64("a"), verifI64("b")
	got, ok := MulInt64(a, b)
	verifObserveI64("got", got)
	verifObserveBool("ok", ok)
	want, fits := verifC31refMulI64(a, b)
	verifAssert(ok == fits, "ok-iff-fits")
	verifAssert(!ok || got == want, "exact-value")
	verifReach("VerifC31MulInt64:end")
}

func VerifC31DivInt64() {
	a, b := verifI64("a"), verifI64("b")
	got, ok := DivInt64(a, b)
	verifObserveI64("got", got)
	verifObserveBool("ok", ok)
	fits := b != 0 && !(a == math.MinInt64 && b == -1)
	verifAssert(ok == fits, "ok-iff-fits")
	if ok {
		// got is the truncated quotient: a = got*b + r exactly, |r| < |b|, r has the sign of a
		p, pok := verifC31refMulI64(got, b)
		verifAssert(pok, "quotient-times-divisor-fits")
		r := a - p
		verifAssert(verifC31absU(r) < verifC31absU(b), "remainder-small")
		verifAssert(r == 0 || (r < 0) == (a < 0), "remainder-sign")
		verifAssert(!((a >= 0 && p < 0 && r < 0) || (a < 0 && p >= 0 && r >= 0)), "no-wrap-in-check")
	}
	verifReach("VerifC31DivInt64:end")
}

func VerifC31ModInt64() {
	a, b := verifI64("a"), verifI64("b")
	verifKnown("KF-C31-MODMIN", a == math.MinInt64 && b == -1)
	got, ok := ModInt64(a, b)
	verifObserveI64("got", got)
	verifObserveBool("ok", ok)
	// the exact remainder always fits when b != 0
	verifAssert(ok == (b != 0), "ok-iff-fits")
	if ok {
		verifAssert(verifC31absU(got) < verifC31absU(b), "remainder-small")
		verifAssert(got == 0 || (got < 0) == (a < 0), "remainder-sign")
		// a - got is an exact multiple of b; the witness quotient is a/b
		d := a - got
		verifAssert(!((a >= 0 && got < 0 && d < 0) || (a < 0 && got >= 0 && d >= 0)), "difference-fits")
		if !(a == math.MinInt64 && b == -1) {
			p, pok := verifC31refMulI64(a/b, b)
			verifAssert(pok && p == d, "difference-is-multiple")
		}
	}
	verifReach("VerifC31ModInt64:end")
}

func VerifC31NegateInt64() {
	a := verifI64("a")
	got, ok := NegateInt64(a)
	verifObserveI64("got", got)
	verifObserveBool("ok", ok)
	verifAssert(ok == (a != math.MinInt64), "ok-iff-fits")
	verifAssert(!ok || (got+a == 0 && (a == 0 || (got < 0) != (a < 0))), "exact-value")
	verifReach("VerifC31NegateInt64:end")
}

func VerifC31LshiftInt64() {
	a, b := verifI64("a"), verifI64("b")
	got, ok := LshiftInt64(a, b)
	verifObserveI64("got", got)
	verifObserveBool("ok", ok)
	fits := false
	var want int64
	if b >= 0 && b < 64 {
		want = a << uint(b)
		fits = want>>uint(b) == a
	}
	verifAssert(ok == fits, "ok-iff-fits")
	verifAssert(!ok || got == want, "exact-value")
	verifReach("VerifC31LshiftInt64:end")
}

func VerifC31AddInt32() {
	a, b := verifI32("a"), verifI32("b")
	got, ok := AddInt32(a, b)
	verifObserveI64("got", int64(got))
	verifObserveBool("ok", ok)
	e := int64(a) + int64(b)
	verifAssert(ok == verifC31fits32(e), "ok-iff-fits")
	verifAssert(!ok || int64(got) == e, "exact-value")
	verifReach("VerifC31AddInt32:end")
}

func VerifC31SubInt32() {
	a, b := verifI32("a"), verifI32("b")
	got, ok := SubInt32(a, b)
	verifObserveI64("got", int64(got))
	verifObserveBool("ok", ok)
	e := int64(a) - int64(b)
	verifAssert(ok == verifC31fits32(e), "ok-iff-fits")
	verifAssert(!ok || int64(got) == e, "exact-value")
	verifReach("VerifC31SubInt32:end")
}

func VerifC31MulInt32() {
	a, b := verifI32("a"), verifI32("b")
	got, ok := MulInt32(a, b)
	verifObserveI64("got", int64(got))
	verifObserveBool("ok", ok)
	e := int64(a) * int64(b)
	verifAssert(ok == verifC31fits32(e), "ok-iff-fits")
	verifAssert(!ok || int64(got) == e, "exact-value")
	verifReach("VerifC31MulInt32:end")
}

func VerifC31DivInt32() {
	a, b := verifI32("a"), verifI32("b")
	got, ok := DivInt32(a, b)
	verifObserveI64("got", int64(got))
	verifObserveBool("ok", ok)
	fits := b != 0 && !(a == math.MinInt32 && b == -1)
	verifAssert(ok == fits, "ok-iff-fits")
	if ok {
		r := int64(a) - int64(got)*int64(b)
		ab := int64(b)
		if ab < 0 {
			ab = -ab
		}
		ar := r
		if ar < 0 {
			ar = -ar
		}
		verifAssert(ar < ab, "remainder-small")
		verifAssert(r == 0 || (r < 0) == (a < 0), "remainder-sign")
	}
	verifReach("VerifC31DivInt32:end")
}

func VerifC31ModInt32() {
	a, b := verifI32("a"), verifI32("b")
	verifKnown("KF-C31-MODMIN", a == math.MinInt32 && b == -1)
	got, ok := ModInt32(a, b)
	verifObserveI64("got", int64(got))
	verifObserveBool("ok", ok)
	verifAssert(ok == (b != 0), "ok-iff-fits")
	if ok {
		ab := int64(b)
		if ab < 0 {
			ab = -ab
		}
		ag := int64(got)
		if ag < 0 {
			ag = -ag
		}
		verifAssert(ag < ab, "remainder-small")
		verifAssert(got == 0 || (got < 0) == (a < 0), "remainder-sign")
		d := int64(a) - int64(got)
		verifAssert(int64(a/b)*int64(b) == d || (a == math.MinInt32 && b == -1), "difference-is-multiple")
	}
	verifReach("VerifC31ModInt32:end")
}

func VerifC31NegateInt32() {
	a := verifI32("a")
	got, ok := NegateInt32(a)
	verifObserveI64("got", int64(got))
	verifObserveBool("ok", ok)
	verifAssert(ok == (a != math.MinInt32), "ok-iff-fits")
	verifAssert(!ok || int64(got) == -int64(a), "exact-value")
	verifReach("VerifC31NegateInt32:end")
}

func VerifC31LshiftInt32() {
	a, b := verifI32("a"), verifI32("b")
	got, ok := LshiftInt32(a, b)
	verifObserveI64("got", int64(got))
	verifObserveBool("ok", ok)
	fits := false
	var want int32
	if b >= 0 && b < 32 {
		e := int64(a) << uint(b)
		fits = verifC31fits32(e)
		want = int32(e)
	}
	verifAssert(ok == fits, "ok-iff-fits")
	verifAssert(!ok || got == want, "exact-value")
	verifReach("VerifC31LshiftInt32:end")
}

func VerifC31AddUint64() {
	a, b := verifU64("a"), verifU64("b")
	got, ok := AddUint64(a, b)
	verifObserveU64("got", got)
	verifObserveBool("ok", ok)
	s, c := bits.Add64(a, b, 0)
	verifAssert(ok == (c == 0), "ok-iff-fits")
	verifAssert(!ok || got == s, "exact-value")
	verifReach("VerifC31AddUint64:end")
}

func VerifC31SubUint64() {
	a, b := verifU64("a"), verifU64("b")
	got, ok := SubUint64(a, b)
	verifObserveU64("got", got)
	verifObserveBool("ok", ok)
	d, br := bits.Sub64(a, b, 0)
	verifAssert(ok == (br == 0), "ok-iff-fits")
	verifAssert(!ok || got == d, "exact-value")
	verifReach("VerifC31SubUint64:end")
}

func VerifC31MulUint64() {
	a, b := verifU64("a"), verifU64("b")
	got, ok := MulUint64(a, b)
	verifObserveU64("got", got)
	verifObserveBool("ok", ok)
	hi, lo := bits.Mul64(a, b)
	verifAssert(ok == (hi == 0), "ok-iff-fits")
	verifAssert(!ok || got == lo, "exact-value")
	verifReach("VerifC31MulUint64:end")
}

func VerifC31DivUint64() {
	a, b := verifU64("a"), verifU64("b")
	got, ok := DivUint64(a, b)
	verifObserveU64("got", got)
	verifObserveBool("ok", ok)
	verifAssert(ok == (b != 0), "ok-iff-fits")
	if ok {
		hi, lo := bits.Mul64(got, b)
		verifAssert(hi == 0 && lo <= a && a-lo < b, "exact-value")
	}
	verifReach("VerifC31DivUint64:end")
}

func VerifC31ModUint64() {
	a, b := verifU64("a"), verifU64("b")
	got, ok := ModUint64(a, b)
	verifObserveU64("got", got)
	verifObserveBool("ok", ok)
	verifAssert(ok == (b != 0), "ok-iff-fits")
	if ok {
		verifAssert(got < b && got <= a, "remainder-small")
		hi, lo := bits.Mul64(a/b, b)
		verifAssert(hi == 0 && lo == a-got, "difference-is-multiple")
	}
	verifReach("VerifC31ModUint64:end")
}

func VerifC31LshiftUint64() {
	a, b := verifU64("a"), verifU64("b")
	got, ok := LshiftUint64(a, b)
	verifObserveU64("got", got)
	verifObserveBool("ok", ok)
	fits := false
	var want uint64
	if b < 64 {
		want = a << b
		fits = want>>b == a
	}
	verifAssert(ok == fits, "ok-iff-fits")
	verifAssert(!ok || got == want, "exact-value")
	verifReach("VerifC31LshiftUint64:end")
}

func VerifC31AddUint32() {
	a, b := verifU32("a"), verifU32("b")
	got, ok := AddUint32(a, b)
	verifObserveU64("got", uint64(got))
	verifObserveBool("ok", ok)
	e := uint64(a) + uint64(b)
	verifAssert(ok == (e <= math.MaxUint32), "ok-iff-fits")
	verifAssert(!ok || uint64(got) == e, "exact-value")
	verifReach("VerifC31AddUint32:end")
}

func VerifC31SubUint32() {
	a, b := verifU32("a"), verifU32("b")
	got, ok := SubUint32(a, b)
	verifObserveU64("got", uint64(got))
	verifObserveBool("ok", ok)
	verifAssert(ok == (a >= b), "ok-iff-fits")
	verifAssert(!ok || uint64(got)+uint64(b) == uint64(a), "exact-value")
	verifReach("VerifC31SubUint32:end")
}

func VerifC31MulUint32() {
	a, b := verifU32("a"), verifU32("b")
	got, ok := MulUint32(a, b)
	verifObserveU64("got", uint64(got))
	verifObserveBool("ok", ok)
	e := uint64(a) * uint64(b)
	verifAssert(ok == (e <= math.MaxUint32), "ok-iff-fits")
	verifAssert(!ok || uint64(got) == e, "exact-value")
	verifReach("VerifC31MulUint32:end")
}

func VerifC31DivUint32() {
	a, b := verifU32("a"), verifU32("b")
	got, ok := DivUint32(a, b)
	verifObserveU64("got", uint64(got))
	verifObserveBool("ok", ok)
	verifAssert(ok == (b != 0), "ok-iff-fits")
	if ok {
		p := uint64(got) * uint64(b)
		verifAssert(p <= uint64(a) && uint64(a)-p < uint64(b), "exact-value")
	}
	verifReach("VerifC31DivUint32:end")
}

func VerifC31ModUint32() {
	a, b := verifU32("a"), verifU32("b")
	got, ok := ModUint32(a, b)
	verifObserveU64("got", uint64(got))
	verifObserveBool("ok", ok)
	verifAssert(ok == (b != 0), "ok-iff-fits")
	if ok {
		verifAssert(got < b && got <= a, "remainder-small")
		verifAssert(uint64(a/b)*uint64(b) == uint64(a-got), "difference-is-multiple")
	}
	verifReach("VerifC31ModUint32:end")
}

func VerifC31LshiftUint32() {
	a, b := verifU32("a"), verifU32("b")
	got, ok := LshiftUint32(a, b)
	verifObserveU64("got", uint64(got))
	verifObserveBool("ok", ok)
	fits := false
	var want uint32
	if b < 32 {
		e := uint64(a) << b
		fits = e <= math.MaxUint32
		want = uint32(e)
	}
	verifAssert(ok == fits, "ok-iff-fits")
	verifAssert(!ok || got == want, "exact-value")
	verifReach("VerifC31LshiftUint32:end")
}
