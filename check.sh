#!/bin/sh
# usage: check.sh <property> [quick|thorough] [extra gosmt flags]
export GOFLAGS=-mod=mod GOPROXY=off GOSUMDB=off GOTOOLCHAIN=local
root="${VERIF_ROOT:-/verif}"
cd "$root" || exit 2
if [ ! -x bin/gosmt ] || [ -n "$(find engine -name '*.go' -newer bin/gosmt 2>/dev/null | head -1)" ]; then
  mkdir -p bin
  (cd engine && go build -o "$root/bin/gosmt" .) || { echo "ENGINE-ERROR cannot build engine"; exit 2; }
fi
p="$1"; t="${2:-quick}"
# thorough tier: a sample of discharged obligations is re-decided by z3 4.8.12 and cvc5
[ "$t" = thorough ] && [ -z "$VERIF_CROSS" ] && export VERIF_CROSS=1; shift; [ $# -gt 0 ] && shift
exec bin/gosmt check "$p" --tier "$t" "$@"
