#!/bin/sh
# usage: tools/seedverify.sh <candidate dir> <demo dest path in repo> <pkg pattern for existing tests> [demo run regex]
# Confirms a seeded defect in a scratch worktree: patch applies and builds, the
# package's existing tests pass with it, the demo fails with it and passes without.
export GOFLAGS=-mod=mod GOPROXY=off GOSUMDB=off GOTOOLCHAIN=local
d="$(cd "$1" && pwd)"; dest="$2"; pkg="$3"; rx="${4:-Seed}"
demo=$(ls "$d"/*_test.go | head -1)
wt=/tmp/seedrun/verify.$$; mkdir -p /tmp/seedrun
git -C /repo worktree add -q --detach "$wt" HEAD || exit 3
cd "$wt"
cp "$demo" "$dest"
demopkg="./$(dirname "$dest")/"
go test -vet=off -count=1 -run "$rx" "$demopkg" >/tmp/seedrun/v1.$$ 2>&1; a=$?
git apply "$d/patch.diff" || { echo "PATCH DOES NOT APPLY"; cd /; git -C /repo worktree remove --force "$wt"; exit 3; }
go test -vet=off -count=1 -run '^$' $pkg >/tmp/seedrun/vb.$$ 2>&1; bld=$?
go test -vet=off -count=1 -run "$rx" "$demopkg" >/tmp/seedrun/v2.$$ 2>&1; b=$?
rm "$dest"
go test -vet=off -count=1 $pkg >/tmp/seedrun/v3.$$ 2>&1; c=$?
# failures that also occur on the unchanged tree (offline sandbox / timing flakes / a pinned-wrong table) are not the seed's
if [ $c -ne 0 ]; then
  bad=$(grep -E "^--- FAIL: " /tmp/seedrun/v3.$$ | grep -vE "TestOptUTXOs|TestNetAddressProperties|TestNetAddressReachabilityTo|BroadcastLoop|TestBlockFetcher|TestMemPoolTxQueryLoop" | head -3)
  bld2=$(grep -E "\[build failed\]|\[setup failed\]" /tmp/seedrun/v3.$$ | head -2)
  if [ -z "$bad" ] && [ -z "$bld2" ] && grep -qE "^--- FAIL: " /tmp/seedrun/v3.$$; then c=0; echo "(only baseline failures in existing tests: $(grep -E '^--- FAIL: ' /tmp/seedrun/v3.$$ | awk '{print $3}' | sort -u | tr '\n' ' '))"; fi
fi
echo "demo without patch: exit $a (want 0); build with patch: $bld (want 0); demo with patch: exit $b (want !=0); existing tests with patch: exit $c (want 0)"
[ $c -ne 0 ] && grep -E "^(--- FAIL|FAIL|ok)" /tmp/seedrun/v3.$$ | head
[ $a -ne 0 ] && tail -5 /tmp/seedrun/v1.$$
cd /; git -C /repo worktree remove --force "$wt"; rm -f /tmp/seedrun/v?.$$ /tmp/seedrun/vb.$$
[ $a -eq 0 ] && [ $bld -eq 0 ] && [ $b -ne 0 ] && [ $c -eq 0 ]
