#!/usr/bin/env python3
"""Markdown table of the seeded defects under /verif/seeded (for DESIGN.md section 10.3)."""
import json,glob,os
notes=json.load(open('/verif/tools/seed_notes.json'))
rows=[];det=0;n=0;other=0;invalid=0
for f in sorted(glob.glob('/verif/seeded/*/meta.json')):
    name=os.path.basename(os.path.dirname(f)); m=json.load(open(f))
    c=m.get('confirmed_by_main',{}); r=m.get('check_result',{}); o=m.get('detected_by_other_checks',{})
    conf='yes' if c.get('ok') else 'no'
    if name=='C25-m3': conf='no longer (see note)'; invalid+=1
    n+=1
    if r.get('detected'):
        res='**caught** by %s: %s'%(m['property'],', '.join(v.split('-',1)[1] if '-' in v else v for v in r.get('violations',[])[:2])); det+=1
    else:
        oc=[k for k,v in o.items() if v.get('detected')]
        if oc:
            res='caught by the %s check (%s); missed by %s'%(', '.join(oc), ', '.join(o[oc[0]].get('violations',[])[:1]), m['property']); other+=1
        else:
            res='missed'
        if name in notes: res+=' — '+notes[name]
    rows.append('| %s | %s | %s | %s | %s |'%(name,(m.get('summary','')[:230]).replace('|','/').replace('\n',' '),(m.get('needs','')[:200]).replace('|','/').replace('\n',' '),conf,res))
print('| seed | change | needs | confirmed by me | result of the quick tier |\n|---|---|---|---|---|')
print('\n'.join(rows))
print('\n%d seeds stored; %d caught by their own property\'s quick check, %d more by another property\'s check, %d no longer valid after a repair.'%(n,det,other,invalid))
