#!/bin/sh
# usage: tools/mergewk.sh <worker name>   (merges branch wk-<name> into main of /verif)
n="$1"; cd /verif || exit 2
git merge --no-commit --no-ff wk-$n >/tmp/merge.$n.log 2>&1
for f in $(git diff --name-only --diff-filter=U); do
  case "$f" in
    known_findings.json)
      git show :2:$f > /tmp/kf_ours.json; git show :3:$f > /tmp/kf_theirs.json
      python3 - <<'PY'
import json
a=json.load(open('/tmp/kf_ours.json')); b=json.load(open('/tmp/kf_theirs.json'))
ids={f['id'] for f in a['findings']}
for f in b['findings']:
    if f['id'] not in ids: a['findings'].append(f)
json.dump(a,open('/verif/known_findings.json','w'),indent=1)
PY
      git add $f;;
    evidence/*|replays/*) git checkout --ours -- "$f" 2>/dev/null; git add "$f";;
    *) echo "CONFLICT needs manual resolution: $f";;
  esac
done
git diff --name-only --diff-filter=U
git status --short | grep -v "^??" | head -40
