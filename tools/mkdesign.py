#!/usr/bin/env python3
"""Regenerates sections 10.2 (findings), 10.3 (seeded defects) and 10.4 (claims) of DESIGN.md."""
import json,subprocess
s=open('/verif/DESIGN.md').read()
if '\n### 10.2' in s: s=s[:s.index('\n### 10.2')].rstrip()+'\n'
d=json.load(open('/verif/known_findings.json'))
fixed=[];opn=[]
for f in d['findings']:
    w=f['what']
    if f['status']=='fixed':
        if w.startswith('fixed:'): w=w.split(' ',3)[3]
        fixed.append((f['property'],f['id'],f.get('fixed_commit',''),f['site'],w))
    else: opn.append((f['property'],f['id'],f['site'],w))
out=["\n### 10.2 Defects found by the checks on the original tree\n\n",
"Every entry below was first a solver counterexample on the unchanged tree that the native replay reproduced against the real code (a genuine defect, not a false alarm). Small and safe ones were repaired in /repo with one `fix:` commit each (the existing tests of the touched packages pass with them; the pinned baseline suite - the vendored lib/golang.org/x modules - is untouched); the others are recorded as open known findings with the reason they are not repaired. `known_findings.json` is the machine-readable list; a `fixed` entry suppresses nothing: its `verifKnown` region is inactive, so the check reports the violation again if it ever returns.\n",
"\n**Repaired (`fix:` commits in /repo): %d**\n\n| property | finding | commit | where | what failed |\n|---|---|---|---|---|\n"%len(fixed)]
for p,i,c,st,w in sorted(fixed): out.append(f"| {p} | {i} | {c} | `{st}` | {w[:420].replace('|','/')} |\n")
out.append("\n**Open (recorded, not repaired): %d**\n\n| property | finding | where | what fails and why it is not repaired |\n|---|---|---|---|\n"%len(opn))
for p,i,st,w in sorted(opn): out.append(f"| {p} | {i} | `{st}` | {w[:900].replace('|','/')} |\n")
out.append('''
Why the open ones stay open: KF-C08-PICKROLL-TRUNC, KF-C08-CHECKOUTPUT-TRUNC, KF-C01-COINBASE-MIXED and KF-C03-RETIREMENT can only be repaired by changing which transactions are valid or what a transaction ID commits to - a consensus rule change that needs a fork height, which is the maintainers' decision; KF-C10-DETACH-HEIGHT, KF-C25-RESTORED-HEIGHT and KF-C17-UNJUSTIFIED-SOURCE need new persisted data or a re-evaluation mechanism (not small); KF-C25-VOTEBOUNDARY and KF-C20-REVERSE-START need a decision on the intended semantics; KF-C31-MODMIN is pinned by the repository's own test. The CAT fix (KF-C06) is consensus-visible only for transactions whose validity previously depended on the memory layout of their own witness; it was judged a memory-safety repair and applied.

After a repair the pre-state invariants assumed by one-step (inductive) harnesses were re-examined: C34's pre-state had allowed an id to sit among a bucket's entries and in its replacement list (reachable before the fix, unreachable after it); it now assumes disjointness, and the regression route (add x16, add, delete, add, deleteReplace) stays covered by `VerifC34History`, which uses real operations only (verified: reverting the fix is reported as a VIOLATION).
''')
rep=subprocess.check_output(['python3','/verif/tools/seedreport.py']).decode()
out.append('''
### 10.3 Seeded defects: which checks catch which changes

Fresh sub-agents were each given only the text of one property and a scratch worktree of /repo (nothing from /verif) and asked for changes that break the property, still compile, pass the existing tests and need something specific to manifest, each with a demonstration test. I confirmed every candidate myself in a scratch worktree (`tools/seedverify.sh`: the demonstration passes on the unchanged tree and fails with the patch, the patch applies and builds, the existing tests of the touched packages still pass apart from failures that also occur on the unchanged tree) and then ran the property's quick check against the patched copy (`tools/seedtest.sh`, `VERIF_REPO=<scratch worktree>`; exit 1 with a natively replayed VIOLATION = caught). Each kept seed is `/verif/seeded/<id>/` with `patch.diff`, the demonstration and `meta.json` (property, what it needs, what I ran, the outcome). Where a check missed a seed the harness was extended for that *class* of defect (never for the one input) and re-run; the table shows the final state, and the extensions made because of seeds were: C05 message accessors, C07 wide operands + prologue gas oracle + negative-limit child, C08 9-byte RSHIFT, C13 batch double spend, C15 epoch isolation, C25 multi-output transactions, C30 two proofs in a row, C35 math intrinsics, C03 cross-type pairs, C06 32-byte operands, C12 processBlock delivery orders, C14 Increase ordering, C17 per-epoch validator sets + independent digest, C21 header/main-chain caches, C22 output layouts + under-indexed orphans, C24 chained transactions + P2WSH, C26 unswept expiry, C36 three-request histories, C06 result-lifetime lemma under the sync.Pool reuse model (session 3; catches C06b-m3), C04 unrelated serialisation between decode and use under the pool reuse model (session 3; catches C04b-m1), C35 equally spaced histories of up to 8 increases (session 3; catches C35-m3).

''')
out.append(rep)
c=json.load(open('/verif/tools/claims.json'))
out.append('\n### 10.4 Per-property summary of what is decided (as built)\n\nGenerated from `tools/claims.json` (the same text is in `MANIFEST.json`). Section 5 is the plan; this is what the registered checks decide. The exact obligations, bounds, assumptions and stubs are the `//verif:` lines of each harness file and are copied into the evidence on every run.\n\n')
for k in sorted(c['claimed']):
    e=c['claimed'][k]; out.append(f"**{k}.** {e['text']}\n\n*Outside / trust:* {e.get('note','')}\n\n")
out.append("**Not applicable** (section 6 and `MANIFEST.json`): "+", ".join(sorted(c['not_applicable']))+".\n")
try:
    t=open('/verif/tools/thorough_last.txt').read().strip().split('\n')
    out.append('\n### 10.5 Last full run of the thorough tier\n\nEvery registered thorough obligation set was run once more at the end (background snapshot of the committed /verif against /repo HEAD, 16 cores, cross-solver sampling with z3 4.8.12 and cvc5 enabled); a check is listed when it finished. All listed runs exited 0 with no inconclusive, UNCONFIRMED or ENGINE-ERROR line. Four obligation groups were added after this run (session 3): VerifC06Seq_*, VerifC06SeqAlt_*, VerifC35SHistory_* and VerifC04Text_3; both belong to the quick tier (which the thorough tier includes) and ran clean there (evidence/C06.json, evidence/C04.json, evidence/C35.json); the thorough lines of C04, C06 and C35 below predate them. Summary lines (tools/thorough_last.txt):\n\n```\n'+'\n'.join(t)+'\n```\n')
except Exception: pass
open('/verif/DESIGN.md','w').write(s+''.join(out))
