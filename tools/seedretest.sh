#!/bin/bash
# usage: tools/seedretest.sh <seeded/NAME> [other property whose check to run]
# re-runs the check against a stored seed and updates check_result in its meta.json
d="$1"; other="$2"; cd /verif
tout=$(tools/seedtest.sh $d quick $other 2>&1); trc=$?
echo "$tout" | grep -E "VIOLATION|ENGINE-ERROR|^SEED" | head -5
TOUT="$tout" python3 - "$d/meta.json" "$trc" "$other" <<'PY'
import json,sys,os,re
f,trc,other=sys.argv[1:4]; m=json.load(open(f))
viol=sorted(set(re.findall(r'VIOLATION property=\S+ replay=\S*/([^/\s]+)\.json',os.environ['TOUT'])))
r={'ran':'tools/seedtest.sh <dir> quick'+((' '+other) if other else '')+' (check run with VERIF_REPO=<scratch worktree with patch.diff applied>)','exit':int(trc),'detected':trc=='1','violations':viol[:8]}
if other:
    m.setdefault('detected_by_other_checks',{})[other]=r
else:
    m['check_result']=r
json.dump(m,open(f,'w'),indent=1)
PY
