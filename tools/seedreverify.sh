#!/bin/bash
# re-run only the confirmation step for stored seeds whose confirmation failed; updates meta.json
cd /verif
for d in seeded/*/; do
  ok=$(python3 -c "import json;print(json.load(open('$d/meta.json')).get('confirmed_by_main',{}).get('ok'))")
  [ "$ok" = "True" ] && continue
  dest=$(python3 -c "import json;print(json.load(open('$d/meta.json'))['demo_path'])"); pk=$(python3 -c "import json;print(json.load(open('$d/meta.json'))['test_pkgs'])")
  vout=$(tools/seedverify.sh $d "$dest" "$pk" Seed 2>&1); vrc=$?
  echo "$d rc=$vrc $(echo "$vout" | tail -1 | cut -c1-200)"
  VOUT="$vout" python3 - "$d/meta.json" "$vrc" <<'PY'
import json,sys,os
f,vrc=sys.argv[1:3]; m=json.load(open(f))
m['confirmed_by_main']['ok']=(vrc=='0'); m['confirmed_by_main']['result']=' '.join(os.environ['VOUT'].strip().split('\n')[-2:])[:500]
json.dump(m,open(f,'w'),indent=1)
PY
done
