#!/usr/bin/env python3
"""Generate /verif/MANIFEST.json from tools/claims.json (claimed checks) and
the fixed properties file; everything not claimed is listed not_applicable."""
import json, sys
props=[json.loads(l) for l in open('/verif/properties.jsonl')]
claims=json.load(open('/verif/tools/claims.json'))
checks=[]; na=[]
for p in props:
    c=claims['claimed'].get(p['id'])
    if c:
        checks.append({
          "property_id":p['id'],
          "quick_cmd":"/verif/check.sh %s quick"%p['id'],
          "thorough_cmd":"/verif/check.sh %s thorough"%p['id'],
          "evidence_file":"/verif/evidence/%s.json"%p['id'],
          "replay_cmd_template":"/verif/check.sh %s quick --replay {path}"%p['id'],
          "engine":"gosmt",
          "level_claimed":{"category":"model_checking","text":c['text'],"design_ref":c.get('design_ref','DESIGN.md section 5 '+p['id'])},
          "level_note":c['note'],
          "technique":c.get('technique',"bounded symbolic execution of the real Go functions (go/ssa -> SMT-LIB2, z3 5.1 / 4.8.12), counterexamples replayed natively")})
    else:
        na.append({"property_id":p['id'],"reason":claims['not_applicable'].get(p['id'],"check not built yet (see DESIGN.md build order)")})
m={"version":1,
"setup_cmd":"cd /verif/engine && GOFLAGS=-mod=mod GOPROXY=off GOSUMDB=off GOTOOLCHAIN=local go build -o /verif/bin/gosmt .",
"hooks":{"guard":"verif-overlay","enable":"no source hooks in /repo: harnesses (/verif/harness/<pkg>/zz_verif_*.go) are injected with go/packages Overlay for the solver and go test -overlay for native replay","baseline_off_cmd":"for m in . lib/github.com/tendermint/ed25519 lib/golang.org/x/crypto lib/golang.org/x/net; do (cd /repo/$m && go test -mod=mod -json -vet=off -count=1 -timeout 25m ./...); done","source_commits":[],"add_only":True},
"engines":[{"name":"gosmt","path":"/verif/engine","serves_properties":sorted(claims['claimed'].keys()),"kind_free_text":"own go/ssa symbolic executor: path-by-path symbolic execution of the real functions, SMT-LIB2 (bit-vector and relational integer encodings) to z3, solver counterexamples replayed against the natively compiled code before any VIOLATION"}],
"checks":checks,
"not_applicable":na,
"notes":claims.get('notes','')}
json.dump(m,open('/verif/MANIFEST.json','w'),indent=1)
print(len(checks),'checks',len(na),'not applicable')
