from decimal import Decimal, getcontext
getcontext().prec = 60
ln2 = Decimal(2).ln()
tab = []
for dt in range(0, 1801):
    v = (-(Decimal(dt) / 60) * ln2).exp()
    tab.append(repr(float(v)))
rows = []
for i in range(0, 1801, 6):
    rows.append("\t" + ", ".join(tab[i:i+6]) + ",")
table = "\n".join(rows)

TEMPLATE = open('tools/c35_template.go.txt').read()
for pkg, tag, initcall in (("security", "S", ""), ("trust", "T", "\tInit() // this copy fills its table in an exported Init (nothing in the repository calls it)\n")):
    s = TEMPLATE.replace("@PKG@", pkg).replace("@T@", tag).replace("@INIT@", initcall).replace("@TABLE@", table)
    open('harness/p2p/%s/zz_verif_C35.go' % pkg, 'w').write(s)
