#!/usr/bin/env python3
"""usage: tools/mergeclaims.py claims_<name>.json [ID ...]
Adds the claim entries (optionally only the listed ids) to tools/claims.json and regenerates MANIFEST.json."""
import json,sys,subprocess
src=json.load(open(sys.argv[1])); ids=sys.argv[2:] or list(src.keys())
p='/verif/tools/claims.json'; d=json.load(open(p))
for i in ids:
    e=src[i]; d['claimed'][i]={"text":e['text'],"note":e.get('note','')}
    d['not_applicable'].pop(i,None)
d['claimed']={k:d['claimed'][k] for k in sorted(d['claimed'])}
json.dump(d,open(p,'w'),indent=1)
subprocess.run(['python3','/verif/tools/mkmanifest.py'],check=True)
