#!/bin/sh
# usage: tools/seedtest.sh <seeded dir> [quick|thorough] [property whose check to run]
# Applies <seeded dir>/patch.diff to a scratch worktree of /repo (so that /repo
# itself is not disturbed while other jobs read it), runs the property's check
# against that copy (VERIF_REPO), prints the verdict and removes the worktree.
# Final confirmation against /repo itself: git -C /repo apply patch.diff; check; git -C /repo checkout -- .
d="$(cd "$1" && pwd)"; tier="${2:-quick}"
prop=$(python3 -c "import json,sys;print(json.load(open('$d/meta.json'))['property'])")
[ -n "$3" ] && prop="$3"   # run another property's check against this seed
name=$(basename "$d")
wt=/tmp/seedrun/$name.$$
mkdir -p /tmp/seedrun
git -C /repo worktree add -q --detach "$wt" HEAD || exit 3
if ! git -C "$wt" apply "$d/patch.diff"; then echo "SEED $name: patch does not apply"; git -C /repo worktree remove --force "$wt"; exit 3; fi
out=$(VERIF_REPO="$wt" VERIF_NOEVIDENCE=1 VERIF_REPLAY_DIR=/tmp/seedrun/replays "${VERIF_ROOT:-/verif}/check.sh" "$prop" "$tier" 2>&1); rc=$?
echo "$out" | grep -E "VIOLATION|UNCONFIRMED|ENGINE-ERROR|inconclusive|not-encodable|CANDIDATE|^property=" | head -20
echo "SEED $name property=$prop exit=$rc"
git -C /repo worktree remove --force "$wt"
exit $rc
