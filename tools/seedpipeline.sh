#!/bin/bash
# usage: tools/seedpipeline.sh <ID> [demo_dest pkgs]   processes /tmp/mut/<ID>/out/m1..m3
# For each candidate: confirm it (tools/seedverify.sh), run the property's quick check against it
# (tools/seedtest.sh), and store it under /verif/seeded/<ID>-mK/ with the outcome added to meta.json.
id="$1"; cd /verif
for d in /tmp/mut/$id/out/m[0-9]*; do
  [ -f "$d/patch.diff" ] || continue
  k=$(basename $d)
  dest=$(python3 -c "import json;print(json.load(open('$d/meta.json')).get('demo_path',''))" 2>/dev/null)
  pk=$(python3 -c "import json;print(json.load(open('$d/meta.json')).get('test_pkgs',''))" 2>/dev/null)
  [ -n "$2" ] && dest="$2"; [ -n "$3" ] && pk="$3"
  case "$dest" in */) dest="${dest}zz_seed_demo_test.go";; esac
  echo "=== $id $k dest=$dest pkgs=$pk"
  vout=$(tools/seedverify.sh $d "$dest" "$pk" Seed 2>&1); vrc=$?
  echo "$vout" | tail -3; echo "verify rc=$vrc"
  tout=$(tools/seedtest.sh $d quick 2>&1); trc=$?
  echo "$tout" | grep -E "VIOLATION|UNCONFIRMED|ENGINE-ERROR|^property=|^SEED" | head -8
  out=/verif/seeded/$id-$k; mkdir -p $out; cp $d/patch.diff $d/*_test.go $out/ 2>/dev/null
  VOUT="$vout" TOUT="$tout" python3 - "$d/meta.json" "$out/meta.json" "$vrc" "$trc" "$dest" "$pk" <<'PY'
import json,sys,os,re
src,dst,vrc,trc,dest,pk=sys.argv[1:7]
m=json.load(open(src))
m['demo_path']=dest; m['test_pkgs']=pk
m['confirmed_by_main']={'ok': vrc=='0','ran':'tools/seedverify.sh: scratch worktree of /repo HEAD; demo passes unpatched, patch applies and builds, demo fails patched, existing tests of test_pkgs pass patched','result':os.environ['VOUT'].strip().split('\n')[-1][:400]}
viol=sorted(set(re.findall(r'VIOLATION property=\S+ replay=\S*/([^/\s]+)\.json',os.environ['TOUT'])))
m['check_result']={'ran':'tools/seedtest.sh <dir> quick (check run with VERIF_REPO=<scratch worktree with patch.diff applied>)','exit':int(trc),'detected': trc=='1','violations':viol[:8]}
json.dump(m,open(dst,'w'),indent=1)
PY
done
